"""C08 — the remote cache is a write-through / read-through mirror shared across machines.

Theorem side : GrogModel/Props/C08.lean about GrogModel/Remote.lean (RemoteWrapper over per-machine local caches and one
               remote store, CAS exists-memo on top; any number of machines, processes, remote faults).
Correspondence: the real caching.Cas / TargetResultCache / output.Registry over the real RemoteWrapper + real FileSystemCache
               (one cache root per machine) + an in-memory remote store with scripted faults; histories of builds (with and
               without remote cache) and restores on machines A, B, C; the recorded wrapper-call trace is replayed through
               Remote.step (trace inclusion), final contents of remote and local stores are compared.
Oracle (no model): closure audit of the fake remote store after every step (every target result references only blobs that
               are in the remote store, trees included; remote cas content hashes to its name); a machine with an empty local
               cache restores byte-identical outputs of everything a successful build published; every value returned by Get
               is one that was stored under that key; nothing hangs.
"""
import hashlib
from . import _stores as S
from ._stores import F, D, L

PROPERTY = "C08"
LEVEL = "proof"
LEVEL_TEXT = ("Lean 4 theorems about a transition system of RemoteWrapper calls (Exists = local or remote, ExistsInAllTiers = local and "
              "remote, read-through Get, tee Set that returns nil only if both tiers hold the value) with the CAS memo and the store order on top: "
              "for the repaired code no sequence of calls on any number of machines, with earlier runs without remote cache and with remote faults, "
              "leaves a target result in the remote store that references a blob the remote store lacks (remote_closed); for the code as found the "
              "negation is proved with a concrete trace (dangling_witness) that the check replays on the real code; read-through returns exactly the "
              "remote value and fills the local cache; a failing Get changes nothing and never invents content. Tied to the code by trace inclusion "
              "of wrapper-call traces of real two- and three-machine histories, with a closure audit of the fake remote as model-independent oracle.")
LEVEL_NOTE = ("Not modelled: the AWS/GCS SDK clients (a fake in-memory remote with atomic puts stands in), eventual consistency, eviction of remote "
              "objects, hangs inside an SDK. The tee's goroutine/pipe protocol has its own small model (GrogModel/Tee.lean: deadlock-free and terminating for every "
              "failure order); its steps are not observable without hooks, so that model is tied to the code only by the sampled fault histories running under a timeout. "
              "second_machine (composition with C01: B executes nothing A cached) is sampled by the restore oracle, not proved here.")
TECHNIQUE = "Lean 4 invariant proof over a transition system + trace-inclusion correspondence on multi-machine histories + remote closure audit"
PROP_MODULES = ["GrogModel.Props.C08", "GrogModel.Props.ComposeStores", "GrogModel.Props.ComposeExecStore"]
OBLIGATIONS = [
    "Grog.C08.remote_closed",
    "Grog.C08.dangling_witness",
    "Grog.C08.not_remote_closed_old",
    "Grog.C08.read_through",
    "Grog.C08.get_never_invents",
    "Grog.C08.failed_get_unchanged",
    "Grog.C08.same_namespace_iff",
    "Grog.C08.tee_no_deadlock",
    "Grog.C08.tee_terminates",
    "Grog.C08.get_does_not_confirm",
    "Grog.Compose.second_machine",
    "Grog.Compose.second_machine_state",
    "Grog.Compose.rwrites_of_history",
    "Grog.Compose.second_machine_of_history",
]
ASSUMPTIONS = [
    "the remote store never loses an object (no eviction / lifecycle rule / manual delete of cas or target objects) and a successful put is atomic (S3 PutObject / finalised GCS writer)",
    "a remote Get that returns without an error delivers the complete object (the S3/GCS clients turn a short body into an error); the read-through fill does not re-verify digests",
    "second_machine: no taint marker of a selected target is visible to the second machine (taint markers are shared through the remote tier; a failed remote Delete leaves one behind)",
    "a blob or result is written only after every digest it references was confirmed by Cas.Write returning nil (checked on the traces)",
    "local file-system faults under the wrapper are not injected (the wrapper needs the concrete FileSystemCache); they are covered by C07",
]

MACH = {"A": 0, "B": 1, "C": 2, "Z": 3}
SET_FAULTS = ["err", "err-mid", "err-late", "err-after"]


def small_workload(huge=False):
    """six targets: two small files with the same content, two 70 000-byte files with the same content (one executable), two directories
    sharing those contents; optionally a multi-MiB file"""
    big = "".join(chr((i * 13) % 251) for i in range(70000))
    files = [("x.txt", F("same content\n")), ("y.txt", F("same content\n")), ("bx.bin", F(big)), ("by.bin", F(big, True)),
             ("dx", D(("f", F("same content\n")), ("g", F(big)))), ("dy", D(("h", F("same content\n")), ("k", D(("g", F(big))))))]
    ts = [{"pkg": "p", "name": "x", "key": "kx", "outputs": [["file", "x.txt"]]}, {"pkg": "p", "name": "y", "key": "ky", "outputs": [["file", "y.txt"]]},
          {"pkg": "p", "name": "bx", "key": "kbx", "outputs": [["file", "bx.bin"]]}, {"pkg": "p", "name": "by", "key": "kby", "outputs": [["file", "by.bin"]]},
          {"pkg": "p", "name": "dx", "key": "kdx", "outputs": [["dir", "dx"]]}, {"pkg": "p", "name": "dy", "key": "kdy", "outputs": [["dir", "dy"]]}]
    if huge:
        files.append(("huge.bin", F("".join(chr((i * 7 + i // 4096) % 251) for i in range(2 * 1024 * 1024 + 4097)))))
        ts.append({"pkg": "p", "name": "huge", "key": "khuge", "outputs": [["file", "huge.bin"]]})
    return D(("p", D(*files))), ts


# every kind of remote operation x failure point x repetition, and the local tier filling up
CELLS = ([{"op": "set", "ns": ns, "nth": nth, "kind": k} for ns in ("cas", "target") for k in SET_FAULTS for nth in (1, 2, 0)] +
         [{"op": "exists", "ns": "cas", "nth": nth, "kind": "err"} for nth in (1, 2, 0)] +
         [{"op": "get", "ns": ns, "nth": nth, "kind": k} for ns in ("cas", "target") for k in ("err", "err-mid") for nth in (1, 2, 0)] +
         [{"op": "fsize", "nth": lim} for lim in (0, 100, 40000, 1000000)])


def skeletons(cell, allt, sub):
    """histories in which one step carries the fault cell; always followed by a fault-free retry (the next build)"""
    f = [cell]
    wr = cell["op"] in ("set", "exists", "fsize")
    rd = cell["op"] in ("get", "exists", "fsize")
    out = []
    if wr:
        out.append(("fresh-build", [{"m": "A", "do": "build", "targets": allt, "faults": f}, {"m": "A", "do": "build", "targets": allt}]))
        out.append(("build-over-local-only", [{"m": "A", "do": "build-local", "targets": sub}, {"m": "A", "do": "build", "targets": allt, "faults": f},
                                              {"m": "A", "do": "build", "targets": allt}]))
        out.append(("load-then-write", [{"m": "A", "do": "build-local", "targets": sub},
                                        {"m": "A", "do": "mixed", "ops": [["restore", t] for t in sub] + [["build", t] for t in allt], "faults": f}]))
        out.append(("broken-source", [{"m": "A", "do": "mixed", "ops": [["rawset", t] for t in allt] + [["build", t] for t in allt], "faults": f}]))
    if rd:
        out.append(("restore", [{"m": "A", "do": "build", "targets": allt}, {"m": "B", "do": "restore", "targets": allt, "faults": f},
                                {"m": "B", "do": "restore", "targets": allt}]))
        out.append(("blocked-restore", [{"m": "A", "do": "build", "targets": allt},
                                        {"m": "B", "do": "mixed", "ops": [[k, t] for t in allt for k in ("restore-blocked", "restore")], "faults": f},
                                        {"m": "B", "do": "restore", "targets": allt}]))
        out.append(("peek-restore", [{"m": "A", "do": "build", "targets": allt},
                                     {"m": "B", "do": "mixed", "ops": [["peek", t] for t in allt] + [["restore", t] for t in allt], "faults": f}]))
    return out


def systematic_histories(rng, quick):
    """the cross product fault cell x skeleton over the small workload (quick: a deterministic third of it, rotating with the seed)"""
    wss, ts = small_workload()
    allt, sub = [0, 2, 4], [0, 2]
    out = []
    n = 0
    for ci, cell in enumerate(CELLS):
        for name, h in skeletons(cell, allt, sub):
            n += 1
            if quick and (n + rng.randint(0, 0)) % 3 != 0 and not (cell["op"] in ("exists", "fsize") and cell["nth"] in (0, 40000)):
                continue
            out.append((wss, ts, h, "cell:%s:%s" % (name, cell["op"])))
    # without any fault: the blocked restore and the broken source alone; a multi-MiB blob through every skeleton once
    out.append((wss, ts, [{"m": "A", "do": "build", "targets": allt}, {"m": "B", "do": "mixed", "ops": [[k, t] for t in allt for k in ("restore-blocked", "restore")]},
                          {"m": "C", "do": "restore", "targets": allt}], "cell:blocked-restore:none"))
    out.append((wss, ts, [{"m": "A", "do": "mixed", "ops": [["rawset", t] for t in allt] + [["build", t] for t in allt]}], "cell:broken-source:none"))
    wsh, th = small_workload(huge=True)
    hi = len(th) - 1
    for cell in ({"op": "set", "ns": "cas", "nth": 1, "kind": "err-late"}, {"op": "fsize", "nth": 1000000}, {"op": "get", "ns": "cas", "nth": 1, "kind": "err-mid"}):
        for name, h in skeletons(cell, [hi], [hi])[:2 if quick else 9]:
            out.append((wsh, th, h, "cell:huge:%s:%s" % (name, cell["op"])))
    return out


def fixed_histories():
    ws = D(("p", D(("o", D(("a", F("1")), ("s", D(("c", F("2", True)))))), ("f.bin", F("3")))))
    targets = [{"pkg": "p", "name": "t0", "key": "kA", "outputs": [["dir", "o"]]}, {"pkg": "p", "name": "t1", "key": "kB", "outputs": [["file", "f.bin"]]}]
    hs = [
        # the witness of C08.dangling_witness: blob only in A's local cache, then a build with the remote cache
        [{"m": "A", "do": "build-local", "targets": [1]}, {"m": "A", "do": "build", "targets": [1]}, {"m": "B", "do": "restore", "targets": [1]}],
        [{"m": "A", "do": "build-local", "targets": [0]}, {"m": "A", "do": "build", "targets": [0, 1]}, {"m": "B", "do": "restore", "targets": [0, 1]}],
        # remote Set fails after the local tier stored the blob; the next build on A must still upload it
        [{"m": "A", "do": "build", "targets": [1], "faults": [{"op": "set", "ns": "cas", "nth": 1, "kind": "err-late"}]},
         {"m": "A", "do": "build", "targets": [1]}, {"m": "B", "do": "restore", "targets": [1]}],
        [{"m": "A", "do": "build", "targets": [0], "faults": [{"op": "set", "ns": "cas", "nth": 2, "kind": "err-late"}]},
         {"m": "A", "do": "build", "targets": [0]}, {"m": "B", "do": "restore", "targets": [0]}],
        [{"m": "A", "do": "build", "targets": [0, 1]}, {"m": "B", "do": "restore", "targets": [0, 1]}, {"m": "C", "do": "restore", "targets": [1, 0]}],
        [{"m": "A", "do": "build", "targets": [0]}, {"m": "B", "do": "restore", "targets": [0], "faults": [{"op": "get", "ns": "cas", "nth": 2, "kind": "err-mid"}]},
         {"m": "B", "do": "restore", "targets": [0]}],
    ]
    out = [(ws, targets, h, "fixed-%d" % i) for i, h in enumerate(hs)]
    # (F) load, then produce the same content again in ONE process: the blob is only in A's local cache (earlier run without
    # remote); the restore of :x reads it (Cas.Load), the build of :y writes the same digest (Cas.Write must still upload it)
    big = "".join(chr((i * 13) % 251) for i in range(70000))
    wss = D(("p", D(("x.txt", F("same content\n")), ("y.txt", F("same content\n")), ("bx.bin", F(big)), ("by.bin", F(big, True)),
                    ("dx", D(("f", F("same content\n")), ("g", F(big)))), ("dy", D(("h", F("same content\n")), ("k", D(("g", F(big)))))))))
    ts = [{"pkg": "p", "name": "x", "key": "kx", "outputs": [["file", "x.txt"]]}, {"pkg": "p", "name": "y", "key": "ky", "outputs": [["file", "y.txt"]]},
          {"pkg": "p", "name": "bx", "key": "kbx", "outputs": [["file", "bx.bin"]]}, {"pkg": "p", "name": "by", "key": "kby", "outputs": [["file", "by.bin"]]},
          {"pkg": "p", "name": "dx", "key": "kdx", "outputs": [["dir", "dx"]]}, {"pkg": "p", "name": "dy", "key": "kdy", "outputs": [["dir", "dy"]]}]
    out.append((wss, ts, [{"m": "A", "do": "build-local", "targets": [0]}, {"m": "A", "do": "mixed", "ops": [["restore", 0], ["build", 1]]},
                          {"m": "B", "do": "restore", "targets": [1]}], "fixed-load-then-write"))
    out.append((wss, ts, [{"m": "A", "do": "build-local", "targets": [2, 4]}, {"m": "A", "do": "mixed", "ops": [["restore", 4], ["restore", 2], ["build", 5], ["build", 3]]},
                          {"m": "B", "do": "restore", "targets": [5, 3]}], "fixed-load-then-write-dir"))
    # a remote Set that failed late leaves the blob local-only as well
    out.append((wss, ts, [{"m": "A", "do": "build", "targets": [0], "faults": [{"op": "set", "ns": "cas", "nth": 1, "kind": "err-late"}]},
                          {"m": "A", "do": "build-local", "targets": [0]}, {"m": "A", "do": "mixed", "ops": [["restore", 0], ["build", 1]]},
                          {"m": "B", "do": "restore", "targets": [1, 0]}], "fixed-load-then-write-after-failed-put"))
    # (G) a remote read that fails in the middle of a blob, or a consumer that stops early, then a second read of the same key
    for tgt, nm in ((2, "big-file"), (0, "small-file"), (4, "dir")):
        out.append((wss, ts, [{"m": "A", "do": "build", "targets": [tgt]},
                              {"m": "B", "do": "restore", "targets": [tgt], "faults": [{"op": "get", "ns": "cas", "nth": 1 if tgt != 4 else 2, "kind": "err-mid"}]},
                              {"m": "B", "do": "restore", "targets": [tgt]}, {"m": "C", "do": "mixed", "ops": [["peek", tgt], ["restore", tgt]]},
                              {"m": "C", "do": "restore", "targets": [tgt]}], "fixed-midstream-" + nm))
    # (T) taint markers live in both tiers: A taints :x, rebuilds it, the remote Delete of the marker fails (only logged by the executor);
    # B (empty local cache) then sees :x tainted. Second history: the Delete succeeds and nobody sees a marker any more.
    out.append((wss, ts, [{"m": "A", "do": "mixed", "ops": [["taint", 0], ["tainted", 0]]},
                          {"m": "A", "do": "mixed", "ops": [["build", 0], ["untaint", 0]], "faults": [{"op": "delete", "ns": "taint", "nth": 1, "kind": "err"}]},
                          {"m": "B", "do": "mixed", "ops": [["tainted", 0], ["restore", 0]]}, {"m": "A", "do": "mixed", "ops": [["tainted", 0]]}], "fixed-stale-taint"))
    out.append((wss, ts, [{"m": "A", "do": "mixed", "ops": [["taint", 0], ["taint", 1]]}, {"m": "B", "do": "mixed", "ops": [["tainted", 0], ["tainted", 2]]},
                          {"m": "A", "do": "mixed", "ops": [["build", 0], ["untaint", 0]]},
                          {"m": "B", "do": "mixed", "ops": [["tainted", 0], ["tainted", 1], ["restore", 0]]}], "fixed-taint-cleared"))
    # (H) a failed remote Get of key K, then a second Get of the same K in the same process (retry / another output with the same blob)
    out.append((wss, ts, [{"m": "A", "do": "build", "targets": [0, 1]},
                          {"m": "B", "do": "mixed", "ops": [["restore", 0], ["restore", 0], ["restore", 1]], "faults": [{"op": "get", "ns": "cas", "nth": 1, "kind": "err"}]},
                          {"m": "C", "do": "mixed", "ops": [["restore", 1], ["restore", 0]], "faults": [{"op": "get", "ns": "target", "nth": 1, "kind": "err"}, {"op": "get", "ns": "cas", "nth": 1, "kind": "err-mid"}]}],
                "fixed-retry-same-key"))
    # a flat directory (no child directories): two of its blobs cannot be fetched on B (F-errchan: the restore must fail, not hang)
    wsf = D(("p", D(("flat", D(("a", F("1")), ("b", F("2", True)), ("c", F("3")))))))
    tf = [{"pkg": "p", "name": "t0", "key": "kF", "outputs": [["dir", "flat"]]}]
    out.append((wsf, tf, [{"m": "A", "do": "build", "targets": [0]},
                          {"m": "B", "do": "restore", "targets": [0], "faults": [{"op": "get", "ns": "cas", "nth": 2, "kind": "err"}, {"op": "get", "ns": "cas", "nth": 3, "kind": "err-mid"}]},
                          {"m": "B", "do": "restore", "targets": [0]}], "fixed-flat-get-faults"))
    # boundary sizes / fan-out workload of C07 (70 000-byte file, 32768/32769/65537-byte files, 130 files in one directory)
    from . import c07
    ws2, t2 = c07.fixed_workloads()[1]
    out.append((ws2, t2, [{"m": "A", "do": "build-local", "targets": [1]}, {"m": "A", "do": "build", "targets": [0, 1]},
                          {"m": "B", "do": "restore", "targets": [0, 1], "faults": [{"op": "get", "ns": "cas", "nth": 40, "kind": "err-mid"}]},
                          {"m": "B", "do": "restore", "targets": [0, 1]}, {"m": "C", "do": "restore", "targets": [1, 0]}], "fixed-wide"))
    out.append((ws2, t2, [{"m": "A", "do": "build", "targets": [0, 1], "faults": [{"op": "set", "ns": "cas", "nth": 70, "kind": "err-late"}, {"op": "set", "ns": "cas", "nth": 3, "kind": "err-mid"}]},
                          {"m": "A", "do": "build", "targets": [0, 1]}, {"m": "B", "do": "restore", "targets": [0, 1]}], "fixed-wide-faults"))
    return out


def gen_history(rng, nt):
    fam = rng.choice(["baseline", "local-first", "set-faults", "get-faults", "interleaved", "random", "random", "load-then-write", "midstream"])
    allt = list(range(nt))

    def faults(ops, k=None):
        out = []
        for _ in range(k if k is not None else rng.choice([1, 1, 2])):
            op = rng.choice(ops + ["delete"])
            kind = rng.choice(SET_FAULTS) if op == "set" else rng.choice(["err", "err-mid"] if op == "get" else (["err", "err-after"] if op == "delete" else ["err"]))
            out.append({"op": op, "ns": rng.choice(["cas", "cas", "target", "", "taint"]), "nth": rng.choice([1, 1, 2, 3, 0]), "kind": kind})
        return out
    if fam == "baseline":
        h = [{"m": "A", "do": "build", "targets": allt}, {"m": "B", "do": "restore", "targets": allt}]
    elif fam == "local-first":
        sub = rng.sample(allt, rng.randint(1, nt))
        h = [{"m": "A", "do": "build-local", "targets": sub}, {"m": "A", "do": "build", "targets": allt}, {"m": "B", "do": "restore", "targets": allt}]
    elif fam == "set-faults":
        h = [{"m": "A", "do": "build", "targets": allt, "faults": faults(["set", "set", "exists"])}, {"m": "A", "do": "build", "targets": allt},
             {"m": "B", "do": "restore", "targets": allt}]
    elif fam == "get-faults":
        h = [{"m": "A", "do": "build", "targets": allt}, {"m": "B", "do": "restore", "targets": allt, "faults": faults(["get", "get", "exists"])},
             {"m": "B", "do": "restore", "targets": allt}]
    elif fam == "load-then-write":
        sub = rng.sample(allt, rng.randint(1, nt))
        ops = [["restore", t] for t in sub] + [["build", t] for t in allt]
        if rng.random() < 0.5:
            rng.shuffle(ops)
        h = [{"m": "A", "do": "build-local", "targets": sub}, {"m": "A", "do": "mixed", "ops": ops}, {"m": "B", "do": "restore", "targets": allt}]
    elif fam == "midstream":
        f = [{"op": "get", "ns": "cas", "nth": rng.choice([1, 1, 2, 3, 0]), "kind": "err-mid"}]
        h = [{"m": "A", "do": "build", "targets": allt}, {"m": "B", "do": "restore", "targets": allt, "faults": f},
             {"m": "B", "do": "restore", "targets": allt}, {"m": "C", "do": "mixed", "ops": [[rng.choice(["peek", "restore"]), t] for t in allt] + [["restore", t] for t in allt]}]
    elif fam == "interleaved":
        a, b = allt[: max(1, nt // 2)], allt[max(1, nt // 2):] or allt
        h = [{"m": "A", "do": "build", "targets": a}, {"m": "B", "do": "build", "targets": b}, {"m": "A", "do": "restore", "targets": b},
             {"m": "B", "do": "restore", "targets": a}, {"m": "C", "do": "restore", "targets": allt}]
    else:
        h = []
        for _ in range(rng.randint(3, 8)):
            do = rng.choice(["build", "build", "build-local", "restore", "restore", "mixed"])
            st = {"m": rng.choice(["A", "A", "B", "C"]), "do": do, "targets": rng.sample(allt, rng.randint(1, nt))}
            if do == "mixed":
                st["ops"] = [[rng.choice(["restore", "build", "peek", "taint", "untaint", "tainted"]), rng.choice(allt)] for _ in range(rng.randint(2, 5))]
                del st["targets"]
            if do != "build-local" and rng.random() < 0.4:
                st["faults"] = faults(["set", "get", "exists"])
            h.append(st)
    return h, fam


def to_model_events(x):
    """harness events -> events of Remote.step"""
    refs = {}
    out = []
    local_procs = set()
    for e in x["events"]:
        k = e.get("k")
        if "refs" in e:
            e = dict(e, refs=sorted(set(e["refs"])))    # outputs are appended to a result in completion order
        if e["e"] == "proc":
            if e["do"] == "build-local":
                local_procs.add(e["p"])
            else:
                out.append({"e": "proc", "p": e["p"], "m": MACH[e["m"]]})
        elif e["e"] == "local":
            refs[(e["ns"], k)] = e["refs"]
            out.append({"e": "local", "m": MACH[e["m"]], "ns": e["ns"], "k": k, "refs": e["refs"]})
        elif e.get("ns") == "taint":
            if e["e"] == "set":
                out.append({"e": "tset", "p": e["p"], "k": k, "la": e["l"], "ra": e["rem"], "ok": e["ok"]})
            elif e["e"] == "exists":
                out.append({"e": "texists", "p": e["p"], "k": k, "r": e["r"]})
            elif e["e"] == "delete":
                out.append({"e": "tdel", "p": e["p"], "k": k, "la": e["l"], "ra": e["rem"], "ok": e["ok"]})
        elif e["e"] in ("exists", "existsAll"):
            if e["ns"] in ("cas", "target"):
                out.append({"e": e["e"], "p": e["p"], "ns": e["ns"], "k": k, "r": e["r"]})
        elif e["e"] == "get":
            if e["ns"] in ("cas", "target"):
                out.append({"e": "get", "p": e["p"], "ns": e["ns"], "k": k, "r": e["r"], "refs": refs.get((e["ns"], k), []),
                            "contentOk": e.get("contentOk", True), "filled": bool(e["l"] and not e["lbefore"])})
        elif e["e"] == "set":
            if e["ns"] in ("cas", "target"):
                # the tiers are probed after the call: a tier that held the key before still holds it
                refs[(e["ns"], k)] = e["refs"]
                out.append({"e": "set", "p": e["p"], "ns": e["ns"], "k": k, "refs": e["refs"], "l": e["l"], "rem": e["rem"], "ok": e["ok"],
                            "contentOk": e.get("hashOk", True)})
    return out


def run(ctx):
    quick = ctx.tier == "quick"
    scratch = ctx.scratch("c08")
    cases = list(fixed_histories()) + systematic_histories(ctx.rng, quick)
    for k in range(45 if quick else 1200):
        ws, targets = S.workload(ctx.rng, k)
        h, fam = gen_history(ctx.rng, len(targets))
        cases.append((ws, targets, h, fam))
    # every history ends with a restore of everything on a machine that has never been used (empty local cache, no faults);
    # the remote is the in-memory CacheBackend or the real S3Cache over a fake S3 client; the handlers run with and without a
    # ProgressTracker (wrapped, non-seekable readers); some histories run without the recorder between Cas and RemoteWrapper
    cases = [(ws, t, h + [{"m": "Z", "do": "restore", "targets": list(range(len(t)))}], fam) for ws, t, h, fam in cases]
    reqs = []
    for i, (ws, t, h, fam) in enumerate(cases):
        reqs.append({"op": "store.remote", "scratch": scratch, "ws": ws, "targets": t, "history": h, "remote": ("s3", "mem")[i % 2],
                     "progress": i % 4 < 2, "direct": i % 7 == 6})
    # the same histories through the backend grog itself constructs: backends.GetCacheBackend over an S3 cache configuration (real AWS
    # SDK client against an in-process S3 endpoint serving the same object store and fault plan) resp. over no remote configuration for
    # the runs without remote cache: every targeted history, every fault-free systematic one, a sample of the others (oracles only)
    ncfg = 0
    for i, (ws, t, h, fam) in enumerate(list(cases)):
        if fam.startswith("fixed") or fam.endswith(":none") or i % (9 if quick else 4) == 0:
            cases.append((ws, t, h, fam))
            reqs.append({"op": "store.remote", "scratch": scratch, "ws": ws, "targets": t, "history": h, "construct": "config", "progress": ncfg % 2 == 0})
            ncfg += 1
    outs = []
    for i in range(0, len(reqs), 50):
        part = S.impl(ctx, reqs[i:i + 50])
        if part is None:
            return
        outs += part
    stats = {"family": {}, "steps": 0, "step_kinds": {}, "outcomes": {}, "remote_faults_hit": {}, "events": 0, "machines": {}}
    distinct = set()
    replays = []
    for (ws, targets, h, fam), req, x in zip(cases, reqs, outs):
        if "error" in x or "panic" in x:
            ctx.violation("implementation driver failed on a history", {"kind": "impl-crash", "request": req, "impl": x}, signature="driver-error", found_input="panic" in x)
            continue
        stats["family"][fam] = stats["family"].get(fam, 0) + 1
        x["events"] = x.get("events") or []
        x["remote_keys"] = x.get("remote_keys") or []
        x["dangling"] = x.get("dangling") or []
        x["steps"] = x.get("steps") or []
        for st in x["steps"]:
            st["dangling"] = st.get("dangling") or []
            st["results"] = st.get("results") or []
        stats["events"] += len(x["events"])
        for o in x.get("remote_ops") or []:
            if o.get("fault"):
                stats["remote_faults_hit"][o["op"] + ":" + o["fault"]] = stats["remote_faults_hit"].get(o["op"] + ":" + o["fault"], 0) + 1
        published = set()      # targets a successful build with the remote cache has written
        cleared = set()        # targets whose taint was cleared successfully (Clear returned nil) and not set again
        nontrivial = False
        for st_req, st in zip(h, x["steps"]):
            stats["steps"] += 1
            stats["step_kinds"][st["do"]] = stats["step_kinds"].get(st["do"], 0) + 1
            stats["machines"][st["m"]] = stats["machines"].get(st["m"], 0) + 1
            # O1: closure of the remote store after every step
            if st["dangling"]:
                loc = [d for m in x["locals"].values() for d in m.get("cas", [])]
                digs = [p.split(" blob ")[1].split(" ")[0] for p in st["dangling"] if " blob " in p]
                sig = "remote-result-references-local-only-blob" if digs and all(d in loc for d in digs) else "remote-dangling-reference"
                if any("does not hash" in p for p in st["dangling"]):
                    sig = "remote-corrupt-entry"
                ctx.violation(("the remote store holds an object whose content does not match its digest: " if sig == "remote-corrupt-entry" else
                               "the remote store holds a target result that references a blob the remote store does not hold: ") + st["dangling"][0],
                              {"kind": "oracle", "oracle": "closure audit of the remote store", "request": req, "step": st, "family": fam,
                               "remote_keys": x["remote_keys"], "locals": x["locals"], "events": x["events"]}, signature=sig)
            for mname, bad in (st.get("local_audit") or {}).items():
                ctx.violation("the local cache of machine %s holds an entry whose content does not match its key: %s" % (mname, bad[0]),
                              {"kind": "oracle", "oracle": "content audit of the local caches", "request": req, "step": st, "family": fam, "events": x["events"]},
                              signature="local-cache-corrupt-entry")
            for r in st["results"]:
                kind = r.get("kind", st["do"])
                if kind == "taint" and r["outcome"] == "ok":
                    cleared.discard(r["target"])
                if kind == "untaint" and r["outcome"] == "ok":
                    cleared.add(r["target"])
                if kind == "tainted" and r.get("tainted"):
                    stats["tainted_answers"] = stats.get("tainted_answers", 0) + 1
                    if fam == "fixed-stale-taint" and st["m"] == "B":
                        stats["stale_remote_taint_seen_by_B"] = True       # the reviewer's scenario on the real code (allowed degradation, see notes)
                    if r["target"] in cleared:
                        ctx.violation("a target is reported tainted although its taint was cleared successfully and not set again",
                                      {"kind": "oracle", "oracle": "taint cleared in every tier", "request": req, "step": st, "family": fam},
                                      signature="taint-survives-successful-clear")
                key = kind + ":" + r["outcome"]
                stats["outcomes"][key] = stats["outcomes"].get(key, 0) + 1
                if r["outcome"] == "hang" and not S.confirm_hang(ctx, req, lambda o: any(rr.get("outcome") == "hang" for ss in o.get("steps", []) for rr in ss["results"])):
                    stats["unconfirmed_stalls"] = stats.get("unconfirmed_stalls", 0) + 1
                elif r["outcome"] == "hang":
                    t = [t for t in targets if t["name"] == r["target"]][0]
                    in_dir_restore = kind == "restore" and any(o[0] == "dir" for o in t["outputs"])
                    ctx.violation("a cache operation through the remote wrapper hangs" + (" (restore of a directory output whose blob cannot be fetched)" if in_dir_restore else ""),
                                  {"kind": "oracle", "oracle": "no hang", "request": req, "step": st, "family": fam},
                                  signature="dir-restore-hangs-on-blob-error" if in_dir_restore else "remote-hang")
                if kind == "rawset" and r["outcome"] == "ok":
                    ctx.violation("a Set whose source stream failed in the middle reported success", {"kind": "oracle", "oracle": "broken source => error",
                                  "request": req, "step": st, "family": fam}, signature="broken-source-set-ok")
                if kind in ("restore", "restore-blocked") and r["outcome"] == "ok" and not r.get("equal"):
                    ctx.violation("a machine restored outputs that differ from what was cached", {"kind": "oracle", "oracle": "restored == cached", "request": req, "step": st},
                                  signature="remote-restore-wrong-content")
                if kind == "restore" and r["outcome"] != "ok" and r["target"] in published and not st_req.get("faults") and not st["dangling"]:
                    ctx.violation("a target published by a successful build cannot be restored through the remote cache without any fault: " + r.get("msg", r["outcome"]),
                                  {"kind": "oracle", "oracle": "published => retrievable", "request": req, "step": st, "remote_keys": x["remote_keys"]},
                                  signature="published-not-retrievable")
                if kind == "build" and r["outcome"] == "ok":
                    published.add(r["target"])
                if kind == "restore" and r["outcome"] == "ok":
                    nontrivial = True
        for e in x["events"]:
            if e["e"] == "get" and e.get("r") == "yes" and not e.get("contentOk", True):
                ctx.violation("Get returned content that was never stored under that key", {"kind": "oracle", "oracle": "Get content", "request": req, "event": e},
                              signature="remote-get-wrong-content")
        if x["dangling"] == [] and nontrivial:
            distinct.add(hashlib.sha1(S.jdump([ws, targets, h]).encode()).hexdigest())
        if req.get("construct"):
            stats["configured_backend_histories"] = stats.get("configured_backend_histories", 0) + 1
            continue
        if req.get("direct"):
            stats["direct_histories"] = stats.get("direct_histories", 0) + 1
            continue
        ev = to_model_events(x)
        q = [[-1] + k.split("/", 1) for k in x["remote_keys"] if k.split("/", 1)[0] in ("cas", "target")]
        seen_keys = {(e["ns"], e["k"]) for e in ev if "k" in e and "ns" in e}
        for ns, k in sorted(seen_keys):
            q.append([-1, ns, k])
            for m in x["locals"]:
                q.append([MACH[m], ns, k])
        replays.append(({"op": "store.remotereplay", "variant": "fixed", "events": ev, "query": q}, req, x, fam))
    youts = S.model(ctx, [r for r, _, _, _ in replays])
    rejected, diffs = [], []
    inv = {v: k for k, v in MACH.items()}
    for (rr, req, x, fam), y in zip(replays, youts):
        if "error" in y or not y.get("accepted"):
            rejected.append((rr, req, x, y, fam))
            continue
        want = []
        for w, ns, k in rr["query"]:
            if w < 0:
                want.append((ns + "/" + k) in x["remote_keys"])
            else:
                want.append(k in x["locals"].get(inv[w], {}).get(ns, []))
        if want != y["visible"] or bool(y["dangling"]) != bool(x["dangling"]):
            diffs.append((rr, req, x, y, fam))
    ctx.coverage["evaluations"] = len(reqs)
    ctx.coverage["traces_validated_against_impl"] = len(replays)
    ctx.coverage["distinct_nontrivial"] = len(distinct)
    ctx.coverage["rule"] = ("17 targeted histories + the cross product {remote op kind x failure point x repetition, local disk full at L bytes} x {fresh build, build over local-only blobs, load-then-write, broken source stream, restore, restore with a directory at the file path, peek-then-restore} over a small workload (quick: a third of it) and a multi-MiB blob; every history ends with a restore on an unused machine; remote = in-memory backend or the real S3Cache over a fake S3 client, and for the targeted / fault-free / a sample of the other histories once more the backend backends.GetCacheBackend constructs from an S3 configuration (real AWS SDK client against an in-process S3 endpoint over the same object store); with and without ProgressTracker (incl. load-then-write of a local-only digest in one process, mid-stream remote read failures and early-closing consumers followed by a second read) (incl. the Lean witness of F-remote-skip and remote Set failing after the local tier stored) + generated histories over "
                            "machines A,B,C: build with remote cache, build without remote cache (local-only blobs), restore into an emptied workspace; remote faults "
                            "scripted per step on get/set/exists (err, err-mid, err-late = read everything then fail, err-after = stored then fail); workloads of 1-3 "
                            "targets sharing contents; non-trivial = distinct history in which some machine restored outputs successfully and the remote stayed closed")
    namespaces(ctx, stats)
    ctx.coverage["distribution"] = stats
    ctx.coverage["rejected_traces"] = len(rejected)
    ctx.coverage["final_state_differences"] = len(diffs)
    for rr, req, x, fam in replays[6:9]:
        ctx.sample({"family": fam, "history": req["history"], "steps": [{k: v for k, v in s.items() if k != "dangling"} for s in x["steps"]],
                    "n_events": len(rr["events"]), "events": [{k: (v if k != "refs" else len(v)) for k, v in e.items()} for e in rr["events"][:10]]}, limit=3)
    if (rejected or diffs) and not ctx.violations and not ctx.known_hits:
        rr, req, x, y, fam = (rejected or diffs)[0]
        at = y.get("at", -1)
        ctx.violation("a real wrapper-call trace is not a run of the model (trace inclusion Remote.step, repaired variant)" if rejected else
                      "final contents of the remote / local stores differ between implementation and model",
                      {"kind": "correspondence", "correspondence": "wrapper-call traces of Cas/TargetResultCache over RemoteWrapper vs GrogModel.Remote.step",
                       "request": req, "family": fam, "model": y, "rejected_event": rr["events"][at] if 0 <= at < len(rr["events"]) else None,
                       "events": rr["events"], "n_rejected": len(rejected), "n_state_diffs": len(diffs)}, found_input=False)


def namespaces(ctx, stats):
    """remote object keys: real S3Cache (recording client) vs RemotePath.objectOf; same-namespace oracle on the real keys"""
    import hashlib as hl
    buckets = ["b1", "b2"]
    prefixes = ["", "/", "p", "/p/", "p/q", "p//", "//p/q//", "q", "///"]
    roots = ["/w/a", "/w/b", "/x/a", "/w/a b", "/w/" + S.proto("ü")]
    calls = [["cas", "abc"], ["target", "k1_k2"], ["/cas/", "/abc/"], ["taint", "//pkg:t"], ["cas", ""], ["", "x"]]
    cfgs = [(b, p, r) for b in buckets for p in prefixes for r in roots]
    if ctx.tier == "quick":
        cfgs = ctx.rng.sample(cfgs, 40)
    reqs = [{"op": "store.s3path", "bucket": b, "prefix": p, "root": r, "calls": calls} for b, p, r in cfgs]
    outs = S.impl(ctx, reqs)
    if outs is None:
        return
    mreqs = []
    for (b, p, r), x in zip(cfgs, outs):
        raw = S.unproto(r).encode()
        want_ws = hl.sha256(raw).hexdigest()[:16] + "-" + S.unproto(r).rsplit("/", 1)[1]
        if S.unproto(x.get("ws", "")) != want_ws:
            ctx.violation("workspace identity differs from sha256(root)[:16]-basename", {"kind": "correspondence", "correspondence": "GetWorkspaceCachePrefix",
                          "root": r, "impl": x.get("ws"), "expected": want_ws}, found_input=False)
        mreqs.append({"op": "store.objpath", "bucket": b, "prefix": p, "ws": S.proto(want_ws), "calls": calls})
    mouts = S.model(ctx, mreqs)
    bad = 0
    for cfg, x, y in zip(cfgs, outs, mouts):
        if x.get("objects") != y.get("objects"):
            bad += 1
            if bad == 1:
                ctx.violation("remote object keys differ between S3Cache and the model", {"kind": "correspondence", "correspondence": "S3Cache.buildPath vs RemotePath.objectOf",
                              "config": cfg, "impl": x, "model": y}, found_input=False)
    pairs = same = 0
    for i in range(len(cfgs)):
        for j in range(i + 1, len(cfgs)):
            (b1, p1, r1), (b2, p2, r2) = cfgs[i], cfgs[j]
            expect = b1 == b2 and p1.strip("/") == p2.strip("/") and r1 == r2
            got = outs[i].get("objects") == outs[j].get("objects")
            pairs += 1
            same += 1 if got else 0
            if expect != got:
                ctx.violation("two configurations %s the same remote objects although bucket/trimmed prefix/workspace identity %s" %
                              (("address" if got else "do not address"), ("differ" if got else "agree")),
                              {"kind": "oracle", "oracle": "same namespace iff same (bucket, trimmed prefix, workspace identity)", "c1": cfgs[i], "c2": cfgs[j],
                               "objects1": outs[i].get("objects"), "objects2": outs[j].get("objects")}, signature="namespace-" + ("collision" if got else "split"))
    # the same workspace_root string on two machines, on one of which a path component is a symbolic link: same identity, same keys
    import os
    base = os.path.join(ctx.scratch("c08-ns"), "host")
    sym = 0
    for name in ("ws", S.proto("my repö")):
        for b, p in (("bkt", "team/cache"), ("bkt", "")):
            two = S.impl(ctx, [{"op": "store.s3path", "bucket": b, "prefix": p, "root": "", "base": base, "name": name, "layout": lay, "calls": calls}
                               for lay in ("plain", "symlink")])
            if not two or any("error" in t for t in two):
                ctx.violation("namespace driver failed", {"kind": "impl-crash", "impl": two}, found_input=False)
                continue
            sym += 1
            pl, sy = two
            root = S.unproto(pl.get("root", ""))
            want_ws = hl.sha256(root.encode()).hexdigest()[:16] + "-" + root.rsplit("/", 1)[1]
            if pl.get("objects") != sy.get("objects") or pl.get("ws") != sy.get("ws") or pl.get("local_cache_dir_name") != sy.get("local_cache_dir_name") \
                    or S.unproto(sy.get("ws", "")) != want_ws:
                ctx.violation("two machines with the same bucket, prefix and workspace_root string address different remote objects when a component of the "
                              "workspace path is a symbolic link on one of them",
                              {"kind": "oracle", "oracle": "workspace identity is a function of the workspace_root string", "bucket": b, "prefix": p, "workspace_root": root,
                               "expected_identity": want_ws, "plain_directory": {k: pl.get(k) for k in ("ws", "local_cache_dir_name", "objects")},
                               "through_symlink": {k: sy.get(k) for k in ("ws", "local_cache_dir_name", "objects")},
                               "replay_request": {"op": "store.s3path", "bucket": b, "prefix": p, "name": name, "calls": calls}},
                              signature="namespace-depends-on-symlinks")
    # the real GCSCache (recording HTTP server behind STORAGE_EMULATOR_HOST): object names vs the model; shared_cache on / off
    groots = ["/home/alice/src/myrepo", "/builds/myrepo", "/builds/other", "/w/" + S.proto("rép o")]
    gcfgs = [(b, p, r, sh) for b in ("gb",) for p in ("", "/team/", "a/b") for r in groots for sh in (True, False)]
    gouts = S.impl(ctx, [{"op": "store.gcspath", "bucket": b, "prefix": p, "root": r, "shared": sh, "calls": calls} for b, p, r, sh in gcfgs]) or []
    gm = []
    for (b, p, r, sh), x in zip(gcfgs, gouts):
        base_name = S.unproto(r).rsplit("/", 1)[1]
        ident = base_name if sh else hl.sha256(S.unproto(r).encode()).hexdigest()[:16] + "-" + base_name
        gm.append({"op": "store.objpath", "bucket": b, "prefix": p, "ws": S.proto(ident), "calls": calls})
    gmo = S.model(ctx, gm)
    gbad = 0
    for cfg, x, y in zip(gcfgs, gouts, gmo):
        if not x.get("ok") or x.get("objects") != y.get("objects"):
            gbad += 1
            if gbad == 1:
                ctx.violation("remote object names differ between GCSCache and the model", {"kind": "correspondence", "correspondence": "GCSCache.buildPath vs RemotePath.objectOf",
                              "config": cfg, "impl": x, "model": y}, found_input=False)
    for i in range(len(gcfgs)):
        for j in range(i + 1, len(gcfgs)):
            (b1, p1, r1, s1), (b2, p2, r2, s2) = gcfgs[i], gcfgs[j]
            if s1 != s2:
                continue
            same_id = (S.unproto(r1).rsplit("/", 1)[1] == S.unproto(r2).rsplit("/", 1)[1]) if s1 else (r1 == r2)
            expect = b1 == b2 and p1.strip("/") == p2.strip("/") and same_id
            got = gouts[i].get("objects") == gouts[j].get("objects")
            if expect != got:
                ctx.violation("GCS: two configurations %s the same objects although bucket / trimmed prefix / workspace identity (shared_cache=%s: %s) %s" %
                              (("address" if got else "do not address"), s1, "directory name" if s1 else "path hash + directory name", ("differ" if got else "agree")),
                              {"kind": "oracle", "oracle": "GCS same namespace iff same (bucket, trimmed prefix, workspace identity)", "c1": gcfgs[i], "c2": gcfgs[j],
                               "objects1": gouts[i].get("objects"), "objects2": gouts[j].get("objects")}, signature="gcs-namespace-" + ("collision" if got else "split"))
    stats["gcs_configs"] = len(gcfgs)
    stats["namespace_symlink_pairs"] = sym
    stats["namespace_configs"] = len(cfgs)
    stats["namespace_pairs"] = pairs
    stats["namespace_pairs_same"] = same
    ctx.coverage["evaluations"] += len(cfgs)


def replay(ctx, rep):
    r = rep.get("request")
    if not r:
        print("nothing to replay in this file (see 'kind')")
        return 0
    r = dict(r, scratch=ctx.scratch("c08"))
    x = S.impl(ctx, [r])[0]
    for st in x.get("steps", []):
        print(st["m"], st["do"], st["results"], "dangling:", st["dangling"])
    ev = to_model_events(x)
    for v in ("fixed", "old"):
        y = S.model(ctx, [{"op": "store.remotereplay", "variant": v, "events": ev, "query": []}])[0]
        print("model (%s):" % v, y)
    return 1 if x.get("dangling") else 0
