"""Round-c additions to the history harness (families and oracles added after the third mutation round).

Everything here builds on `_hist` (workspace / history format, rendering, real side, model side) and only adds
generators for features the earlier families did not exercise, plus model-independent oracles:

  features    platform changes between builds over one cache (`--platform`), commands that read $GROG_OS/$GROG_ARCH,
              `multiplatform-cache` tags and `platforms` selectors; checkouts that restore timestamps (every file carries the
              same mtime) with same-length content edits; multi-output targets whose outputs exchange their contents, with
              dependants, in both load modes; identical output-check texts in different packages / with different
              `environment_variables`; targets that consist of output checks only x taint / no-cache / --enable-cache=false;
              tainted targets with `dir::` outputs and dependants; a build that is interrupted by a signal while a dependant of a
              tainted target runs; tools that only declare a `bin_output` and are used through `$(bin :tool)`; `grog run` of a
              target whose sources flip between versions.
  oracles     `unbuilt_state_hits` (a target that a successful build did not execute was executed earlier in exactly its current
              state: own definition, input contents, platform, bytes of every declared output of its direct dependencies),
              `failing_prechecks` (targets whose output checks fail on the workspace right before a build).
"""
import copy, json
from checks import _hist as H

BUILD = {"k": "build", "patterns": ["//..."], "minimal": False, "enable_cache": True, "fail_fast": False}


def bstep(minimal=False, **kw):
    s = dict(BUILD, minimal=minimal)
    s.update(kw)
    return s


def estep(ws, what, writes=()):
    return {"k": "edit", "ws": ws, "writes": list(writes), "what": what}


def mk_target(pkg, name, globs=(), deps=(), outs=(), salt="s1", **kw):
    t = {"pkg": pkg, "name": name, "globs": list(globs), "excl": [], "salt": salt, "deps": list(deps),
         "outs": [{"dir": o.startswith("dir::"), "rel": o[5:] if o.startswith("dir::") else o} for o in outs],
         "fp": {}, "nocache": False, "checks": [], "beh": 0, "skip": [], "sets": []}
    t.update(kw)
    return t


def order_of(ws):
    return sorted(ws["targets"], key=lambda x: int(ws["targets"][x]["name"][1:]))


def add_noop(h):
    last = [s for s in h["steps"] if s["k"] == "build"][-1]
    h["steps"].append(dict(last))
    return h


# ------------------------------------------------------------------------------------------------
# oracles
# ------------------------------------------------------------------------------------------------

def own_state(ws, l, step):
    t = ws["targets"][l]
    plat = "" if t.get("mpc") else (step.get("platform") or "")
    return H.state_key(ws, l) + "|" + plat + "|" + json.dumps(sorted((t.get("env") or {}).items()))


def dep_state(ws, l, fs):
    out = []
    for d in H.rdeps(ws, l):
        dt = ws["targets"][d]
        for o in H.sorted_outs(dt):
            p = H.out_path(dt, o)
            out.append((p, fs.get(p)))
    return tuple(out)


def unbuilt_state_hits(hist, real, minimal_of=None):
    """Model-independent. Commands are deterministic functions of their inputs and of the declared outputs of their direct
    dependencies, so the only way a target can legitimately NOT run in a successful build is that a result produced in exactly
    its current state is in the cache, i.e. that some earlier build of this history executed it in that state.
    State = own definition + contents of the resolved inputs + platform + (path, bytes) of every declared output of every direct
    dependency, read from the workspace right after the build (mode all: all of them are materialised; mode minimal: only judged
    when every dependency with outputs ran in this build; an executing target always finds its dependencies materialised).
    -> list of {build, target, why}"""
    seen = {}
    fails = []
    for b in H.walk(hist, real):
        o, ws, s = b["obs"], b["ws"], b["step"]
        if s["k"] != "build":
            continue
        minimal = s.get("minimal", False) if minimal_of is None else minimal_of(s)
        ex = set(o["executed"])
        sel = H.selected(ws, s["patterns"])
        for l in sel:
            t = ws["targets"][l]
            if t.get("nocmd"):
                continue
            st = (own_state(ws, l, s), dep_state(ws, l, o["fs"]))
            if l in ex:
                seen.setdefault(l, set()).add(st)
                continue
            if not o["ok"] or not s.get("enable_cache", True) or s.get("interrupt"):
                continue
            if minimal and any(ws["targets"][d]["outs"] or ws["targets"][d].get("bin") for d in H.rdeps(ws, l) if d not in ex):
                continue
            if st not in seen.get(l, set()):
                own_seen = {a for a, _ in seen.get(l, set())}
                why = ("its own state (command, input contents, outputs, fingerprint, platform) was never built"
                       if st[0] not in own_seen else "the outputs of its dependencies differ from every state it was executed in")
                fails.append({"build": b["n"], "target": l, "why": why})
    return fails


def failing_prechecks(ws, fs_before):
    """targets with an output check that does not hold on the workspace as it is right before the build"""
    return {l for l, t in ws["targets"].items() if any(not H.check_holds(c, fs_before) for c in t.get("checks", []))}


# ------------------------------------------------------------------------------------------------
# C02: identical check texts, restored timestamps, outputs exchanging contents
# ------------------------------------------------------------------------------------------------

def gen_sametext(rng, minimal=False):
    """Several targets whose output checks have the SAME text: the checked file has the same package-relative name in every
    package (`test -f installed.flag`), or is named by a per-target environment variable (`test -f "$MARKER"`). The condition of
    some of them is destroyed from outside: exactly those must run."""
    ws = {"targets": {}, "aliases": {}, "files": {}, "links": {}}
    exp = rng.choice([None, "ok\n"])
    form = rng.randint(0, 5)
    labels = []
    n = rng.randint(3, 4)
    for i in range(n):
        pkg, name = "tools/p%d" % i, "t%d" % i
        deps = [rng.choice(labels)] if labels and rng.random() < 0.6 else []
        globs, outs = [], []
        if rng.random() < 0.7:
            globs = ["e%d.txt" % i]
            ws["files"]["%s/e%d.txt" % (pkg, i)] = "v%d\n" % rng.randint(0, 99)
            outs = ["o%d.txt" % i]
        flag = pkg + "/installed.flag"
        ws["targets"][H.lab(pkg, name)] = mk_target(pkg, name, globs, deps, outs, salt="s%d" % rng.randint(0, 9),
                                                    checks=[{"flag": flag, "exp": exp, "form": form, "rel": "installed.flag"}],
                                                    sets=[[flag, "ok\n"]])
        labels.append(H.lab(pkg, name))
    # same package, same text, different environment
    for j, nm in enumerate(["x", "y"]):
        i = n + j
        name = "t%d" % i
        flag = "env/%s.marker" % nm
        deps = [H.lab("env", "t%d" % n)] if j == 1 and rng.random() < 0.6 else []
        ws["files"]["env/e%d.txt" % i] = "v%d\n" % rng.randint(0, 99)
        ws["targets"][H.lab("env", name)] = mk_target("env", name, ["e%d.txt" % i], deps, ["o%d.txt" % i], salt="s%d" % rng.randint(0, 9),
                                                      env={"MARKER": "%s.marker" % nm},
                                                      checks=[{"flag": flag, "exp": exp, "form": form, "envvar": "MARKER"}],
                                                      sets=[[flag, "ok\n"]])
        labels.append(H.lab("env", name))
    steps = [bstep(minimal), bstep(minimal)]
    for _ in range(rng.randint(2, 3)):
        k = rng.randint(1, max(1, len(labels) - 2))
        victims = sorted(rng.sample(labels, k))
        if rng.random() < 0.5:
            # a dependant loses its condition while its dependency (same text) keeps it
            withdep = [l for l in labels if ws["targets"][l]["deps"]]
            if withdep:
                victims = [rng.choice(withdep)]
        writes = [[ws["targets"][l]["checks"][0]["flag"], None] for l in victims]
        steps.append(estep(ws, "destroy external condition of %s (raw; every check has the same text)" % ", ".join(victims), writes))
        steps.append(bstep(minimal))
        if rng.random() < 0.5:
            steps.append(bstep(minimal))
    return {"ws": ws, "algo": rng.choice(["xxh3", "sha256"]), "steps": steps, "tags": ["sametext"] + (["minimal"] if minimal else [])}


STAMP = 1700000000 * 10 ** 9


def same_length_variant(rng, c):
    """different content of the same length"""
    if not c:
        return None
    idx = [i for i, ch in enumerate(c) if ch.isalnum()] or list(range(len(c)))
    i = rng.choice(idx)
    alphabet = "0123456789abcxyz"
    ch = rng.choice([a for a in alphabet if a != c[i]])
    return c[:i] + ch + c[i + 1:]


def gen_samestamp(rng, minimal=False):
    """A checkout tool that restores timestamps (`cp -p`, `rsync -t`, `tar x`, commit times): after every edit each file of the
    workspace carries the same modification time; most edits keep the length of the file."""
    ws = H.gen_ws(rng, n=rng.randint(2, 4), split_p=0.0, shared_p=0.0, link_p=0.0, outless_p=0.0)
    stamp = {"stampall": STAMP}
    steps = [estep(ws, "checkout with restored timestamps (every file carries the same mtime)", [stamp]), bstep(minimal)]
    cur = ws
    versions = [ws]
    for _ in range(rng.randint(2, 4)):
        r = rng.random()
        e = None
        if r < 0.65:
            cands = sorted(p for l in cur["targets"] for p in H.src_files_of(cur, l) if p in cur["files"])
            if cands:
                p = rng.choice(cands)
                v = same_length_variant(rng, cur["files"][p])
                if v is not None:
                    w2 = copy.deepcopy(cur)
                    w2["files"][p] = v
                    e = (w2, [], "content of %s (same length, same mtime)" % p)
        elif r < 0.8 and len(versions) >= 2:
            e = (rng.choice(versions[:-1]), [], "revert sources to an earlier version (same mtime)")
        if e is None:
            e = H.gen_edit(rng, cur, ["content", "salt", "addfile"])
        if e is None or not H.wf(e[0]):
            continue
        steps.append(estep(e[0], e[2], list(e[1]) + [stamp]))
        cur = e[0]
        versions.append(cur)
        steps.append(bstep(minimal))
    return {"ws": ws, "algo": rng.choice(["xxh3", "sha256"]), "steps": steps, "tags": ["samestamp"] + (["minimal"] if minimal else [])}


def gen_swapdep(rng, minimal=False):
    """splitter targets (>= 2 file outputs, output k = copy of input k) WITH dependants; the edits make two outputs of a
    splitter exchange their contents (the multiset of output contents stays the same)"""
    for _ in range(20):
        ws = H.gen_ws(rng, n=rng.randint(3, 5), split_p=1.0, kind_choices=["star", "src", "star", "explicit"], dirs=False, shared_p=0.0,
                      outless_p=0.0, stamp_p=0.0)
        sp = [x for x in order_of(ws) if ws["targets"][x].get("split")]
        if sp:
            break
    order = order_of(ws)
    for x in sp:
        later = [y for y in order if order.index(y) > order.index(x)]
        if later and not any(x in H.rdeps(ws, y) for y in order):
            ws["targets"][later[0]]["deps"].append(x)
    if not any(x in H.rdeps(ws, y) for x in sp for y in order):
        # the only splitter is the last target: give it a dependant
        x = sp[-1]
        i = len(order)
        ws["targets"][H.lab("pz", "t%d" % i)] = mk_target("pz", "t%d" % i, [], [x], ["o%d.txt" % i])
    steps = [bstep(minimal)]
    cur = ws
    for _ in range(rng.randint(2, 4)):
        e = H.gen_edit(rng, cur, ["swapin", "swapin", "swapin", "content"])
        if e is None or not H.wf(e[0]):
            continue
        steps.append(estep(e[0], e[2], e[1]))
        cur = e[0]
        steps.append(bstep(minimal))
    return {"ws": ws, "algo": rng.choice(["xxh3", "sha256"]), "steps": steps, "tags": ["swapdep"] + (["minimal"] if minimal else [])}


def gen_swapraw(rng, minimal=False):
    """hand-written shape of the same thing: lib copies k inputs to k outputs, app reads them by name, the inputs rotate"""
    k = rng.choice([2, 2, 3])
    vals = ["c%d\n" % (rng.randint(0, 30) + 31 * i) for i in range(k)]
    ws = {"targets": {}, "aliases": {}, "links": {}, "files": {"pl/x%d.in" % i: vals[i] for i in range(k)}}
    ws["targets"]["//pl:lib"] = H.raw_target("pl", "lib", ["x%d.in" % i for i in range(k)], [], ["o%d.txt" % i for i in range(k)],
                                             "; ".join("cat x%d.in > o%d.txt" % (i, i) for i in range(k)))
    ws["targets"]["//pa:app"] = H.raw_target("pa", "app", [], ["//pl:lib"], ["app.txt"],
                                             "{ " + "; ".join("echo o%d:; cat ../pl/o%d.txt" % (i, i) for i in range(k)) + "; } > app.txt")
    steps = [bstep(minimal), bstep(minimal)]
    cur = ws
    for _ in range(rng.randint(1, 2)):
        w2 = copy.deepcopy(cur)
        old = [cur["files"]["pl/x%d.in" % i] for i in range(k)]
        for i in range(k):
            w2["files"]["pl/x%d.in" % i] = old[(i + 1) % k]
        steps.append(estep(w2, "rotate the contents of the %d inputs of //pl:lib (its outputs exchange their contents)" % k))
        cur = w2
        steps.append(bstep(minimal))
    return {"ws": ws, "algo": rng.choice(["xxh3", "sha256"]), "steps": steps, "tags": ["swapdep", "oracle-only"] + (["minimal"] if minimal else [])}


# ------------------------------------------------------------------------------------------------
# C01: platform changes between builds over one cache
# ------------------------------------------------------------------------------------------------

PLATFORMS = ["linux/amd64", "linux/arm64", "darwin/arm64"]


def gen_platform(rng):
    """builds for different platforms (`--platform os/arch`) share one cache; about half of the commands read
    $GROG_OS/$GROG_ARCH (compilers, platform-specific downloads); some platform-independent targets carry the
    multiplatform-cache tag, some targets a `platforms` selector that admits every platform used here"""
    ws = H.gen_ws(rng, n=rng.randint(2, 5), split_p=0.0, shared_p=0.0)
    any_plat = False
    for l in order_of(ws):
        t = ws["targets"][l]
        r = rng.random()
        if r < 0.55 and t["outs"]:
            t["usesplat"] = True
            any_plat = True
            if rng.random() < 0.3:
                t["platforms"] = list(PLATFORMS)
        elif r < 0.7 and not t.get("nocache"):
            t["mpc"] = True
    if not any_plat:
        for l in order_of(ws):
            if ws["targets"][l]["outs"]:
                ws["targets"][l]["usesplat"] = True
                ws["targets"][l].pop("mpc", None)
                break
    plats = rng.sample(PLATFORMS, 2)
    ws["platform"] = plats[0]
    cur = ws
    steps = [bstep(platform=cur["platform"])]
    for _ in range(rng.randint(2, 4)):
        r = rng.random()
        if r < 0.6:
            w2 = copy.deepcopy(cur)
            w2["platform"] = [p for p in plats if p != cur["platform"]][0]
            steps.append(estep(w2, "platform := %s (same sources, same cache)" % w2["platform"]))
            cur = w2
            if rng.random() < 0.3:
                e = H.gen_edit(rng, cur, ["content", "salt"])
                if e and H.wf(e[0]):
                    steps.append(estep(e[0], e[2], e[1]))
                    cur = e[0]
        else:
            e = H.gen_edit(rng, cur, ["content", "salt", "fp"])
            if e and H.wf(e[0]):
                steps.append(estep(e[0], e[2], e[1]))
                cur = e[0]
        pats = ["//..."] if rng.random() < 0.75 else [rng.choice(sorted(cur["targets"]))]
        steps.append(bstep(platform=cur["platform"], patterns=pats))
    return {"ws": ws, "algo": rng.choice(["xxh3", "sha256"]), "steps": steps, "tags": ["platform"]}


# ------------------------------------------------------------------------------------------------
# C13: checks-only targets x taint / no-cache / disabled; tainted directory outputs; interrupted builds
# ------------------------------------------------------------------------------------------------

def gen_checksonly(rng, minimal=False):
    """targets WITHOUT inputs and outputs that only carry output checks ("make sure the tool / service is there"), cached and
    no-cache, at the bottom and in the middle of the graph; taints, cache-disabled builds, plain rebuilds"""
    ws = {"targets": {}, "aliases": {}, "files": {}, "links": {}}
    labels = []
    n = rng.randint(3, 5)
    kinds = ["checksonly", "checksonly"] + [rng.choice(["checksonly", "plain", "plain"]) for _ in range(n - 2)]
    rng.shuffle(kinds)
    for i, kind in enumerate(kinds):
        pkg, name = "p%d" % i, "t%d" % i
        deps = [d for d in labels if rng.random() < 0.4]
        if kind == "plain":
            ws["files"]["%s/e%d.txt" % (pkg, i)] = "v%d\n" % rng.randint(0, 99)
            t = mk_target(pkg, name, ["e%d.txt" % i], deps, ["o%d.txt" % i], salt="s%d" % rng.randint(0, 9))
        else:
            flag = "state/%s.flag" % name
            exp = rng.choice([None, "ok\n"])
            t = mk_target(pkg, name, [], deps, [], salt="s%d" % rng.randint(0, 9), nocache=rng.random() < 0.3,
                          checks=[{"flag": flag, "exp": exp, "form": rng.randint(0, 5)}], sets=[[flag, "ok\n"]])
        ws["targets"][H.lab(pkg, name)] = t
        labels.append(H.lab(pkg, name))
    co = [l for l in labels if ws["targets"][l]["checks"]]
    steps = [bstep(minimal), bstep(minimal)]
    for _ in range(rng.randint(2, 4)):
        r = rng.random()
        if r < 0.5:
            x = rng.choice(co)
            pats = [x] if rng.random() < 0.7 else ["//..."]
            steps.append({"k": "taint", "patterns": pats})
            steps.append(bstep(minimal))
            if rng.random() < 0.6:
                steps.append(bstep(minimal))
        elif r < 0.8:
            steps.append(bstep(minimal, enable_cache=False))
            if rng.random() < 0.5:
                steps.append(bstep(minimal))
        else:
            steps.append(bstep(minimal))
    return {"ws": ws, "algo": rng.choice(["xxh3", "sha256"]), "steps": steps, "tags": ["checksonly"] + (["minimal"] if minimal else [])}


def gen_dirtaint(rng, minimal=False):
    """a target with a `dir::` output and a dependant is tainted (alone, with its package, or everything) and reproduces
    identical outputs when it runs again: its dependants must stay cached"""
    ws = H.gen_ws(rng, n=rng.randint(2, 4), dir_p=1.0, split_p=0.0, shared_p=0.0, outless_p=0.0)
    order = order_of(ws)
    for x in order:
        ws["targets"][x]["nocache"] = False
    withdir = [x for x in order[:-1] if any(o["dir"] for o in ws["targets"][x]["outs"])]
    if not withdir:
        x = order[0]
        ws["targets"][x]["outs"].append({"dir": True, "rel": "dist%s" % ws["targets"][x]["name"][1:]})
        withdir = [x]
    x = rng.choice(withdir)
    if not any(x in H.rdeps(ws, y) for y in order):
        later = [y for y in order if order.index(y) > order.index(x)]
        ws["targets"][later[0]]["deps"].append(x)
    steps = [bstep(minimal)]
    if rng.random() < 0.5:
        steps.append(bstep(minimal))
    for _ in range(rng.randint(1, 2)):
        r = rng.random()
        pats = [x] if r < 0.6 else ["//" + ws["targets"][x]["pkg"] + "/..."] if r < 0.8 else ["//..."]
        steps.append({"k": "taint", "patterns": pats})
        steps.append(bstep(minimal))
        steps.append(bstep(minimal))
    return {"ws": ws, "algo": rng.choice(["xxh3", "sha256"]), "steps": steps, "tags": ["dirtaint"] + (["minimal"] if minimal else [])}


def gen_interrupt(rng, minimal=False):
    """`taint X`; a build in which X runs successfully and which is interrupted by SIGINT / SIGTERM while a dependant of X (its
    command edited into a long-running one) is still running; the dependant's edit is reverted; build. The taint of X was consumed
    by its successful execution: the last build executes nothing (apart from no-cache targets)."""
    ws = H.gen_ws(rng, n=rng.randint(2, 4), split_p=0.0, shared_p=0.0, outless_p=0.0, dir_p=0.2)
    order = order_of(ws)
    for l in order:
        ws["targets"][l]["nocache"] = False
    x = rng.choice(order[:-1])
    dependants = [y for y in order if x in H.rdeps(ws, y)]
    if not dependants:
        y = order[order.index(x) + 1]
        ws["targets"][y]["deps"].append(x)
        dependants = [y]
    y = dependants[0]
    steps = [bstep(minimal)]
    if rng.random() < 0.5:
        steps.append(bstep(minimal))
    steps.append({"k": "taint", "patterns": [x]})
    slow = copy.deepcopy(ws)
    slow["targets"][y]["slow"] = 250
    steps.append(estep(slow, "command of %s (now runs for a long time; it depends on the tainted %s)" % (y, x)))
    steps.append(bstep(minimal, interrupt={"when_started": y, "signal": rng.choice(["INT", "TERM"])}))
    steps.append(estep(ws, "command of %s back to the cached version" % y))
    steps.append(bstep(minimal))
    return {"ws": ws, "algo": rng.choice(["xxh3", "sha256"]), "steps": steps,
            "tags": ["interrupt", "oracle-only"] + (["minimal"] if minimal else [])}


# ------------------------------------------------------------------------------------------------
# C15: bin-only tools used through $(bin :tool); `grog run` with sources flipping between versions
# ------------------------------------------------------------------------------------------------

def gen_bintool(rng):
    """tool (ONLY a bin_output, generated from tool.src) <- use (`$(bin :tool) arg > use.txt`) [<- top]. The tool goes v1 -> v2 -> back
    to v1 (cache hit on the tool while the workspace holds another version) together with edits of the dependant; outputs wiped."""
    same_pkg = rng.random() < 0.5
    tp = "pt"
    up = "pt" if same_pkg else "pu"
    v = [rng.randint(0, 49), rng.randint(50, 99)]
    ws = {"targets": {}, "aliases": {}, "links": {},
          "files": {tp + "/tool.src": "%d\n" % v[0], up + "/use.src": "a0\n"}}
    tool = H.raw_target(tp, "tool", ["tool.src"], [], [],
                        "echo '#!/bin/sh' > tool.sh; echo \"echo tool-$(cat tool.src) \\$1\" >> tool.sh; chmod +x tool.sh")
    tool["bin"] = "tool.sh"
    tool["binraw"] = True
    ws["targets"]["//%s:tool" % tp] = tool
    ref = ":tool" if same_pkg else "//pt:tool"
    ws["targets"]["//%s:use" % up] = H.raw_target(up, "use", ["use.src"], ["//%s:tool" % tp], ["use.txt"],
                                                 "$(bin %s) \"$(cat use.src)\" > use.txt" % ref)
    if rng.random() < 0.5:
        ws["targets"]["//px:top"] = H.raw_target("px", "top", [], ["//%s:use" % up], ["top.txt"], "cat ../%s/use.txt > top.txt" % up)
    outs = sorted(H.all_out_paths(ws))
    cur = ws
    n = [0]
    steps = []

    def build():
        steps.append(bstep(patterns=["//..."] if rng.random() < 0.6 else ["//%s:use" % up]))

    def edit(f, c, what, writes=()):
        nonlocal cur
        w2 = copy.deepcopy(cur)
        w2["files"][f] = c
        steps.append(estep(w2, what, writes))
        cur = w2

    def edit_use():
        n[0] += 1
        edit(up + "/use.src", "a%d\n" % n[0], "content of %s/use.src" % up)
    build()
    for _ in range(rng.randint(3, 5)):
        r = rng.random()
        if r < 0.35:
            other = v[1] if cur["files"][tp + "/tool.src"] == "%d\n" % v[0] else v[0]
            edit(tp + "/tool.src", "%d\n" % other, "content of pt/tool.src (a version that %s)" % ("was built before" if len(steps) > 2 else "is new"))
            if rng.random() < 0.6:
                edit_use()
        elif r < 0.65:
            steps.append(estep(cur, "tamper: wipe all declared outputs", [[p, None] for p in outs]))
            edit_use()
        else:
            edit_use()
        build()
    return {"ws": ws, "algo": rng.choice(["xxh3", "sha256"]), "steps": steps, "tags": ["bintool", "oracle-only"]}


def gen_runflip(rng):
    """`grog run //pr:app`: app (bin_output app.sh + data output app.data read by the binary at run time) is generated from
    app.src, which flips between two or three versions: a version that was built before comes back, so the run target is a cache
    hit while the workspace still holds the binary and the data of another version"""
    vs = ["v%d" % rng.randint(0, 30), "v%d" % rng.randint(31, 60), "v%d" % rng.randint(61, 99)]
    ws = {"targets": {}, "aliases": {}, "links": {}, "files": {"pr/app.src": vs[0] + "\n"}}
    app = H.raw_target("pr", "app", ["app.src"], [], ["app.data"],
                       "echo '#!/bin/sh' > app.sh; echo \"echo RUN:app-$(cat app.src) data=\\$(cat \\\"\\$GROG_WORKSPACE_ROOT/pr/app.data\\\")\" >> app.sh; "
                       "chmod +x app.sh; echo \"data-$(cat app.src)\" > app.data")
    app["bin"] = "app.sh"
    app["binraw"] = True
    ws["targets"]["//pr:app"] = app
    cur = ws
    steps = [{"k": "run", "targets": ["//pr:app"], "minimal": False}]
    for _ in range(rng.randint(3, 5)):
        r = rng.random()
        curv = cur["files"]["pr/app.src"].strip()
        if r < 0.8:
            nv = rng.choice([x for x in vs[:rng.choice([2, 3])] if x != curv])
            w2 = copy.deepcopy(cur)
            w2["files"]["pr/app.src"] = nv + "\n"
            steps.append(estep(w2, "content of pr/app.src := %s" % nv))
            cur = w2
        elif r < 0.9:
            steps.append(estep(cur, "tamper: wipe all declared outputs", [["pr/app.sh", None], ["pr/app.data", None]]))
        if rng.random() < 0.25:
            steps.append(bstep(patterns=["//pr:app"]))
        steps.append({"k": "run", "targets": ["//pr:app"], "minimal": False})
    return {"ws": ws, "algo": rng.choice(["xxh3", "sha256"]), "steps": steps, "tags": ["run", "runflip", "oracle-only"]}


def gen_checklost(rng):
    """a cached target with output checks loses the external state its check looks at (with and without its loadable outputs
    being wiped as well); lock-step all / minimal"""
    h = H.gen_history(rng, "checks", nsteps=1)
    ws = H.final_ws(h)
    steps = list(h["steps"])
    cur = ws
    for _ in range(rng.randint(2, 3)):
        own = sorted({c["flag"] for t in cur["targets"].values() for c in t.get("checks", []) if any(c["flag"] == p_ for p_, _ in t.get("sets", []))})
        ext = sorted({c["flag"] for t in cur["targets"].values() for c in t.get("checks", [])} - set(own))
        if not own and not ext:
            break
        # mostly conditions the target's own command re-establishes (the forced run then succeeds and is cached again)
        f = rng.choice(own) if own and (not ext or rng.random() < 0.75) else rng.choice(ext)
        keep = cur["files"].get(f)
        w2 = copy.deepcopy(cur)
        w2["files"].pop(f, None)
        writes = [[f, None]]
        what = "destroy external condition %s" % f
        if rng.random() < 0.4:
            writes += [[p, None] for p in sorted(H.all_out_paths(cur))]
            what += " and wipe all declared outputs"
        steps.append(estep(w2, what, writes))
        cur = w2
        steps.append(bstep())
        if rng.random() < 0.5:
            steps.append(bstep())
        if f in ext and keep is not None:
            w3 = copy.deepcopy(cur)
            w3["files"][f] = keep
            steps.append(estep(w3, "establish external condition %s" % f))
            cur = w3
            steps.append(bstep())
    h2 = dict(h, steps=steps)
    h2["tags"] = ["checklost"]
    return h2


# ------------------------------------------------------------------------------------------------
# C14: commands that break the condition their own check tests, multi-line expected outputs with extra lines,
#      no-cache leaves that do not create a declared output
# ------------------------------------------------------------------------------------------------

def is_leaf(ws, l):
    """nothing (no target, no alias) depends on l"""
    return not any(l in H.rdeps(ws, y) for y in ws["targets"]) and not any(H.resolve_alias(ws, a) == l for a in ws["aliases"])


def gen_post(rng, minimal=False):
    """output checks with multi-line `expected_output`; the checked state gains an extra line (from outside, or written by the
    target's own command); a target that runs for another reason (edited command, taint, no-cache) while its checks pass
    beforehand and whose command itself breaks the checked condition; a no-cache target nobody depends on whose command stops
    creating one of its declared outputs"""
    ws = H.gen_ws(rng, n=rng.randint(2, 4), split_p=0.0, shared_p=0.0, outless_p=0.0, link_p=0.0)
    for l in order_of(ws):
        t = ws["targets"][l]
        t["nocache"] = False
        if rng.random() < 0.75:
            flag = "ext/%s.flag" % t["name"]
            exp = rng.choice(["ok\n", "status: ready\nreplicas: 3\n", "a\nb\nc\n"])
            t["checks"] = [{"flag": flag, "exp": exp, "form": rng.randint(0, 5)}]
            if rng.random() < 0.5:
                t["sets"] = [[flag, exp]]
            else:
                ws["files"][flag] = exp
    if not any(t["checks"] and not t["sets"] for t in ws["targets"].values()):
        l = order_of(ws)[0]
        t = ws["targets"][l]
        flag = "ext/%s.flag" % t["name"]
        t["checks"] = [{"flag": flag, "exp": "status: ready\nreplicas: 3\n", "form": rng.randint(0, 5)}]
        t["sets"] = []
        ws["files"][flag] = "status: ready\nreplicas: 3\n"
    steps = [bstep(minimal)]
    if rng.random() < 0.5:
        steps.append(bstep(minimal))
    cur = ws

    def pats(l):
        return [l] if rng.random() < 0.4 else ["//..."]
    for _ in range(rng.randint(2, 4)):
        r = rng.random()
        checked = [l for l in order_of(cur) if cur["targets"][l]["checks"]]
        external = [l for l in checked if not cur["targets"][l]["sets"]]
        if r < 0.35 and checked:
            # the checked state gains a line: the check must fail now
            l = rng.choice(checked)
            c = cur["targets"][l]["checks"][0]
            more = c["exp"] + rng.choice(["degraded: true\n", "x\n", "warning: rollback in progress\n"])
            if l in external:
                w2 = copy.deepcopy(cur)
                w2["files"][c["flag"]] = more
                steps.append(estep(w2, "external condition %s gains a line (spoil)" % c["flag"]))
                steps.append(bstep(minimal, patterns=pats(l)))
                steps.append(estep(cur, "establish external condition %s" % c["flag"]))
                steps.append(bstep(minimal))
            else:
                steps.append(estep(cur, "external condition %s gains a line (spoil; raw)" % c["flag"], [[c["flag"], more]]))
                steps.append(bstep(minimal, patterns=pats(l)))
                if rng.random() < 0.5:
                    steps.append(bstep(minimal))
        elif r < 0.7 and external:
            # the command breaks the condition its own check tests; it runs because its command changed / it is tainted
            l = rng.choice(external)
            c = cur["targets"][l]["checks"][0]
            bad = rng.choice(["no\n", c["exp"] + "error: quota exceeded\n", c["exp"].split("\n")[0] + "\n" if c["exp"].count("\n") > 1 else "down\n"])
            w2 = copy.deepcopy(cur)
            w2["targets"][l]["sets"] = [[c["flag"], bad]]
            if rng.random() < 0.3:
                w2["targets"][l]["nocache"] = True
            steps.append(estep(w2, "command of %s now overwrites the state its own check tests (%s)" % (l, c["flag"])))
            steps.append(bstep(minimal, patterns=pats(l)))
            if rng.random() < 0.5:
                # once more with the condition re-established from outside: the checks pass beforehand, the target runs because it
                # was never cached / is tainted
                steps.append(estep(w2, "establish external condition %s (raw)" % c["flag"], [[c["flag"], c["exp"]]]))
                if rng.random() < 0.5:
                    steps.append({"k": "taint", "patterns": [l]})
                steps.append(bstep(minimal, patterns=pats(l)))
            steps.append(estep(cur, "command of %s back; establish external condition %s (raw)" % (l, c["flag"]), [[c["flag"], c["exp"]]]))
            steps.append(bstep(minimal))
        else:
            leaves = [l for l in order_of(cur) if is_leaf(cur, l) and cur["targets"][l]["outs"] and not cur["targets"][l].get("split")]
            if not leaves:
                continue
            l = rng.choice(leaves)
            t = cur["targets"][l]
            o = rng.choice(t["outs"])
            w2 = copy.deepcopy(cur)
            w2["targets"][l]["nocache"] = True
            w2["targets"][l]["skip"] = [o["rel"]]
            steps.append(estep(w2, "%s becomes no-cache (nothing depends on it) and stops writing %s%s, which is deleted" %
                               (l, "dir::" if o["dir"] else "", o["rel"]), [[H.out_path(t, o), None]]))
            steps.append(bstep(minimal, patterns=pats(l)))
            if rng.random() < 0.5:
                w3 = copy.deepcopy(w2)
                w3["targets"][l]["skip"] = []
                steps.append(estep(w3, "%s writes all outputs again" % l))
                cur = w3
                steps.append(bstep(minimal))
            else:
                steps.append(estep(cur, "%s cached again, writes all outputs again" % l))
                steps.append(bstep(minimal))
    return {"ws": ws, "algo": rng.choice(["xxh3", "sha256"]), "steps": steps, "tags": ["post"] + (["minimal"] if minimal else [])}


# ------------------------------------------------------------------------------------------------
# replay of the round-c oracles
# ------------------------------------------------------------------------------------------------

def interrupted_taints(hist, real):
    """-> [(build, target)]: tainted targets executed in an interrupted build, with a dependant started afterwards, whose marker is
    still there after that build"""
    out = []
    for b in H.walk(hist, real):
        if b["step"].get("interrupt"):
            pex = set(b["obs"]["executed"])
            for l in sorted(set(b["obs"]["pre_tainted"]) & pex):
                if any(l in H.rdeps(b["ws"], y) for y in pex if y in b["ws"]["targets"]) and l in b["obs"]["tainted"]:
                    out.append((b["n"], l))
    return out


def replay_oracles(ctx, rep):
    """re-run the history of a replay file against the real binary and evaluate the round-c oracles; 1 = reproduced"""
    h = rep.get("history")
    grog = ctx.grog_binary()
    if not h or not grog:
        return 0
    real = H.run_real(grog, h, ctx.scratch("replay2"))
    for line in H.describe(h):
        print("  ", line)
    rc = 0
    for b in H.walk(h, real):
        o = b["obs"]
        print("build %d: ok=%s executed=%s tainted-after=%s" % (b["n"], o["ok"], sorted(o["executed"]), o["tainted"]))
        if o["ok"] and b["step"]["k"] == "build":
            for l in sorted(failing_prechecks(b["ws"], o["pre"]) & set(H.selected(b["ws"], b["step"]["patterns"]))):
                if l not in o["executed"]:
                    print("  ORACLE: the output check of %s failed before build %d but the target was not executed" % (l, b["n"]))
                    rc = 1
    for f in unbuilt_state_hits(h, real):
        print("  ORACLE: build %d did not execute %s although %s" % (f["build"], f["target"], f["why"]))
        rc = 1
    for f in pending_taint_misses(h, real):
        print("  ORACLE: build %d did not execute %s although it was tainted and has not been executed successfully since" % (f["build"], f["target"]))
        rc = 1
    if set(h.get("tags", [])) & {"bincut", "spell"}:
        for f in rebuilt_state_executions(h, real):
            print("  ORACLE: build %d executed %s although the previous build left a result for exactly this state" % (f["build"], f["target"]))
            rc = 1
    for n, l in interrupted_taints(h, real):
        print("  ORACLE: %s ran successfully in the interrupted build %d (a dependant was started) but is still tainted" % (l, n))
        rc = 1
    return rc


# ================================================================================================
# Round d (fourth mutation round)
# ================================================================================================

def pending_taint_misses(hist, real):
    """Model-independent (the C13 rule, used by C02 as part of "executed set = predicted set"): a dependency-free target that was
    tainted by `grog taint` and has not been executed SUCCESSFULLY since (its command failed, a check failed, an output was
    missing) is still distrusted: every build that selects it must execute it. -> [{build, target}]"""
    pending = set()
    fails = []
    for b in H.walk(hist, real):
        o, ws, s = b["obs"], b["ws"], b["step"]
        if s["k"] != "build":
            continue
        sel = H.selected(ws, s["patterns"])
        ex = set(o["executed"])
        pending |= set(H.matched_targets(ws, b["taints_since"]))
        pending &= set(ws["targets"])
        if s.get("interrupt"):
            pending -= ex
            continue
        if s.get("fail_fast") and not o["ok"]:
            continue
        for l in sorted(pending & set(sel)):
            t = ws["targets"][l]
            if H.rdeps(ws, l):
                continue
            if l not in ex:
                fails.append({"build": b["n"], "target": l})
                pending.discard(l)
            elif t.get("beh", 0) == 0 and not (t.get("failif") and o["pre"].get(t["failif"]) is not None) \
                    and all(H.check_holds(c, o["fs"]) for c in t.get("checks", [])) \
                    and all(o["fs"].get(H.out_path(t, op)) is not None for op in H.all_outs(t)):
                pending.discard(l)
    return fails


def rebuilt_state_executions(hist, real, minimal_of=None):
    """Model-independent early cut-off / no-op oracle. Between two consecutive successful cache-enabled builds: a target that is
    neither no-cache nor tainted nor has a failing output check, whose own state is unchanged and every direct dependency of which
    has declared outputs (incl. bin_output) carrying byte-identical contents after both builds, has a result for exactly this state
    in the cache (the previous build made or used it): it must be restored, not executed. -> [{build, target}]"""
    fails = []
    if any(s["k"] == "drop" for s in hist["steps"]):
        return fails
    for b in H.walk(hist, real):
        o, ws, s, prev = b["obs"], b["ws"], b["step"], b["prev"]
        if s["k"] != "build" or prev is None or prev["step"]["k"] != "build":
            continue
        if not (o["ok"] and prev["obs"]["ok"] and s.get("enable_cache", True) and prev["step"].get("enable_cache", True)):
            continue
        if b["taints_since"] or s.get("interrupt") or prev["step"].get("interrupt"):
            continue
        pws, po = prev["ws"], prev["obs"]
        psel = set(H.selected(pws, prev["step"]["patterns"]))
        minimal = s.get("minimal", False) if minimal_of is None else minimal_of(s)
        failing = failing_prechecks(ws, o["pre"])
        ex, pex = set(o["executed"]), set(po["executed"])
        for l in sorted(ex):
            t = ws["targets"].get(l)
            if t is None or l not in pws["targets"] or l not in psel or t.get("nocache") or l in failing or l in o["pre_tainted"]:
                continue
            deps = H.rdeps(ws, l)
            if deps != H.rdeps(pws, l):
                continue
            if any(not H.all_outs(ws["targets"][d]) or not H.all_outs(pws["targets"][d])
                   or bool(ws["targets"][d].get("nocache")) != bool(pws["targets"][d].get("nocache")) for d in deps):
                continue
            if minimal and any(d not in ex or d not in pex for d in deps):
                continue
            if own_state(ws, l, s) == own_state(pws, l, prev["step"]) and dep_state(ws, l, o["fs"]) == dep_state(pws, l, po["fs"]):
                fails.append({"build": b["n"], "target": l})
    return fails


def gen_taintfail2(rng, minimal=False):
    """`grog taint X`, then builds in which the command of X FAILS for a reason outside its key (an external flag file), then the
    cause is removed: X has to run in every one of these builds and once more afterwards; then nothing runs"""
    ws = H.gen_ws(rng, n=rng.randint(2, 4), split_p=0.0, shared_p=0.0, outless_p=0.0, link_p=0.0)
    order = order_of(ws)
    for l in order:
        ws["targets"][l]["nocache"] = False
    roots = [l for l in order if not H.rdeps(ws, l)]
    x = rng.choice(roots)
    flag = "ext/fail_%s.flag" % ws["targets"][x]["name"]
    ws["targets"][x]["failif"] = flag
    steps = [bstep(minimal)]
    if rng.random() < 0.5:
        steps.append(bstep(minimal))
    for _ in range(rng.randint(1, 2)):
        r = rng.random()
        pats = [x] if r < 0.6 else ["//" + ws["targets"][x]["pkg"] + "/..."] if r < 0.8 else ["//..."]
        steps.append({"k": "taint", "patterns": pats})
        steps.append(estep(ws, "the command of %s fails from now on (external file %s exists; its key is unchanged)" % (x, flag), [[flag, "1\n"]]))
        steps.append(bstep(minimal))
        if rng.random() < 0.3:
            steps.append(bstep(minimal))
        steps.append(estep(ws, "the cause of the failure of %s is removed (%s deleted)" % (x, flag), [[flag, None]]))
        steps.append(bstep(minimal))
        steps.append(bstep(minimal))
    return {"ws": ws, "algo": rng.choice(["xxh3", "sha256"]), "steps": steps, "tags": ["taintfail2", "oracle-only"] + (["minimal"] if minimal else [])}


def respell(rng, ws, p=0.6):
    """declare file outputs with non-canonical but legal package-relative paths: ./x, d//x, d/./x"""
    n = 0
    for l in order_of(ws):
        t = ws["targets"][l]
        if t.get("split"):
            continue
        for o in t["outs"]:
            if o["dir"] or rng.random() >= p:
                continue
            rel = o["rel"]
            forms = ["./" + rel]
            if "/" in rel:
                forms += [rel.replace("/", "//", 1), rel.replace("/", "/./", 1)]
            o["rel"] = rng.choice(forms)
            n += 1
    return n


def gen_spell(rng, minimal=False):
    """outputs declared as `./gen.txt`, `dist//notes.txt`, `dist/./notes.txt` (with dependants reading them); ordinary histories"""
    for _ in range(10):
        ws = H.gen_ws(rng, n=rng.randint(2, 4), split_p=0.0, shared_p=0.0, link_p=0.0, outless_p=0.0, dir_p=0.15)
        if respell(rng, ws) >= 1:
            break
    steps = [bstep(minimal), bstep(minimal)]
    cur = ws
    for _ in range(rng.randint(1, 3)):
        r = rng.random()
        if r < 0.3:
            tp = H.gen_tamper(rng, cur, kinds=("delete", "modify"), prefer_dirs=0.0)
            if tp:
                steps.append(estep(cur, "tamper: " + tp[1], tp[0]))
                steps.append(bstep(minimal))
                continue
        e = H.gen_edit(rng, cur, ["content", "salt", "fp"])
        if e and H.wf(e[0]):
            steps.append(estep(e[0], e[2], e[1]))
            cur = e[0]
            steps.append(bstep(minimal))
            if rng.random() < 0.5:
                steps.append(bstep(minimal))
    return {"ws": ws, "algo": rng.choice(["xxh3", "sha256"]), "steps": steps, "tags": ["spell"] + (["minimal"] if minimal else [])}


def gen_bincut(rng, minimal=False):
    """tool (ONLY a bin_output; its command strips the comment lines of tool.src) <- use_tool [<- top]; lib (regular output, same
    stripping) <- use_lib as control. Edits of comment lines re-execute tool / lib with byte-identical outputs: their dependants
    must be cut off; edits of code lines and of the data must not be."""
    ws = {"targets": {}, "aliases": {}, "links": {},
          "files": {"pk/tool.src": "# tool, revision 1\nwc -l < \"$1\"\n", "pk/lib.src": "# lib, revision 1\nlib line\n", "pk/data.txt": "one\ntwo\n"}}
    tool = H.raw_target("pk", "tool", ["tool.src"], [], [], "{ echo '#!/bin/sh'; grep -v '^#' tool.src; } > tool.sh")
    tool["bin"] = "tool.sh"
    ws["targets"]["//pk:tool"] = tool
    ws["targets"]["//pk:use_tool"] = H.raw_target("pk", "use_tool", ["data.txt"], ["//pk:tool"], ["use_tool.out"], "$(bin :tool) data.txt > use_tool.out")
    ws["targets"]["//pk:lib"] = H.raw_target("pk", "lib", ["lib.src"], [], ["lib.txt"], "grep -v '^#' lib.src > lib.txt")
    ws["targets"]["//pk:use_lib"] = H.raw_target("pk", "use_lib", ["data.txt"], ["//pk:lib"], ["use_lib.out"], "cat lib.txt data.txt > use_lib.out")
    if rng.random() < 0.5:
        ws["targets"]["//pt:top"] = H.raw_target("pt", "top", [], ["//pk:use_tool", "//pk:use_lib"], ["top.txt"],
                                                 "cat ../pk/use_tool.out ../pk/use_lib.out > top.txt")
    steps = [bstep(minimal), bstep(minimal)]
    cur = ws
    rev = [1]

    def edit(f, fn, what):
        nonlocal cur
        w2 = copy.deepcopy(cur)
        w2["files"][f] = fn(cur["files"][f])
        steps.append(estep(w2, what))
        cur = w2
    for _ in range(rng.randint(2, 4)):
        r = rng.random()
        rev[0] += 1
        which = rng.choice(["tool", "lib"])
        f = "pk/%s.src" % which
        if r < 0.6:
            edit(f, lambda c: "# %s, revision %d\n" % (which, rev[0]) + c.split("\n", 1)[1],
                 "comment line of %s (the output of //pk:%s is reproduced byte for byte)" % (f, which))
        elif r < 0.8:
            edit(f, lambda c: c + ("echo extra%d\n" % rev[0] if which == "tool" else "more%d\n" % rev[0]), "code line added to %s" % f)
        else:
            edit("pk/data.txt", lambda c: c + "line%d\n" % rev[0], "content of pk/data.txt")
        steps.append(bstep(minimal))
        if rng.random() < 0.3:
            steps.append(bstep(minimal))
    return {"ws": ws, "algo": rng.choice(["xxh3", "sha256"]), "steps": steps, "tags": ["bincut", "oracle-only"] + (["minimal"] if minimal else [])}


def gen_overrun(rng, minimal=False):
    """a command with a `timeout` that overruns it and exits 0 when it is asked to terminate (`trap 'exit 0' TERM`): the target has
    failed (it did not finish within its timeout) and nothing may be cached; triggered by an edit, a taint or the no-cache tag"""
    ws = H.gen_ws(rng, n=rng.randint(2, 3), split_p=0.0, shared_p=0.0, outless_p=0.0, link_p=0.0)
    for l in order_of(ws):
        ws["targets"][l]["nocache"] = False
    steps = [bstep(minimal)]
    cur = ws
    for _ in range(rng.randint(1, 2)):
        l = rng.choice(order_of(cur))
        w2 = copy.deepcopy(cur)
        w2["targets"][l]["beh"] = 7
        if rng.random() < 0.3:
            w2["targets"][l]["nocache"] = True
        steps.append(estep(w2, "behaviour of %s := 7 (overruns its 300ms timeout, exits 0 on SIGTERM)" % l))
        if rng.random() < 0.3:
            steps.append({"k": "taint", "patterns": [l]})
        steps.append(bstep(minimal, patterns=[l] if rng.random() < 0.5 else ["//..."]))
        if rng.random() < 0.5:
            steps.append(bstep(minimal))        # nothing was cached: it runs (and fails) again
        steps.append(estep(cur, "behaviour of %s := 0 again" % l))
        steps.append(bstep(minimal))
    return {"ws": ws, "algo": rng.choice(["xxh3", "sha256"]), "steps": steps, "tags": ["overrun"] + (["minimal"] if minimal else [])}


def gen_selfcheck(rng):
    """output checks that look at the target's OWN declared output (`test -f <output>`: a stamp / version file standing for external
    state): established -> cached -> the output is deleted (alone, or with every other output): the failing check must force the
    execution although the cache could restore the file. Mode all only (under minimal a cache hit does not materialise the file)."""
    ws = H.gen_ws(rng, n=rng.randint(2, 4), split_p=0.0, shared_p=0.0, outless_p=0.0, link_p=0.0, stamp_p=0.5)
    chosen = []
    for l in order_of(ws):
        t = ws["targets"][l]
        t["nocache"] = False
        fo = [o for o in t["outs"] if not o["dir"]]
        if fo and (rng.random() < 0.7 or not chosen):
            o = rng.choice(fo)
            t["checks"] = [{"flag": H.out_path(t, o), "exp": None, "form": rng.randint(0, 5)}]
            chosen.append(l)
    steps = [bstep(), bstep()]
    cur = ws
    for _ in range(rng.randint(2, 3)):
        l = rng.choice(chosen)
        t = cur["targets"][l]
        f = t["checks"][0]["flag"]
        r = rng.random()
        if r < 0.5:
            steps.append(estep(cur, "tamper: delete %s (the file the output check of %s looks at)" % (f, l), [[f, None]]))
        elif r < 0.8:
            steps.append(estep(cur, "tamper: wipe all declared outputs", [[p, None] for p in sorted(H.all_out_paths(cur))]))
        else:
            e = H.gen_edit(rng, cur, ["content", "salt"])
            if e and H.wf(e[0]):
                steps.append(estep(e[0], e[2], e[1]))
                cur = e[0]
        steps.append(bstep(patterns=[l] if rng.random() < 0.3 else ["//..."]))
        if rng.random() < 0.4:
            steps.append(bstep())
    return {"ws": ws, "algo": rng.choice(["xxh3", "sha256"]), "steps": steps, "tags": ["selfcheck", "oracle-only"]}


def gen_bintool2(rng):
    """tool with ONLY a bin_output whose command does not chmod it (`cp tool.src tool.sh`: grog marks bin outputs executable), used
    through $(bin :tool); the CAS blob of the tool is lost and the workspace is a fresh checkout while the dependant is edited: the
    tool has to be re-created (mode all: by its own task; mode minimal: when the dependant loads it). sha256 workspaces."""
    same_pkg = rng.random() < 0.5
    up = "pt" if same_pkg else "pu"
    ws = {"targets": {}, "aliases": {}, "links": {},
          "files": {"pt/tool.src": "#!/bin/sh\necho \"tool-%d says $1\"\n" % rng.randint(0, 99), up + "/use.src": "a0\n"}}
    tool = H.raw_target("pt", "tool", ["tool.src"], [], [], "cp tool.src tool.sh")
    tool["bin"] = "tool.sh"
    ws["targets"]["//pt:tool"] = tool
    ws["targets"]["//%s:use" % up] = H.raw_target(up, "use", ["use.src"], ["//pt:tool"], ["use.txt"],
                                                 "$(bin %s) \"$(cat use.src)\" > use.txt" % (":tool" if same_pkg else "//pt:tool"))
    if rng.random() < 0.4:
        ws["targets"]["//px:top"] = H.raw_target("px", "top", [], ["//%s:use" % up], ["top.txt"], "cat ../%s/use.txt > top.txt" % up)
    outs = sorted(H.all_out_paths(ws))
    cur = ws
    n = [0]
    steps = [bstep()]

    def edit_use():
        nonlocal cur
        n[0] += 1
        w2 = copy.deepcopy(cur)
        w2["files"][up + "/use.src"] = "a%d\n" % n[0]
        steps.append(estep(w2, "content of %s/use.src" % up))
        cur = w2
    for _ in range(rng.randint(2, 3)):
        r = rng.random()
        if r < 0.7:
            steps.append({"k": "drop", "path": "pt/tool.sh"})
            if rng.random() < 0.8:
                steps.append(estep(cur, "tamper: wipe all declared outputs", [[p, None] for p in outs]))
            else:
                steps.append(estep(cur, "tamper: delete pt/tool.sh", [["pt/tool.sh", None]]))
            edit_use()
        elif r < 0.85:
            steps.append(estep(cur, "tamper: wipe all declared outputs", [[p, None] for p in outs]))
            edit_use()
        else:
            edit_use()
        steps.append(bstep(patterns=["//..."] if rng.random() < 0.5 else ["//%s:use" % up]))
    return {"ws": ws, "algo": "sha256", "steps": steps, "tags": ["bintool", "bintool-lostblob", "oracle-only"]}


def gen_ncdep(rng):
    """a NO-CACHE dependant of a cacheable dependency: the dependency goes v1 -> v2 -> v1 (cache hit on v1 while the workspace holds
    v2) or the workspace is a fresh checkout; the no-cache target runs in every build and must see the current dependency outputs"""
    ws = H.gen_ws(rng, n=rng.randint(2, 4), split_p=0.0, shared_p=0.0, outless_p=0.0, link_p=0.0)
    order = order_of(ws)
    for l in order:
        ws["targets"][l]["nocache"] = False
    cands = [x for x in order[:-1] if H.src_files_of(ws, x)]
    x = rng.choice(cands) if cands else order[0]
    if not H.src_files_of(ws, x):
        i = ws["targets"][x]["name"][1:]
        ws["targets"][x]["globs"].append("e%s.txt" % i)
        ws["files"]["%s/e%s.txt" % (ws["targets"][x]["pkg"], i)] = "v0\n"
    ys = [y for y in order if x in H.rdeps(ws, y)]
    if not ys:
        y = order[order.index(x) + 1]
        ws["targets"][y]["deps"].append(x)
        ys = [y]
    y = ys[0]
    ws["targets"][y]["nocache"] = True
    src = H.real_path(ws, H.src_files_of(ws, x)[0])
    v1 = ws
    steps = []

    def build():
        steps.append(bstep(patterns=[y] if rng.random() < 0.5 else ["//..."]))
    build()
    cur = v1
    for _ in range(rng.randint(2, 3)):
        r = rng.random()
        if r < 0.6:
            v2 = copy.deepcopy(cur)
            v2["files"][src] = "w%d\n" % rng.randint(100, 999)
            steps.append(estep(v2, "content of %s (input of %s, the cached dependency of the no-cache %s)" % (src, x, y)))
            build()
            steps.append(estep(cur, "content of %s back to the version built before" % src))
            build()
        else:
            steps.append(estep(cur, "tamper: wipe all declared outputs", [[p, None] for p in sorted(H.all_out_paths(cur))]))
            build()
    return {"ws": ws, "algo": rng.choice(["xxh3", "sha256"]), "steps": steps, "tags": ["ncdep"]}


def gen_testcmd(rng, minimal=False):
    """`grog test` next to `grog build`: libraries with tests (target names ending in `test`; a test step selects the tests and their
    dependency closure, a build step the other targets), the cache disabled in each of the three ways the setting can be given:
    --enable-cache=false, GROG_ENABLE_CACHE=false, `enable_cache = false` in grog.toml"""
    algo = rng.choice(["xxh3", "sha256"])
    ws = {"targets": {}, "aliases": {}, "files": {}, "links": {}}
    tests, others = [], []
    for i in range(rng.randint(1, 2)):
        pkg = "p%d" % i
        ws["files"]["%s/e%d.txt" % (pkg, i)] = "v%d\n" % rng.randint(0, 99)
        ws["files"]["%s/t%d.txt" % (pkg, i)] = "v%d\n" % rng.randint(0, 99)
        lib = H.lab(pkg, "lib%d" % i)
        ws["targets"][lib] = mk_target(pkg, "lib%d" % i, ["e%d.txt" % i], [others[0]] if others and rng.random() < 0.5 else [], ["o%d.txt" % i],
                                       salt="s%d" % rng.randint(0, 9))
        others.append(lib)
        tl = H.lab(pkg, "lib%d_test" % i)
        ws["targets"][tl] = mk_target(pkg, "lib%d_test" % i, ["t%d.txt" % i], [lib], ["r%d.txt" % i] if rng.random() < 0.5 else [],
                                      salt="s%d" % rng.randint(0, 9))
        tests.append(tl)
    if rng.random() < 0.6:
        ws["targets"]["//pz:app"] = mk_target("pz", "app", [], [others[0]], ["app.txt"])
        others.append("//pz:app")
    toml_on = 'hash_algorithm = "%s"\n' % algo
    toml_off = toml_on + "enable_cache = false\n"
    cur = ws

    def st(cmd, **kw):
        return bstep(minimal, cmd=cmd, patterns=sorted(tests) if cmd == "test" else sorted(others), **kw)
    steps = [st("test"), st("build"), st("test")]
    for _ in range(rng.randint(3, 4)):
        cmd = rng.choice(["test", "test", "build"])
        way = rng.choice(["flag", "env", "toml"])
        if rng.random() < 0.3:
            w2 = copy.deepcopy(cur)
            if rng.random() < 0.6:
                f = rng.choice(sorted(w2["files"]))
                w2["files"][f] = "w%d\n" % rng.randint(100, 999)
                steps.append(estep(w2, "content of %s" % f))
            else:
                l = rng.choice(sorted(w2["targets"]))
                w2["targets"][l]["salt"] = "s%d" % rng.randint(10, 99)
                steps.append(estep(w2, "command of %s" % l))
            cur = w2
        if way == "toml":
            steps.append(estep(cur, "grog.toml: enable_cache = false", [["grog.toml", toml_off]]))
        steps.append(st(cmd, enable_cache=False, disable_via=way))
        if way == "toml":
            steps.append(estep(cur, "grog.toml: enable_cache back to the default", [["grog.toml", toml_on]]))
        if rng.random() < 0.6:
            steps.append(st(rng.choice(["test", "build"])))
            if rng.random() < 0.5:
                steps.append(st("test"))
    return {"ws": ws, "algo": algo, "steps": steps, "tags": ["testcmd", "oracle-only"] + (["minimal"] if minimal else [])}


def gen_bigout(rng, minimal=False):
    """a NO-CACHE target (root or middle of the graph) rewrites a 9 MiB file output in every build; its cached dependants must stay
    cached while the bytes are the same, and re-run when they really change"""
    has_gen = rng.random() < 0.6
    ws = {"targets": {}, "aliases": {}, "links": {}, "files": {"pg/gen.in": "payload%d\n" % rng.randint(0, 99), "pp/pack.in": "p%d\n" % rng.randint(0, 99)}}
    if has_gen:
        ws["targets"]["//pg:gen"] = H.raw_target("pg", "gen", ["gen.in"], [], ["gen.out"], "tr a-z A-Z < gen.in > gen.out")
    ws["targets"]["//pp:pack"] = H.raw_target("pp", "pack", ["pack.in"], ["//pg:gen"] if has_gen else [], ["pack.bin"],
                                              "{ cat pack.in" + (" ../pg/gen.out" if has_gen else "") + "; head -c 9437184 /dev/zero; } > pack.bin", nocache=True)
    ws["targets"]["//ps:sum"] = H.raw_target("ps", "sum", [], ["//pp:pack"], ["sum.out"], "cksum < ../pp/pack.bin > sum.out")
    if rng.random() < 0.5:
        ws["targets"]["//pr:report"] = H.raw_target("pr", "report", [], ["//ps:sum"], ["report.out"], "sed 's/^/sum: /' ../ps/sum.out > report.out")
    steps = [bstep(minimal), bstep(minimal), bstep(minimal)]
    cur = ws
    for _ in range(rng.randint(1, 2)):
        r = rng.random()
        if r < 0.4:
            f = "pg/gen.in" if has_gen and rng.random() < 0.5 else "pp/pack.in"
            w2 = copy.deepcopy(cur)
            w2["files"][f] = "changed%d\n" % rng.randint(100, 999)
            steps.append(estep(w2, "content of %s (pack.bin really changes)" % f))
            cur = w2
            steps.append(bstep(minimal))
        elif r < 0.7 and has_gen:
            steps.append({"k": "taint", "patterns": ["//pg:gen"]})
            steps.append(bstep(minimal))
        else:
            steps.append(bstep(minimal, enable_cache=False))
            steps.append(bstep(minimal))
        steps.append(bstep(minimal))
    return {"ws": ws, "algo": rng.choice(["xxh3", "sha256"]), "steps": steps, "tags": ["bigout", "oracle-only"] + (["minimal"] if minimal else [])}
