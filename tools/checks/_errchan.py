"""placeholder until the restore harness exists"""
def run(ctx):
    pass
