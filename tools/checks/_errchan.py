"""Directory-restore part of C04: the real DirectoryOutputHandler.Load over a real FileSystemCache behind a
fault-injecting backend, for every pattern of unreadable blobs on generated trees; compared with the outcome the
ErrChan model predicts for the current code (non-blocking send into a channel of capacity 1) and checked against the
model-independent oracle: Load returns; it returns an error iff some blob was unreadable; on success every file is back."""
import itertools, os, shutil


def trees(rng, quick):
    out = [["a.txt"],                                   # flat, one file (the observed hang)
           ["a.txt", "b.txt", "c.txt"],                 # flat, several files, no child directory
           ["a.txt", "s/b.txt", "s/c.txt"],             # one child directory
           ["s/t/u/deep.txt"],                          # depth 3, files only at the bottom
           ["x.txt", "s/y.txt", "s/t/z.txt", "r/w.txt"]]
    for _ in range(3 if quick else 25):
        files = []
        for i in range(rng.randint(1, 6)):
            depth = rng.randint(0, 3)
            files.append("/".join([rng.choice("pqr") for _ in range(depth)] + [f"f{i}.txt"]))
        out.append(files)
    return out


def run(ctx):
    quick = ctx.tier == "quick"
    base = ctx.scratch("restore")
    reqs, meta = [], []
    k = 0
    for files in trees(ctx.rng, quick):
        subsets = []
        for r in range(len(files) + 1):
            subsets += list(itertools.combinations(files, r))
        if len(subsets) > (16 if quick else 64):
            subsets = [s for s in subsets if len(s) <= 1 or len(s) == len(files)] + ctx.rng.sample(subsets, 8)
        for miss in subsets:
            k += 1
            reqs.append({"op": "restore.load", "dir": os.path.join(base, str(k)), "files": files, "missing": list(miss), "timeoutMs": 4000})
            meta.append((files, list(miss)))
    # a later failure of the same restore: one blob fails at once, another one 150 ms later (every ordered pair on small trees)
    for files in trees(ctx.rng, quick)[:5]:
        pairs = [(a, b) for a in files for b in files if a != b]
        for a, b in pairs[:6]:
            k += 1
            reqs.append({"op": "restore.load", "dir": os.path.join(base, str(k)), "files": files, "missing": [a], "missingSlow": [b], "timeoutMs": 4000})
            meta.append((files, [a, b]))
    impl = ctx.impl(reqs)
    if impl is None:
        return
    if any("driver died" in str(x.get("error", "")) or "no reply" in str(x.get("error", "")) for x in impl):
        # the driver process died (panic in a goroutine / runtime fatal error): find the request that kills it
        impl2 = []
        for rq, x in zip(reqs, impl):
            if "error" in x and "no reply" in str(x["error"]):
                one = ctx.impl([rq])[0]
                if "error" in one and "no reply" in str(one["error"]):
                    one = {"outcome": "crash", "stderr": one.get("stderr", "")[-2500:]}
                x = one
            impl2.append(x)
        impl = impl2
    model = ctx.model([{"op": "errchan.outcome", "nOk": len(f) - len(m), "nFail": len(m), "cap": 1, "drop": True} for f, m in meta])
    hangs = errs = oks = 0
    bad = []
    for rq, (files, miss), x, y in zip(reqs, meta, impl, model):
        o = x.get("outcome")
        if o == "crash":
            first = next((l for l in x.get("stderr", "").splitlines() if l.startswith(("panic:", "fatal error:"))), "process died")
            ctx.violation(f"the process dies during a directory restore with {len(miss)} unreadable blobs of {len(files)}: {first}",
                          {"kind": "oracle", "oracle": "no internal crash during a restore", "request": rq, "impl": x},
                          signature="restore-crash:" + first.split(":", 1)[-1].strip().replace(" ", "-")[:60])
            continue
        if o == "hang":
            hangs += 1
            dirs = {os.path.dirname(f) for f in files if os.path.dirname(f)}
            ctx.violation(f"DirectoryOutputHandler.Load does not return when {len(miss)} of {len(files)} blobs are unreadable ({len(dirs)} child directories)",
                          {"kind": "oracle", "oracle": "Load returns", "request": rq, "impl": x}, signature="restore-hang-unreadable-blob")
        elif o == "error":
            errs += 1
            if not miss:
                ctx.violation("Load fails although every blob is readable", {"kind": "oracle", "request": rq, "impl": x}, signature="restore-spurious-error")
        elif o == "ok":
            oks += 1
            if miss:
                ctx.violation("Load reports success although a blob was unreadable", {"kind": "oracle", "request": rq, "impl": x}, signature="restore-error-swallowed")
            elif sorted(x.get("restored", [])) != sorted(files):
                ctx.violation("Load reports success but the restored files differ", {"kind": "oracle", "request": rq, "impl": x}, signature="restore-incomplete")
        else:
            ctx.violation("restore harness error: " + str(x)[:300], {"kind": "correspondence-not-established", "request": rq, "impl": x}, found_input=False)
        if o in ("ok", "error", "hang") and {"ok": "ok", "error": "error", "hang": "deadlock"}[o] != y.get("outcome"):
            bad.append((rq, x, y))
    shutil.rmtree(base, ignore_errors=True)
    ctx.coverage["restore_cases"] = len(reqs)
    ctx.coverage["restore_outcomes"] = {"ok": oks, "error": errs, "hang": hangs, "crash": sum(1 for x in impl if x.get("outcome") == "crash")}
    ctx.coverage["restore_late_second_failure_cases"] = sum(1 for r in reqs if r.get("missingSlow"))
    ctx.coverage["restore_disagreements"] = len(bad)
    ctx.coverage["evaluations"] += len(reqs)
    ctx.coverage["distinct_nontrivial"] += len({(tuple(f), len(m)) for f, m in meta if m})
    if bad and not any(found for _, found in ctx.violations):
        rq, x, y = bad[0]
        ctx.violation("restore outcome differs from the ErrChan model", {"kind": "correspondence", "correspondence": "restore.load vs GrogModel.ErrChan.outcome",
                                                                          "request": rq, "impl": x, "model": y}, found_input=False)
