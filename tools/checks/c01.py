"""C01 — incremental builds equal clean builds for every edit history.

Theorem side : GrogModel/Props/C01.lean (cache soundness invariant over all histories, simulation of a build from any
               sound cache and any content at output paths against the cache-free specification, hit ⇒ same key-state).
Correspondence: generated workspaces + histories run against the real `grog` binary (private GROG_ROOT) and against the
               compiled model (`build.simulate`): per build exit class, executed multiset, bytes at every watched path.
Oracle (no model): a real from-scratch build (fresh cache root, fresh checkout of the sources at that point) must give the
               same bytes at every declared output of the selected targets as the incremental build did.
"""
import os
from checks import _hist as H
from checks import _hist2 as H2

PROPERTY = "C01"
LEVEL = "proof"
LEVEL_TEXT = ("Lean 4 theorems for all workspaces, histories (edits, tampering with output paths, taints, lost blobs, builds with any "
              "flags) and topological orders of the model of execute.go/registry.go/target_hasher.go: the cache stays sound, a successful "
              "mode-all build from any reachable cache ends with exactly the outputs of the cache-free specification, and a served result "
              "was produced by the same key-state. The key-state carries (dependency label, output hash) pairs (the repaired "
              "hashTargetDefinition). Hypotheses: key injective (C09; strict layer) or, real-key layer, Hash.key over the rendered state with "
              "renderings that do not collide on the OCCURRING key-states (Compose.Universe / RealKey, non-trivial instance exRealKey, "
              "two-target build ex_build_succeeds); exact restore (C06), atomic per-target steps, commands write all their declared outputs, "
              "WF (distinct output paths, inputs/checks disjoint from outputs). The model is tied to the code on every run by history "
              "correspondence against the real CLI plus a real clean-build oracle.")
LEVEL_NOTE = ("Trusted: Lean kernel; the hand-written model (tied by sampled histories only); alias/glob/selection resolution is redone "
              "in the harness (tools/checks/_hist.py), not in Lean; docker outputs and commands that are not functions of their "
              "declared inputs are outside the claim; two running commands are never interleaved in the model. Scope of the history "
              "theorems: every build of the history is mode all and well-formed (StepOK); histories whose builds run with load_outputs=minimal "
              "are cacheSound_preserved_minimal (through C15's lock step: the minimal run leaves the same cache as the all run; no lost "
              "blobs); WF.inputsOff and the "
              "`hag` hypothesis of build_eq_clean range over the SELECTED order only (an input that is an output of an unselected target "
              "stays in the reference workspace: F-globout through a non-dependency); a command that exits 0 without writing a declared "
              "output is outside the theorems (Good.complete) and covered by C14/C05 and the generators; glob resolution and alias "
              "following are redone in Python (WF.hdeps = deps is a hypothesis: alias_skipped_witness is what happens without it).")
TECHNIQUE = "Lean 4 proof over an executable model + history correspondence with the real CLI + real clean-build oracle"
OBLIGATIONS = [
    "Grog.C01.cacheSound_preserved",
    "Grog.C01.cacheSound_preserved_minimal",
    "Grog.C01.build_sim",
    "Grog.C01.build_eq_clean",
    "Grog.C01.hit_same_state",
    "Grog.C01.alias_skipped_witness",
    "Grog.C01.dir_restore_exact_and_stale_witness",
    "Grog.Compose.goodK_real",
    "Grog.Compose.cacheSoundK_preserved",
    "Grog.Compose.build_eq_cleanK",
    "Grog.Compose.build_simK",
    "Grog.Compose.hit_same_stateK",
    "Grog.Compose.build_eq_clean_real",
    "Grog.Compose.cacheSound_preserved_real",
    "Grog.Compose.unlabelled_deps_blind_witness",
    "Grog.Compose.exRealKey",
    "Grog.Compose.ex_build_succeeds",
]
PROP_MODULES = ["GrogModel.Props.C01", "GrogModel.Props.ComposeBuild"]
ASSUMPTIONS = [
    "strict layer (Grog.C01.*): cache key injective on all key-states; real-key layer (Grog.Compose.*_real): key = Hash.key H o render, "
    "from C09.key_eq_iff under RealKey over a Universe of occurring targets / contents / output hashes: H injective without '_' in digests, printed "
    "output hashes < 2^64 bytes, on OCCURRING key-states the command's result depends on the command text, the set of (input path, content) pairs and the "
    "(dependency label, output-hash string) pairs only (no collision of the renderings on what occurs), output hashes produced from what occurs occur; "
    "sizes < 2^64, distinct fingerprint keys, dependency labels distinct",
    "restore writes exactly the stored value (C06); parent-directory deletion of cached file outputs is left out of the generators until F-mkdir is repaired (agent stores)",
    "builds are atomic per-target steps in a topological order (C03/C11)",
    "generated commands are deterministic functions of declared inputs and dependency outputs (the property's premise)",
]

FAMILIES_QUICK = [("edits", 3), ("alias", 2), ("shift", 2), ("tamper", 3), ("dirs", 4), ("swap", 3), ("shared", 3), ("wipe", 2), ("links", 3), ("revert", 4), ("taint", 2), ("disabled", 2), ("nocache", 2)]
FAMILIES_THOROUGH = [(f, n * 18) for f, n in FAMILIES_QUICK]

# round-c families (generators in _hist2.py)
FAMILIES2_QUICK = [("platform", 4, {}), ("samestamp", 1, {}), ("swapdep", 1, {})]
GEN2 = {"platform": H2.gen_platform, "samestamp": H2.gen_samestamp, "swapdep": H2.gen_swapdep}


def signature_of(h):
    tags = [t for t in h.get("tags", [])]
    return "incremental-differs-from-clean:" + "+".join(tags)


def run(ctx):
    quick = ctx.tier == "quick"
    hists = []
    for fam, n in ([] if os.environ.get("VERIF_DEV_ONLY_NEW") else FAMILIES_QUICK if quick else FAMILIES_THOROUGH):
        for _ in range(n):
            hists.append(H.gen_history(ctx.rng, fam, nsteps=None if quick else ctx.rng.randint(3, 7)))
    for _ in range(2 if quick else 20):
        hists.append(H.gen_swap(ctx.rng, nocache=True))
        hists.append(H.gen_swap(ctx.rng, nocache=False))
        hists.append(H.gen_globout(ctx.rng))
        hists.append(H.gen_samerel(ctx.rng))
    for fam, n, kw in FAMILIES2_QUICK:
        for _ in range(n if quick else n * 15):
            hists.append(GEN2[fam](ctx.rng, **kw))
    ctx.coverage["rule"] = ("layered DAGs of 2-6 targets (file/dir outputs, aliases incl. chains, globs with excludes, 1-2 targets per package), "
                            "histories of 2-5 edit/tamper/taint steps each followed by a build with a random selection; families: "
                            + ", ".join("%s x%d" % f for f in (FAMILIES_QUICK if quick else FAMILIES_THOROUGH)) +
                            ", " + ", ".join("%s x%d" % (f, n) for f, n, _ in FAMILIES2_QUICK) + " (platform = builds with --platform os/arch switching between two platforms "
                            "over one cache, about half of the commands read $GROG_OS/$GROG_ARCH, some targets tagged multiplatform-cache / with a platforms selector; "
                            "samestamp = every file carries the same mtime after every edit, most edits keep the file length; swapdep = outputs of a splitter exchange "
                            "their contents, with dependants)"
                            ", output-swap (cached and no-cache dependency) and glob-matches-dependency-output (oracle only); swap = splitter targets whose two "
                            "outputs swap contents, shared = two targets of one package sharing one glob (one excluding the first match), dirs = directory "
                            "outputs (files, sub-directory, symlink, one entry per input) growing/shrinking with the inputs and tampered in place; "
                            "non-trivial = distinct history with >=2 builds in which some build executed a command and some build had a cache hit")
    recs = H.run_both(ctx, hists, "c01")
    if recs is None:
        return
    st = H.stats(recs)
    ctx.coverage.update({k: v for k, v in st.items() if k != "distinct_nontrivial"})
    ctx.coverage["evaluations"] = st["builds"]
    ctx.coverage["distinct_nontrivial"] = st["distinct_nontrivial"]
    ctx.coverage["traces_validated_against_impl"] = sum(1 for r in recs if r["model"] is not None)
    for r in recs[:2] + recs[-1:]:
        ctx.sample(H.sample_of(r))
    # --- oracle: real clean build -----------------------------------------------------------------
    n_oracle = n_fail = 0
    for r in recs:
        deep = set(r["hist"].get("tags", [])) & {"dirs", "swap", "shared", "tamper", "revert", "disabled", "links", "platform", "samestamp", "swapdep"}
        which = "all" if (r["diffs"] or not quick or deep) else "last"
        fails, n = H.clean_oracle(ctx, r["hist"], r["real"], "c01clean", which=which)
        n_oracle += n
        if fails:
            n_fail += 1
            f = fails[0]
            small = H.truncate(r["hist"], f["build"] + 1)
            ctx.violation("a successful incremental build left a declared output that differs from the from-scratch build of the same sources",
                          {"kind": "oracle", "oracle": "real clean build", "history": small, "described": H.describe(small),
                           "build": f["build"], "path": f["path"], "incremental": f["incremental"], "clean": f["clean"]},
                          signature=signature_of(r["hist"]))
    # --- oracle: a content-addressed blob never changes once written (and, under sha256, is named by its digest) -------------
    n_audit = 0
    for r in recs:
        for i, o in enumerate(x for x in r["real"] if "ok" in x):
            n_audit += 1
            if o.get("cas_rewritten") or o.get("cas_misnamed"):
                n_fail += 1
                small = H.truncate(r["hist"], i + 1)
                ctx.violation("a blob of the content-addressed store changed its content after it was written (a later cache hit restores wrong bytes)"
                              if o.get("cas_rewritten") else "a blob of the content-addressed store is not named by the digest of its content",
                              {"kind": "oracle", "oracle": "CAS audit after every build", "history": small, "described": H.describe(small),
                               "build": i, "rewritten": o.get("cas_rewritten"), "misnamed": o.get("cas_misnamed")},
                              signature="cas-blob-rewritten" if o.get("cas_rewritten") else "cas-blob-misnamed")
                break
    ctx.coverage["cas_audits"] = n_audit
    ctx.coverage["oracle_clean_builds"] = n_oracle
    ctx.coverage["oracle_failures"] = n_fail
    # --- correspondence ---------------------------------------------------------------------------
    bad = [r for r in recs if r["diffs"]]
    ctx.coverage["disagreements"] = len(bad)
    if bad and not any(found for _, found in ctx.violations):
        r = min(bad, key=lambda x: len(x["hist"]["steps"]))
        small = H.truncate(r["hist"], r["diffs"][0][0] + 1) if r["diffs"][0][0] >= 0 else r["hist"]
        r2 = dict(r, hist=small)
        H.report_disagreement(ctx, r2, "grog build histories vs GrogModel.Build.runHistory")


def replay(ctx, rep):
    return H.replay_history(ctx, rep)
