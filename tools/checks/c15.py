"""C15 — load_outputs=minimal is observationally equivalent to all for what gets built.

Theorem side : GrogModel/Props/C15.lean.
Correspondence: every generated history is run in lock-step in two universes (separate workspaces and cache roots) against the
               real CLI, once with --load-outputs=all and once with --load-outputs=minimal; the minimal universe is also
               compared with the model in minimal mode (exit class, executed multiset, bytes at every watched path).
Oracle (no model): per build the two universes have the same exit class and the same executed multiset; every output of a target
               executed in the minimal universe has the bytes it has in the `all` universe (each command embeds every dependency
               output it read, so a missing or stale dependency output shows up in these bytes).
"""
import os
from checks import _hist as H
from checks import _hist2 as H2
import vlib

PROPERTY = "C15"
LEVEL = "proof"
LEVEL_TEXT = ("Lean 4 theorems about the decision model in both modes: from equal caches the hit/execute decision, the verdict and the key "
              "do not depend on the mode (per-step lemmas); a lock-step simulation `Rel` between the run in mode all and the run in mode "
              "minimal (Lemmas/BuildMinimal.lean) gives deps_present_at_exec_holds — when a command starts in minimal mode, "
              "LoadDependencyOutputs has succeeded with the fuel the build provides, re-run nothing, and every declared output of every "
              "direct dependency is materialised with, path by path, the value mode all has in its workspace (deps_current_at_exec: the "
              "value its output hash encodes) — and same_verdict_and_execs_holds — for every well-formed history of edits, taints and "
              "builds with any flags, run in lock step in both modes over separate caches, every build has the same verdict, the same "
              "per-target verdicts, the same executed commands in the same order and leaves the same cache. Clause by clause: (1) same "
              "verdict and executed set = same_verdict_and_execs_holds; (2) dependency outputs present and current when a command starts = "
              "deps_present_at_exec_holds + deps_current_at_exec; (3) materialised outputs have the bytes of mode all = Rel.loaded inside "
              "these theorems + materialised_equal (per load). Excluded from the theorems (generated and compared by the oracle instead): "
              "lost blobs, read faults while loading (witness + in-process test), output checks that inspect declared outputs (repaired "
              "divergence, witness), `grog run` (lock-step family run). "
              "Tied by lock-step history correspondence against the real CLI in both modes.")
LEVEL_NOTE = ("The lock-step theorem excludes histories with lost blobs (dropBlob steps; CasOK — every blob a stored result names is in the "
              "CAS — is required at the start and preserved by every other step): with a lost blob mode all re-executes an irretrievable "
              "target when it reaches it, minimal only when an executing direct dependant needs it; these histories are generated (family "
              "lostblob) and compared by the oracle modulo that. Hypotheses of the theorems: injective key (Good P), the repairs "
              "minValidate / rerunOnce / loadFault in the modelled code, well-formed builds (WF, dependency lists = direct dependencies "
              "without duplicates, declared outputs disjoint from inputs and check files over the whole history). A read fault on a stored "
              "target result while dependencies are loaded is injected in-process (overlay test with a failing backend). The handlers' "
              "local-digest short cut (restore from a matching workspace file without the blob) is not modelled. Output checks that read "
              "a dependency's output are outside the lock-step theorem (OutDisc.chk: check files are not declared outputs); they are "
              "generated (family depchecks), the divergence they exposed is repaired (dependency outputs are loaded before the "
              "pre-execution checks, Fixes.checkDeps) and kept as check_reads_dependency_witness.")
TECHNIQUE = "Lean 4 proof over an executable model + lock-step history correspondence (all vs minimal) with the real CLI"
OBLIGATIONS = [
    "Grog.C15.same_decision_step",
    "Grog.C15.same_status_step",
    "Grog.C15.materialised_equal",
    "Grog.C15.deps_present_at_exec_holds",
    "Grog.C15.deps_current_at_exec",
    "Grog.C15.same_verdict_and_execs_holds",
    "Grog.C15.nocache_rerun_witness",
    "Grog.C15.load_fault_witness",
    "Grog.C15.check_reads_dependency_witness",
]
ASSUMPTIONS = [
    "lock-step theorem: histories without lost blobs (no dropBlob step; CasOK at the start), well-formed builds (BuildOK)",
    "cache key injective (C09), restore exact (C06), atomic per-target steps",
]

FAMILIES_QUICK = [("edits", 2), ("wipe", 3), ("lostblob", 3), ("dirs", 2), ("alias", 2), ("aliaswipe", 2), ("nocache", 2), ("tamper", 1), ("disabled", 2), ("taint", 2), ("collector", 2), ("run", 3), ("fanout", 3), ("depchecks", 3)]
FAMILIES_THOROUGH = [(f, n * 15) for f, n in FAMILIES_QUICK]

# round-c families (generators in _hist2.py)
FAMILIES2_QUICK = [("bintool", 2), ("runflip", 2), ("checklost", 3),
                   # round d (appended, so that the histories of the families above stay what they were)
                   ("bintool2", 3), ("ncdep", 3)]
GEN2 = {"bintool": H2.gen_bintool, "runflip": H2.gen_runflip, "checklost": H2.gen_checklost, "bintool2": H2.gen_bintool2, "ncdep": H2.gen_ncdep}


def lost_owners(h, ws):
    """targets owning an output whose CAS blob a `drop` step of the history removed"""
    paths = {s["path"] for s in h["steps"] if s["k"] == "drop"}
    return {l for l, t in ws["targets"].items() for o in H.all_outs(t) if H.out_path(t, o) in paths}


def run(ctx):
    quick = ctx.tier == "quick"
    fams = FAMILIES_QUICK if quick else FAMILIES_THOROUGH
    hists = []
    if os.environ.get("VERIF_DEV_ONLY_NEW"):
        fams = []       # development only: run just the round-c families
    for fam, n in list(fams) + [(f, n if quick else n * 15) for f, n in FAMILIES2_QUICK]:
        for _ in range(n):
            if fam in GEN2:
                hists.append(GEN2[fam](ctx.rng))
            elif fam == "collector":
                hists.append(H.gen_collector(ctx.rng))
            elif fam == "run":
                hists.append(H.gen_runchain(ctx.rng))
            else:
                hists.append(H.gen_history(ctx.rng, fam))
    # convergence step: after the history both universes build everything in mode `all`; whatever minimal left in its cache
    # must then materialise exactly the outputs of the `all` universe
    for h in hists:
        h["steps"].append({"k": "build", "patterns": ["//..."], "minimal": False, "enable_cache": True, "fail_fast": False,
                           "pin_mode": True, "converge": True})
    ctx.coverage["rule"] = ("layered DAGs of 2-6 targets (aliases incl. chains, no-cache tags in the nocache/taint families); histories of edits / "
                            "tampering / taints / cache-disabled builds with random selections, each run twice in lock-step (all, minimal) "
                            "in separate workspaces and cache roots (wipe = fresh checkout with a warm cache / sources reverted; lostblob = chain with the "
                            "blob of the middle target lost and its workspace copy removed; dirs = directory outputs whose entry set follows the inputs, "
                            "tampered in place); families: " + ", ".join("%s x%d" % f for f in fams) +
                            "; collector = command-less target whose dir:: output is produced by its dependencies; run = `grog run` of generated binaries (one or two run "
                            "targets, reverts, wipes); bintool2 = the same shape with a command that does not chmod the tool, the CAS blob of the tool lost and the workspace wiped "
                            "while the dependant is edited; ncdep = a no-cache dependant of a cacheable dependency that goes v1 -> v2 -> v1 / fresh checkouts; "
                            "bintool = a tool that only declares a bin_output, used through $(bin :tool), going v1 -> v2 -> v1 while its "
                            "dependant is edited / outputs are wiped; runflip = `grog run` of a target (bin + data output) whose source flips between versions built "
                            "before; checklost = cached targets with output checks lose the checked external state; fanout = one cached dependency with a 600-file directory and several dependants re-running at once; every history "
                            "ends with a mode-all build of everything in both universes (convergence); non-trivial = distinct history with >=2 builds, one executing "
                            "and one with a hit (in the minimal universe)")
    grog = ctx.grog_binary()
    if not grog:
        return
    rec_min = H.run_both(ctx, hists, "c15m", force_minimal=True)
    real_all = H.run_real_many(grog, hists, ctx.scratch("c15a"), par=4, force_minimal=False, prefix="a")
    st = H.stats(rec_min)
    ctx.coverage.update({k: v for k, v in st.items() if k != "distinct_nontrivial"})
    ctx.coverage["evaluations"] = st["builds"] * 2
    ctx.coverage["distinct_nontrivial"] = st["distinct_nontrivial"]
    ctx.coverage["traces_validated_against_impl"] = len(rec_min)
    for r in rec_min[:2] + rec_min[-1:]:
        ctx.sample(H.sample_of(r))
    cnt = {"lockstep_builds": 0, "outputs_compared": 0, "oracle_failures": 0, "unreproduced_oracle_failures": 0}

    def judge(h, real_min, real_all, count):
        """-> None or (what, replay object, signature) for the first lock-step difference"""
        oa = [o for o in real_all if "ok" in o]
        for b in H.walk(h, real_min):
            if b["n"] >= len(oa):
                break
            om, o_all, ws = b["obs"], oa[b["n"]], b["ws"]
            if count:
                cnt["lockstep_builds"] += 1
            small = H.truncate(h, b["n"] + 1)
            base = {"kind": "oracle", "oracle": "lock-step all vs minimal", "history": small, "described": H.describe(small), "build": b["n"],
                    "all": {"ok": o_all["ok"], "executed": o_all["executed"]}, "minimal": {"ok": om["ok"], "executed": om["executed"]}}
            if om["ok"] != o_all["ok"]:
                return ("a build succeeds under one load_outputs mode and fails under the other", base, "verdict-differs")
            if "run_out" in om and om["run_out"] != o_all.get("run_out"):
                return ("`grog run`: the binaries print different lines under the two modes (a run target did not find the current outputs of its dependencies)",
                        dict(base, all_lines=o_all.get("run_out"), minimal_lines=om["run_out"]), "run-output-differs")
            if b["step"].get("converge"):
                if om["ok"]:
                    for p in sorted(H.all_out_paths(ws)):
                        if count:
                            cnt["outputs_compared"] += 1
                        if om["fs"].get(p) != o_all["fs"].get(p):
                            return ("after the history, a mode-`all` build of everything materialises different bytes in the universe that used "
                                    "`minimal` (a wrong result was cached under `minimal`)",
                                    dict(base, path=p, minimal_bytes=(om["fs"].get(p) or "")[:300], all_bytes=(o_all["fs"].get(p) or "")[:300]),
                                    "converged-output-differs")
                continue
            # a target whose blob was lost is irretrievable: mode all re-executes it when it reaches it, minimal only when an
            # executing direct dependant needs its outputs — that difference is the purpose of minimal, not a defect
            lost = lost_owners(h, ws)
            ex_all = [x for x in o_all["executed"] if x not in lost]
            ex_min = [x for x in om["executed"] if x not in lost]
            if set(ex_min) != set(ex_all):
                return ("the two load_outputs modes execute different sets of commands", base, "executed-set-differs")
            if sorted(ex_min) != sorted(ex_all):
                return ("minimal mode executes a command more often than mode all", base, "executed-multiset-differs")
            for l in set(om["executed"]):
                t = ws["targets"].get(l)
                if t is None or not om["ok"]:
                    continue
                for op in H.all_outs(t):
                    p = H.out_path(t, op)
                    if count:
                        cnt["outputs_compared"] += 1
                    if om["fs"].get(p) != o_all["fs"].get(p):
                        return ("an output materialised under minimal differs from the one under all (a dependency output was missing or stale when the command ran)",
                                dict(base, path=p, minimal_bytes=om["fs"].get(p), all_bytes=o_all["fs"].get(p)), "materialised-output-differs")
        return None
    for i, (r, ra) in enumerate(zip(rec_min, real_all)):
        h = r["hist"]
        bad = judge(h, r["real"], ra, True)
        if bad:
            # reproducibility: both universes are run again, alone
            rm2 = H.run_real(grog, h, ctx.scratch("c15rm%d" % i), force_minimal=True)
            ra2 = H.run_real(grog, h, ctx.scratch("c15ra%d" % i), force_minimal=False)
            bad = judge(h, rm2, ra2, False)
            if not bad:
                cnt["unreproduced_oracle_failures"] += 1
        if bad:
            cnt["oracle_failures"] += 1
            ctx.violation(bad[0], bad[1], signature=bad[2])
    # --- cache fault while dependency outputs are being loaded (in-process, real Executor, fault-injecting backend) ---------
    rc, out = vlib.go_test("./internal/execution/", "TestVerifLoadFault", timeout=600)
    cnt["inprocess_load_fault_tests_rc"] = rc
    if rc != 0:
        sigs = [("VERIF-LOADFAULT-DEP-MISSING", "load-fault:remaining-dependencies-not-loaded",
                 "after a read fault on the stored result of one dependency the dependant's command ran without the outputs of its remaining dependencies"),
                ("VERIF-LOADFAULT-RERUN-WITHOUT-DEPS", "load-fault:rerun-without-own-dependencies",
                 "a dependency re-run after a read fault on its stored result did not find the outputs of its own dependencies")]
        hit = False
        for marker, sig, what in sigs:
            if marker in out:
                hit = True
                cnt["oracle_failures"] += 1
                ctx.violation(what, {"kind": "oracle", "oracle": "in-process Executor in minimal mode with a backend that fails one Get of a target result "
                                     "(harness/intest/internal/execution/x_loadfault_verif_test.go)", "output": out[-2000:]}, signature=sig)
        if not hit:
            ctx.harness_broken("the overlaid in-package fault tests of execution could not be run against the current tree", out)
    ctx.coverage.update(cnt)
    bad = [r for r in rec_min if r["diffs"]]
    ctx.coverage["disagreements"] = len(bad)
    if bad and not any(found for _, found in ctx.violations):
        r = min(bad, key=lambda x: len(x["hist"]["steps"]))
        small = H.truncate(r["hist"], r["diffs"][0][0] + 1) if r["diffs"][0][0] >= 0 else r["hist"]
        H.report_disagreement(ctx, dict(r, hist=small), "load_outputs=minimal histories vs GrogModel.Build.runHistory (minimal)", {"force_minimal": True})


def replay(ctx, rep):
    if str(rep.get("signature", "")).startswith("load-fault:"):
        rc, out = vlib.go_test("./internal/execution/", "TestVerifLoadFault", timeout=600)
        print(out[-2000:])
        return 1 if rc else 0
    h = rep.get("history")
    if not h:
        print("nothing to replay in this file (see 'kind')")
        return 0
    grog = ctx.grog_binary()
    a = H.run_real(grog, h, ctx.scratch("ra"), force_minimal=False)
    m = H.run_real(grog, h, ctx.scratch("rm"), force_minimal=True)
    mo = H.run_model(ctx, [h], force_minimal=True)[0]
    rc = 0
    for i, (x, y) in enumerate(zip(a, m)):
        print("build %d: all ok=%s %s | minimal ok=%s %s | model(minimal) %s" % (i, x["ok"], sorted(x["executed"]), y["ok"], sorted(y["executed"]),
              (mo[i]["ok"], sorted(mo[i]["executed"])) if isinstance(mo, list) and i < len(mo) else mo))
        if x["ok"] != y["ok"] or sorted(x["executed"]) != sorted(y["executed"]):
            rc = 1
        if x.get("run_out") != y.get("run_out"):
            print("   `grog run` printed", x.get("run_out"), "under all and", y.get("run_out"), "under minimal")
            rc = 1
        for l in sorted(set(y["executed"])):
            t = H.final_ws(h)["targets"].get(l)
            for op in (H.all_outs(t) if t and y["ok"] else []):
                pth = H.out_path(t, op)
                if x["fs"].get(pth) != y["fs"].get(pth):
                    print("   output %s of %s (executed under minimal) differs between the modes" % (pth, l))
                    rc = 1
    return rc
