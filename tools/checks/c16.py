"""C16 — BUILD loaders agree across formats, are deterministic, and never crash.

Theorem side : GrogModel/Props/C16.lean (scanners total and index-safe for all byte strings; Makefile targets carry
               every annotation field; enrichment is a function; load+merge+node map is independent of arrival order).
Correspondence: (a) Makefile / script annotation scanners: real loader vs model on generated and corrupted texts, the
               YAML decoder being instantiated on both sides by the real yaml.v3; (b) generated package definitions
               rendered to JSON, YAML, Starlark, Makefile annotations and loaded by the real LoadPackages vs the model's
               enrich / loadGraph (doublestar and time.ParseDuration instantiated by the real functions);
               (c) multi-package workspaces with same-directory merges under worker counts 1/2/16.
Oracle (no model): all renderings of one definition load to the same targets; the result is the same for every worker
               count and repetition; no input makes a loader panic, kill the process or hang (fuzzing part).
"""
import json, os, re
from checks import _lockload as G

PROPERTY = "C16"
LEVEL = "proof"
LEVEL_TEXT = ("Lean 4 theorems about a hand-written executable model of the Makefile/script annotation scanners, DTO→package enrichment, "
              "package merge and node map (for all byte strings, all DTOs, all arrival orders; YAML decoding, glob resolution and duration "
              "parsing are parameters), tied to the code on every run by a differential run of the real loaders (JSON, YAML, Starlark, Makefile, "
              "script) against the compiled model and against each other. That the third-party JSON/YAML/Starlark parsers never panic or hang "
              "on corrupted input is FUZZING (byte-level corruption stream with recover + timeout), not proof.")
LEVEL_NOTE = ("Per clause: (1) cross-format agreement is PROVED for the modelled front ends (Makefile scanner, Starlark builtins) and TIE-ONLY for JSON/YAML "
              "(third-party struct decoders); (2) order independence is proved over arrival orders of per-file results, workers themselves are not modelled; "
              "(3) malformed => error is proved for the modelled malformations only; (4) no-panic is proved for the two scanners and holds by construction "
              "for the modelled Starlark conversions; (5) no-hang is termination of the model's functions, everything else is exploration. "
              "Proof covers scanners, enrichment, merge order-independence. Sampled: model = code (differential), cross-format agreement, "
              "worker-count independence. Fuzzed only: encoding/json, yaml.v3, go.starlark.net on corrupted bytes. Pkl loader excluded (needs the "
              "external pkl binary). Errors compared as error / no error.")
TECHNIQUE = "Lean 4 proof over an executable model + cross-format differential correspondence + corruption fuzzing of the real loaders"
OBLIGATIONS = [
    "Grog.C16.scanner_no_index_error",
    "Grog.C16.script_scanner_no_index_error",
    "Grog.C16.makefile_rules_load_in_order",
    "Grog.C16.starlark_target_roundtrip",
    "Grog.C16.makefile_starlark_agree",
    "Grog.C16.makefile_undecodable_annotation_is_error",
    "Grog.C16.makefile_annotated_non_rule_is_error",
    "Grog.C16.starlark_wrong_type_is_error",
    "Grog.C16.enrich_ok_valid_names",
    "Grog.C16.loaded_labels_round_trip",
    "Grog.C16.merge_order_independent",
    "Grog.C16.load_ok_iff_labels_distinct",
    "Grog.C16.makefile_panic_witness",
    "Grog.C16.makefile_bare_annotation_loads",
    "Grog.C16.makefile_fields_dropped_witness",
    "Grog.C16.merge_asymmetry_witness",
]
ASSUMPTIONS = [
    "yaml.v3, encoding/json, go.starlark.net, doublestar and time.ParseDuration are trusted third-party code: parameters of the model, "
    "instantiated by the real functions in the correspondence, fuzzed (not proved) for panics and hangs",
    "loader errors are compared only as error / no error",
    "Pkl files are not covered",
]

DATA_FILES = G.FILES


# ----------------------------------------------------------------------------------------------
# helpers
# ----------------------------------------------------------------------------------------------

def pkg_key(d):
    return d if d else "."


def rel(d, name):
    return (d + "/" if d else "") + name


def table(d):
    return [[k, v] for k, v in d.items()]


def patterns_of(dto):
    pats, durs = set(), set()
    for t in dto.get("targets", []):
        if t is None:
            continue
        for i in t.get("inputs", []):
            if any(c in i for c in "*?[{"):
                pats.add(i)
        for e in t.get("excludes", []):
            pats.add(e)
        if t.get("timeout"):
            durs.add(t["timeout"])
    return pats, durs


def neutral(flat):
    """for comparisons across formats: a glob like `*` also matches the BUILD file itself, whose name differs per format"""
    if flat == "ERR":
        return flat
    out = []
    for k, j in flat:
        o = json.loads(j)
        if "inputs" in o:
            o["inputs"] = ["<BUILD>" if i in FORMATS else i for i in o["inputs"]]
        out.append((k, json.dumps(o, sort_keys=True)))
    return out


def flatten_impl(res):
    """Go load.packages reply -> sorted node list (canonical JSON strings) or 'ERR'."""
    if res.get("err"):
        return "ERR"
    nodes = []
    for p in res["packages"]:
        for t in p["targets"]:
            nodes.append(("t", json.dumps(t, sort_keys=True)))
        for a in p["aliases"]:
            nodes.append(("a", json.dumps(a, sort_keys=True)))
    return sorted(nodes)


def flatten_model(res):
    if res.get("err"):
        return "ERR"
    nodes = []
    for n in res["nodes"]:
        if "target" in n:
            nodes.append(("t", json.dumps(n["target"], sort_keys=True)))
        else:
            nodes.append(("a", json.dumps(n["alias"], sort_keys=True)))
    return sorted(nodes)


def bad_reply(r):
    """panic / hang / process death of the code under test -> description, else None."""
    if not isinstance(r, dict):
        return "no reply"
    if "panic" in r:
        return "panic: " + str(r["panic"])[:300]
    if r.get("hang"):
        return "hang (no result within the per-case timeout)"
    if "crash" in r:
        m = re.search(r"(panic: [^\n]*|fatal error: [^\n]*)", r["crash"])
        return "process died: " + (m.group(1) if m else r["crash"][-300:])
    if "error" in r:
        return None
    return None


def crash_signature(name, desc, text):
    if name == "Makefile" and "index out of range [-1]" in desc:
        return "makefile:bare-grog-annotation-index-panic"
    if "nil pointer" in desc or "invalid memory address" in desc:
        return "null-list-entry:nil-pointer-panic"
    fmt = {"BUILD.json": "json", "BUILD.yaml": "yaml", "BUILD.star": "starlark", "Makefile": "makefile"}.get(name, "script")
    return fmt + ":" + ("hang" if desc.startswith("hang") else "panic")


class Tables:
    """Instantiations of the model's parameters by the real third-party functions (cached)."""

    def __init__(self, ctx):
        self.ctx = ctx
        self.yaml = {}
        self.dur = {}

    def need_yaml(self, contents):
        todo = [c for c in dict.fromkeys(contents) if c not in self.yaml]
        if todo:
            rs = G.run_resilient(self.ctx, [{"op": "yaml.annotation", "content": c, "timeout_s": 10} for c in todo])
            for c, r in zip(todo, rs):
                self.yaml[c] = r.get("ann") if r.get("ok") else None
                if bad_reply(r):
                    self.yaml[c] = ("BAD", bad_reply(r))

    def need_dur(self, ss):
        todo = [s for s in dict.fromkeys(ss) if s not in self.dur]
        if todo:
            rs = self.ctx.impl([{"op": "duration", "s": s} for s in todo])
            for s, r in zip(todo, rs):
                self.dur[s] = r.get("ns") if r.get("ok") else None

    def decode_table(self, contents):
        return [[c, (None if isinstance(self.yaml[c], tuple) else self.yaml[c])] for c in dict.fromkeys(contents) if c]


# ----------------------------------------------------------------------------------------------
# (a) scanner correspondence
# ----------------------------------------------------------------------------------------------

LINE_PIECES = ["# @grog", "#@grog", "  # @grog  ", "# @grog extra", "\t# @grog", "#", "# ", "#name: x", "# name: x", "# name: \"q\"", "# dependencies:",
               "#   - //p:a", "#   - :b", "# inputs: [a.txt, \"*.go\"]", "# outputs:", "#  - out/x", "# tags: [no-cache]", "# timeout: 5s",
               "# platforms: [linux/amd64]", "# platforms: []", "# fingerprint: {k: v}", "# environment_variables:", "#   FOO: bar", "# name: x: y",
               "# - a", "# [", "", "   ", "\t", "foo:", "foo: bar baz", "  foo :", "foo", "foo bar", ":", "a:b:c", "\techo hi", "all: foo",
               " ", " # @grog", "# @grog ", "\u0085foo:", "\r", "foo:\r", "# name: y\r", "x" * 70000, "# " + "y" * 66000, "#" + "z" * 65535]


def unicode_bytes(s):
    """protocol text (code points < 256 are bytes): encode non-latin1 characters as UTF-8 bytes."""
    return s.encode("utf-8").decode("latin-1") if any(ord(c) > 127 for c in s) else s


def gen_scanner_texts(rng, n):
    out = ["# @grog\nfoo:\n", "# @grog\nfoo:", "# @grog\n\nfoo:\n", "# @grog\n#\nfoo:\n", "# @grog\n", "# @grog", "", "\n", "# @grog\n# name: x\n",
           "# @grog\n# @grog\nfoo:\n", "# @grog\nfoo\n", "# @grog\n# name: [\nfoo:\n", "#!/bin/sh\n# @grog\necho\n", "# @grog\n# name: a\nx:\n# @grog\n# name: b\ny:\n"]
    # boundary sizes: number of annotation lines / blocks around powers of two, lines around the 64 KiB scanner limit
    for k in (63, 64, 65, 127, 128, 129, 255, 256, 257, 1023, 1024, 1025):
        out.append("# @grog\n# dependencies:\n" + "".join(f"#   - //p:d{i}\n" for i in range(k)) + "foo:\n")
        if k <= 257:
            out.append("".join(f"# @grog\n# name: t{i}\ng{i}:\n\ttrue\n" for i in range(k)))
    for L in (65533, 65534, 65535, 65536, 65537):
        out.append("# @grog\n# name: " + "n" * (L - 8) + "\nfoo:\n")
        out.append("# @grog\n# name: x\n" + "g" * (L - 1) + ":\n")
    pieces = [unicode_bytes(p) for p in LINE_PIECES]
    for _ in range(n):
        k = rng.choice([1, 2, 3, 4, 6, 9])
        ls = []
        for _ in range(k):
            r = rng.random()
            if r < 0.3:
                ls.append(pieces[0])
            elif r < 0.33:
                ls.append(rng.choice(pieces[-3:]))
            else:
                ls.append(rng.choice(pieces[:-3]))
        sep = rng.choice(["\n", "\n", "\n", "\r\n"])
        out.append(sep.join(ls) + rng.choice(["", sep]))
    return list(dict.fromkeys(out))


def scanner_part(ctx, tabs, texts, scratch):
    """texts: list of (file name, text). Compares real Load with the model scanner."""
    blocks = ctx.model([{"op": "loader.mk.blocks", "text": t} for _, t in texts])
    tabs.need_yaml([c for b in blocks for c in b.get("blocks", [])])
    mreqs, ireqs = [], []
    for (name, t), b in zip(texts, blocks):
        dec = tabs.decode_table(b.get("blocks", []))
        if name == "Makefile":
            mreqs.append({"op": "loader.mk", "text": t, "decode": dec})
        else:
            mreqs.append({"op": "loader.script", "name": name, "text": t, "decode": dec})
        ireqs.append({"op": "load.file", "dir": scratch, "name": name, "text": t, "timeout_s": 10})
    mo = ctx.model(mreqs)
    io = G.run_resilient(ctx, ireqs)
    if io is None:
        return None
    n_nontrivial = 0
    branches = ctx.coverage.setdefault("scanner_outcomes", {})
    for (name, t), m, i in zip(texts, mo, io):
        ctx.coverage["evaluations"] += 1
        desc = bad_reply(i)
        if desc:
            branches["impl-crash"] = branches.get("impl-crash", 0) + 1
            ctx.violation(f"{name} loader: {desc}", {"kind": "oracle", "oracle": "no panic / hang", "file": name, "text": t, "impl": i, "model": m},
                          signature=crash_signature(name, desc, t))
            continue
        if "error" in i or "error" in m:
            ctx.violation("driver error in scanner correspondence", {"kind": "correspondence", "correspondence": "annotation scanner",
                                                                     "file": name, "text": t, "impl": i, "model": m}, found_input=False)
            continue
        merr = m.get("err")
        key = merr or ("targets" if (m.get("targets") or m.get("target")) else "empty")
        branches[key] = branches.get(key, 0) + 1
        if m.get("targets") or m.get("target"):
            n_nontrivial += 1
        if name == "Makefile":
            same = (bool(merr) == bool(i["err"])) and (merr is not None or (m["found"] == i["matched"] and m["targets"] == i["dto"]["targets"]))
        else:
            same = (bool(merr) == bool(i["err"])) and (merr is not None or (m["matched"] == i["matched"] and [m["target"]] == i["dto"]["targets"]))
        if not same:
            ctx.violation("annotation scanner: model and implementation disagree",
                          {"kind": "correspondence", "correspondence": "MakefileLoader/ScriptLoader.Load vs GrogModel.Loader.loadMakefile/loadScript",
                           "file": name, "text": t, "impl": i, "model": m}, signature="corr:scanner", found_input=False)
    return n_nontrivial


# ----------------------------------------------------------------------------------------------
# (b)+(c) workspaces
# ----------------------------------------------------------------------------------------------

FORMATS = ["BUILD.json", "BUILD.yaml", "BUILD.star", "Makefile"]


def render(dto, name, rng=None):
    if name == "BUILD.json":
        return G.render_json(dto, rng)
    if name == "BUILD.yaml":
        return G.render_yaml(dto, rng)
    if name == "BUILD.star":
        return G.render_starlark(dto)
    if name == "Makefile":
        return G.render_makefile(dto, rng)
    raise ValueError(name)


def workspace_files(entries):
    """entries: list of (pkg dir, file name, text). Adds the data files to every package dir."""
    files = []
    dirs = sorted({d for d, _, _ in entries})
    for d in dirs:
        for f in DATA_FILES:
            files.append([rel(d, f), "data"])
        # every package directory also has files no other directory has (the same glob string resolves differently per package)
        tag = d.replace("/", "_") or "root"
        files.append([rel(d, f"only_{tag}.txt"), "data"])
        files.append([rel(d, f"src/only_{tag}.go"), "data"])
    for d, name, text in entries:
        files.append([rel(d, name), text])
    return files


def model_files_batch(ctx, tabs, cases, scratch):
    """model-side description of workspaces, batched: cases = [(entries, files)], entries = (dir, name, text, dto-or-None).
    Per BUILD file {pkg, dto, globs, durs}; for Makefile / script files the DTO comes from the model's own scanner.
    Returns one list (or "ERR" when a scanner reports an error) per case."""
    scan = [(c, k, e) for c, (entries, _) in enumerate(cases) for k, e in enumerate(entries) if e[3] is None]
    dtos = {(c, k): e[3] for c, (entries, _) in enumerate(cases) for k, e in enumerate(entries) if e[3] is not None}
    if scan:
        blocks = ctx.model([{"op": "loader.mk.blocks", "text": e[2]} for _, _, e in scan])
        tabs.need_yaml([b for r in blocks for b in r["blocks"]])
        reqs = []
        for (c, k, e), b in zip(scan, blocks):
            dec = tabs.decode_table(b["blocks"])
            if e[1] == "Makefile":
                reqs.append({"op": "loader.mk", "text": e[2], "decode": dec})
            else:
                reqs.append({"op": "loader.script", "name": e[1], "text": e[2], "decode": dec})
        for (c, k, e), r in zip(scan, ctx.model(reqs)):
            if r.get("err"):
                dtos[(c, k)] = "ERR"
            elif e[1] == "Makefile":
                dtos[(c, k)] = {"targets": r["targets"]} if r["found"] else "NOMATCH"
            else:
                dtos[(c, k)] = {"targets": [r["target"]]}
    greqs, gidx, alldurs = [], [], set()
    for c, (entries, files) in enumerate(cases):
        for k, e in enumerate(entries):
            d = dtos[(c, k)]
            if isinstance(d, str):
                continue
            pats, durs = patterns_of(d)
            alldurs |= durs
            if pats:
                greqs.append({"op": "glob", "dir": scratch, "files": files, "pkg": e[0], "patterns": sorted(pats)})
                gidx.append((c, k))
    tabs.need_dur(sorted(alldurs))
    gres = dict(zip(gidx, ctx.impl(greqs))) if greqs else {}
    out = []
    for c, (entries, files) in enumerate(cases):
        mf = []
        for k, e in enumerate(entries):
            d = dtos[(c, k)]
            if d == "NOMATCH":
                continue
            if d == "ERR":
                mf = "ERR"
                break
            pats, durs = patterns_of(d)
            mf.append({"pkg": pkg_key(e[0]), "dto": d, "globs": table(gres[(c, k)]["table"]) if (c, k) in gres else [],
                       "durs": [[s, tabs.dur[s]] for s in sorted(durs)]})
        out.append(mf)
    return out


MK_FIELDS = ("fingerprint", "platforms", "timeout", "env")


def only_mk_fields_differ(a, b):
    """two flattened node lists that differ only in the four annotation fields of F-makefile"""
    if a == "ERR" or b == "ERR" or len(a) != len(b):
        return False
    for (ka, ja), (kb, jb) in zip(a, b):
        if ka != kb:
            return False
        x, y = json.loads(ja), json.loads(jb)
        for f in MK_FIELDS:
            x.pop(f, None); y.pop(f, None)
        if x != y:
            return False
    return True


def cross_format_part(ctx, tabs, rng, n, scratch):
    stats = ctx.coverage.setdefault("cross_format", {"definitions": 0, "loaded_ok": 0, "load_errors": 0, "makefile_renderings": 0})
    distinct = set()
    cases, ireqs = [], []
    # names that cannot be written as a label, as target and as alias name: every format (and the model) must reject them;
    # names at the edge that are fine must load everywhere
    defs = []
    for nm in G.BAD_NAMES + ["..", "-", "_", ".a", "a.", "x" * 70, "all", "A9", "a-b_c.d"]:
        for kind in ("target", "alias"):
            mk = kind == "target" and nm != "" and rng.random() < 0.5
            base_t = G.gen_target(rng, "base", ["base"], mk=mk, faults=False)
            dto = {"targets": [base_t], "aliases": [], "default_platforms": None}
            if kind == "target":
                t2 = G.gen_target(rng, "goal2", ["base"], mk=mk, faults=False)
                t2["name"] = nm
                dto["targets"].append(t2)
            else:
                dto["aliases"].append({"name": nm, "actual": ":base"})
            defs.append((mk, dto))
    for _ in range(n):
        mk = rng.random() < 0.4
        dto = G.gen_package(rng, mk=mk, faults=rng.random() < 0.35)
        if not mk and rng.random() < 0.15:
            dto["default_platforms"] = rng.choice([[], ["linux/amd64"]])
        defs.append((mk, dto))
    for case, (mk, dto) in enumerate(defs):
        d = rng.choice(G.PKGS)
        fmts = [f for f in FORMATS if (f != "Makefile" or mk) and (f != "BUILD.star" or dto["default_platforms"] is None)]
        if G.has_null(dto):
            fmts = ["BUILD.json", "BUILD.yaml"]
        per = []
        for f in fmts:
            text = render(dto, f, rng)
            files = workspace_files([(d, f, text)])
            per.append((f, text, files))
            ireqs.append({"op": "load.packages", "dir": scratch, "files": files, "workers": rng.choice([1, 2, 16]), "timeout_s": 20})
        cases.append((dto, d, mk, fmts, per))
    io = G.run_resilient(ctx, ireqs)
    if io is None:
        return False
    mfs = model_files_batch(ctx, tabs, [([(d, fmts[0], per[0][1], dto)], per[0][2]) for dto, d, mk, fmts, per in cases], scratch)
    mos = ctx.model([{"op": "loader.graph", "files": mf} for mf in mfs])
    # oracle without the model: every label of a loaded package must parse back to itself when printed (`//pkg:name`)
    seen_labels = {}
    pos = 0
    for ci, (dto, d, mk, fmts, per) in enumerate(cases):
        for r in io[pos:pos + len(fmts)]:
            if isinstance(r, dict) and not r.get("err") and "packages" in r:
                for pk in r["packages"]:
                    for nd in pk["targets"] + pk["aliases"]:
                        seen_labels.setdefault(tuple(nd["label"]), ci)
        pos += len(fmts)
    labs = list(seen_labels)
    if labs:
        back = ctx.impl([{"op": "label.parse", "cur": "", "s": "//" + pkg_ + ":" + nm_} for pkg_, nm_ in labs])
        for (pkg_, nm_), b in zip(labs, back):
            if not b.get("ok") or b["label"] != {"pkg": pkg_, "name": nm_}:
                dto, d, mk, fmts, per = cases[seen_labels[(pkg_, nm_)]]
                ctx.violation(f"a package loads with the label //{pkg_}:{nm_}, which grog's own label parser does not accept back",
                              {"kind": "oracle", "oracle": "labels of loaded packages print and re-parse", "dto": dto, "pkg": d, "label": [pkg_, nm_],
                               "texts": {per[0][0]: per[0][1]}, "reparse": b}, signature="loaded-label-not-parsable")
    ctx.coverage["loaded_labels_reparsed"] = len(labs)
    pos = 0
    for case, ((dto, d, mk, fmts, per), mo) in enumerate(zip(cases, mos)):
        rs = io[pos:pos + len(fmts)]
        pos += len(fmts)
        stats["definitions"] += 1
        stats["makefile_renderings"] += 1 if mk else 0
        flat = []
        crashed = False
        for (f, text, files), r in zip(per, rs):
            desc = bad_reply(r)
            if desc:
                crashed = True
                ctx.violation(f"{f}: {desc}", {"kind": "oracle", "oracle": "no panic / hang", "file": f, "text": text, "dto": dto, "impl": r},
                              signature=crash_signature(f, desc, text))
            flat.append(None if desc else flatten_impl(r))
        ctx.coverage["evaluations"] += len(fmts)
        if crashed:
            continue
        # oracle: all formats agree
        base = flat[0]
        for (f, text, files), fl in zip(per[1:], flat[1:]):
            if neutral(fl) != neutral(base):
                sig = "makefile:annotation-fields-dropped" if f == "Makefile" and only_mk_fields_differ(neutral(base), neutral(fl)) else "formats-disagree:" + fmts[0] + "/" + f
                ctx.violation(f"the same package definition loads differently from {fmts[0]} and {f}",
                              {"kind": "oracle", "oracle": "cross-format agreement", "dto": dto, "pkg": d, "formats": [fmts[0], f],
                               "texts": {fmts[0]: per[0][1], f: text}, "loaded": {fmts[0]: base, f: fl}}, signature=sig)
        # model
        if "error" in mo:
            ctx.violation("model driver error", {"kind": "correspondence", "correspondence": "loader.graph", "dto": dto, "model": mo}, found_input=False)
            continue
        mflat = flatten_model(mo)
        if mflat == "ERR":
            stats["load_errors"] += 1
            k = "err:" + str(mo.get("err"))
        else:
            stats["loaded_ok"] += 1
            k = "ok"
            if len(mflat) > 0:
                distinct.add(json.dumps(mflat))
        ek = ctx.coverage.setdefault("enrich_outcomes", {})
        ek[k] = ek.get(k, 0) + 1
        if mflat != base:
            ctx.violation("enrichment: model and implementation disagree",
                          {"kind": "correspondence", "correspondence": "LoadPackages+BuildNodeMapFromPackages vs GrogModel.Loader.enrich/loadGraph",
                           "dto": dto, "pkg": d, "format": fmts[0], "text": per[0][1], "impl": base, "model": mflat, "model_raw": mo}, signature="corr:enrich", found_input=False)
        if case < 2:
            ctx.sample({"definition": dto, "package_dir": d, "formats": fmts, "outcome": k})
    return distinct


def multi_part(ctx, tabs, rng, n, scratch):
    """several packages, mixed formats, same-directory merges; worker counts 1/2/16 and arrival orders."""
    stats = ctx.coverage.setdefault("workspaces", {"cases": 0, "ok": 0, "error": 0, "same_dir_merges": 0, "files": 0})
    cases, ireqs = [], []
    WORKERS = (1, 2, 16, 16)

    def add_case(entries, files):
        # the same workspace is loaded four times: worker counts 1/2/16/16, files created in a different (shuffled) order each time
        cases.append((entries, files))
        ireqs.extend({"op": "load.packages", "dir": scratch, "files": rng.sample(files, len(files)), "workers": w, "timeout_s": 30} for w in WORKERS)

    for case in range(n):
        dirs = rng.sample(G.PKGS, rng.choice([1, 2, 3, 4]))
        entries = []
        for d in dirs:
            k = rng.choice([1, 1, 1, 2, 3])
            names = rng.sample(["BUILD.json", "BUILD.yaml", "BUILD.star", "Makefile", "run.grog.sh", "tool.grog.py"], k)
            if k > 1:
                stats["same_dir_merges"] += 1
            # files of one directory mostly define disjoint names (a collision is a legitimate load error)
            shuffled = rng.sample(G.NAMES, len(G.NAMES))
            pools = [shuffled[i::k] for i in range(k)] if rng.random() < 0.85 else [G.NAMES] * k
            for nm, pool in zip(names, pools):
                faults = rng.random() < 0.04
                if nm.endswith(".grog.sh") or nm.endswith(".grog.py"):
                    t = G.gen_target(rng, rng.choice(pool), G.NAMES, mk=True, faults=faults)
                    t["outputs"] = []
                    entries.append((d, nm, G.render_script(t), None))
                elif nm == "Makefile":
                    dto = G.gen_package(rng, mk=True, faults=faults, max_targets=2, pool=pool)
                    entries.append((d, nm, G.render_makefile(dto, rng), None))
                else:
                    dto = G.gen_package(rng, faults=faults, max_targets=2, pool=pool)
                    if nm == "BUILD.star":          # Starlark cannot express a null list entry
                        dto["targets"] = [t for t in dto["targets"] if t is not None]
                        dto["aliases"] = [a for a in dto["aliases"] if a is not None]
                    entries.append((d, nm, render(dto, nm, rng), dto))
        files = workspace_files([(d, nm, t) for d, nm, t, _ in entries])
        stats["files"] += len(entries)
        add_case(entries, files)
        if case < 3:
            # boundary sizes: more BUILD files than the walker's queue (100) / worker count, many targets in one package
            entries = []
            if case == 0:
                for i in range(130):
                    dto = {"targets": [{**G.gen_target(rng, "t", ["t"], faults=False), "deps": [f"//d{i-1:03d}:t"] if i else [], "inputs": [], "excludes": []}],
                           "aliases": [], "default_platforms": None}
                    nm = ["BUILD.json", "BUILD.yaml", "BUILD.star"][i % 3]
                    entries.append((f"d{i:03d}", nm, render(dto, nm, rng), dto))
            elif case == 1:
                for nm, lo in (("BUILD.yaml", 0), ("BUILD.json", 257)):
                    dto = {"targets": [{**G.gen_target(rng, f"t{i}", [f"t{j}" for j in range(max(0, i - 3), i + 1)], faults=False), "inputs": [], "excludes": []}
                                       for i in range(lo, lo + 257)], "aliases": [], "default_platforms": None}
                    entries.append(("big", nm, render(dto, nm, rng), dto))
            else:
                for i in range(65):
                    dto = {"targets": [{**G.gen_target(rng, f"m{i}", ["m0"], mk=True, faults=False), "inputs": []}], "aliases": [], "default_platforms": None}
                    entries.append((f"m/{i:02d}", "Makefile", G.render_makefile(dto, rng), None))
                    t = G.gen_target(rng, f"s{i}", ["m0"], mk=True, faults=False)
                    t["outputs"] = []; t["inputs"] = []
                    entries.append((f"m/{i:02d}", "run.grog.sh", G.render_script(t), None))
            files = [[rel(d, nm), t] for d, nm, t, _ in entries]
            stats["files"] += len(entries)
            stats["large_cases"] = stats.get("large_cases", 0) + 1
            add_case(entries, files)
    # NESTED packages whose globs overlap across the package boundary: the parent globs `sub/X` (and `**/X`), the child package `sub`
    # globs `X` — the same files under two different package roots — in inputs and in exclude_inputs; plus siblings using one glob string
    def nested_dto(rng, prefix, pats, names):
        ts = []
        for nm in names:
            t = G.gen_target(rng, nm, names, faults=False)
            k = rng.choice([1, 2, 3])
            t["inputs"] = [prefix + x for x in rng.sample(pats, k)] + ([rng.choice(["a.txt", "missing.txt"])] if rng.random() < 0.3 else [])
            t["excludes"] = [prefix + x for x in rng.sample(pats, rng.choice([1, 2]))] if rng.random() < 0.45 else []
            ts.append(t)
        return {"targets": ts, "aliases": [], "default_platforms": None}

    CHILD_PATS = ["*.txt", "*", "**/*", "**/*.go", "[ab].txt", "?.txt", "{a,c}.*", "**/*.txt", "src/*.go", "only_*", "*.md"]
    n_nested = max(12, n // 6)
    for k in range(n_nested):
        parent = rng.choice(["", "p", "lib", "app"]) if k else "app"
        sub = rng.choice(["assets", "src", "q", "x-y"]) if k else "assets"
        child = rel(parent, sub)
        entries = []
        layout = [(parent, sub + "/", ["pa", "pb"]), (child, "", ["ca", "cb"])]
        if rng.random() < 0.4:
            layout.append((rel(child, "deep"), "", ["da"]))              # grandchild: child globs deep/X, parent sub/deep/X
            layout.append((child, "deep/", ["cd"]))
            layout.append((parent, sub + "/deep/", ["pd"]))
        if rng.random() < 0.4:
            layout.append((rel(parent, "sib"), "", ["sa"]))              # sibling with the same glob strings as the child
        if rng.random() < 0.3:
            layout.append((parent, "", ["pr"]))                          # parent with root-level globs (`**/*.txt` reaches into the children)
        by_dir = {}
        for d, prefix, names in layout:
            dto = nested_dto(rng, prefix, CHILD_PATS, names)
            by_dir.setdefault(d, []).append(dto)
        for d, dtos in by_dir.items():
            dto = {"targets": [t for x in dtos for t in x["targets"]], "aliases": [], "default_platforms": None}
            nm = rng.choice(["BUILD.json", "BUILD.yaml", "BUILD.star"])
            entries.append((d, nm, render(dto, nm, rng), dto))
        files = workspace_files([(d, nm, t) for d, nm, t, _ in entries])
        stats["files"] += len(entries)
        stats["nested_overlapping_globs"] = stats.get("nested_overlapping_globs", 0) + 1
        add_case(entries, files)
    io = G.run_resilient(ctx, ireqs)
    if io is None:
        return False
    ctx.coverage["evaluations"] += len(ireqs)
    mfs = model_files_batch(ctx, tabs, cases, scratch)
    mreqs, midx = [], []
    for c, mf in enumerate(mfs):
        if mf == "ERR":
            continue
        for o in (mf, list(reversed(mf)), rng.sample(mf, len(mf))):
            mreqs.append({"op": "loader.graph", "files": o})
            midx.append(c)
    mres = {}
    for c, r in zip(midx, ctx.model(mreqs)):
        mres.setdefault(c, []).append(flatten_model(r))
    for case, (entries, files) in enumerate(cases):
        rs = io[case * len(WORKERS):(case + 1) * len(WORKERS)]
        files = sorted(files)
        flat = []
        crashed = False
        for r in rs:
            desc = bad_reply(r)
            if desc:
                crashed = True
                ctx.violation(f"workspace load: {desc}", {"kind": "oracle", "oracle": "no panic / hang", "files": files, "impl": r},
                              signature=crash_signature("workspace", desc, ""))
            else:
                flat.append(flatten_impl(r))
        if crashed:
            continue
        stats["cases"] += 1
        if any(f != flat[0] for f in flat):
            ctx.violation("the loaded graph depends on the worker count / arrival order",
                          {"kind": "oracle", "oracle": "worker-count independence", "files": files, "workers": list(WORKERS), "loaded": flat},
                          signature="load-depends-on-worker-count")
        # oracle without the model: resolved inputs = literal inputs and, per glob, what doublestar itself resolves inside the package
        # directory, minus everything the exclusion patterns resolve to there
        if flat[0] != "ERR" and mfs[case] != "ERR":
            loaded = {}
            for k_, j_ in flat[0]:
                if k_ == "t":
                    o_ = json.loads(j_)
                    loaded[tuple(o_["label"])] = o_["inputs"]
            for fe in mfs[case]:
                tab = {p_: m_ for p_, m_ in fe["globs"]}
                pk = "" if fe["pkg"] == "." else fe["pkg"]
                for t_ in fe["dto"].get("targets", []):
                    if t_ is None or (pk, t_["name"]) not in loaded:
                        continue
                    ref = []
                    for i_ in t_["inputs"]:
                        ref += (tab.get(i_) or []) if any(c in i_ for c in "*?[{") else [i_]
                    if t_["excludes"]:
                        ex = {x for e_ in t_["excludes"] for x in (tab.get(e_) or [])}
                        ref = [x for x in ref if x not in ex]
                    got = loaded[(pk, t_["name"])]
                    if got != ref:
                        ctx.violation(f"target //{pk}:{t_['name']}: resolved inputs differ from the reference resolution of its globs inside its own package directory",
                                      {"kind": "oracle", "oracle": "resolved inputs after excludes = reference glob resolution per package", "files": files,
                                       "package": pk, "target": t_["name"], "inputs": t_["inputs"], "exclude_inputs": t_["excludes"],
                                       "loaded_inputs": got, "reference_inputs": ref}, signature="resolved-inputs-differ-from-reference")
        mflats = mres.get(case, ["ERR"])
        stats["ok" if mflats[0] != "ERR" else "error"] += 1
        if any(m != flat[0] for m in mflats):
            ctx.violation("workspace load: model and implementation disagree",
                          {"kind": "correspondence", "correspondence": "LoadPackages (merge) vs GrogModel.Loader.loadWorkspace",
                           "files": files, "impl": flat[0], "model": mflats}, signature="corr:workspace", found_input=False)
        if case < 1:
            ctx.sample({"workspace_files": [f[0] for f in files if f[1] != "data"], "outcome": "ERR" if flat[0] == "ERR" else f"{len(flat[0])} nodes"})
    return True


# ----------------------------------------------------------------------------------------------
# (d) crash stream (fuzzing)
# ----------------------------------------------------------------------------------------------

def crash_part(ctx, tabs, rng, n, scratch):
    fz = ctx.coverage.setdefault("fuzzing", {"label": "FUZZING (not proof): byte-level corruptions of valid renderings fed to the real loaders "
                                             "through LoadPackages under recover + per-case timeout", "cases": 0, "by_kind": {}, "by_format": {},
                                             "outcome_error": 0, "outcome_loaded": 0, "panics_or_hangs": 0})
    reqs, meta = [], []
    scan_texts = []
    data_seeds = ['{"targets":[null]}', '{"targets":[{"name":"a","command":"c"}],"aliases":[null]}', "targets:\n- ~\n", "targets:\n- null\n- name: a\n",
                  "aliases:\n- ~\n", '{"targets":null}', "null", "[]", "{}", "", "targets: 3", '{"targets":[[]]}', '{"targets":{"a":1}}',
                  "&a [*a, *a, *a, *a, *a, *a, *a, *a, *a]", "a: &a [*a]", '{"targets":[{"name":"a","command":"c","dependencies":[null]}]}',
                  '{"targets":[{"name":"a","command":"c","output_checks":[null]}]}', "targets:\n- name: a\n  fingerprint: {a: [1]}\n"]
    star_seeds = ["target(name=1)", "target()", "def f():\n  f()\nf()\n", "load(\"BUILD.star\", \"x\")\n", "load(\"//BUILD.star\", \"x\")\n",
                  "while True: pass\n", "target(name=\"a\", output_checks=[1])", "target(name=\"a\", fingerprint={1: 2})",
                  "target(name=\"a\", dependencies=[1])", "target(name=\"a\", output_checks=[{}])", "alias(name=\"a\")", "target(name=\"a\")\n" * 3,
                  "x = target\nx(name=\"a\")\n", "target(name=\"a\", platforms=None)"]
    for s in data_seeds:
        for name in ("BUILD.json", "BUILD.yaml"):
            reqs.append({"op": "load.packages", "dir": scratch, "files": [[name, s]], "workers": 2, "timeout_s": 15})
            meta.append((name, "seed", s))
    for s in star_seeds:
        reqs.append({"op": "load.packages", "dir": scratch, "files": [["BUILD.star", s]], "workers": 2, "timeout_s": 15})
        meta.append(("BUILD.star", "seed", s))
    # TYPE-level corruptions: every field of a target / alias / package with every wrongly typed value, in every format
    typed = G.typed_corruptions()
    if ctx.tier == "quick":
        typed = [c for c in typed if c[0] in ("BUILD.star", "BUILD.json") or rng.random() < 0.35]
    for name, text, d in typed:
        reqs.append({"op": "load.packages", "dir": scratch, "files": [[name, text]], "workers": 2, "timeout_s": 15})
        meta.append((name, "type:" + d.split("=")[0], text))
    # a valid definition followed by trailing data: the file as a whole is malformed and must be rejected
    for k in range(12 if ctx.tier == "quick" else 60):
        dto = G.gen_package(rng, faults=False)
        js, ym = G.render_json(dto, rng), G.render_yaml(dto)
        for name, text in (("BUILD.json", js + rng.choice(["x", " garbage", "\n{", "\n]", "\n\"", "\n}}", " ,", "\n{\"targets\": 3}", "\n@"])),
                           ("BUILD.yaml", ym + rng.choice(["---\n[\n", "---\nfoo: [1,\n", "---\n\"unterminated\n", "---\n{a: b\n", "...\n---\n- ]\n"])),
                           ("BUILD.yaml", js + rng.choice(["\n---\n}", "\n---\n[1,"]))):
            reqs.append({"op": "load.packages", "dir": scratch, "files": [[name, text]], "workers": 2, "timeout_s": 15})
            meta.append((name, "trailing-garbage", text))
    for _ in range(n):
        name = rng.choice(FORMATS + ["x.grog.sh"])
        if name == "x.grog.sh":
            base = G.render_script(G.gen_target(rng, "s", G.NAMES, mk=True, faults=False))
        else:
            base = render(G.gen_package(rng, mk=(name == "Makefile"), faults=False), name, rng)
        text, kind = G.corrupt(rng, base)
        reqs.append({"op": "load.packages", "dir": scratch, "files": [[name, text]], "workers": 2, "timeout_s": 15})
        meta.append((name, kind, text))
        if name in ("Makefile", "x.grog.sh"):
            scan_texts.append((name, text))
    io = G.run_resilient(ctx, reqs, chunk=200)
    if io is None:
        return False
    for (name, kind, text), r in zip(meta, io):
        fz["cases"] += 1
        kk = "type-level" if kind.startswith("type:") else kind
        fz["by_kind"][kk] = fz["by_kind"].get(kk, 0) + 1
        fz["by_format"][name] = fz["by_format"].get(name, 0) + 1
        ctx.coverage["evaluations"] += 1
        desc = bad_reply(r)
        if desc:
            fz["panics_or_hangs"] += 1
            ctx.violation(f"{name} ({kind}): {desc}", {"kind": "oracle", "oracle": "no panic / hang (fuzzing)", "file": name, "corruption": kind,
                                                       "text": text, "impl": r}, signature=crash_signature(name, desc, text))
        elif r.get("err"):
            fz["outcome_error"] += 1
        else:
            fz["outcome_loaded"] += 1
            if kind == "trailing-garbage":
                ctx.violation(f"{name}: a valid package definition followed by garbage loads without an error (the trailing data is silently ignored)",
                              {"kind": "oracle", "oracle": "a malformed BUILD file yields an error", "file": name, "corruption": kind, "text": text, "impl": r},
                              signature="trailing-data-ignored:" + ("json" if name == "BUILD.json" else "yaml"))
    # a Starlark program that does not terminate in any reasonable time (own driver process: the evaluation keeps running)
    runaway = "def f():\n    for a in range(1000000):\n        for b in range(1000000):\n            for c in range(1000000):\n                pass\nf()\n"
    r = G.run_resilient(ctx, [{"op": "load.packages", "dir": scratch, "files": [["BUILD.star", runaway]], "workers": 1, "timeout_s": 6}])[0]
    fz["cases"] += 1
    fz["by_kind"]["runaway-program"] = 1
    ctx.coverage["evaluations"] += 1
    desc = bad_reply(r)
    if desc:
        fz["panics_or_hangs"] += 1
        ctx.violation("BUILD.star with a (practically) non-terminating loop: the loader does not return within 6 s and has no step limit",
                      {"kind": "oracle", "oracle": "no panic / hang (fuzzing)", "file": "BUILD.star", "corruption": "runaway-program", "text": runaway, "impl": r},
                      signature="starlark:unbounded-evaluation")
    # the same program, but the command's context is cancelled after 1 s (what SIGINT / SIGTERM do): loading must stop
    r = G.run_resilient(ctx, [{"op": "load.packages", "dir": scratch, "files": [["BUILD.star", runaway]], "workers": 1, "timeout_s": 8,
                               "cancel_after_ms": 1000}])[0]
    fz["cases"] += 1
    fz["by_kind"]["runaway-program-interrupted"] = 1
    ctx.coverage["evaluations"] += 1
    desc = bad_reply(r)
    if desc or not r.get("err"):
        fz["panics_or_hangs"] += 1
        ctx.violation("BUILD.star with a (practically) non-terminating loop: loading does not stop when the command's context is cancelled "
                      "(after SIGINT grog prints 'Received signal, exiting...' and keeps evaluating; further SIGINTs are swallowed)",
                      {"kind": "oracle", "oracle": "no hang: cancellation stops the loaders", "file": "BUILD.star", "corruption": "runaway-program, context cancelled after 1 s",
                       "text": runaway, "impl": r}, signature="starlark:ignores-cancellation")
    # long-running code inside load()ed modules (one level and nested), cancelled both ways: by the command's context (SIGINT / SIGTERM)
    # and by a neighbouring package file that fails to load (LoadPackages cancels its load context on the first error)
    from concurrent.futures import ThreadPoolExecutor
    body = "def f():\n    for a in range(1000000):\n        for b in range(1000000):\n            for c in range(1000000):\n                pass\n"
    mod_run = body + "f()\nx = 1\n"
    load_lib = "load(\"lib.star\", \"x\")\ntarget(name = \"a\", command = \"true\")\n"
    nested = [["p/BUILD.star", "load(\"a.star\", \"y\")\ntarget(name = \"a\", command = \"true\")\n"], ["p/a.star", "load(\"sub/b.star\", \"x\")\ny = x\n"],
              ["p/sub/b.star", mod_run]]
    absolute = [["p/BUILD.star", "load(\"//tools/lib.star\", \"x\")\ntarget(name = \"a\", command = \"true\")\n"], ["tools/lib.star", mod_run]]
    bad_neighbour = ["q/BUILD.json", "{\"targets\": [{\"name\": \"n\", \"command\": \"true\", \"dependencies\": [\"not a label\"]}]}"]
    scen = [("module, context cancelled", [["p/BUILD.star", load_lib], ["p/lib.star", mod_run]], 700),
            ("nested modules, context cancelled", nested, 700),
            ("//-module, context cancelled", absolute, 700),
            ("module, neighbouring file fails", [["p/BUILD.star", load_lib], ["p/lib.star", mod_run], bad_neighbour], 0),
            ("nested modules, neighbouring file fails", nested + [bad_neighbour], 0),
            ("main file, neighbouring file fails", [["p/BUILD.star", runaway], bad_neighbour], 0)]

    def one(sc):
        what, files, cancel_ms = sc
        req = {"op": "load.packages", "dir": os.path.join(scratch, "rw" + str(abs(hash(what)) % 100000)), "files": files, "workers": 4, "timeout_s": 8}
        if cancel_ms:
            req["cancel_after_ms"] = cancel_ms
        os.makedirs(req["dir"], exist_ok=True)
        return G.run_resilient(ctx, [req])[0]
    with ThreadPoolExecutor(max_workers=3) as ex:
        outs = list(ex.map(one, scen))
    for (what, files, cancel_ms), r in zip(scen, outs):
        fz["cases"] += 1
        fz["by_kind"]["runaway-module-cancelled"] = fz["by_kind"].get("runaway-module-cancelled", 0) + 1
        ctx.coverage["evaluations"] += 1
        desc = bad_reply(r)
        if desc or not r.get("err"):
            fz["panics_or_hangs"] += 1
            ctx.violation(f"long-running Starlark code ({what}): loading does not stop although it was cancelled",
                          {"kind": "oracle", "oracle": "no hang: cancellation stops the loaders, also inside load()ed modules", "files": files,
                           "cancelled_by": "context after %d ms" % cancel_ms if cancel_ms else "a neighbouring package file that fails to load", "impl": r},
                          signature="starlark:ignores-cancellation")
    # corrupted Makefiles / scripts also go through the scanner correspondence
    scanner_part(ctx, tabs, scan_texts, scratch)
    return True


# ----------------------------------------------------------------------------------------------

def sval(v):
    """python value -> protocol encoding of a Starlark value (dicts as {"d": [[k, v], ..]})"""
    if isinstance(v, dict):
        return {"d": [[sval(k), sval(x)] for k, x in v.items()]}
    if isinstance(v, list):
        return [sval(x) for x in v]
    return v


STAR_KEYS = {"deps": "dependencies", "excludes": "exclude_inputs", "checks": "output_checks", "env": "environment_variables"}


def star_calls_of(dto):
    """keyword calls of a generated package definition"""
    calls = []
    for t in dto["targets"]:
        kw = [["name", t["name"]], ["command", t["command"]]]
        for k in ("deps", "inputs", "excludes", "outputs", "tags"):
            if t[k]:
                kw.append([STAR_KEYS.get(k, k), list(t[k])])
        if t["bin_output"]:
            kw.append(["bin_output", t["bin_output"]])
        if t["checks"]:
            kw.append(["output_checks", [dict([("command", c)] + ([("expected_output", e)] if e else [])) for c, e in t["checks"]]])
        for k in ("fingerprint", "env"):
            if t[k]:
                kw.append([STAR_KEYS.get(k, k), dict(t[k])])
        if t["platforms"] is not None:
            kw.append(["platforms", list(t["platforms"])])
        if t["timeout"]:
            kw.append(["timeout", t["timeout"]])
        calls.append(("target", kw))
    for a in dto["aliases"]:
        calls.append(("alias", [["name", a["name"]], ["actual", a["actual"]]]))
    return calls


def starlark_part(ctx, rng, scratch):
    """first-party Starlark builtins (target(), alias(), list / dict conversion): real loader vs model on keyword calls with every
    field set to every wrongly (and rightly) typed value, unknown / repeated / missing keywords, and generated valid definitions."""
    base = {"name": "a", "command": "c", "dependencies": [":b"], "inputs": ["a.txt"], "exclude_inputs": ["b.txt"], "outputs": ["o"], "bin_output": "bin/a",
            "output_checks": [{"command": "true"}], "tags": ["t"], "fingerprint": {"k": "v"}, "platforms": ["linux/amd64"],
            "environment_variables": {"E": "1"}, "timeout": "5s"}
    extra_values = [{1: 2}, {"k": ""}, {"": "v"}, [""], [{"command": "c", "expected_output": ""}], [{"command": "c", "expected_output": None}],
                    [{"command": "c", "x": 1}], [{1: "c"}], [{"command": None}], [[]], "x\ny", {"a": "1", "b": "2"}]
    cases = []
    for f in G.TARGET_FIELDS:
        for v in G.WRONG_VALUES + extra_values:
            kw = [[k, (v if k == f else x)] for k, x in base.items()]
            cases.append([("target", kw)])
    for f in G.TARGET_FIELDS:                                                 # a keyword left out / given twice / misspelt
        cases.append([("target", [[k, x] for k, x in base.items() if k != f])])
        cases.append([("target", [[k, x] for k, x in base.items()] + [[f, base[f]]])])
        cases.append([("target", [[(k + "s" if k == f else k), x] for k, x in base.items()])])
    for v in G.WRONG_VALUES:
        cases.append([("alias", [["name", v], ["actual", ":a"]])])
        cases.append([("alias", [["name", "al"], ["actual", v]])])
    cases += [[("alias", [["name", "al"]])], [("alias", [["actual", ":a"]])], [("alias", [["name", "al"], ["actual", ":a"], ["extra", "x"]])],
              [("target", [["name", "a"]]), ("target", [["name", "a"]])], []]
    for _ in range(150 if ctx.tier == "quick" else 1500):
        cases.append(star_calls_of(G.gen_package(rng, faults=False)))
    texts = []
    for calls in cases:
        lines = [f"{fn}(" + ", ".join(f"{k} = {G.star_lit(v)}" for k, v in kw) + ")" for fn, kw in calls]
        texts.append("\n".join(lines) + "\n")
    mo = ctx.model([{"op": "loader.star", "calls": [{"fn": fn, "kw": [[k, sval(v)] for k, v in kw]} for fn, kw in calls]} for calls in cases])
    io = G.run_resilient(ctx, [{"op": "load.file", "dir": scratch, "name": "BUILD.star", "text": t, "timeout_s": 10} for t in texts])
    if io is None:
        return
    st = ctx.coverage.setdefault("starlark_builtins", {"cases": 0, "accepted": 0, "rejected": 0})

    def norm(ts):
        out = []
        for t in ts:
            t = dict(t)
            t["fingerprint"] = sorted(t["fingerprint"]); t["env"] = sorted(t["env"])
            out.append(t)
        return out
    for calls, text, m, i in zip(cases, texts, mo, io):
        st["cases"] += 1
        ctx.coverage["evaluations"] += 1
        desc = bad_reply(i)
        if desc:
            ctx.violation(f"BUILD.star builtin call: {desc}", {"kind": "oracle", "oracle": "no panic / hang", "file": "BUILD.star", "text": text, "impl": i},
                          signature=crash_signature("BUILD.star", desc, text))
            continue
        if "error" in m or "error" in i:
            ctx.violation("driver error in the Starlark builtin correspondence", {"kind": "correspondence", "correspondence": "starlark builtins",
                                                                                 "text": text, "impl": i, "model": m}, signature="corr:starlark", found_input=False)
            continue
        st["rejected" if m["err"] else "accepted"] += 1
        same = bool(m["err"]) == bool(i["err"]) and (m["err"] or (norm(m["targets"]) == norm(i["dto"]["targets"]) and m["aliases"] == i["dto"]["aliases"]))
        if not same:
            ctx.violation("Starlark builtins: model and implementation disagree",
                          {"kind": "correspondence", "correspondence": "StarlarkLoader target()/alias() vs GrogModel.Loader.starTarget/starAlias",
                           "text": text, "impl": i, "model": m}, signature="corr:starlark", found_input=False)


def cli_part(ctx):
    """clause "an error message and a non-zero exit, never a panic": the real grog binary on malformed workspaces"""
    import subprocess
    grog = ctx.grog_binary()
    if not grog:
        return
    cases = [("valid", {"BUILD.json": '{"targets":[{"name":"a","command":"true"}]}'}, True),
             ("bad json", {"BUILD.json": '{"targets":[{"name":"a",'}, False),
             ("json with trailing garbage", {"BUILD.json": '{"targets":[{"name":"a","command":"true"}]} }garbage'}, False),
             ("yaml with a garbage second document", {"BUILD.yaml": "targets:\n- name: a\n  command: x\n---\n[1,\n"}, False),
             ("null entry", {"BUILD.json": '{"targets":[null]}'}, False),
             ("bad yaml", {"BUILD.yaml": "targets:\n  - name: [\n"}, False),
             ("yaml null entry", {"BUILD.yaml": "targets:\n- ~\n"}, False),
             ("bad starlark", {"BUILD.star": "target(name=1)\n"}, False),
             ("bare annotation", {"Makefile": "# @grog\nfoo:\n\ttrue\n"}, True),
             ("annotation yaml error", {"Makefile": "# @grog\n# name: [\nfoo:\n"}, False),
             ("rule without colon", {"Makefile": "# @grog\n# name: x\nfoo\n"}, False),
             ("bad label", {"BUILD.json": '{"targets":[{"name":"a","command":"true","dependencies":["nope"]}]}'}, False),
             ("duplicate across files", {"BUILD.json": '{"targets":[{"name":"a","command":"true"}]}', "BUILD.yaml": "targets:\n- name: a\n  command: x\n"}, False),
             ("bad timeout", {"BUILD.json": '{"targets":[{"name":"a","command":"true","timeout":"soon"}]}'}, False),
             ("script yaml error", {"x.grog.sh": "# @grog\n# name: [\necho\n"}, False)]
    res = []
    for k, (what, files, ok) in enumerate(cases):
        ws = ctx.scratch(f"cli/w{k}")
        open(os.path.join(ws, "grog.toml"), "w").write("")
        for f, t in files.items():
            open(os.path.join(ws, f), "w").write(t)
        env = dict(os.environ, GROG_ROOT=ctx.scratch("cli/root"), HOME=ctx.scratch("cli/home"))
        try:
            p = subprocess.run([grog, "list", "//..."], cwd=ws, env=env, capture_output=True, text=True, timeout=30)
            rc, out = p.returncode, p.stdout + p.stderr
        except subprocess.TimeoutExpired:
            rc, out = "timeout", ""
        res.append({"case": what, "exit": rc})
        ctx.coverage["evaluations"] += 1
        crashed = rc == "timeout" or "panic:" in out or "goroutine " in out or (isinstance(rc, int) and rc < 0)
        if crashed:
            ctx.violation(f"grog list on a workspace with {what}: " + ("no exit within 30 s" if rc == "timeout" else "the process panicked"),
                          {"kind": "oracle", "oracle": "CLI: error message and non-zero exit, never a panic", "files": [[f, t] for f, t in files.items()],
                           "exit": rc, "output": out[-1500:]}, signature=crash_signature(list(files)[0], "hang" if rc == "timeout" else "panic: " + out[-200:], ""))
        elif ok != (rc == 0) or (not ok and not out.strip()):
            ctx.violation(f"grog list on a workspace with {what}: exit status {rc}" + ("" if out.strip() else " and no message"),
                          {"kind": "oracle", "oracle": "CLI: error message and non-zero exit for malformed files, zero for valid ones",
                           "files": [[f, t] for f, t in files.items()], "exit": rc, "output": out[-1500:]}, signature="cli:wrong-exit-status")
    ctx.coverage["cli_exit_status"] = res


def run(ctx):
    quick = ctx.tier == "quick"
    scratch = ctx.scratch("ws")
    tabs = Tables(ctx)
    if ctx.impl_binary() is None:
        return
    n_scan, n_cross, n_multi, n_crash = (1500, 700, 160, 1500) if quick else (12000, 6000, 1500, 15000)
    ctx.coverage["rule"] = (f"(a) {n_scan} Makefile/script texts assembled from annotation line fragments (incl. unicode spaces, CR, 64 KiB lines) "
                            f"plus corrupted renderings, real Load vs model scanner; (b) {n_cross} generated package definitions (≈35% with injected "
                            "faults: bad labels, duplicate names, bad globs, bad outputs, bad timeouts) rendered to JSON/YAML/Starlark(/Makefile) and "
                            f"loaded by LoadPackages, compared with each other and with the model; (c) {n_multi} multi-package workspaces with "
                            f"same-directory merges under workers 1/2/16; (d) FUZZING: {n_crash} byte-level corruptions + fixed adversarial seeds. "
                            "distinct_nontrivial = distinct non-empty loaded graphs in (b) + scanner texts that yield at least one target in (a)")
    texts = [("Makefile", t) for t in gen_scanner_texts(ctx.rng, n_scan)]
    texts += [(ctx.rng.choice(["x.grog.sh", "y.grog.py"]), t) for _, t in texts[: len(texts) // 3]]
    nt = scanner_part(ctx, tabs, texts, scratch)
    if nt is None:
        return
    ctx.sample({"scanner_text": texts[20][1][:200], "file": texts[20][0]})
    distinct = cross_format_part(ctx, tabs, ctx.rng, n_cross, scratch)
    if distinct is False:
        return
    ctx.coverage["distinct_nontrivial"] = nt + len(distinct)
    if not multi_part(ctx, tabs, ctx.rng, n_multi, scratch):
        return
    crash_part(ctx, tabs, ctx.rng, n_crash, scratch)
    starlark_part(ctx, ctx.rng, scratch)
    cli_part(ctx)
    ctx.coverage["traces_validated_against_impl"] = ctx.coverage["evaluations"]
    bad_yaml = [c for c, v in tabs.yaml.items() if isinstance(v, tuple)]
    for c in bad_yaml[:1]:
        ctx.violation("yaml.v3 " + tabs.yaml[c][1], {"kind": "oracle", "oracle": "no panic / hang (fuzzing)", "content": c}, signature="yaml:panic")
    # report violations that come with a concrete failing input first
    ctx.violations.sort(key=lambda v: not v[1])


def replay(ctx, rep):
    scratch = ctx.scratch("ws")
    if "files" in rep:
        for w in (1, 2, 16):
            r = G.run_resilient(ctx, [{"op": "load.packages", "dir": scratch, "files": rep["files"], "workers": w, "timeout_s": 20}])[0]
            print(f"impl workers={w}:", json.dumps(r)[:1500])
        return 0
    if "text" in rep and "file" in rep:
        r = G.run_resilient(ctx, [{"op": "load.packages", "dir": scratch, "files": [[rep["file"], rep["text"]]], "workers": 2, "timeout_s": 20}])[0]
        print("impl load.packages:", json.dumps(r)[:1500])
        r = G.run_resilient(ctx, [{"op": "load.file", "dir": scratch, "name": rep["file"], "text": rep["text"], "timeout_s": 20}])[0]
        print("impl load.file    :", json.dumps(r)[:1500])
        if rep["file"] == "Makefile" or ".grog." in rep["file"]:
            tabs = Tables(ctx)
            b = ctx.model([{"op": "loader.mk.blocks", "text": rep["text"]}])[0]
            tabs.need_yaml(b["blocks"])
            op = {"op": "loader.mk", "text": rep["text"], "decode": tabs.decode_table(b["blocks"])} if rep["file"] == "Makefile" else \
                 {"op": "loader.script", "name": rep["file"], "text": rep["text"], "decode": tabs.decode_table(b["blocks"])}
            print("model             :", json.dumps(ctx.model([op])[0])[:1500])
        return 0
    if "texts" in rep:
        for f, t in rep["texts"].items():
            files = workspace_files([(rep.get("pkg", ""), f, t)])
            r = G.run_resilient(ctx, [{"op": "load.packages", "dir": scratch, "files": files, "workers": 1, "timeout_s": 20}])[0]
            print(f, "->", json.dumps(flatten_impl(r))[:1500])
        return 0
    print("nothing to replay in this file (see 'kind')")
    return 0
