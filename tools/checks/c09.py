"""C09 — cache keys are canonical: equal exactly when the build state is equal.

Theorem side : GrogModel/Props/C09.lean — key_eq_iff for all pairs of states (framing injective, sorting canonical).
Correspondence: hashing.GetTargetChangeHash of the current tree under hash_algorithm=sha256 vs the Lean model's
                key computed with the model's own SHA-256 over the model's byte stream: byte-exact. This is what
                transfers the injectivity theorem about `enc` to the real byte stream without a hook.
                The same under the default hash_algorithm=xxh3: the model carries its own XXH3-128 (GrogModel/Xxh3.lean), validated
                against grog's hasher on every run at every length class and block boundary, so xxh3 keys are compared byte-exactly too.
Oracle (no model): for every generated pair of states, "real keys equal  <=>  states equal" where state
                equality is computed in Python from the property text (label, command, set of (path, content),
                outputs, fingerprint map, platform unless multiplatform, dependency digests).
"""
import copy, json

PROPERTY = "C09"
LEVEL = "proof"
LEVEL_TEXT = ("Lean 4 theorem key_eq_iff: for all pairs of target states, the model's key (hash of a length-framed, sorted byte "
              "stream) is equal iff the states agree on label, command, set of (input path, content), output definitions, "
              "dependency digests, fingerprint map and platform — assuming only that the hash function is injective on the two "
              "streams involved; plus order-independence and location-freedom lemmas, and the same for the digests that enter keys through "
              "dependencies (output hash, no-cache output hash: nocache_outHash_inj, content digests). The byte stream of the model is tied to the "
              "code by comparing real keys byte-for-byte on every run under both hash algorithms (the model carries its own SHA-256 and XXH3-128, "
              "validated against the real hashers each run), and a model-independent pair oracle searches the real "
              "code for collisions / spurious differences (boundary shifts, separators inside elements, permutations, weakened file frames, "
              "block-permuted large files, workspace location, host environment).")
LEVEL_NOTE = ("Trusted: Lean kernel; axioms propext/Classical.choice/Quot.sound; hash functions are parameters (collision resistance of "
              "xxh3-128/SHA-256 is not claimed); Lean SHA-256 and XXH3-128 implementations validated against crypto/sha256 and zeebo/xxh3 on every run; component "
              "lengths < 2^64; glob resolution and file reading (os.Open/Stat/io.Copy) outside the model; sampled correspondence.")
TECHNIQUE = "Lean 4 proof (injective framing + canonical sorting) + byte-exact SHA-256 and XXH3-128 key correspondence + pair oracle on the real hasher"
OBLIGATIONS = [
    "Grog.C09.key_eq_iff",
    "Grog.C09.key_eq_state_or_collision",
    "Grog.C09.key_order_independent",
    "Grog.C09.enc_injective",
    "Grog.C09.encFiles_injective",
    "Grog.C09.field_append_inj",
    "Grog.C09.old_collision_witnesses",
    "Grog.C09.old_dup_input_witness",
    "Grog.C09.outHash_inj",
    "Grog.C09.serOutput_injective",
    "Grog.C09.outHash_outputs_inj",
    "Grog.C09.outHash_order_independent",
    "Grog.C09.nocache_outHash_inj",
    "Grog.C09.nocache_outHash_order_independent",
    "Grog.C09.nocache_old_swap_witness",
    "Grog.C09.hashContent_inj",
]
ASSUMPTIONS = [
    "hash function injective on the streams that occur (explicit hypothesis of key_eq_iff; example instantiates it)",
    "every hashed component is shorter than 2^64 bytes (hypothesis Small; true of every Go string)",
    "a file's content is a function of its path at hashing time",
]

FRAG = ["a", "b", "c", "ab", "bc", "abc", ",", "=", "_", "::", "/", " ", "x", "echo", "\n", "1", "00", ""]
PATHS = ["a", "b", "ab", "c", "a,b", "bc", "a.txt", "d/e", "d/f", "a=b", "z"]
CONTENTS = ["", "a", "b", "ab", "c", "bc", "abc", "x,y", "hello\n", "\x00", "\x01", "\x00\x00\x00\x00\x00\x00\x00\x01a"]
DEPS = ["", "d1", "d2", "d1d2", "0123456789abcdef0123456789abcdef", "d1,d2"]
DEPLABELS = ["//d:a", "//d:b", "//d:ab", "//e:a", "//d=x:a", "//:a"]
OUTS = [("file", "o"), ("file", "o2"), ("dir", "o"), ("dir", "d/"), ("docker", "img:tag"), ("file", "o,file::o2"), ("file", "a"), ("file", "b")]
FPK = ["k", "k2", "a", "a=b", "v", "platform", "label", "command", "inputs", "os", "arch", "K", "Version", "version", "VERSION", "A"]
FPV = ["", "v", "b=c", "c", "1", "linux/amd64", "darwin/arm64", "l/a"]
PLATS = ["linux/amd64", "darwin/arm64", "l/a", "linux/amd64x"]


def gen_state(rng):
    k = rng.randint(0, 4)
    paths = [rng.choice(PATHS) for _ in range(k)]
    files = {}
    for p in set(paths) | ({rng.choice(PATHS)} if rng.random() < 0.2 else set()):
        # d/e and d/f need d to be a directory: never use "d" as a file; "a" vs "a.txt" etc are fine
        files[p] = None if rng.random() < 0.15 else rng.choice(CONTENTS)
    nfp = rng.randint(0, 3)
    fp = {}
    for _ in range(nfp):
        fp[rng.choice(FPK)] = rng.choice(FPV)
    outs = rng.sample(OUTS, rng.randint(0, 3))
    # some inputs are symbolic links to a file that is not itself an input: the state is (path, content the link resolves to)
    links = {}
    for p in list(files):
        if "/" not in p and files[p] is not None and rng.random() < 0.12:
            links[p] = "_t_" + "".join("%02x" % ord(ch) for ch in p)
    # fields of a target that are NOT part of the state (the key must not depend on them)
    extra = {"selectors": rng.choice([[], [], ["linux/amd64"], ["darwin/arm64"], ["linux/amd64", "darwin/arm64"]]),
             "env": rng.choice([{}, {}, {"K": "v"}, {"PATH": "/x"}]), "extra_tags": rng.choice([[], [], ["no-cache"], ["manual", "T1"]])}
    return {
        "links": links, "extra": extra,
        "pkg": rng.choice(["", "p", "p/q"]), "name": rng.choice(["t", "t2", "a", "ab"]),
        "command": "".join(rng.choice(FRAG) for _ in range(rng.randint(0, 4))),
        "inputs": paths, "files": files,
        "outputs": [list(o) for o in outs], "deps": {l: rng.choice(DEPS) for l in rng.sample(DEPLABELS, rng.randint(0, 3))},
        "fingerprint": fp, "platform": rng.choice(PLATS + [None]),
        "bin": rng.choice(["", "", "", "binout"]),
    }


def canon_state(s):
    """state equality from the property text"""
    ins = frozenset((p, s["files"].get(p)) for p in s["inputs"])
    outs = tuple(sorted(tuple(o) for o in s["outputs"])) + ((("file", s["bin"]),) if s.get("bin") else ())
    return (s["pkg"], s["name"], s["command"], ins, tuple(sorted(outs)), tuple(sorted(s["deps"].items())),
            tuple(sorted(s["fingerprint"].items())), s["platform"])


def to_req(s, algo, rootname="ws", rng=None):
    fp = list(s["fingerprint"].items())
    files = list(s["files"].items())
    if rng is not None:
        rng.shuffle(fp); rng.shuffle(files)
    return {"op": "hash.key", "variant": __import__("os").environ.get("VERIF_C09_VARIANT", "new"), "algo": algo, "rootname": rootname, "pkg": s["pkg"], "name": s["name"], "command": s["command"],
            "inputs": list(s["inputs"]), "files": [[p, c] for p, c in files], "outputs": [list(o) for o in s["outputs"]],
            "deps": [[k, v] for k, v in (sorted(s["deps"].items(), reverse=True) if rng is not None and rng.random() < 0.5 else s["deps"].items())],
            "fingerprint": [[k, v] for k, v in fp], "platform": s["platform"], "bin": s.get("bin", ""),
            # symbolic links: "files" carries the content each link resolves to (what the model hashes); the real side replaces the file by a
            # link to a hidden file with that content
            "links": [[p, t] for p, t in s.get("links", {}).items() if s["files"].get(p) is not None],
            "hidden": [[t, s["files"][p]] for p, t in s.get("links", {}).items() if s["files"].get(p) is not None],
            "selectors": s.get("extra", {}).get("selectors", []), "env": [[k, v] for k, v in s.get("extra", {}).get("env", {}).items()],
            "extra_tags": s.get("extra", {}).get("extra_tags", [])}


def base_state():
    return {"pkg": "p", "name": "t", "command": "cmd", "inputs": [], "files": {}, "outputs": [], "deps": {}, "fingerprint": {},
            "platform": "linux/amd64", "bin": "", "links": {}, "extra": {}}


def targeted_pairs():
    """(family, s1, s2) — adversarial pairs from the property's quantifier. Expected relation is computed by the oracle."""
    out = []
    def st(**kw):
        s = base_state(); s.update(kw); return s
    # command / inputs boundary
    out.append(("shift:command|inputs", st(command="ab", inputs=["c"], files={"c": "x"}), st(command="a", inputs=["bc"], files={"bc": "x"})))
    out.append(("shift:name|command", st(name="ab", command="c"), st(name="a", command="bc")))
    out.append(("shift:command|outputs", st(command="xfile::", outputs=[["file", "o"]]), st(command="x", outputs=[["file", "file::o"]])))
    # separators inside list elements
    out.append(("sep:inputs", st(inputs=["a,b"], files={"a,b": "x"}), st(inputs=["a", "b"], files={"a": "x", "b": ""})))
    out.append(("sep:inputs-nofile", st(inputs=["a,b"]), st(inputs=["a", "b"])))
    out.append(("sep:deps", st(deps={"//d:a": "d1,d2"}), st(deps={"//d:a": "d1", "//d:b": "d2"})))
    out.append(("sep:outputs", st(outputs=[["file", "o,file::o2"]]), st(outputs=[["file", "o"], ["file", "o2"]])))
    out.append(("shift:inputs|outputs", st(inputs=["a"], outputs=[]), st(inputs=[], outputs=[["", "a"]])))
    out.append(("shift:outputs|deps", st(outputs=[["file", "o"]], deps={"//d:a": "x"}), st(outputs=[["file", "ox"]], deps={"//d:a": ""})))
    out.append(("empty-list-vs-empty-element", st(deps={}), st(deps={"//d:a": ""})))
    out.append(("empty-list-vs-empty-element", st(deps={"//d:a": ""}), st(deps={"//d:a": "", "//d:b": ""})))
    # fingerprint key/value boundary
    out.append(("shift:fingerprint-key|value", st(fingerprint={"a": "b=c"}), st(fingerprint={"a=b": "c"})))
    out.append(("sep:fingerprint", st(fingerprint={"a": "1,b=2"}), st(fingerprint={"a": "1", "b": "2"})))
    out.append(("shift:deps|fingerprint", st(deps={"//d:a": "x"}, fingerprint={}), st(deps={"//d:a": "xk=v"}, fingerprint={})))
    out.append(("shift:deps|fingerprint", st(deps={"//d:a": "x"}, fingerprint={"k": "v"}), st(deps={"//d:a": "xk=v"}, fingerprint={})))
    out.append(("shift:fingerprint|platform", st(fingerprint={"k": "v"}, platform="l/a"), st(fingerprint={"k": "vl"}, platform="/a")))
    out.append(("platform-vs-none", st(platform="l/a", fingerprint={"k": "v"}), st(platform=None, fingerprint={"k": "vl/a"})))
    out.append(("multiplatform-ignores-platform", st(platform=None), st(platform=None)))
    # fingerprint entries named like other key components must stay independent of them
    out.append(("fingerprint-named-platform", st(fingerprint={"platform": "l/a"}), st(fingerprint={"platform": "darwin/arm64"})))
    out.append(("fingerprint-named-platform", st(fingerprint={"platform": "l/a"}, platform="l/a"), st(fingerprint={}, platform="l/a")))
    out.append(("fingerprint-named-platform", st(fingerprint={"platform": "l/a"}, platform=None), st(fingerprint={}, platform="l/a")))
    out.append(("fingerprint-named-command", st(fingerprint={"command": "cmd"}), st(fingerprint={"command": "other"})))
    # dependency identity: the same digests assigned to different dependencies are different states
    out.append(("swap:dep-hashes-between-labels", st(deps={"//a:gen": "h1", "//b:gen": "h2"}), st(deps={"//a:gen": "h2", "//b:gen": "h1"})))
    out.append(("swap:dep-hashes-between-labels", st(deps={"//a:gen": "h1"}), st(deps={"//b:gen": "h1"})))
    out.append(("shift:dep-label|hash", st(deps={"//a:g": "enh1"}), st(deps={"//a:gen": "h1"})))
    # all elements of one list moved into the adjacent (empty) list
    out.append(("move-list:outputs->deps", st(outputs=[["file", "o"]], deps={}), st(outputs=[], deps={"file::o": ""})))
    out.append(("move-list:inputs->outputs", st(inputs=["file::o"], outputs=[]), st(inputs=[], outputs=[["file", "o"]])))
    out.append(("move-list:inputs->deps", st(inputs=["x"], deps={}), st(inputs=[], deps={"x": ""})))
    out.append(("move-list:outputs->deps", st(outputs=[["file", "o"], ["file", "o2"]], deps={}), st(outputs=[], deps={"file::o": "", "file::o2": ""})))
    out.append(("move-list:deps->fingerprint", st(deps={"k": "v"}, fingerprint={}), st(deps={}, fingerprint={"k": "v"})))
    out.append(("case-variant-keys", st(fingerprint={"version": "1", "VERSION": "2"}), st(fingerprint={"version": "2", "VERSION": "1"})))
    out.append(("case-variant-keys", st(fingerprint={"k": "1", "K": "2", "a": "3", "A": "4"}), st(fingerprint={"k": "2", "K": "1", "a": "3", "A": "4"})))
    # long components: a difference beyond typical buffer sizes must still change the key
    for L in [1023, 1024, 1025, 2047, 4096, 4097, 65535, 65537, 200000]:
        out.append(("long:command", st(command="x" * L + "a"), st(command="x" * L + "b")))
        out.append(("long:content", st(inputs=["a"], files={"a": "x" * L + "a"}), st(inputs=["a"], files={"a": "x" * L + "b"})))
        out.append(("long:content-shift", st(inputs=["a", "b"], files={"a": "x" * L + "a", "b": "b"}), st(inputs=["a", "b"], files={"a": "x" * L, "b": "ab"})))
    for L in [1023, 1025, 4097]:
        out.append(("long:dep", st(deps={"//d:a": "d" * L + "a"}), st(deps={"//d:a": "d" * L + "b"})))
        out.append(("long:fingerprint", st(fingerprint={"k": "v" * L + "a"}), st(fingerprint={"k": "v" * L + "b"})))
        out.append(("long:input-path", st(inputs=["d/" + "p" * 200 + "a"]), st(inputs=["d/" + "p" * 200 + "b"])))
        out.append(("long:output", st(outputs=[["file", "o" * L + "a"]]), st(outputs=[["file", "o" * L + "b"]])))
    for n in [127, 128, 129, 255, 256, 257, 300]:
        out.append(("many:inputs", st(inputs=["i%04d" % i for i in range(n)]), st(inputs=["i%04d" % i for i in range(n - 1)] + ["j"])))
        out.append(("many:deps", st(deps={"//d:t%04d" % i: "h" for i in range(n)}), st(deps=dict([("//d:t%04d" % i, "h") for i in range(n - 1)] + [("//d:e", "h")]))))
    # file boundaries
    out.append(("shift:file|file", st(inputs=["a", "b"], files={"a": "ab", "b": "c"}), st(inputs=["a", "b"], files={"a": "a", "b": "bc"})))
    out.append(("shift:file|file", st(inputs=["a", "b"], files={"a": "x", "b": ""}), st(inputs=["a", "b"], files={"a": "", "b": "x"})))
    out.append(("missing-vs-empty-file", st(inputs=["a"], files={"a": None}), st(inputs=["a"], files={"a": ""})))
    out.append(("missing-vs-empty-file", st(inputs=["a", "b"], files={"a": None, "b": "x"}), st(inputs=["a", "b"], files={"a": "", "b": "x"})))
    out.append(("content-looks-like-frame", st(inputs=["a", "b"], files={"a": "\x01\x00\x00\x00\x00\x00\x00\x00\x00", "b": None}),
                st(inputs=["a", "b"], files={"a": "", "b": ""})))
    # weakened per-file frames ([presence][8-byte size][content]): pairs that collide as soon as one of the three parts is dropped
    def be64(n):
        return "".join(chr((n >> (8 * (7 - i))) & 255) for i in range(8))
    for lo in (0, 2, 9):
        body = "".join(chr(65 + (i % 23)) for i in range(248 + lo))
        # without the presence byte of present files: 00 | size(256+lo) size(248+lo) body   ==   size(1) lo | size(248+lo) body
        out.append(("frame:missing-marker-vs-size-header", st(inputs=["a", "b"], files={"a": None, "b": be64(248 + lo) + body}),
                    st(inputs=["a", "b"], files={"a": chr(lo), "b": body})))
    # without any marker for a missing file: which of the two files is the missing one
    out.append(("frame:which-file-is-missing", st(inputs=["a", "b"], files={"a": None, "b": "x"}), st(inputs=["a", "b"], files={"a": "x", "b": None})))
    out.append(("frame:which-file-is-missing", st(inputs=["a", "b", "c"], files={"a": "x", "b": None, "c": "y"}), st(inputs=["a", "b", "c"], files={"a": "x", "b": "y", "c": None})))
    # without the size header: a presence byte inside the content
    out.append(("frame:presence-byte-in-content", st(inputs=["a", "b"], files={"a": "x\x01", "b": ""}), st(inputs=["a", "b"], files={"a": "x", "b": "\x01"})))
    out.append(("frame:presence-byte-in-content", st(inputs=["a", "b"], files={"a": "x\x00", "b": ""}), st(inputs=["a", "b"], files={"a": "x", "b": None})))
    # symbolic links: the state is the content the link resolves to, all of it
    long_a, long_b = "A" * 40 + "1", "A" * 40 + "2"
    out.append(("symlink:content-beyond-link-text-length", st(inputs=["l"], files={"l": long_a}, links={"l": "_t"}), st(inputs=["l"], files={"l": long_b}, links={"l": "_t"})))
    out.append(("symlink:content-beyond-link-text-length", st(inputs=["l", "b"], files={"l": "xy" * 300 + "a", "b": "q"}, links={"l": "_some_longer_target_name"}),
                st(inputs=["l", "b"], files={"l": "xy" * 300 + "b", "b": "q"}, links={"l": "_some_longer_target_name"})))
    out.append(("symlink:same-content-as-regular-file", st(inputs=["l"], files={"l": long_a}, links={"l": "_t"}), st(inputs=["l"], files={"l": long_a})))
    out.append(("symlink:other-target-same-content", st(inputs=["l"], files={"l": "same"}, links={"l": "_t1"}), st(inputs=["l"], files={"l": "same"}, links={"l": "_other_target"})))
    # fields that are not part of the state: platform selectors, environment variables, other tags
    for plat in ("linux/amd64", "darwin/arm64"):
        for sel in (["linux/amd64"], ["darwin/arm64"], ["linux/amd64", "darwin/arm64"]):
            out.append(("nonstate:selector-does-not-enter-key", st(platform=plat, extra={"selectors": sel}), st(platform=plat, extra={"selectors": []})))
    for sel in ([], ["linux/amd64"], ["darwin/arm64"], ["linux/amd64", "darwin/arm64"]):
        out.append(("platform-differs-with-selector", st(platform="linux/amd64", extra={"selectors": sel}), st(platform="darwin/arm64", extra={"selectors": sel})))
    out.append(("nonstate:env-does-not-enter-key", st(extra={"env": {"K": "v"}}), st(extra={"env": {"K": "w"}})))
    out.append(("nonstate:tags-do-not-enter-key", st(extra={"extra_tags": ["no-cache", "x"]}), st(extra={"extra_tags": []})))
    # duplicates / order (must be equal)
    out.append(("dup-input", st(inputs=["a", "a"], files={"a": "x"}), st(inputs=["a"], files={"a": "x"})))
    out.append(("dup-input", st(inputs=["a", "b", "a"], files={"a": "x", "b": "y"}), st(inputs=["b", "a"], files={"a": "x", "b": "y"})))
    out.append(("perm", st(inputs=["b", "a"], files={"a": "x", "b": "y"}, outputs=[["file", "o2"], ["file", "o"]], deps={"//d:b": "d2", "//d:a": "d1"}, fingerprint={"k2": "1", "k": "2"}),
                st(inputs=["a", "b"], files={"a": "x", "b": "y"}, outputs=[["file", "o"], ["file", "o2"]], deps={"//d:a": "d1", "//d:b": "d2"}, fingerprint={"k": "2", "k2": "1"})))
    out.append(("bin-is-output", st(bin="binout"), st(outputs=[["file", "binout"]])))
    return out


def mutate(rng, s):
    """a small semantic edit (usually changes the state)"""
    t = copy.deepcopy(s)
    kind = rng.choice(["command", "content", "addinput", "rminput", "output", "dep", "fp", "platform", "name", "shiftcmd", "shiftfile", "perm", "dupinput", "linktoggle", "nonstate", "tailbyte"])
    if kind == "command":
        t["command"] += rng.choice(FRAG)
    elif kind == "content" and t["inputs"]:
        p = rng.choice(t["inputs"]); t["files"][p] = rng.choice(CONTENTS + [None])
    elif kind == "addinput":
        p = rng.choice(PATHS); t["inputs"].append(p); t["files"].setdefault(p, rng.choice(CONTENTS))
    elif kind == "rminput" and t["inputs"]:
        t["inputs"].pop(rng.randrange(len(t["inputs"])))
    elif kind == "output":
        t["outputs"] = [list(o) for o in rng.sample(OUTS, rng.randint(0, 3))]
    elif kind == "dep":
        t["deps"] = {l: rng.choice(DEPS) for l in rng.sample(DEPLABELS, rng.randint(0, 3))}
        if rng.random() < 0.3 and len(s["deps"]) >= 2:      # same digests, permuted over the same labels
            ks = list(s["deps"]); vs = [s["deps"][k] for k in ks]; rng.shuffle(vs); t["deps"] = dict(zip(ks, vs))
    elif kind == "fp":
        t["fingerprint"][rng.choice(FPK)] = rng.choice(FPV)
    elif kind == "platform":
        t["platform"] = rng.choice(PLATS + [None])
    elif kind == "name":
        t["name"] = rng.choice(["t", "t2", "a", "ab"])
    elif kind == "shiftcmd" and t["inputs"] and t["command"]:
        # move the last byte of the command to the front of the smallest input
        p = min(t["inputs"]); q = t["command"][-1] + p
        if "/" not in q and "\n" not in q and "\x00" not in q:
            t["command"] = t["command"][:-1]
            c = t["files"].get(p)
            t["inputs"] = [q if x == p else x for x in t["inputs"]]
            t["files"][q] = c
    elif kind == "shiftfile" and len(set(t["inputs"])) >= 2:
        a, b = sorted(set(t["inputs"]))[:2]
        ca, cb = t["files"].get(a), t["files"].get(b)
        if ca and cb is not None:
            t["files"][a] = ca[:-1]; t["files"][b] = ca[-1] + cb
    elif kind == "perm":
        rng.shuffle(t["inputs"]); rng.shuffle(t["outputs"]); t["deps"] = dict(sorted(t["deps"].items(), reverse=True))
        t["fingerprint"] = dict(sorted(t["fingerprint"].items(), reverse=True))
    elif kind == "dupinput" and t["inputs"]:
        t["inputs"].append(rng.choice(t["inputs"]))
    elif kind == "linktoggle":
        # the same content reached through a link instead of a regular file (or back): same state
        t.setdefault("links", {})
        cands = [p for p in t["files"] if "/" not in p and t["files"][p] is not None]
        if cands:
            p = rng.choice(cands)
            if p in t["links"]:
                del t["links"][p]
            else:
                t["links"][p] = "_t_" + "".join("%02x" % ord(ch) for ch in p)
    elif kind == "nonstate":
        t["extra"] = {"selectors": rng.choice([[], ["linux/amd64"], ["darwin/arm64"], ["l/a"]]), "env": rng.choice([{}, {"K": "w"}, {"Z": ""}]),
                      "extra_tags": rng.choice([[], ["no-cache"], ["x"]])}
    elif kind == "tailbyte" and t["inputs"]:
        # change only the last byte of an input's content (also through a link: beyond the length of the link text)
        p = rng.choice(t["inputs"]); c = t["files"].get(p)
        if c:
            t["files"][p] = c[:-1] + ("~" if c[-1] != "~" else "!")
    return kind, t


def valid_state(s):
    # a path used as a directory must not also be a file: "d" is never a file in PATHS; a/b style conflicts don't occur
    return True


def run(ctx):
    quick = ctx.tier == "quick"
    rng = ctx.rng
    env = dict(__import__("os").environ, VERIF_SCRATCH=ctx.scratch("hk"))
    # ---- 0. SHA-256 of the model vs crypto/sha256 ------------------------------------------------
    lens = [0, 1, 55, 56, 57, 63, 64, 65, 119, 120, 128, 1000]
    sreqs = [{"op": "hash.sha256", "s": "".join(chr(rng.randrange(256)) for _ in range(n))} for n in lens for _ in range(3)]
    a, b = ctx.impl(sreqs, env=env), ctx.model(sreqs)
    if a is None:
        return
    sha_bad = [(r, x, y) for r, x, y in zip(sreqs, a, b) if x != y]
    ctx.coverage["sha256_vectors"] = len(sreqs)
    if sha_bad:
        ctx.violation("the model's SHA-256 disagrees with crypto/sha256", {"kind": "correspondence", "correspondence": "Sha256.lean vs crypto/sha256",
                      "request": sha_bad[0][0], "impl": sha_bad[0][1], "model": sha_bad[0][2]}, found_input=False)
        return
    # ---- 0b. XXH3-128 of the model vs grog's xxh3 hasher (every length class and block boundary) ---
    xlens = list(range(0, 20)) + [31, 32, 33, 63, 64, 65, 95, 96, 97, 127, 128, 129, 159, 160, 161, 191, 192, 223, 224, 239, 240, 241, 255, 256, 300,
                                  1023, 1024, 1025, 1087, 1088, 1089, 2047, 2048, 2049, 3000, 4097]
    xreqs = [{"op": "hash.xxh3", "s": "".join(chr(rng.randrange(256)) for _ in range(n))} for n in xlens for _ in range(2)]
    a, b = ctx.impl(xreqs, env=env), ctx.model(xreqs)
    if a is None:
        return
    ctx.coverage["xxh3_vectors"] = len(xreqs)
    xbad = [(r, x, y) for r, x, y in zip(xreqs, a, b) if x != y]
    xxh3_tied = not xbad
    if xbad:
        # the hasher grog uses for hash_algorithm=xxh3 no longer computes XXH3-128 of what is written to it. That alone is not a
        # violation (any function of the stream will do); the keys under xxh3 are then judged by the pair oracle only, and the
        # break is reported only if nothing else explains it.
        ctx.coverage["xxh3_vector_disagreements"] = len(xbad)
        ctx.notes.append("xxh3 hasher differs from XXH3-128 on %d/%d vectors; first length %d" % (len(xbad), len(xreqs), len(xbad[0][0]["s"])))
    # ---- 1. pairs ---------------------------------------------------------------------------------
    pairs = [(fam, s1, s2) for fam, s1, s2 in targeted_pairs()]
    nrand = 700 if quick else 12000
    for _ in range(nrand):
        s = gen_state(rng)
        kind, t = mutate(rng, s)
        pairs.append(("random:" + kind, s, t))
    ctx.coverage["rule"] = (f"{len(targeted_pairs())} targeted adversarial pairs (boundary shifts between every pair of adjacent key components, separators inside "
                            f"elements, missing vs empty file, duplicates, permutations) + {nrand} random states each paired with a small semantic edit; every state "
                            "hashed by the real GetTargetChangeHash under sha256 and xxh3 (both compared byte-exactly with the model's key, the model computing SHA-256 / XXH3-128 itself), "
                            "twice under different workspace locations and map orders; non-trivial = pair of different states")
    reqs, idx = [], []
    for i, (fam, s1, s2) in enumerate(pairs):
        for which, s in ((1, s1), (2, s2)):
            reqs.append(to_req(s, "sha256", "ws", rng)); idx.append((i, which, "sha256"))
            reqs.append(to_req(s, "xxh3", "elsewhere/deeper", rng)); idx.append((i, which, "xxh3"))
    rep_reqs, rep_idx = [], []
    for i, (fam, s1, s2) in enumerate(pairs):
        for which, s in ((1, s1), (2, s2)):
            if len(s["fingerprint"]) >= 2 and (fam.startswith("case") or i % 5 == 0):
                for _ in range(6):
                    rep_reqs.append(to_req(s, "xxh3", "ws", rng)); rep_idx.append((i, which))
    impl = ctx.impl(reqs, env=env)
    if impl is None:
        return
    rep_out = ctx.impl(rep_reqs, env=env) if rep_reqs else []
    seen_rep = {}
    for (i, which), r, x in zip(rep_idx, rep_reqs, rep_out):
        k = x.get("key")
        first = seen_rep.setdefault((i, which), k)
        if first != k:
            ctx.violation("the same target state hashed repeatedly receives different cache keys (the key depends on something outside the state: map iteration order, workspace location, time, …)",
                          {"kind": "oracle", "oracle": "key is a function of the state", "state1": pairs[i][which], "state2": pairs[i][which], "key1": first, "key2": k},
                          signature="nondeterministic-key")
    ctx.coverage["determinism_repeats"] = len(rep_reqs)
    sha_reqs = [r for r in reqs if r["algo"] == "sha256" or xxh3_tied]
    model = iter(ctx.model(sha_reqs))
    keys = {}
    disagreements = []
    fam_count = {}
    for r, x, (i, which, algo) in zip(reqs, impl, idx):
        keys[(i, which, algo)] = x.get("key") if isinstance(x, dict) else None
        if "panic" in x or "error" in x:
            ctx.violation("hashing crashed", {"kind": "impl-crash", "request": r, "impl": x}, signature="hash-crash")
        if algo == "sha256" or xxh3_tied:
            y = next(model)
            if x != y:
                disagreements.append((pairs[i][0], r, x, y))
    ctx.coverage["evaluations"] = len(reqs)
    ctx.coverage["traces_validated_against_impl"] = len(sha_reqs)
    # ---- 2. oracle on the real keys -----------------------------------------------------------------
    nontrivial = set()
    stats = {"equal_states": 0, "different_states": 0, "errors": 0}
    for i, (fam, s1, s2) in enumerate(pairs):
        fam_count[fam] = fam_count.get(fam, 0) + 1
        same_state = canon_state(s1) == canon_state(s2)
        stats["equal_states" if same_state else "different_states"] += 1
        if not same_state:
            nontrivial.add(json.dumps([to_req(s1, "", ""), to_req(s2, "", "")], sort_keys=True))
        for algo in ("sha256", "xxh3"):
            k1, k2 = keys[(i, 1, algo)], keys[(i, 2, algo)]
            if k1 is None or k2 is None:
                stats["errors"] += 1
                continue
            famsig = fam.split(":")[0] + ":" + fam.split(":")[1] if ":" in fam else fam
            if same_state and k1 != k2:
                ctx.violation("two equal target states receive different cache keys",
                              {"kind": "oracle", "oracle": "equal state => equal key", "family": fam, "algo": algo, "state1": s1, "state2": s2, "key1": k1, "key2": k2},
                              signature="equal-state-different-key:" + (famsig if not fam.startswith("random") else "random"))
            if not same_state and k1 == k2:
                ctx.violation("two different target states receive the same cache key (ambiguous concatenation)",
                              {"kind": "oracle", "oracle": "equal key => equal state", "family": fam, "algo": algo, "state1": s1, "state2": s2, "key": k1},
                              signature="collision:" + (famsig if not fam.startswith("random") else "random"))
        # the same state hashed at two workspace locations / map orders / algorithms' pattern
    ctx.coverage["distinct_nontrivial"] = len(nontrivial)
    ctx.coverage["pair_families"] = fam_count
    ctx.coverage["pair_stats"] = stats
    for fam, s1, s2 in pairs[:3]:
        ctx.sample({"family": fam, "state1": s1, "state2": s2})
    outhash_section(ctx, env)
    digest_section(ctx, env)
    cli_section(ctx)
    # ---- 3. correspondence verdict ------------------------------------------------------------------
    ctx.coverage["disagreements"] = len(disagreements)
    if disagreements and not ctx.violations:
        # the byte stream of the model no longer matches the code: search the implementation for a pair of
        # states on which the property itself fails (wider random sweep, oracle only, both algorithms)
        found = search_failing_pair(ctx, env, 6000 if quick else 30000)
        ctx.coverage["search_pairs_after_break"] = found
    if xbad and not ctx.violations:
        ctx.coverage["search_pairs_after_hasher_break"] = search_hasher_break(ctx, env, [len(r["s"]) for r, _, _ in xbad])
    if xbad and not ctx.violations and not disagreements:
        r, x, y = xbad[0]
        ctx.violation("grog's xxh3 hasher no longer computes XXH3-128 of the bytes written to it, so the keys under the default hash_algorithm are no longer tied to the model's stream",
                      {"kind": "correspondence", "correspondence": "hashing.GetHasher (xxh3) vs GrogModel.Xxh3.xxh3Hex", "request": r, "impl": x, "model": y,
                       "n_disagreements": len(xbad)}, found_input=False)
    if disagreements and not ctx.violations:
        fam, r, x, y = disagreements[0]
        ctx.violation("real SHA-256 cache key differs from the model's key (byte stream of the model no longer matches the code)",
                      {"kind": "correspondence", "correspondence": "hashing.GetTargetChangeHash (sha256) vs GrogModel.Hash.key", "family": fam,
                       "request": r, "impl": x, "model": y, "n_disagreements": len(disagreements)}, found_input=False)


def gen_output(rng):
    kind = rng.choice(["file", "file", "dir"])
    o = {"kind": kind, "path": rng.choice(["", "o", "o2", "d/o", "a b", "x" * 130, "out.bin"]),
         "hash": rng.choice([None, "", "ab", "0123456789abcdef0123456789abcdef", "h" * 64]),
         "size": rng.choice([0, 1, 127, 128, 300, 16384, 2 ** 31, 2 ** 40 + 5])}
    if kind == "file":
        o["exec"] = rng.random() < 0.4
    return o


def canon_outputs(outs):
    def norm(o):
        d = None if o["hash"] is None else (o["hash"], o["size"])
        return (o["kind"], o["path"], d, bool(o.get("exec", False)))
    return tuple(sorted(map(norm, outs), key=repr))


def outhash_section(ctx, env):
    """output hash: real getOutputHash + proto.Marshal vs model (serOutput, outHash), and the pair oracle."""
    rng = ctx.rng
    n = 250 if ctx.tier == "quick" else 4000
    pairs = []
    for _ in range(n):
        outs = [gen_output(rng) for _ in range(rng.randint(0, 4))]
        outs2 = copy.deepcopy(outs)
        kind = rng.choice(["perm", "field", "drop", "add", "same"])
        if kind == "perm":
            rng.shuffle(outs2)
        elif kind == "field" and outs2:
            o = rng.choice(outs2); f = rng.choice(["path", "hash", "size", "exec", "kind"])
            g = gen_output(rng)
            if f == "kind":
                o["kind"] = "dir" if o["kind"] == "file" else "file"; o.pop("exec", None)
                if o["kind"] == "file": o["exec"] = False
            elif f == "exec":
                if o["kind"] == "file": o["exec"] = not o["exec"]
            else:
                o[f] = g[f]
        elif kind == "drop" and outs2:
            outs2.pop(rng.randrange(len(outs2)))
        elif kind == "add":
            outs2.append(gen_output(rng))
        pairs.append((kind, outs, outs2))
    reqs = []
    for kind, a, b in pairs:
        for algo in ("sha256", "xxh3"):
            reqs.append({"op": "hash.out", "algo": algo, "outputs": a})
            reqs.append({"op": "hash.out", "algo": algo, "outputs": b})
    impl = ctx.impl(reqs, env=env)
    if impl is None:
        return
    tied = ("sha256", "xxh3") if ctx.coverage.get("xxh3_vector_disagreements", 0) == 0 else ("sha256",)
    sha = [r for r in reqs if r["algo"] in tied]
    model = ctx.model(sha)
    dis = [(r, x, y) for r, x, y in zip(sha, [x for r, x in zip(reqs, impl) if r["algo"] in tied], model) if x != y]
    ctx.coverage["outhash_evaluations"] = len(reqs)
    ctx.coverage["evaluations"] += len(reqs)
    ctx.coverage["outhash_disagreements"] = len(dis)
    nontriv = 0
    for i, (kind, a, b) in enumerate(pairs):
        same = canon_outputs(a) == canon_outputs(b)
        nontriv += 0 if same else 1
        for k, algo in enumerate(("sha256", "xxh3")):
            x, y = impl[4 * i + 2 * k], impl[4 * i + 2 * k + 1]
            if "hash" not in x or "hash" not in y:
                continue
            if same and x["hash"] != y["hash"]:
                ctx.violation("equal output sets receive different output hashes", {"kind": "oracle", "oracle": "output hash canonical", "algo": algo,
                              "outputs1": a, "outputs2": b, "hash1": x["hash"], "hash2": y["hash"]}, signature="outhash-equal-state-different-hash")
            if not same and x["hash"] == y["hash"]:
                ctx.violation("different output sets receive the same output hash", {"kind": "oracle", "oracle": "output hash injective", "algo": algo,
                              "outputs1": a, "outputs2": b, "hash": x["hash"]}, signature="outhash-collision")
    ctx.coverage["outhash_pairs_different"] = nontriv
    if dis and not ctx.violations:
        r, x, y = dis[0]
        ctx.violation("real output hash / protobuf marshalling differs from the model", {"kind": "correspondence",
                      "correspondence": "output.getOutputHash + proto.Marshal vs GrogModel.Proto.serOutput / Hash.outHash", "request": r, "impl": x, "model": y,
                      "n_disagreements": len(dis)}, found_input=False)


def digest_section(ctx, env):
    """the digests that enter keys through dependencies: HashFile / HashBytes / HashString are the configured hash of the whole content
    (model: hashContent), also for files far beyond any buffer or chunk size (oracle: digests equal iff contents equal, on files made of
    permuted / dropped / repeated blocks), and GetNoCacheOutputHash (model: outHashNoCache; oracle: equal iff the same set of
    (output definition, content), wherever the workspace is)."""
    rng = ctx.rng
    quick = ctx.tier == "quick"
    tied = ("sha256", "xxh3") if ctx.coverage.get("xxh3_vector_disagreements", 0) == 0 else ("sha256",)
    # (a) literal contents
    lens = [0, 1, 3, 8, 16, 17, 128, 129, 240, 241, 1023, 1024, 1025, 4096, 5000, 32768, 32769, 70001]
    reqs = [{"op": "hash.file", "algo": algo, "s": "".join(chr(rng.randrange(256)) for _ in range(n))} for n in lens for algo in ("sha256", "xxh3")]
    impl = ctx.impl(reqs, env=env)
    if impl is None:
        return
    tr = [(r, x) for r, x in zip(reqs, impl) if r["algo"] in tied]
    mod = ctx.model([r for r, _ in tr])
    dis = [(r, x, y) for (r, x), y in zip(tr, mod) if x != y]
    # (b) large files made of blocks
    bss = [4 << 20, 1 << 20] if quick else [4 << 20, 1 << 20, 64 << 10, 8 << 20]
    pairs = []
    for bs in bss:
        nb = max(3, (9 << 20) // bs) if bs >= (1 << 20) else 40
        ids = list(range(nb))
        perm = ids[:]; perm[0], perm[-1] = perm[-1], perm[0]
        mid = ids[:]; mid[1], mid[2] = mid[2], mid[1]
        pairs += [(bs, ids, perm, 0, 0), (bs, ids, mid, 0, 0), (bs, ids, ids[:-1], 0, 0), (bs, ids, ids + [ids[0]], 0, 0), (bs, ids, ids, 0, 0),
                  (bs, ids, ids, 7, 8), (bs, ids, perm, 5, 5), (bs, ids[:-1] + [99], ids, 0, 0)]
    breqs = []
    for bs, a_, b_, ta, tb in pairs:
        for algo in ("xxh3", "sha256"):
            breqs.append({"op": "hash.file", "algo": algo, "blocks": a_, "bs": bs, "tail": ta})
            breqs.append({"op": "hash.file", "algo": algo, "blocks": b_, "bs": bs, "tail": tb})
    bout = ctx.impl(breqs, env=env)
    if bout is None:
        return
    for i, (bs, a_, b_, ta, tb) in enumerate(pairs):
        same = (a_, ta) == (b_, tb)
        for k, algo in enumerate(("xxh3", "sha256")):
            x, y = bout[4 * i + 2 * k], bout[4 * i + 2 * k + 1]
            if "file" not in x or "file" not in y:
                continue
            if same != (x["file"] == y["file"]):
                ctx.violation("two files with different contents receive the same digest (or the same content two digests): the digest of a large file "
                              "is not a function of exactly its bytes in order",
                              {"kind": "oracle", "oracle": "HashFile equal iff content equal (files made of %d-byte blocks)" % bs, "algo": algo,
                               "request1": breqs[4 * i + 2 * k], "request2": breqs[4 * i + 2 * k + 1], "digest1": x["file"], "digest2": y["file"]},
                              signature="file-digest-not-content-injective")
    # (c) no-cache output hash
    names = ["o", "o2", "a", "b", "sub/o", "a,b", "x:y", "10", "o o"]
    conts = ["", "a", "b", "ab", "x,y", "0", "hello\n"]
    npairs = 120 if quick else 1500
    nreqs, meta = [], []
    for _ in range(npairs):
        outs = [[n_, rng.choice(conts)] for n_ in rng.sample(names, rng.randint(0, 3))]
        dirs = [["d%d" % k, [[rng.choice(["f", "s/g"]), rng.choice(conts)] for _ in range(rng.randint(0, 2))]] for k in range(rng.choice([0, 0, 1]))]
        for d_ in dirs:
            d_[1] = [list(t) for t in dict((f[0], f[1]) for f in d_[1]).items()]
        outs2, dirs2 = copy.deepcopy(outs), copy.deepcopy(dirs)
        kind = rng.choice(["perm", "swap", "content", "rename", "same", "drop", "dirfile"])
        if kind == "perm":
            rng.shuffle(outs2)
        elif kind == "swap" and len(outs2) >= 2:
            outs2[0][1], outs2[1][1] = outs2[1][1], outs2[0][1]
        elif kind == "content" and outs2:
            outs2[0][1] = rng.choice(conts)
        elif kind == "rename" and outs2:
            free = [n_ for n_ in names if n_ not in [o[0] for o in outs2]]
            outs2[0][0] = rng.choice(free)
        elif kind == "drop" and outs2:
            outs2.pop()
        elif kind == "dirfile" and dirs2 and dirs2[0][1]:
            dirs2[0][1][0][1] = rng.choice(conts)
        pkg = rng.choice(["", "p", "p/q"])
        for algo in ("xxh3", "sha256"):
            nreqs.append({"op": "hash.nocache", "algo": algo, "rootname": "here", "pkg": pkg, "name": "t", "outputs": outs, "dirs": dirs})
            nreqs.append({"op": "hash.nocache", "algo": algo, "rootname": "else/where/deeper", "pkg": pkg, "name": "t", "outputs": outs2, "dirs": dirs2})
        meta.append((kind, outs, dirs, outs2, dirs2))
    nout = ctx.impl(nreqs, env=env)
    if nout is None:
        return
    ntr = [(r, x) for r, x in zip(nreqs, nout) if r["algo"] in tied and not r["dirs"]]
    nmod = ctx.model([r for r, _ in ntr])
    dis += [(r, x, y) for (r, x), y in zip(ntr, nmod) if x != y]
    canon = lambda outs, dirs: (sorted(map(tuple, outs)), sorted((d[0], tuple(sorted(map(tuple, d[1])))) for d in dirs))
    ndiff = 0
    for i, (kind, outs, dirs, outs2, dirs2) in enumerate(meta):
        same = canon(outs, dirs) == canon(outs2, dirs2)
        ndiff += 0 if same else 1
        for k, algo in enumerate(("xxh3", "sha256")):
            x, y = nout[4 * i + 2 * k], nout[4 * i + 2 * k + 1]
            if "hash" not in x or "hash" not in y:
                continue
            if same and x["hash"] != y["hash"]:
                ctx.violation("the output hash of a no-cache target differs between two workspaces with the same outputs (it depends on the workspace "
                              "location or on the order of the outputs); it is the dependency digest in the keys of all dependants",
                              {"kind": "oracle", "oracle": "no-cache output hash is a function of the set of (output definition, content)", "algo": algo,
                               "request1": nreqs[4 * i + 2 * k], "request2": nreqs[4 * i + 2 * k + 1], "hash1": x["hash"], "hash2": y["hash"]},
                              signature="nocache-outhash-equal-state-different-hash")
            if not same and x["hash"] == y["hash"]:
                ctx.violation("two no-cache targets with different outputs have the same output hash",
                              {"kind": "oracle", "oracle": "no-cache output hash injective on sets of (output definition, content)", "algo": algo, "edit": kind,
                               "request1": nreqs[4 * i + 2 * k], "request2": nreqs[4 * i + 2 * k + 1], "hash": x["hash"]},
                              signature="nocache-outhash-collision")
    ctx.coverage["digest_literal_vectors"] = len(reqs)
    ctx.coverage["digest_large_file_pairs"] = len(pairs) * 2
    ctx.coverage["nocache_outhash_pairs"] = len(meta) * 2
    ctx.coverage["nocache_outhash_pairs_different"] = ndiff * 2
    ctx.coverage["digest_disagreements"] = len(dis)
    ctx.coverage["evaluations"] += len(reqs) + len(breqs) + len(nreqs)
    ctx.coverage["traces_validated_against_impl"] += len(tr) + len(ntr)
    if dis and not ctx.violations:
        r, x, y = dis[0]
        ctx.violation("a digest function of the real code differs from the model (HashFile/HashBytes/HashString = hash of the content; "
                      "GetNoCacheOutputHash = hash of the sorted, comma-joined '<len>:<definition>:<digest>' elements)",
                      {"kind": "correspondence", "correspondence": "hashing.HashFile/HashBytes/HashString, output.GetNoCacheOutputHash vs GrogModel.Hash.hashContent / outHashNoCache",
                       "request": r, "impl": x, "model": y, "n_disagreements": len(dis)}, found_input=False)


def search_hasher_break(ctx, env, bad_lengths):
    """The xxh3 hasher no longer agrees with XXH3-128 at these stream lengths: look for two target states that differ in one byte of the
    command (at the start, in the middle, near and at the end of a stream of about that length) and receive the same key."""
    rng = ctx.rng
    pairs = []
    for L in sorted(set(bad_lengths))[:12] + [1500, 5000]:
        for _ in range(12):
            base = base_state()
            n = max(1, L - rng.choice([0, 0, 40, 60, 100]))
            cmd = [chr(rng.randrange(32, 127)) for _ in range(n)]
            pos = rng.choice([0, n // 2, n - 1, n - 1, max(0, n - 2), rng.randrange(n)])
            t = copy.deepcopy(base)
            base["command"] = "".join(cmd)
            cmd[pos] = "~" if cmd[pos] != "~" else "!"
            t["command"] = "".join(cmd)
            pairs.append((base, t))
    reqs = []
    for s1, s2 in pairs:
        reqs.append(to_req(s1, "xxh3", "ws", rng)); reqs.append(to_req(s2, "xxh3", "ws", rng))
    out = ctx.impl(reqs, env=env)
    if out is None:
        return 0
    for i, (s1, s2) in enumerate(pairs):
        k1, k2 = out[2 * i].get("key"), out[2 * i + 1].get("key")
        if k1 is not None and k1 == k2:
            ctx.violation("two different target states receive the same cache key (the xxh3 hasher ignores part of the stream)",
                          {"kind": "oracle", "oracle": "equal key => equal state (search after the xxh3 hasher stopped computing XXH3-128)", "algo": "xxh3",
                           "state1": s1, "state2": s2, "key": k1}, signature="collision:hasher")
            break
    return len(pairs)


def search_failing_pair(ctx, env, n):
    rng = ctx.rng
    pairs = []
    for _ in range(n):
        s = gen_state(rng)
        t = s
        for _ in range(rng.randint(1, 3)):
            kind, t = mutate(rng, t)
        pairs.append(("search:" + kind, s, t))
    reqs = []
    for fam, s1, s2 in pairs:
        for algo in ("sha256", "xxh3"):
            reqs.append(to_req(s1, algo, "ws", rng)); reqs.append(to_req(s2, algo, "other", rng))
    out = ctx.impl(reqs, env=env)
    if out is None:
        return 0
    for i, (fam, s1, s2) in enumerate(pairs):
        same = canon_state(s1) == canon_state(s2)
        for k, algo in enumerate(("sha256", "xxh3")):
            k1, k2 = out[4 * i + 2 * k].get("key"), out[4 * i + 2 * k + 1].get("key")
            if k1 is None or k2 is None:
                continue
            if same and k1 != k2:
                ctx.violation("two equal target states receive different cache keys", {"kind": "oracle", "oracle": "equal state => equal key (search after correspondence break)",
                              "algo": algo, "state1": s1, "state2": s2, "key1": k1, "key2": k2}, signature="equal-state-different-key:search")
            if not same and k1 == k2:
                ctx.violation("two different target states receive the same cache key", {"kind": "oracle", "oracle": "equal key => equal state (search after correspondence break)",
                              "algo": algo, "state1": s1, "state2": s2, "key": k1}, signature="collision:search")
    return len(pairs)


# ------------------------------------------------------------------------------------------------
# CLI level: the keys under which the real `grog build` stores target results must not depend on the checkout
# location, the BUILD-file format, the worker count (scheduling) or declaration order.
# ------------------------------------------------------------------------------------------------

def _cli_ws(rng):
    """a small buildable workspace as {package path: dto (shape of _lockload renderers)} + source files"""
    pkgs, files, labels = {}, {}, []
    for pk in rng.sample(["", "p", "p/q", "r"], rng.randint(2, 3)):
        ts = []
        for i in range(rng.randint(1, 3)):
            name = "t%d" % i
            ins = rng.sample(["a.txt", "b.txt", "sub/c.txt", "*.txt", "x,y.txt", "x", "y.txt", "a.txt,b.txt"], rng.randint(0, 3))
            if i == 0 and rng.random() < 0.5:
                ins = ["x,y.txt"]               # with the next target: two input lists that coincide once joined with ","
            elif i == 1 and ts and ts[0]["inputs"] == ["x,y.txt"]:
                ins = ["x", "y.txt"]
            for f in ins:
                if "*" not in f:
                    files[(pk + "/" if pk else "") + f] = rng.choice(CONTENTS[:6]) + pk + name
            deps = rng.sample(labels, min(len(labels), rng.choice([0, 1, 2])))
            fp = [[k, rng.choice(FPV)] for k in rng.sample(["k", "K", "platform", "v1"], rng.choice([0, 0, 1, 2]))]
            out = "o_%s.out" % name
            cmd = "echo %s_%s_%d > %s" % (pk.replace("/", "_"), name, rng.randrange(100), out)
            outs = [out]
            tags = rng.choice([[], [], ["multiplatform-cache"]])
            shape = rng.choice(["file", "file", "file", "nocache", "nocache-dir", "no-outputs"])
            if shape == "nocache":                       # not stored itself; its output hash feeds the keys of its dependants
                tags = tags + ["no-cache"]
            elif shape == "nocache-dir":
                tags = tags + ["no-cache"]
                outs = [out, "dir::d_%s" % name]
                cmd += " && mkdir -p d_%s/sub && echo %d > d_%s/sub/f.txt" % (name, rng.randrange(100), name)
            elif shape == "no-outputs":                  # its change hash stands in for its output hash
                outs, cmd = [], "true"
            ts.append({"name": name, "command": cmd,
                       "deps": deps, "inputs": ins, "excludes": [], "outputs": outs, "bin_output": "", "checks": [],
                       "tags": tags, "fingerprint": fp, "env": [], "platforms": None, "timeout": ""})
            labels.append("//%s:%s" % (pk, name))
        pkgs[pk] = {"targets": ts, "aliases": [], "default_platforms": None}
    return pkgs, files


def _materialise(root, pkgs, files, fmt, shuffle_rng=None, toml=""):
    import os, copy as _c
    from checks import _lockload as LL
    os.makedirs(root, exist_ok=True)
    open(os.path.join(root, "grog.toml"), "w").write(toml)
    for rel, content in files.items():
        pth = os.path.join(root, rel)
        os.makedirs(os.path.dirname(pth), exist_ok=True)
        open(pth, "w").write(content)
    for pk, dto in pkgs.items():
        d = _c.deepcopy(dto)
        if shuffle_rng is not None:            # declaration order of targets, inputs, deps and fingerprint entries
            shuffle_rng.shuffle(d["targets"])
            for t in d["targets"]:
                shuffle_rng.shuffle(t["inputs"]); shuffle_rng.shuffle(t["deps"]); shuffle_rng.shuffle(t["fingerprint"])
        pdir = os.path.join(root, pk)
        os.makedirs(pdir, exist_ok=True)
        if fmt == "json":
            open(os.path.join(pdir, "BUILD.json"), "w").write(LL.render_json(d))
        elif fmt == "yaml":
            open(os.path.join(pdir, "BUILD.yaml"), "w").write(LL.render_yaml(d))
        else:
            open(os.path.join(pdir, "BUILD.star"), "w").write(LL.render_starlark(d))


def _keys_after_build(grog, wsdir, groot, algo, host_env=None):
    import os, subprocess
    env = {k: v for k, v in os.environ.items() if not k.startswith("GROG_")}
    env.update({"GROG_ROOT": groot, "HOME": groot, "NO_COLOR": "1", "GROG_HASH_ALGORITHM": algo})
    if host_env:
        # another "host" and another time: host name, user, time zone, locale; every source file gets an old mtime
        env.update(host_env)
        for dp, _, fns in os.walk(wsdir):
            for fn in fns:
                try:
                    os.utime(os.path.join(dp, fn), (86400 * 365 * 30, 86400 * 365 * 30))
                except OSError:
                    pass
    try:
        p = subprocess.run([grog, "build", "//..."], cwd=wsdir, env=env, capture_output=True, text=True, timeout=90)
    except subprocess.TimeoutExpired:
        return None, "timeout"
    keys = []
    for d in os.listdir(groot) if os.path.isdir(groot) else []:
        t = os.path.join(groot, d, "cache", "target")
        if os.path.isdir(t):
            for dp, _, fns in os.walk(t):
                keys += [f for f in fns if not f.startswith("tmp-")]
    return (p.returncode, sorted(keys)), (p.stdout + p.stderr)[-1500:]


def cli_section(ctx):
    import os
    grog = ctx.grog_binary()
    if not grog:
        return
    rng = ctx.rng
    n = 4 if ctx.tier == "quick" else 25
    variants = [("json", "elsewhere/deep/er/ws", "num_workers = 1\n", False), ("json", "ws2", "num_workers = 8\n", True),
                ("yaml", "y/ws", "", False), ("star", "s/ws", "", True)]
    runs = compared = 0
    _cli_edit_steps = 0
    for i in range(n):
        pkgs, files = _cli_ws(rng)
        algo = rng.choice(["xxh3", "sha256"])
        base = ctx.scratch("cli%d" % i)
        _materialise(os.path.join(base, "a", "ws"), pkgs, files, "json")
        ref, log = _keys_after_build(grog, os.path.join(base, "a", "ws"), os.path.join(base, "a", "root"), algo)
        runs += 1
        ntargets = sum(len(d["targets"]) for d in pkgs.values())
        if ref is None or ref[0] != 0 or len(ref[1]) != ntargets:
            ctx.notes.append("cli reference build unusable (rc/keys): %s %s" % (ref, log[-300:]))
            continue
        # --- edit one declared input file in the reference workspace: exactly the targets whose state changed get a new key -----------
        import fnmatch as _fn
        cand = sorted({((pk + "/" if pk else "") + f, pk, f) for pk, d in pkgs.items() for t in d["targets"] for f in t["inputs"] if "*" not in f})
        if cand:
            rel, epk, ef = rng.choice(cand)
            changed = {(epk, t["name"]) for t in pkgs[epk]["targets"]
                       if ef in t["inputs"] or any("*" in g and "/" not in ef and _fn.fnmatchcase(ef, g) for g in t["inputs"])}
            # a target without outputs exposes its change hash as its output digest: its dependants change with it
            grew = True
            while grew:
                grew = False
                for pk2, d2 in pkgs.items():
                    for t2 in d2["targets"]:
                        if (pk2, t2["name"]) in changed:
                            continue
                        for dep in t2["deps"]:
                            dpk, dn = dep[2:].split(":")
                            dt = [x for x in pkgs[dpk]["targets"] if x["name"] == dn][0]
                            if (dpk, dn) in changed and not dt["outputs"]:
                                changed.add((pk2, t2["name"])); grew = True
            with open(os.path.join(base, "a", "ws", rel), "a") as fh:
                fh.write("edited")
            got2, log3 = _keys_after_build(grog, os.path.join(base, "a", "ws"), os.path.join(base, "a", "root"), algo)
            runs += 1
            if got2 is not None and got2[0] == 0:
                _cli_edit_steps += 1
                new = sorted(set(got2[1]) - set(ref[1]))
                if len(new) != len(changed):
                    ctx.violation("after editing one input file the number of targets that received a new cache key differs from the number of targets whose "
                                  "state changed (the owners of the file and the dependants of output-less owners): a key follows something other than the "
                                  "target's own state",
                                  {"kind": "oracle", "oracle": "CLI: an edit changes exactly the keys of the targets whose state changed", "algo": algo, "edited_file": rel,
                                   "targets_whose_state_changed": sorted("//%s:%s" % c for c in changed), "new_keys": new, "packages": pkgs, "files": files,
                                   "log": log3[-600:]}, signature="cli-edit-changes-wrong-number-of-keys")
        for fmt, loc, toml, shuffle in variants:
            tag = fmt + ("-shuffled" if shuffle else "") + ":" + loc
            _materialise(os.path.join(base, tag.replace(":", "_").replace("/", "_"), loc), pkgs, files, fmt, rng if shuffle else None, toml)
            got, log2 = _keys_after_build(grog, os.path.join(base, tag.replace(":", "_").replace("/", "_"), loc),
                                          os.path.join(base, tag.replace(":", "_").replace("/", "_"), "root"), algo,
                                          host_env={"HOSTNAME": "otherhost", "USER": "someone", "LOGNAME": "someone", "TZ": "Asia/Tokyo", "LANG": "de_DE.UTF-8",
                                                    "LC_ALL": "C", "TERM": "dumb"} if fmt == "yaml" or shuffle else None)
            runs += 1
            if got is None:
                ctx.notes.append("cli variant build timed out: " + tag)
                continue
            compared += 1
            if got != ref:
                ctx.violation("the same targets built from another checkout location / BUILD-file format / declaration order / worker count "
                              "are stored under different cache keys",
                              {"kind": "oracle", "oracle": "CLI keys independent of location, format, order, workers, host environment (HOSTNAME, USER, TZ, locale) and file mtimes", "variant": tag, "algo": algo,
                               "packages": pkgs, "files": files, "reference": {"rc": ref[0], "keys": ref[1]}, "variant_result": {"rc": got[0], "keys": got[1]},
                               "log": log2[-800:]}, signature="cli-key-depends-on:" + fmt + ("-shuffled" if shuffle else ""))
    ctx.coverage["cli_edit_steps"] = _cli_edit_steps
    # --- dependency identity: two dependencies with the same package-relative output swap contents -----------
    import json as _json, shutil as _sh
    for algo in ("xxh3", "sha256"):
        base = ctx.scratch("swap_" + algo)
        ws = os.path.join(base, "ws")
        for pk in ("a", "b", "c"):
            os.makedirs(os.path.join(ws, pk), exist_ok=True)
        open(os.path.join(ws, "grog.toml"), "w").write("")
        gen = {"targets": [{"name": "gen", "command": "cat in.txt > out.txt", "inputs": ["in.txt"], "outputs": ["out.txt"]}]}
        for pk in ("a", "b"):
            open(os.path.join(ws, pk, "BUILD.json"), "w").write(_json.dumps(gen))
        open(os.path.join(ws, "c", "BUILD.json"), "w").write(_json.dumps({"targets": [{"name": "use", "command": "cat ../a/out.txt ../b/out.txt > res.txt",
                                                                             "dependencies": ["//a:gen", "//b:gen"], "outputs": ["res.txt"]}]}))
        open(os.path.join(ws, "a", "in.txt"), "w").write("X\n"); open(os.path.join(ws, "b", "in.txt"), "w").write("Y\n")
        r1, _ = _keys_after_build(grog, ws, os.path.join(base, "root"), algo)
        open(os.path.join(ws, "a", "in.txt"), "w").write("Y\n"); open(os.path.join(ws, "b", "in.txt"), "w").write("X\n")
        r2, log2 = _keys_after_build(grog, ws, os.path.join(base, "root"), algo)
        runs += 2
        if r1 is None or r2 is None or r1[0] != 0 or r2[0] != 0:
            ctx.notes.append("swap-deps scenario unusable: %s %s" % (r1, r2))
            continue
        got = open(os.path.join(ws, "c", "res.txt")).read()
        new_keys = len(set(r2[1]) - set(r1[1]))
        compared += 1
        if got != "Y\nX\n" or new_keys != 3:
            ctx.violation("two dependencies with the same package-relative output path swapped their contents; the dependant's state changed "
                          "(its dependency outputs differ) but it kept its cache key and was served the stale result",
                          {"kind": "oracle", "oracle": "CLI: dependant of two dependencies that swap outputs gets a new key and fresh bytes", "algo": algo,
                           "res_txt": got, "expected": "Y\nX\n", "new_cache_keys_in_second_build": new_keys, "expected_new_keys": 3, "log": log2[-600:]},
                          signature="collision:dependency-outputs-swapped-between-dependencies")
    # --- a dependency without outputs: its change hash is its output digest, so editing its input changes the dependant's state ------
    for algo in ("xxh3", "sha256"):
        base = ctx.scratch("nooutdep_" + algo)
        ws = os.path.join(base, "ws")
        for pk in ("lib", "app"):
            os.makedirs(os.path.join(ws, pk), exist_ok=True)
        open(os.path.join(ws, "grog.toml"), "w").write("")
        open(os.path.join(ws, "lib", "BUILD.json"), "w").write(_json.dumps({"targets": [{"name": "files", "command": "true", "inputs": ["data.txt"]}]}))
        open(os.path.join(ws, "app", "BUILD.json"), "w").write(_json.dumps({"targets": [{"name": "bundle", "command": "cat ../lib/data.txt > bundle.txt",
                                                                               "dependencies": ["//lib:files"], "outputs": ["bundle.txt"]}]}))
        open(os.path.join(ws, "lib", "data.txt"), "w").write("one\n")
        r1, _ = _keys_after_build(grog, ws, os.path.join(base, "root"), algo)
        open(os.path.join(ws, "lib", "data.txt"), "w").write("two\n")
        r2, log2 = _keys_after_build(grog, ws, os.path.join(base, "root"), algo)
        runs += 2
        if r1 is None or r2 is None or r1[0] != 0 or r2[0] != 0:
            ctx.notes.append("output-less dependency scenario unusable: %s %s" % (r1, r2))
            continue
        got = open(os.path.join(ws, "app", "bundle.txt")).read()
        new_keys = len(set(r2[1]) - set(r1[1]))
        compared += 1
        if got != "two\n" or new_keys != 2:
            ctx.violation("a dependency without declared outputs changed (its input was edited); the dependant's state changed (the dependency's digest "
                          "differs) but it kept its cache key and was served the stale result",
                          {"kind": "oracle", "oracle": "CLI: dependant of an output-less dependency gets a new key when that dependency changes", "algo": algo,
                           "bundle_txt": got, "expected": "two\n", "new_cache_keys_in_second_build": new_keys, "expected_new_keys": 2, "log": log2[-600:]},
                          signature="collision:output-less-dependency-changed")
    # --- two targets of one package whose input lists coincide once joined with ",": each key follows its own files only ---------------
    for algo in ("xxh3", "sha256"):
        base = ctx.scratch("commalists_" + algo)
        ws = os.path.join(base, "ws")
        os.makedirs(os.path.join(ws, "pkg"), exist_ok=True)
        open(os.path.join(ws, "grog.toml"), "w").write("num_workers = 1\n")
        open(os.path.join(ws, "pkg", "BUILD.json"), "w").write(_json.dumps({"targets": [
            {"name": "joined", "command": "cat 'eu,totals.csv' > joined.out", "inputs": ["eu,totals.csv"], "outputs": ["joined.out"]},
            {"name": "split", "command": "cat eu totals.csv > split.out", "inputs": ["eu", "totals.csv"], "outputs": ["split.out"]},
            {"name": "other", "command": "cat eu > other.out", "inputs": ["eu"], "outputs": ["other.out"]}]}))
        for fn, c in (("eu,totals.csv", "J1\n"), ("eu", "E1\n"), ("totals.csv", "T1\n")):
            open(os.path.join(ws, "pkg", fn), "w").write(c)
        prev, _ = _keys_after_build(grog, ws, os.path.join(base, "root"), algo)
        runs += 1
        if prev is None or prev[0] != 0:
            ctx.notes.append("comma-lists scenario unusable: %s" % (prev,))
            continue
        for fn, c, exp_new, outs in (("eu", "E2\n", 2, {"split.out": "E2\nT1\n", "other.out": "E2\n", "joined.out": "J1\n"}),
                                     ("eu,totals.csv", "J2\n", 1, {"split.out": "E2\nT1\n", "other.out": "E2\n", "joined.out": "J2\n"}),
                                     ("totals.csv", "T2\n", 1, {"split.out": "E2\nT2\n", "other.out": "E2\n", "joined.out": "J2\n"})):
            open(os.path.join(ws, "pkg", fn), "w").write(c)
            cur, log2 = _keys_after_build(grog, ws, os.path.join(base, "root"), algo)
            runs += 1
            if cur is None or cur[0] != 0:
                break
            compared += 1
            new_keys = len(set(cur[1]) - set(prev[1]))
            got = {o: open(os.path.join(ws, "pkg", o)).read() for o in outs}
            if new_keys != exp_new or got != outs:
                ctx.violation("two targets of one package whose input lists coincide when joined with ',' ('eu,totals.csv' vs 'eu' + 'totals.csv'): after editing "
                              "one file the wrong set of targets received a new key (a key follows another target's input contents) or a stale result was served",
                              {"kind": "oracle", "oracle": "CLI: keys follow the target's own (input path, content) set; list elements containing the separator", "algo": algo,
                               "edited": fn, "new_cache_keys": new_keys, "expected_new_keys": exp_new, "outputs": got, "expected_outputs": outs, "log": log2[-600:]},
                              signature="collision:input-lists-joined-with-separator")
                break
            prev = cur
    ctx.coverage["cli_builds"] = runs
    ctx.coverage["cli_variants_compared"] = compared
    ctx.coverage["evaluations"] += runs


def replay(ctx, rep):
    import os
    env = dict(os.environ, VERIF_SCRATCH=ctx.scratch("hk"))
    if "state1" in rep:
        for algo in ("sha256", "xxh3"):
            r = [to_req(rep["state1"], algo), to_req(rep["state2"], algo)]
            o = ctx.impl(r, env=env)
            print(algo, "impl keys:", o[0].get("key"), o[1].get("key"), "equal" if o[0].get("key") == o[1].get("key") else "different")
        print("states equal per property text:", canon_state(rep["state1"]) == canon_state(rep["state2"]))
    elif "request" in rep:
        print("impl :", ctx.impl([rep["request"]], env=env)[0])
        print("model:", ctx.model([rep["request"]])[0])
    return 0
