"""C12 — selection is the pattern matches plus their dependency closure, nothing else.

Theorem side : GrogModel/Props/C12.lean — for every graph, selector, host and iteration order of the node map:
               selected set = (filter ∧ platform matches) ∪ their ancestors (aliases are ordinary nodes), closed under
               direct dependencies; selection fails iff that closure contains a platform-incompatible target.
Correspondence: (a) in process: selection.New(...).SelectTargetsForBuild on generated attributed graphs (aliases, tags,
               platforms, bin outputs, test names) x pattern sets (absolute, relative, recursive, :all, shorthand, none) x
               current packages x tag / exclude-tag sets x build/test/all/bin_output x host platforms x --all-platforms, vs the model
               run with a shuffled iteration order; (b) the real CLI: `grog build` / `grog test` with a fresh cache in generated
               workspaces, executed commands (O_APPEND trace) and the `Selected N targets` number vs the model.
Oracle (no model): python reference written from the documentation (pattern matcher, filters, BFS closure): selected set,
               closure under direct dependencies, error iff incompatible node in the closure; in the CLI: executed set equals the
               reference selection, nothing runs when selection fails.
"""
import os, re
from . import _graph as G

PROPERTY = "C12"
LEVEL = "proof"
LEVEL_TEXT = ("Lean 4 theorems for all graphs, selectors, hosts and node-map iteration orders about an executable model of "
              "SelectTargetsForBuild (shared visited set): on success the selected set is exactly the filter-and-platform matches together with all "
              "their transitive dependencies (edges through aliases are edges), it is closed under direct dependencies, and selection fails exactly "
              "when that closure contains a platform-incompatible target. Tied to the code by differential runs in process and through real "
              "`grog build/test` invocations whose executed commands are compared with the predicted set.")
LEVEL_NOTE = ("`only_selected_run` (no other command runs) is proved in Props/Compose.lean by composing select_closed / select_eq_closure with the walker "
              "and pool-task models of C03-C05 (their hypotheses CfgOK.closed and CfgOK.desc_iff are discharged there; acyclicity is discharged from C11 "
              "(acyclic_of_findCycle: FindCycle reporting nothing on a successor function that contains the edges); it is also sampled through the CLI traces (clean cache: executed set = selected targets). "
              "Pattern parsing is the model of C17. "
              "Trusted: Lean kernel; propext/Classical.choice/Quot.sound; the correspondence harness; loaders and cobra/viper flag plumbing (CLI tie only).")
TECHNIQUE = "Lean 4 proof over an executable model + differential correspondence (in-process selector and real CLI build traces)"
OBLIGATIONS = [
    "Grog.C12.select_eq_closure",
    "Grog.C12.select_closed",
    "Grog.C12.platform_error_iff",
    "Grog.C12.select_order_independent",
    "Grog.C12.select_total",
    "Grog.C12.select_nodup",
    "Grog.C12.alias_filtered_witness",
    "Grog.C12.alias_bypass_witness_old",
    # composition with the walker / pool-task models (Props/Compose.lean)
    "Grog.C12.desc_iff",
    "Grog.C12.walker_cfg_ok",
    "Grog.C12.only_selected_run",
    "Grog.C12.unselected_never_started",
    "Grog.C12.acyclic_of_c11",
    "Grog.C12.acyclic_of_findCycle",
    "Grog.C12.only_selected_run_c11",
    "Grog.C12.selected_all_complete",
    "Grog.C12.select_eq_closure_parsed",
    # alias chains of any length (continuation round; motivated by seeded C12-m11)
    "Grog.C12.resolveFrom_isTarget",
    "Grog.C12.resolve_target",
    "Grog.C12.resolveFrom_alias_step",
    "Grog.C12.resolveFrom_mono",
    "Grog.C12.alias_of_rejected_not_root",
    "Grog.C12.alias_of_incompatible_not_root",
    "Grog.C12.alias_chain_filtered_witness",
]
PROP_MODULES = ["GrogModel.Props.C12", "GrogModel.Props.Compose"]
ASSUMPTIONS = [
    "the node map iteration order of Go is arbitrary: the theorems quantify over every order, the model side of the tie runs a shuffled order",
    "CLI tie: every generated command succeeds and the cache is empty, so executed = selected targets",
]


def run(ctx):
    rng = ctx.rng
    quick = ctx.tier == "quick"
    cov = ctx.coverage
    cov["rule"] = ("(a) generated attributed DAGs (2-14 nodes) x generated pattern sets / filters / hosts, in process; (b) generated JSON workspaces "
                   "through `grog build` / `grog test` with a fresh cache; non-trivial = distinct request whose outcome is a platform error or a selection "
                   "with >= 2 nodes of which at least one is selected only as a dependency")
    reqs = []
    for _ in range(3000 if quick else 60000):
        r = G.gen_select_req(rng)
        r["op"] = "graph.select"
        reqs.append(r)
    # targeted: relative patterns (`:...`, `:all`, `:name`) from a nested current package that has sub-packages and a prefix sibling
    for _ in range(400 if quick else 6000):
        r = G.gen_relative_req(rng)
        r["op"] = "graph.select"
        reqs.append(r)
    # targeted: `//...:name` alone and next to other patterns (the pattern *set* goes through ParsePatternsOrMatchAll)
    for _ in range(300 if quick else 4000):
        r = G.gen_rootname_req(rng)
        r["op"] = "graph.select"
        reqs.append(r)
    # boundary sizes: node counts around powers of two (sparse graphs)
    for size in (63, 64, 65, 127, 128, 129, 255, 256, 257):
        r = G.gen_select_req(rng, size)
        r["op"] = "graph.select"
        reqs.append(r)
    # targeted: incompatible dependency reached only through an alias; incompatible match that is also a dependency
    base = {"op": "graph.select", "cur": "", "tags": [], "exclude": [], "type": "all", "platform": "linux/amd64", "all_platforms": False}
    N = lambda pkg, name, target=True, plats=(): {"pkg": pkg, "name": name, "target": target, "tags": [], "platforms": list(plats), "bin": False}
    reqs.append(dict(base, nodes=[N("", "x", plats=["darwin/arm64"]), N("", "ax", target=False), N("", "t")], edges=[[0, 1], [1, 2]], patterns=["//:t"]))
    reqs.append(dict(base, nodes=[N("", "x", plats=["darwin/arm64"]), N("", "ax", target=False), N("", "t")], edges=[[0, 1], [1, 2]], patterns=["//:t"], all_platforms=True))
    reqs.append(dict(base, nodes=[N("", "x", plats=["darwin/arm64"]), N("", "t")], edges=[[0, 1]], patterns=["//..."]))
    reqs.append(dict(base, nodes=[N("", "x", plats=["darwin/arm64"]), N("", "t")], edges=[], patterns=["//..."]))
    reqs.append(dict(base, nodes=[N("p", "a"), N("p2", "a"), N("p/q", "a")], edges=[], patterns=["//p/..."]))
    # an alias is the target it points to: `--exclude-tag=slow //...` must not build `slow` because it has an alias; same for build/test
    A = lambda pkg, name: {"pkg": pkg, "name": name, "target": False, "tags": [], "platforms": [], "bin": False}
    an = [{"pkg": "", "name": "lib", "target": True, "tags": ["slow"], "platforms": [], "bin": False}, A("", "al"), A("", "al2"),
          {"pkg": "", "name": "x_test", "target": True, "tags": [], "platforms": ["darwin/arm64"], "bin": False}, A("", "tal")]
    for kw in (dict(exclude=["slow"]), dict(tags=["fast"]), dict(type="test"), dict(type="no_test"), dict(), dict(all_platforms=True, type="test")):
        for pats in (["//..."], ["//:al2"], ["//:tal"]):
            reqs.append(dict(base, nodes=an, edges=[[0, 1], [1, 2], [3, 4]], patterns=pats, **kw))
    # `testonly` is a dependency-visibility tag, not test-ness: a tagged non-test target is built by `grog build`, not by `grog test`
    # (unless a selected test depends on it)
    T = lambda pkg, name, tags=(): {"pkg": pkg, "name": name, "target": True, "tags": list(tags), "platforms": [], "bin": False}
    tn = [T("pkg", "lib"), T("pkg", "fixture", ["testonly"]), T("pkg", "lib_test"), T("tools", "golden_gen", ["testonly"]), T("tools", "x_test", ["testonly", "no-cache"])]
    for typ in ("test", "no_test", "all"):
        for pats in (["//..."], ["//tools:golden_gen"], ["//pkg/..."], ["//tools:all"]):
            reqs.append(dict(base, nodes=tn, edges=[[0, 2], [1, 2]], patterns=pats, type=typ))
    impl = ctx.impl(reqs)
    if impl is None:
        return
    model = ctx.model(reqs)
    bad_corr, nontrivial = [], set()
    outcomes = {"ok": 0, "platform-error": 0, "pattern-rejected": 0, "empty-selection": 0, "with-closure-only-nodes": 0, "through-alias": 0}
    ref_checked = 0
    outcomes["relative-pattern-in-nested-package"] = sum(1 for r in reqs if any(p.startswith(":") for p in r["patterns"]) and r["cur"] in G.nested_packages(r["nodes"]))
    outcomes["relative-dots-in-nested-package"] = sum(1 for r in reqs if ":..." in r["patterns"] and r["cur"] in G.nested_packages(r["nodes"]))
    for r, a, b in zip(reqs, impl, model):
        cov["evaluations"] += 1
        if "panic" in a or "error" in a:
            ctx.violation("selector crashed", {"kind": "impl-crash", "request": r, "impl": a}, signature="selector-crash")
            continue
        ka = {k: a.get(k) for k in ("ok", "err", "selected", "count", "skipped")}
        kb = {k: b.get(k) for k in ("ok", "err", "selected", "count", "skipped")}
        if ka != kb:
            bad_corr.append((r, a, b))
        if a.get("err") == "pattern":
            outcomes["pattern-rejected"] += 1
            continue
        ref = G.ref_select(r)
        es = [tuple(e) for e in r["edges"]]
        key = G_key(r)
        if a.get("ok"):
            outcomes["ok"] += 1
            sel = set(a["selected"])
            if not sel:
                outcomes["empty-selection"] += 1
            # closure under direct dependencies (model-independent, needs no pattern reference)
            for x, y in es:
                if y in sel and x not in sel:
                    ctx.violation("a selected node has an unselected direct dependency", {"kind": "oracle", "oracle": "closed under direct dependencies",
                                  "request": r, "impl": a, "edge": [x, y]}, signature="selection-not-closed")
        else:
            outcomes["platform-error"] += 1
            nontrivial.add(key)
        if ref is None:
            continue
        ref_checked += 1
        def outcome(x):
            return ("platform",) if not x.get("ok") else ("ok", set(x["selected"]), x["count"], x["skipped"])
        if outcome(a) != ref and outcome(a) == G.ref_select(r, alias_mode="pattern-only"):
            ctx.violation("an alias is selected by its pattern alone: the type / tag / exclude-tag / platform filters are not applied to the target it points to, "
                          "so a target excluded by the filters (and not a dependency of any matching target) is built",
                          {"kind": "oracle", "oracle": "reference selection (alias = the target it points to)", "request": r, "impl": a,
                           "expected": "platform error" if ref[0] == "platform" else {"selected": sorted(ref[1]), "count": ref[2], "skipped": ref[3]}},
                          signature="alias-bypasses-filters")
        elif ref[0] == "platform":
            if a.get("ok"):
                ctx.violation("a selected target has a platform-incompatible dependency but selection succeeded (partial build)",
                              {"kind": "oracle", "oracle": "reference selection", "request": r, "impl": a, "expected": "platform error"}, signature="platform-error-missed")
        else:
            _, rsel, rcount, rskip = ref
            if not a.get("ok"):
                ctx.violation("selection failed although no node of the closure is platform-incompatible",
                              {"kind": "oracle", "oracle": "reference selection", "request": r, "impl": a, "expected": sorted(rsel)}, signature="platform-error-spurious")
            elif set(a["selected"]) != rsel or a["count"] != rcount or a["skipped"] != rskip:
                ctx.violation("selected set differs from pattern/filter matches plus their dependency closure",
                              {"kind": "oracle", "oracle": "reference selection", "request": r, "impl": a, "expected": {"selected": sorted(rsel), "count": rcount, "skipped": rskip}},
                              signature="selection-wrong-set")
            else:
                preds = [G.ref_pattern(p, r["cur"]) for p in r["patterns"]]
                direct = {i for i in range(len(r["nodes"])) if G.ref_node_selected(r["nodes"], es, i, preds, r["tags"], r["exclude"], r["type"], r["platform"], r["all_platforms"])[0]}
                extra = rsel - direct
                if extra and len(rsel) >= 2:
                    outcomes["with-closure-only-nodes"] += 1
                    nontrivial.add(key)
                    if any(not r["nodes"][i]["target"] for i in extra):
                        outcomes["through-alias"] += 1
    # determinism: the Go node map is iterated in a different order on every call; the outcome must not depend on it.
    # Re-run the requests with a platform error or several overlapping start nodes a few more times.
    sensitive = [i for i, (r, a) in enumerate(zip(reqs, impl)) if a.get("err") == "platform" or len(a.get("selected", [])) >= 4][:150 if quick else 1500]
    repeats = 4
    rerun = ctx.impl([reqs[i] for i in sensitive for _ in range(repeats)])
    nondet = 0
    for k, i in enumerate(sensitive):
        first = {x: impl[i].get(x) for x in ("ok", "err", "selected", "count", "skipped")}
        for j in range(repeats):
            again = rerun[k * repeats + j]
            if {x: again.get(x) for x in ("ok", "err", "selected", "count", "skipped")} != first:
                nondet += 1
                ctx.violation("the same selection gives different outcomes on different runs (depends on the map iteration order)",
                              {"kind": "oracle", "oracle": "determinism under map iteration order", "request": reqs[i], "first": impl[i], "again": again},
                              signature="selection-nondeterministic")
    cov["determinism_reruns"] = len(sensitive) * repeats
    cov["evaluations"] += len(sensitive) * repeats
    cov["outcomes"] = outcomes
    cov["oracle_reference_requests"] = ref_checked
    ctx.sample({"request": {k: reqs[0][k] for k in ("edges", "cur", "patterns", "tags", "exclude", "type", "platform", "all_platforms")},
                "labels": [G.label_str(n) for n in reqs[0]["nodes"]], "impl": impl[0]})

    grog = ctx.grog_binary()
    stats = {"builds": 0, "ok": 0, "platform-error": 0, "nothing-selected": 0, "executed_commands": 0}
    if grog:
        for w in range(50 if quick else 300):
            bad_corr += cli_build(ctx, grog, rng, w, stats, nontrivial)
    cov["cli"] = stats
    cov["distinct_nontrivial"] = len(nontrivial)
    cov["traces_validated_against_impl"] = cov["evaluations"]
    cov["disagreements"] = len(bad_corr)
    if bad_corr and not ctx.violations:
        r, a, b = min(bad_corr, key=lambda t: len(t[0]["nodes"]))
        ctx.violation("model and implementation disagree (correspondence SelectTargetsForBuild vs GrogModel.Select)",
                      {"kind": "correspondence", "correspondence": "graph.select: selection.SelectTargetsForBuild / grog build trace vs GrogModel.Select",
                       "request": r, "impl": a, "model": b, "n_disagreements": len(bad_corr)}, found_input=False)


def G_key(r):
    return (tuple((G.label_str(n), n["target"], tuple(n["tags"]), tuple(n["platforms"]), n["bin"]) for n in r["nodes"]), tuple(map(tuple, r["edges"])),
            r["cur"], tuple(r["patterns"]), tuple(r["tags"]), tuple(r["exclude"]), r["type"], r["platform"], r["all_platforms"])


def resolve(nodes, deps, i):
    """follow alias chain to the target (aliases have exactly one dependency)"""
    while not nodes[i]["target"]:
        i = deps[i][0]
    return i


def gen_cli_case(rng):
    r = rng.random()
    req = G.gen_relative_req(rng) if r < 0.25 else G.gen_rootname_req(rng) if r < 0.45 else G.gen_select_req(rng, rng.randint(3, 10))
    nodes = req["nodes"]
    for n in nodes:
        n["bin"] = False
    es = [tuple(e) for e in req["edges"]]
    deps = {}
    for a, b in es:
        deps.setdefault(b, []).append(a)
    is_test = lambda i: nodes[i]["name"].endswith("test")
    # analysis rejects a non-test target depending (through aliases) on a test target: drop such edges
    test_only = lambda i: "testonly" in nodes[i]["tags"]
    # ... and a target that is neither a test nor tagged `testonly` depending (through aliases) on a `testonly` target
    es = [(a, b) for a, b in es if not (nodes[b]["target"] and not is_test(b) and
                                        (is_test(resolve(nodes, deps, a)) or (test_only(resolve(nodes, deps, a)) and not test_only(b))))]
    req["edges"] = [list(e) for e in es]
    cmd = rng.choice(["build", "build", "test"])
    req["type"] = "no_test" if cmd == "build" else "test"
    req["op"] = "graph.select"
    req["cur"] = req["cur"] if req["cur"] in {n["pkg"] for n in nodes} else ""
    req["exclude"] = [t for t in req["exclude"] if t not in req["tags"]]     # the CLI rejects a tag that is both selected and excluded
    return req, cmd


def cli_build(ctx, grog, rng, w, stats, nontrivial):
    # prefer cases in which something is selected or selection fails (an empty selection is kept now and then)
    for attempt in range(8):
        req, cmd = gen_cli_case(rng)
        ref = G.ref_select(req)
        if ref is None or ref[0] == "platform" or len(ref[1]) >= 2 or rng.random() < 0.1:
            break
    nodes = req["nodes"]
    es = [tuple(e) for e in req["edges"]]
    scratch = ctx.scratch(f"b{w}")
    ws = os.path.join(scratch, "ws")
    trace = os.path.join(scratch, "trace.log")
    open(trace, "w").close()
    commands = {i: f"echo '{G.label_str(n)}' >> '{trace}'" for i, n in enumerate(nodes) if n["target"]}
    G.write_workspace(ws, nodes, es, commands=commands)
    env = G.grog_env(scratch)
    args = [cmd] + req["patterns"] + (["--all-platforms"] if req["all_platforms"] else ["--platform=" + req["platform"]])
    args += ["--tag=" + t for t in req["tags"]] + ["--exclude-tag=" + t for t in req["exclude"]]
    rc, out, err, dt = G.run_grog(grog, args, os.path.join(ws, req["cur"]), env, timeout=120)
    executed = [l.strip() for l in open(trace) if l.strip()]
    stats["builds"] += 1
    stats["executed_commands"] += len(executed)
    ctx.coverage["evaluations"] += 1
    m = ctx.model([req])[0]
    text = "\n".join(out) + "\n" + err
    mm = re.search(r"Selected (\d+) target", text)
    a = {"rc_ok": rc == 0, "executed": sorted(executed), "selected_n": int(mm.group(1)) if mm else None}
    ref = G.ref_select(req)
    rep = {"request": req, "cli": args, "cwd": req["cur"], "impl": a, "stderr": err[-1200:]}
    if len(set(executed)) != len(executed):
        ctx.violation("a command ran more than once in one build", dict(rep, kind="oracle", oracle="each selected target once"), signature="command-ran-twice")
    def cli_outcome(rf):
        """what the CLI should show for a reference outcome: (build succeeds, executed labels)"""
        if rf[0] == "platform":
            return (False, [])
        e = sorted(G.label_str(nodes[i]) for i in rf[1] if nodes[i]["target"])
        return (bool(e), e)
    old_ref = G.ref_select(req, alias_mode="pattern-only") if ref is not None else None
    if ref is not None and (rc == 0, sorted(executed)) != cli_outcome(ref) and (rc == 0, sorted(executed)) == cli_outcome(old_ref):
        stats["alias-bypass"] = stats.get("alias-bypass", 0) + 1
        ctx.violation("`grog " + cmd + "` runs a target that the type / tag / exclude-tag / platform filters exclude and that no matching target depends on, "
                      "because an alias pointing to it matches the pattern (aliases are selected by pattern alone)",
                      dict(rep, kind="oracle", oracle="reference selection (CLI; alias = the target it points to)", expected=cli_outcome(ref)[1]),
                      signature="alias-bypasses-filters")
    elif ref is not None:
        if ref[0] == "platform":
            stats["platform-error"] += 1
            if rc == 0 or executed:
                ctx.violation("a selected target has a platform-incompatible dependency but the build ran (partial build)",
                              dict(rep, kind="oracle", oracle="reference selection (CLI)", expected="error, nothing runs"), signature="platform-error-missed")
        else:
            exp = sorted(G.label_str(nodes[i]) for i in ref[1] if nodes[i]["target"])
            if not exp:
                stats["nothing-selected"] += 1
                if rc == 0 or executed:
                    ctx.violation("nothing matches but the build ran something", dict(rep, kind="oracle", oracle="reference selection (CLI)", expected=[]), signature="selection-wrong-set")
            else:
                stats["ok"] += 1
                if rc != 0 or sorted(executed) != exp or a["selected_n"] != len(exp):
                    ctx.violation("the commands a clean-cache build ran are not exactly the pattern/filter matches plus their dependency closure",
                                  dict(rep, kind="oracle", oracle="reference selection (CLI)", expected=exp), signature="selection-wrong-set")
                if len(exp) >= 2:
                    nontrivial.add(("cli",) + G_key(req) + (cmd,))
    # model vs CLI
    bad = []
    if m.get("ok"):
        mexp = sorted(G.label_str(nodes[i]) for i in m["selected"] if nodes[i]["target"])
        agree = (a["executed"] == mexp) and ((rc == 0) == (len(mexp) > 0)) and (not mexp or a["selected_n"] == m["count"])
    else:
        agree = (rc != 0 and not executed) if m.get("err") in ("platform", "pattern") else False
    if not agree:
        bad.append((req, a, m))
    return bad


def replay(ctx, rep):
    r = rep.get("request")
    if not r:
        print("nothing to replay in this file (see 'kind'):", rep.get("what"))
        return 0
    r = dict(r, op="graph.select")
    print("impl :", ctx.impl([r])[0])
    print("model:", ctx.model([r])[0])
    print("reference:", G.ref_select(r))
    return 0
