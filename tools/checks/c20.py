"""C20 — query commands agree with the graph and predict rebuilds.

Theorem side : GrogModel/Props/C20.lean — deps/rdeps print the sorted direct / transitive sets, each label once;
               transitive deps and rdeps are mutual inverses; owners and list are exact; abstract edit_predicts.
Correspondence: (a) in process: the bodies of `grog deps/rdeps/list` (GetAncestors/GetDescendants/GetDependencies/
               GetDependants + FilterNodes + PrintSortedLabels, SelectTargets + LogSelectedNodes; stdout captured) vs the
               model, on generated graphs with aliases, tags, platforms, test/non-test, duplicate dependency entries;
               (b) the real CLI `grog deps/rdeps/owners/list` in generated multi-package JSON workspaces, stdout vs model.
Oracle (no model): each printed label once and sorted; printed sets equal a python reference (BFS + documented filters);
               a in deps -t b  <=>  b in rdeps -t a over the CLI outputs; after editing one input file the commands that
               re-run (O_APPEND trace) are a subset of `grog owners f` ∪ `grog rdeps -t` of those owners.
"""
import os
from . import _graph as G

PROPERTY = "C20"
LEVEL = "proof"
LEVEL_TEXT = ("Lean 4 theorems for all graphs about an executable model of the query commands: the lines printed by deps/rdeps (direct and "
              "transitive) are sorted, duplicate-free and are exactly the labels of the direct / reachable nodes that pass the filters; transitive "
              "deps and rdeps are mutual inverses; owners prints exactly the targets with a resolved input equal to a given file; list prints exactly the "
              "pattern/filter/platform matches. Tied to the code by differential runs of the in-process command bodies and of the real CLI in "
              "generated workspaces; `edit_predicts` is proved against an abstract build (hypothesis: re-executed ⊆ changed ∪ descendants, C02) and "
              "sampled on the real CLI.")
LEVEL_NOTE = ("edit_predicts is a composition with the build model of C02 (another group): here it is stated over an abstract re-execution "
              "hypothesis and sampled through real builds. owners is modelled for cleaned package-relative input paths (no '..', no globs). "
              "Trusted: Lean kernel; propext/Classical.choice/Quot.sound; the correspondence harness; JSON loader, cobra/viper flag plumbing (CLI tie only).")
TECHNIQUE = "Lean 4 proof over an executable model + differential correspondence (in-process command bodies and real CLI stdout)"
PROP_MODULES = ["GrogModel.Props.C20", "GrogModel.Props.ComposeQuery"]
OBLIGATIONS = [
    "Grog.C20.deps_exact",
    "Grog.C20.rdeps_exact",
    "Grog.C20.inverse",
    "Grog.C20.inverse_direct",
    "Grog.C20.owners_exact",
    "Grog.C20.list_exact",
    "Grog.C20.edit_predicts_partial",
    "Grog.C20.addEdges_spec",
    "Grog.C20.old_paths_duplicate_witness",
    "Grog.C20.old_print_duplicate_witness",
    "Grog.C20.inverse_printed",
    "Grog.C20.changes_exact",
    "Grog.C20.owners_noncanonical_witness",
    "Grog.C20.printedDistinct_of_labels",
    "Grog.Compose.reexec_downstream",
    "Grog.Compose.edit_predicts",
    "Grog.Compose.edit_predicts_file",
    "Grog.Compose.downstream_path",
]
ASSUMPTIONS = [
    "labels of distinct nodes are distinct (BuildNodeMap is keyed by label) — hypothesis LabelsDistinct of the exactness theorems",
    "owners: the model takes the resolved inputs (cleaned package-relative paths); glob resolution is done by a reference matcher of the check for the generated glob shapes (sub/**/*.ext, **/*.ext, sub/*.ext)",
    "edit_predicts: the build re-executes only changed targets and their descendants (C02), taken as a hypothesis here",
]

FILES = ["src.txt", "data/x.txt", "lib.in", "main.c"]


def query_req(rng, nodes, es, n_queries=6):
    req = {"op": "graph.query", "nodes": nodes, "edges": [list(e) for e in es], "cur": "", "patterns": [],
           "tags": [t for t in G.TAGS if rng.random() < 0.1], "exclude": [t for t in G.TAGS if rng.random() < 0.1],
           "type": rng.choice(G.TYPES + ["all", "all", "all"]), "platform": rng.choice(G.PLATFORMS[:2]),
           "all_platforms": rng.random() < 0.3}
    req["cur"], req["patterns"] = G.gen_patterns(rng, nodes)
    qs = []
    for _ in range(n_queries):
        qs.append({"k": rng.choice(["deps", "rdeps"]), "t": rng.random() < 0.6, "v": rng.randrange(len(nodes))})
    qs.append({"k": "list"})
    req["q"] = qs
    return req


def ref_query(req, q):
    """python reference of one query -> sorted list of label strings, or None outside the reference"""
    nodes, es = req["nodes"], [tuple(e) for e in req["edges"]]
    plat = [G.ref_platform_ok(n, req["platform"], req["all_platforms"]) for n in nodes]
    if q["k"] == "list":
        preds = [G.ref_pattern(p, req["cur"]) for p in req["patterns"]]
        if any(f is None for f in preds):
            return None
        # `list`: an alias is listed iff its label matches the patterns and the target it points to passes the other filters
        keep = [i for i in range(len(nodes))
                if all(G.ref_node_selected(nodes, es, i, preds, req["tags"], req["exclude"], req["type"], req["platform"], req["all_platforms"]))]
    else:
        fwd = q["k"] == "rdeps"
        if q["t"]:
            raw = G.reach(es, q["v"], forward=fwd)
        else:
            raw = {b for a, b in es if a == q["v"]} if fwd else {a for a, b in es if b == q["v"]}
        keep = [i for i in raw if G.ref_matches_filters(nodes[i], [], req["tags"], req["exclude"], req["type"]) and plat[i]]
    return sorted((G.label_str(nodes[i]) for i in keep), key=lambda s: s.encode("latin-1"))


def check_lines(ctx, req, q, lines, where):
    """oracle on one printed list. returns True if fine."""
    ok = True
    if len(set(lines)) != len(lines):
        ok = False
        nodes, es = req["nodes"], [tuple(e) for e in req["edges"]]
        if q["k"] in ("deps", "rdeps") and q.get("t"):
            sig = "transitive-query-prints-label-once-per-path"
        elif q["k"] in ("deps", "rdeps") and len(set(es)) != len(es):
            sig = "direct-query-prints-duplicate-dependency-entry-twice"
        else:
            sig = "query-prints-duplicate-label"
        ctx.violation(f"`{q['k']}{' -t' if q.get('t') else ''}` prints a label more than once ({where})",
                      {"kind": "oracle", "oracle": "each label once", "request": dict(req, q=[q]), "printed": lines, "where": where}, signature=sig)
    if lines != sorted(lines, key=lambda s: s.encode("latin-1")):
        ok = False
        ctx.violation(f"`{q['k']}` output is not sorted ({where})", {"kind": "oracle", "oracle": "sorted", "request": dict(req, q=[q]), "printed": lines},
                      signature="query-output-unsorted")
    exp = ref_query(req, q)
    if exp is not None and sorted(set(lines)) != sorted(set(exp)):
        ok = False
        ctx.violation(f"`{q['k']}` prints a set different from the graph's ({where})",
                      {"kind": "oracle", "oracle": "reference set", "request": dict(req, q=[q]), "printed": lines, "expected": exp},
                      signature="query-wrong-set:" + q["k"])
    return ok


def run(ctx):
    rng = ctx.rng
    quick = ctx.tier == "quick"
    cov = ctx.coverage
    cov["rule"] = ("(a) generated attributed DAGs (2-14 nodes, aliases, tags, platforms, bin outputs, test names, optional duplicate dependency "
                   "entries) x 6 deps/rdeps queries (direct/transitive) + list with generated pattern sets; (b) generated JSON workspaces through the "
                   "real CLI (deps, rdeps, owners, list, and edit->rebuild histories); non-trivial = distinct (graph, query) whose printed list has >= 2 labels")
    # ---------------- (a) in-process command bodies ----------------------------------------------------
    reqs = []
    for i in range(600 if quick else 12000):
        nodes, es = G.gen_attr_graph(rng)
        if rng.random() < 0.15 and es:
            es = es + [rng.choice(es)]                     # duplicate dependency entry
        reqs.append(query_req(rng, nodes, es))
    # targeted: the diamond of DESIGN section 6, through an alias
    dn = [{"pkg": "", "name": x, "target": x != "ax", "tags": [], "platforms": [], "bin": False} for x in ["a", "b", "c", "ax", "d"]]
    dreq = {"op": "graph.query", "nodes": dn, "edges": [[0, 1], [0, 2], [2, 3], [1, 4], [3, 4]], "cur": "", "patterns": ["//..."], "tags": [], "exclude": [],
            "type": "all", "platform": "linux/amd64", "all_platforms": False,
            "q": [{"k": "deps", "t": True, "v": 4}, {"k": "rdeps", "t": True, "v": 0}, {"k": "deps", "t": False, "v": 4}, {"k": "list"}]}
    reqs.append(dreq)
    impl = ctx.impl(reqs)
    if impl is None:
        return
    model = ctx.model(reqs)
    bad_corr, nontrivial = [], set()
    kinds = {"deps": 0, "deps-t": 0, "rdeps": 0, "rdeps-t": 0, "list": 0, "pattern-rejected": 0}
    for r, a, b in zip(reqs, impl, model):
        if "panic" in a or "error" in a:
            ctx.violation("query body crashed", {"kind": "impl-crash", "request": r, "impl": a}, signature="query-crash")
            continue
        if a != b:
            bad_corr.append((r, a, b))
        if not a.get("ok"):
            kinds["pattern-rejected"] += 1
            continue
        for q, lines in zip(r["q"], a["out"]):
            cov["evaluations"] += 1
            kinds[q["k"] + ("-t" if q.get("t") else "")] += 1
            check_lines(ctx, r, q, lines, "in-process command body")
            if len(lines) >= 2:
                nontrivial.add((G_key(r), q["k"], q.get("t"), q.get("v")))
    cov["query_kinds"] = kinds
    ctx.sample({"request": {k: dreq[k] for k in ("edges", "q")}, "labels": [G.label_str(n) for n in dn], "impl": impl[-1].get("out")})

    # ---------------- (b) real CLI -------------------------------------------------------------------------
    grog = ctx.grog_binary()
    cli_stats = {"workspaces": 0, "commands": 0, "histories": 0, "executed_after_edit": 0}
    if grog:
        for w in range(12 if quick else 60):
            bad_corr += cli_workspace(ctx, grog, rng, w, nontrivial, cli_stats)
        for hcase in range(12 if quick else 60):
            cli_history(ctx, grog, rng, hcase, cli_stats)
    cov["cli"] = cli_stats
    cov["distinct_nontrivial"] = len(nontrivial)
    cov["traces_validated_against_impl"] = cov["evaluations"]
    cov["disagreements"] = len(bad_corr)
    if bad_corr and not ctx.violations:
        r, a, b = min(bad_corr, key=lambda t: len(t[0]["nodes"]))
        ctx.violation("model and implementation disagree (correspondence query commands vs GrogModel.Query)",
                      {"kind": "correspondence", "correspondence": "graph.query: deps/rdeps/list/owners output vs GrogModel.Query",
                       "request": r, "impl": a, "model": b, "n_disagreements": len(bad_corr)}, found_input=False)


def G_key(r):
    return (tuple(G.label_str(n) for n in r["nodes"]), tuple(map(tuple, r["edges"])), r["type"], tuple(r["tags"]), tuple(r["exclude"]))


def cli_flags(req):
    fl = ["--platform=" + req["platform"]] if not req["all_platforms"] else ["--all-platforms"]
    fl += ["--tag=" + t for t in req["tags"]] + ["--exclude-tag=" + t for t in req["exclude"]]
    return fl


def cli_workspace(ctx, grog, rng, w, nontrivial, stats):
    """one generated workspace; every node queried; returns correspondence disagreements"""
    nodes, es = G.gen_attr_graph(rng, rng.randint(4, 12))
    into_targets = [e for e in es if nodes[e[1]]["target"]]
    if into_targets and rng.random() < 0.25:
        es = es + [rng.choice(into_targets)]           # a dependency listed twice in BUILD.json
    patterns = G.gen_input_patterns(rng, nodes)
    scratch = ctx.scratch(f"ws{w}")
    ws = os.path.join(scratch, "ws")
    G.write_workspace(ws, nodes, es, inputs=patterns)
    G.populate_files(ws, nodes)
    with open(os.path.join(ws, "unowned.md"), "w") as fh:
        fh.write("nobody's input\n")
    inputs = G.resolve_inputs(ws, nodes, patterns)          # package-relative resolved inputs (reference glob resolution)
    multi = sorted(f for f, pk in G.owner_packages(nodes, inputs).items() if len(pk) >= 2)
    stats["files_owned_across_packages"] = stats.get("files_owned_across_packages", 0) + len(multi)
    odd = sorted({os.path.normpath(os.path.join(nodes[k]["pkg"], x)) for k, fl in inputs.items() for x in fl if os.path.normpath(x) != x})
    stats["files_named_noncanonically"] = stats.get("files_named_noncanonically", 0) + len(odd)
    stats["workspaces"] += 1
    req = {"op": "graph.query", "nodes": nodes, "edges": [list(e) for e in es], "cur": "", "patterns": [],
           "tags": [t for t in G.TAGS if rng.random() < 0.1], "exclude": [t for t in G.TAGS if rng.random() < 0.1],
           "type": rng.choice(G.TYPES + ["all", "all"]), "platform": rng.choice(G.PLATFORMS[:2]), "all_platforms": rng.random() < 0.3,
           "inputs": [inputs.get(i, []) for i in range(len(nodes))]}
    req["exclude"] = [t for t in req["exclude"] if t not in req["tags"]]     # the CLI rejects a tag that is both selected and excluded
    env = G.grog_env(scratch)
    qs, clis = [], []
    for v in rng.sample(range(len(nodes)), min(len(nodes), 5)):
        for k in ("deps", "rdeps"):
            t = rng.random() < 0.6
            qs.append({"k": k, "t": t, "v": v})
            clis.append(([k] + (["-t"] if t else []) + ["--target-type=" + req["type"], G.label_str(nodes[v])] + cli_flags(req), ""))
    # list with generated patterns, from a generated current package (must exist as a directory)
    cur, pats = G.gen_patterns(rng, nodes)
    cur = cur if cur in {n["pkg"] for n in nodes} else ""
    req["cur"], req["patterns"] = cur, pats
    if pats:
        qs.append({"k": "list"})
        clis.append((["list", "--target-type=" + req["type"]] + pats + cli_flags(req), cur))
    # owners: files by workspace-relative path, given relative to the root and to a package directory
    files = []
    for _ in range(3):
        r = rng.random()
        if odd and r < 0.35:
            files.append(rng.choice(odd))                  # a file some target names as ./x, d/../x, a//b or x/.
        elif multi and r < 0.75:
            files.append(rng.choice(multi))                # a file in a nested package that is also an input of an enclosing package's target
        else:
            i = rng.randrange(len(nodes))
            files.append(os.path.normpath(os.path.join(nodes[i]["pkg"], rng.choice(FILES))))
    # the file arguments are given canonically and non-canonically (./x, d/../x, a//b, x/.), from the root and from a package directory
    # (`filepath.Abs` cleans them); the model gets the cleaned workspace-relative paths
    def spell(f, cwd):
        rel = os.path.relpath(os.path.join(ws, f), os.path.join(ws, cwd))
        return G.respell(rng, rel, existing_dir="zz") if rng.random() < 0.5 else rel
    for fset, cwd in ((files[:1], ""), (files, ""), (files[1:], rng.choice(sorted({n["pkg"] for n in nodes}))), (files[:2], rng.choice(sorted({n["pkg"] for n in nodes})))):
        qs.append({"k": "owners", "files": fset})
        clis.append((["owners"] + [spell(f, cwd) for f in fset], cwd))
    req["q"] = qs
    m = ctx.model([req])[0]
    bad = []
    outs = []
    for (args, cwd), q in zip(clis, qs):
        rc, lines, err, dt = G.run_grog(grog, args, os.path.join(ws, cwd), env, timeout=60)
        stats["commands"] += 1
        ctx.coverage["evaluations"] += 1
        if rc != 0:
            ctx.violation("query command failed in a generated workspace", {"kind": "correspondence", "correspondence": "CLI query in generated workspace",
                          "cli": args, "cwd": cwd, "rc": rc, "stderr": err[-1500:], "request": req}, found_input=False)
            outs.append(None)
            continue
        outs.append(lines)
        if q["k"] != "owners":
            check_lines(ctx, req, q, lines, "CLI `grog " + " ".join(args) + "`")
        else:
            exp = sorted(G.label_str(n) for i, n in enumerate(nodes) if n["target"] and
                         any(os.path.normpath(os.path.join(n["pkg"], f)) in q["files"] for f in inputs.get(i, [])))
            if lines != exp:
                ctx.violation("`owners` does not print exactly the targets whose inputs contain the file",
                              {"kind": "oracle", "oracle": "owners reference", "request": dict(req, q=[q]), "cli": args, "cwd": cwd, "printed": lines, "expected": exp},
                              signature="owners-wrong-set")
        if len(lines) >= 2:
            nontrivial.add((G_key(req), q["k"], q.get("t"), q.get("v"), tuple(q.get("files", ()))))
    if not m.get("ok") or any(o is not None and o != mo for o, mo in zip(outs, m.get("out", []))):
        bad.append((req, {"ok": True, "out": outs}, m))
    bad += cli_changes(ctx, grog, rng, ws, env, req, nodes, es, inputs, stats, nontrivial)
    # determinism: the graph is rebuilt from Go maps on every invocation; the same query must print the same lines
    for (args, cwd), first in list(zip(clis, outs))[:4]:
        for _ in range(2):
            rc, lines, err, dt = G.run_grog(grog, args, os.path.join(ws, cwd), env, timeout=60)
            stats["commands"] += 1
            if first is not None and lines != first:
                ctx.violation("the same query prints different lines on different runs", {"kind": "oracle", "oracle": "determinism", "cli": args, "cwd": cwd,
                              "first": first, "again": lines, "request": req}, signature="query-nondeterministic")
    # inverse over the CLI (type=all, no tag filters): a in deps -t b  <=>  b in rdeps -t a
    if len(nodes) <= 8:
        base = ["--target-type=all", "--all-platforms"]
        dt, rt = {}, {}
        for i, n in enumerate(nodes):
            dt[i] = set(G.run_grog(grog, ["deps", "-t", G.label_str(n)] + base, ws, env)[1])
            rt[i] = set(G.run_grog(grog, ["rdeps", "-t", G.label_str(n)] + base, ws, env)[1])
            stats["commands"] += 2
        for a in range(len(nodes)):
            for b in range(len(nodes)):
                if (G.label_str(nodes[a]) in dt[b]) != (G.label_str(nodes[b]) in rt[a]):
                    ctx.violation("deps -t and rdeps -t are not mutual inverses", {"kind": "oracle", "oracle": "inverse", "request": req, "a": G.label_str(nodes[a]),
                                  "b": G.label_str(nodes[b])}, signature="deps-rdeps-not-inverse")
        ctx.coverage["evaluations"] += len(nodes) ** 2
    return bad


def cli_changes(ctx, grog, rng, ws, env, req, nodes, es, inputs, stats, nontrivial):
    """`grog changes --since=HEAD [--dependents=transitive]` in a scratch git repository: edit one or two files, compare with the
    model (`changesCmd`) and with the reference (owners + their target descendants, filtered)."""
    import subprocess
    genv = dict(env, GIT_CONFIG_GLOBAL="/dev/null", GIT_CONFIG_SYSTEM="/dev/null", GIT_AUTHOR_NAME="v", GIT_AUTHOR_EMAIL="v@v",
                GIT_COMMITTER_NAME="v", GIT_COMMITTER_EMAIL="v@v")
    for cmd in (["git", "init", "-q"], ["git", "add", "-A"], ["git", "commit", "-q", "-m", "x"]):
        if subprocess.run(cmd, cwd=ws, env=genv, capture_output=True).returncode != 0:
            ctx.notes.append("git not usable in the scratch workspace: `changes` not compared")
            return []
    owned = sorted({os.path.normpath(os.path.join(nodes[i]["pkg"], f)) for i, fl in inputs.items() for f in fl})
    bad = []
    for trial in range(2):
        multi = sorted(f for f, pk in G.owner_packages(nodes, inputs).items() if len(pk) >= 2)
        files = rng.sample(owned, min(len(owned), rng.randint(1, 2))) + (["unowned.md"] if rng.random() < 0.3 else [])
        if multi and rng.random() < 0.5:
            files = list(dict.fromkeys(files[:1] + [rng.choice(multi)]))
        for f in files:
            with open(os.path.join(ws, f), "a") as fh:
                fh.write("edited\n")
        tr = rng.random() < 0.7
        args = ["changes", "--since=HEAD", "--dependents=" + ("transitive" if tr else "none"), "--target-type=" + req["type"]] + cli_flags(req)
        rc, lines, err, dt = G.run_grog(grog, args, ws, genv, timeout=60)
        subprocess.run(["git", "checkout", "-q", "--", "."], cwd=ws, env=genv, capture_output=True)
        stats["commands"] += 1
        ctx.coverage["evaluations"] += 1
        q = {"k": "changes", "files": files, "t": tr}
        if rc != 0:
            ctx.violation("`grog changes` failed in a generated workspace", {"kind": "correspondence", "correspondence": "CLI changes in generated workspace",
                          "cli": args, "rc": rc, "stderr": err[-1500:], "request": dict(req, q=[q])}, found_input=False)
            continue
        owners = {i for i, n in enumerate(nodes) if n["target"] and any(os.path.normpath(os.path.join(n["pkg"], f)) in files for f in inputs.get(i, []))}
        res = set(owners)
        if tr:
            for o in owners:
                res |= {d for d in G.reach(es, o, forward=True) if nodes[d]["target"]}
        exp = sorted(G.label_str(nodes[i]) for i in res
                     if G.ref_matches_filters(nodes[i], [], req["tags"], req["exclude"], req["type"]) and G.ref_platform_ok(nodes[i], req["platform"], req["all_platforms"]))
        if lines != exp:
            ctx.violation("`changes` does not print exactly the owners of the changed files" + (" and their dependants" if tr else ""),
                          {"kind": "oracle", "oracle": "changes reference", "request": dict(req, q=[q]), "cli": args, "printed": lines, "expected": exp},
                          signature="changes-wrong-set")
        m = ctx.model([dict(req, q=[q])])[0]
        if not m.get("ok") or m["out"][0] != lines:
            bad.append((dict(req, q=[q]), {"ok": True, "out": [lines]}, m))
        stats["changes_lines"] = stats.get("changes_lines", 0) + len(lines)
        if len(lines) >= 2:
            nontrivial.add((G_key(req), "changes", tr, tuple(files)))
    return bad


def cli_history(ctx, grog, rng, hcase, stats):
    """build everything, edit one input file, rebuild: re-executed commands ⊆ owners(f) ∪ rdeps -t (owners f), all through the CLI."""
    nodes, es = G.gen_attr_graph(rng, rng.randint(4, 9), plat_p=0.0)
    for n in nodes:
        n["bin"] = False
        # a no-cache target re-executes in every build by design (C13); `testonly` would restrict who may depend on whom (build-time check)
        n["tags"] = [t for t in n["tags"] if t not in ("no-cache", "testonly")]
        if n["name"].endswith("test") or n["name"] == "tests":
            n["name"] = n["name"].replace("test", "tgt")     # `grog build` builds non-test targets only
    scratch = ctx.scratch(f"hist{hcase}")
    ws = os.path.join(scratch, "ws")
    trace = os.path.join(scratch, "trace.log")
    patterns = G.gen_input_patterns(rng, nodes, own=(1, 2), reach_p=0.6, files=FILES[:3])
    # sometimes the package definition file is itself a declared input of one of its targets (a lint / format check of BUILD.json)
    lints = [i for i in patterns if rng.random() < 0.25]
    for i in lints:
        patterns[i] = patterns[i] + ["BUILD.json"]
    G.write_workspace(ws, nodes, es, inputs=patterns)
    G.populate_files(ws, nodes, files=FILES[:3])
    inputs = G.resolve_inputs(ws, nodes, patterns)
    # outputs are `.out` files so that no `*.txt` / `*.in` glob ever picks up a build product
    commands = {i: f"echo '{G.label_str(n)}' >> '{trace}'; cat {' '.join(os.path.normpath(f) for f in inputs[i])} > out_{n['name']}.out"
                for i, n in enumerate(nodes) if n["target"]}
    G.write_workspace(ws, nodes, es, inputs=patterns, commands=commands)
    # declare the output so that dependants see a changed dependency output
    import json as _json
    for pkg in {n["pkg"] for n in nodes}:
        p = os.path.join(ws, pkg, "BUILD.json")
        body = _json.load(open(p))
        for t in body["targets"]:
            t["outputs"] = ["out_" + t["name"] + ".out"]
        _json.dump(body, open(p, "w"), indent=1)
    env = G.grog_env(scratch)
    rc, _, err, _ = G.run_grog(grog, ["build", "//..."], ws, env, timeout=120)
    if rc != 0:
        ctx.violation("initial build of a generated workspace failed", {"kind": "correspondence", "correspondence": "CLI history workspace", "rc": rc, "stderr": err[-1500:]}, found_input=False)
        return
    multi = sorted(f for f, pk in G.owner_packages(nodes, inputs).items() if len(pk) >= 2)
    odd = sorted({os.path.normpath(os.path.join(nodes[k]["pkg"], x)) for k, fl in inputs.items() for x in fl if os.path.normpath(x) != x})
    edit_kind, redefined = "input", None
    r0 = rng.random()
    if r0 < 0.45:
        # edit of a package definition file. (a) formatting only: other indentation, targets and aliases in another order, trailing blank
        # lines — every definition is unchanged, so only targets that declare BUILD.json as an input may re-execute; (b) the command of ONE
        # target changes: that target (and its dependants) may re-execute as well, nothing else.
        pkgs_t = sorted({n["pkg"] for n in nodes if n["target"]})
        lint_pkgs = sorted({nodes[i]["pkg"] for i in lints})
        pkg = rng.choice(lint_pkgs) if lint_pkgs and rng.random() < 0.6 else rng.choice(pkgs_t)
        f = os.path.normpath(os.path.join(pkg, "BUILD.json"))
        body = _json.load(open(os.path.join(ws, f)))
        rng.shuffle(body["targets"])
        rng.shuffle(body["aliases"])
        if r0 < 0.3:
            edit_kind = "buildfile-format"
        else:
            edit_kind = "buildfile-one-definition"
            t = rng.choice(body["targets"])
            t["command"] = t["command"] + " ; true"
            redefined = "//" + pkg + ":" + t["name"]
        with open(os.path.join(ws, f), "w") as fh:
            fh.write(_json.dumps(body, indent=rng.choice([0, 3, None])) + "\n\n  \n")
        stats["histories_" + edit_kind] = stats.get("histories_" + edit_kind, 0) + 1
    else:
        r = rng.random()
        if odd and r < 0.45:
            f = rng.choice(odd)            # a file that some target names with a non-canonical spelling (./x, d/../x, a//b, x/.)
            stats["histories_noncanonical_input"] = stats.get("histories_noncanonical_input", 0) + 1
        elif multi and r < 0.85:
            f = rng.choice(multi)          # a file of a nested package directory that is also an input of an enclosing package's target
            stats["histories_multi_package_file"] = stats.get("histories_multi_package_file", 0) + 1
        else:
            i = rng.choice(sorted(k for k in inputs if inputs[k]))
            f = os.path.normpath(os.path.join(nodes[i]["pkg"], rng.choice(inputs[i])))
        with open(os.path.join(ws, f), "a") as fh:
            # a package definition file that is also a declared input is edited in a way that keeps it loadable (trailing white space)
            fh.write("\n  \n" if os.path.basename(f) == "BUILD.json" else "edited\n")
    open(trace, "w").close()
    rc, _, err, _ = G.run_grog(grog, ["build", "//..."], ws, env, timeout=120)
    executed = set(l.strip() for l in open(trace) if l.strip())
    owners = G.run_grog(grog, ["owners", f if rng.random() < 0.5 else G.respell(rng, f, existing_dir="zz")], ws, env)[1]
    allowed = set(owners)
    for o in owners + ([redefined] if redefined else []):
        allowed |= {o} | set(G.run_grog(grog, ["rdeps", "-t", o], ws, env)[1])
    stats["histories"] += 1
    stats["executed_after_edit"] += len(executed)
    ctx.coverage["evaluations"] += 1
    if rc != 0 or not executed <= allowed:
        ctx.violation("after editing one file a target outside owners(f) ∪ rdeps -t(owners f) re-executed" if edit_kind == "input" else
                      "after a " + ("formatting-only edit" if edit_kind == "buildfile-format" else "one-definition edit") + " of a package definition file, targets whose "
                      "definition and inputs are unchanged (not owners of the file, not dependants of an owner or of the redefined target) re-executed",
                      {"kind": "oracle", "oracle": "edit predicts rebuild", "edit": edit_kind, "redefined": redefined, "file": f, "executed": sorted(executed), "owners": owners, "allowed": sorted(allowed),
                       "rc": rc, "nodes": nodes, "edges": es, "declared_inputs": {str(k): v for k, v in patterns.items()},
                       "inputs": {str(k): v for k, v in inputs.items()}},
                      signature="edit-reexecutes-outside-owners-rdeps" if edit_kind == "input" else "buildfile-edit-reexecutes-unchanged-targets")
    if owners and not set(owners) <= executed:
        ctx.notes.append(f"history {hcase}: owner(s) {sorted(set(owners) - executed)} of the edited file did not re-execute")


def replay(ctx, rep):
    r = rep.get("request")
    if not r or r.get("op") != "graph.query":
        print("nothing to replay in process (see 'kind'):", rep.get("what"))
        return 0
    r = {k: v for k, v in r.items() if k != "inputs"} if any(q["k"] == "owners" for q in r["q"]) else r
    r["q"] = [q for q in r["q"] if q["k"] != "owners"]
    print("impl :", ctx.impl([r])[0])
    print("model:", ctx.model([r])[0])
    return 0
