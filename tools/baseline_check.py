#!/usr/bin/env python3
"""Run the repository's pinned test suite (guard off: plain `go test`, no overlay, no tags) and compare with
the stable_pass list of /root/.vp/BASELINE.json. Usage: tools/baseline_check.py [repo dir]  (default /repo)"""
import json, os, subprocess, sys
repo = sys.argv[1] if len(sys.argv) > 1 else "/repo"
base = json.load(open("/root/.vp/BASELINE.json"))
env = dict(os.environ, GOFLAGS="-mod=mod", GOPROXY="off")
env.pop("GOTOOLCHAIN", None); env.pop("GOSUMDB", None)
p = subprocess.run(["go", "test", "-json", "-vet=off", "-count=1", "-timeout", "25m", "./..."], cwd=repo, env=env, capture_output=True, text=True)
subprocess.run(["git", "checkout", "go.mod", "go.sum"], cwd=repo, capture_output=True)
res = {}
for line in p.stdout.splitlines():
    try:
        j = json.loads(line)
    except Exception:
        continue
    if j.get("Test") and j.get("Action") in ("pass", "fail", "skip"):
        res[f'{j["Package"]}::{j["Test"]}'] = j["Action"]
missing = [t for t in base["stable_pass"] if res.get(t) != "pass"]
print(f"stable_pass: {len(base['stable_pass'])}, passing now: {len(base['stable_pass']) - len(missing)}")
for t in missing:
    print("  NOT PASSING:", t, res.get(t))
sys.exit(1 if missing else 0)
