#!/usr/bin/env python3
"""Run checks against seeded mutations:  tools/seeded.py <seeded dir or patch> [--props C17,C09] [--tier quick]
Applies patch.diff to /repo (git apply), runs the quick command of each listed property, undoes the patch
(git checkout -- . ; git clean of files the patch added), prints one line per (mutation, property)."""
import argparse, json, os, subprocess, sys
VERIF = os.path.dirname(os.path.dirname(os.path.abspath(__file__)))
REPO = "/repo"

def sh(cmd, **kw):
    return subprocess.run(cmd, shell=True, capture_output=True, text=True, **kw)

def main():
    ap = argparse.ArgumentParser()
    ap.add_argument("paths", nargs="+")
    ap.add_argument("--props")
    ap.add_argument("--tier", default="quick")
    a = ap.parse_args()
    if sh("git -C /repo status --porcelain").stdout.strip():
        print("refusing: /repo working tree is not clean"); sys.exit(2)
    for path in a.paths:
        patch = path if path.endswith(".diff") else os.path.join(path, "patch.diff")
        meta_p = os.path.join(os.path.dirname(patch), "meta.json")
        props = a.props.split(",") if a.props else [json.load(open(meta_p))["property"]]
        r = sh(f"git -C {REPO} apply {patch}")
        if r.returncode != 0:
            print(f"{patch}: does not apply: {r.stderr.strip()}"); continue
        import shutil, tempfile
        evbak = tempfile.mkdtemp(prefix="evbak", dir=os.path.join(VERIF, ".work") if os.path.isdir(os.path.join(VERIF, ".work")) else None)
        shutil.copytree(os.path.join(VERIF, "evidence"), os.path.join(evbak, "evidence"))
        try:
            for p in props:
                c = sh(f"python3 tools/check.py {p} --tier {a.tier}", cwd=VERIF)
                viol = [l for l in c.stdout.splitlines() if l.startswith("VIOLATION")]
                verdict = "CAUGHT" if c.returncode == 1 and viol else ("MISSED" if c.returncode == 0 else f"ERROR rc={c.returncode}")
                print(f"{os.path.basename(os.path.dirname(patch)) or patch} {p}: {verdict} {viol[0] if viol else ''}")
                sys.stdout.flush()
        finally:
            sh(f"git -C {REPO} checkout -- . && git -C {REPO} clean -fdq")
            # evidence written while the repository was mutated must not replace the committed evidence
            shutil.rmtree(os.path.join(VERIF, "evidence"), ignore_errors=True)
            shutil.copytree(os.path.join(evbak, "evidence"), os.path.join(VERIF, "evidence"))
            shutil.rmtree(evbak, ignore_errors=True)
    if sh("git -C /repo status --porcelain").stdout.strip():
        print("WARNING: /repo not clean after run")

if __name__ == "__main__":
    main()
