#!/usr/bin/env python3
"""Seeded-mutation matrix of the walker group (C03, C04, C05, C18).

For every patch /tmp/mutdesc/<prop><round>/<mK>/patch.diff: copy $GROG_REPO (git archive HEAD) into a scratch directory, apply the
patch there (the worktree and /repo are never touched), run the property's check (quick tier, theorem side skipped, evidence
and replays redirected) against the copy and record the signatures of the reported violations.

usage: GROG_REPO=<worktree> python3 tools/walker_mutation_matrix.py [-j N] [c04c/m1 c05c ...]     (default: all rounds)
       writes /tmp/wk/walker/matrix/<name>.json and prints one line per mutation."""
import concurrent.futures as cf, glob, json, os, shutil, subprocess, sys, time

REPO = os.path.abspath(os.environ.get("GROG_REPO", "/tmp/wk/walker/repo"))
VERIF = os.path.dirname(os.path.dirname(os.path.abspath(__file__)))
MUT = "/tmp/mutdesc"
OUT = "/tmp/wk/walker/matrix"
ROUNDS = ["c03a", "c04a", "c05a", "c03b", "c04b", "c05b", "c03c", "c04c", "c05c", "c18a", "c18b", "c18c", "walkerd"]


OLD_ROUTINE = """	select {
	case <-info.cancel:
		return
	case <-info.ready:
		// call the callback
		cacheResult, err := w.walkCallback(ctx, node)
		if err != nil {
			if errors.Is(err, context.Canceled) && ctx.Err() != nil {
				// Cancelling externally or via failFast leaves target uncompleted.
				// An error that wraps context.Canceled while the walk context is alive
				// (a context of the callback's own) is an ordinary failure: leaving the
				// node uncompleted would park its dependants forever
				return
			}
			// don't account for cache hits in errors
			w.onComplete(node, Completion{IsSuccess: false, Err: err})
		} else {
			w.onComplete(node, Completion{IsSuccess: true, Err: nil, CacheResult: cacheResult})
		}
		return
	}
"""
C03C_M2_ROUTINE = """	select {
	case <-info.cancel:
		// cancelled before it got to run
		return
	default:
	}

	// call the callback
	cacheResult, err := w.walkCallback(ctx, node)
	if err != nil {
		if errors.Is(err, context.Canceled) && ctx.Err() != nil {
			// Cancelling externally or via failFast leaves target uncompleted
			return
		}
		// don't account for cache hits in errors
		w.onComplete(node, Completion{IsSuccess: false, Err: err})
	} else {
		w.onComplete(node, Completion{IsSuccess: true, Err: nil, CacheResult: cacheResult})
	}
"""


def _sub(work, rel, old, new, count=1):
    p = os.path.join(work, rel)
    src = open(p).read()
    assert src.count(old) == count, (rel, old[:40], src.count(old))
    open(p, "w").write(src.replace(old, new))


# patches written against an older tree whose context lines were changed by later repo fixes (d5650b9 added `&& ctx.Err() != nil`
# to the walker's cancellation test; 7b299fd added call sites of executeTarget): the hunk that fails is re-applied by hand, keeping
# the CURRENT tree's guard (":keep") or with the semantics the mutation had on its own tree (":orig")
def adapt_c04a_m2_keep(work):
    _sub(work, "internal/dag/graph_walker.go", "if errors.Is(err, context.Canceled) && ctx.Err() != nil {", "if isContextError(err) && ctx.Err() != nil {")


def adapt_c04a_m2_orig(work):
    _sub(work, "internal/dag/graph_walker.go", "if errors.Is(err, context.Canceled) && ctx.Err() != nil {", "if isContextError(err) {")


def adapt_c03c_m2(work):
    _sub(work, "internal/dag/graph_walker.go", OLD_ROUTINE, C03C_M2_ROUTINE)


def adapt_c05b_m1(work):
    # the patch removes the isTainted parameter of executeTarget; 7b299fd added one more call site
    _sub(work, "internal/execution/execute.go", "e.executeTarget(ctx, target, binTools, outputIdentifiers, update, false)",
         "e.executeTarget(ctx, target, binTools, outputIdentifiers, update)")


ADAPT = {"c04a/m2": adapt_c04a_m2_keep, "c04a/m2:orig": adapt_c04a_m2_orig, "c03c/m2": adapt_c03c_m2, "c05b/m1": adapt_c05b_m1}


def run_one(name, seed):
    variant = name
    name = name.split(":")[0]
    rnd, m = name.split("/")
    prop = m[:3].upper() if m[:1] in "Cc" and m[1:3].isdigit() else rnd[:3].upper()
    work = os.path.join(OUT, "repo-" + variant.replace("/", "-").replace(":", "-"))
    shutil.rmtree(work, ignore_errors=True)
    os.makedirs(work)
    tar = subprocess.run(["git", "archive", "HEAD"], cwd=REPO, capture_output=True, check=True).stdout
    subprocess.run(["tar", "-x", "-C", work], input=tar, check=True)
    ap = subprocess.run(["patch", "-p1", "--no-backup-if-mismatch", "-i", os.path.join(MUT, name, "patch.diff")], cwd=work, capture_output=True, text=True)
    res = {"name": variant, "prop": prop, "applies": ap.returncode == 0}
    if variant in ADAPT:
        for rej in glob.glob(os.path.join(work, "**", "*.rej"), recursive=True):
            os.remove(rej)
        ADAPT[variant](work)
        res["applies"], res["adapted"] = True, True
        gb = subprocess.run(["go", "build", "./..."], cwd=work, capture_output=True, text=True)
        if gb.returncode != 0:
            res.update(applies=False, patch_output="adapted tree does not build: " + gb.stderr[-400:])
    if not res["applies"]:
        res["patch_output"] = ap.stdout[-600:] + ap.stderr[-300:]
        shutil.rmtree(work, ignore_errors=True)
        return res
    ev = os.path.join(OUT, "ev-" + variant.replace("/", "-").replace(":", "-"))
    os.makedirs(ev, exist_ok=True)
    t = time.time()
    env = dict(os.environ, GROG_REPO=work, VERIF_EVIDENCE_DIR=ev, VERIF_REPLAY_DIR=ev, VERIF_SEED=str(seed))
    r = subprocess.run(["python3", "tools/check.py", prop, "--tier", "quick", "--skip-lean"], cwd=VERIF, env=env, capture_output=True, text=True, timeout=3600)
    sigs = []
    for l in r.stdout.splitlines():
        if l.startswith(("VIOLATION", "KNOWN")) and "replay=" in l:
            rp = l.split("replay=")[1].split()[0]
            try:
                j = json.load(open(rp))
                if j.get("kind") == "correspondence-not-established":
                    res["harness_broken"] = str(j.get("what", ""))[:300]
                    continue
                sigs.append((j.get("signature"), str(j.get("what", ""))[:200]))
            except Exception:
                sigs.append((None, l[:200]))
        elif l.startswith("VIOLATION"):
            sigs.append((None, l[:200]))
        elif l.startswith("HARNESS"):
            res["harness_broken"] = l[:300]
    res.update(rc=r.returncode, wall=round(time.time() - t), caught=r.returncode != 0 and bool(sigs), signatures=sigs[:8], tail=r.stdout[-400:] if not sigs else "")
    shutil.rmtree(work, ignore_errors=True)
    return res


def main():
    args = sys.argv[1:]
    jobs, seed = 2, 1
    if "-j" in args:
        i = args.index("-j"); jobs = int(args[i + 1]); del args[i:i + 2]
    if "-s" in args:
        i = args.index("-s"); seed = int(args[i + 1]); del args[i:i + 2]
    names = []
    for a in args or ROUNDS:
        if "/" in a:
            names.append(a)
        else:
            names += sorted(os.path.relpath(os.path.dirname(p), MUT) for p in glob.glob(f"{MUT}/{a}/*m[0-9]*/patch.diff"))
    os.makedirs(OUT, exist_ok=True)
    with cf.ThreadPoolExecutor(max_workers=jobs) as ex:
        for res in ex.map(lambda n: run_one(n, seed), names):
            json.dump(res, open(os.path.join(OUT, res["name"].replace("/", "-").replace(":", "-") + ".json"), "w"), indent=1)
            if not res["applies"]:
                print(f"{res['name']:10s} PATCH DOES NOT APPLY: {res['patch_output'][-200:]}")
            else:
                print(f"{res['name']:10s} [{res['prop']}] {'CAUGHT' if res['caught'] else 'HARNESS BROKEN ONLY' if res.get('harness_broken') else 'missed'}"
                      f"{' (adapted)' if res.get('adapted') else ''} rc={res['rc']} {res['wall']}s  "
                      + "; ".join(str(s) for s, _ in res["signatures"][:4]))
            sys.stdout.flush()


main()
