#!/usr/bin/env python3
"""Seeded-mutation matrix of the walker group (C03, C04, C05, C18).

For every patch /tmp/mutdesc/<prop><round>/<mK>/patch.diff: copy $GROG_REPO (git archive HEAD) into a scratch directory, apply the
patch there (the worktree and /repo are never touched), run the property's check (quick tier, theorem side skipped, evidence
and replays redirected) against the copy and record the signatures of the reported violations.

usage: GROG_REPO=<worktree> python3 tools/walker_mutation_matrix.py [-j N] [c04c/m1 c05c ...]     (default: all rounds)
       writes /tmp/wk/walker/matrix/<name>.json and prints one line per mutation."""
import concurrent.futures as cf, glob, json, os, shutil, subprocess, sys, time

REPO = os.path.abspath(os.environ.get("GROG_REPO", "/tmp/wk/walker/repo"))
VERIF = os.path.dirname(os.path.dirname(os.path.abspath(__file__)))
MUT = "/tmp/mutdesc"
OUT = "/tmp/wk/walker/matrix"
ROUNDS = ["c03a", "c04a", "c05a", "c03b", "c04b", "c05b", "c03c", "c04c", "c05c", "c18a", "c18b"]


def run_one(name, seed):
    rnd, m = name.split("/")
    prop = rnd[:3].upper()
    work = os.path.join(OUT, "repo-" + name.replace("/", "-"))
    shutil.rmtree(work, ignore_errors=True)
    os.makedirs(work)
    tar = subprocess.run(["git", "archive", "HEAD"], cwd=REPO, capture_output=True, check=True).stdout
    subprocess.run(["tar", "-x", "-C", work], input=tar, check=True)
    ap = subprocess.run(["patch", "-p1", "--no-backup-if-mismatch", "-i", os.path.join(MUT, name, "patch.diff")], cwd=work, capture_output=True, text=True)
    res = {"name": name, "prop": prop, "applies": ap.returncode == 0}
    if ap.returncode != 0:
        res["patch_output"] = ap.stdout[-600:] + ap.stderr[-300:]
        shutil.rmtree(work, ignore_errors=True)
        return res
    ev = os.path.join(OUT, "ev-" + name.replace("/", "-"))
    os.makedirs(ev, exist_ok=True)
    t = time.time()
    env = dict(os.environ, GROG_REPO=work, VERIF_EVIDENCE_DIR=ev, VERIF_REPLAY_DIR=ev, VERIF_SEED=str(seed))
    r = subprocess.run(["python3", "tools/check.py", prop, "--tier", "quick", "--skip-lean"], cwd=VERIF, env=env, capture_output=True, text=True, timeout=3600)
    sigs = []
    for l in r.stdout.splitlines():
        if l.startswith(("VIOLATION", "KNOWN")) and "replay=" in l:
            rp = l.split("replay=")[1].split()[0]
            try:
                j = json.load(open(rp))
                sigs.append((j.get("signature"), str(j.get("what", ""))[:200]))
            except Exception:
                sigs.append((None, l[:200]))
        elif l.startswith(("VIOLATION", "HARNESS")):
            sigs.append((None, l[:200]))
    res.update(rc=r.returncode, wall=round(time.time() - t), caught=r.returncode != 0 and bool(sigs), signatures=sigs[:8], tail=r.stdout[-400:] if not sigs else "")
    shutil.rmtree(work, ignore_errors=True)
    return res


def main():
    args = sys.argv[1:]
    jobs, seed = 2, 1
    if "-j" in args:
        i = args.index("-j"); jobs = int(args[i + 1]); del args[i:i + 2]
    if "-s" in args:
        i = args.index("-s"); seed = int(args[i + 1]); del args[i:i + 2]
    names = []
    for a in args or ROUNDS:
        if "/" in a:
            names.append(a)
        else:
            names += sorted(os.path.relpath(os.path.dirname(p), MUT) for p in glob.glob(f"{MUT}/{a}/m*/patch.diff"))
    os.makedirs(OUT, exist_ok=True)
    with cf.ThreadPoolExecutor(max_workers=jobs) as ex:
        for res in ex.map(lambda n: run_one(n, seed), names):
            json.dump(res, open(os.path.join(OUT, res["name"].replace("/", "-") + ".json"), "w"), indent=1)
            if not res["applies"]:
                print(f"{res['name']:10s} PATCH DOES NOT APPLY: {res['patch_output'][-200:]}")
            else:
                print(f"{res['name']:10s} [{res['prop']}] {'CAUGHT' if res['caught'] else 'missed'} rc={res['rc']} {res['wall']}s  "
                      + "; ".join(str(s) for s, _ in res["signatures"][:4]))
            sys.stdout.flush()


main()
