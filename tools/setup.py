#!/usr/bin/env python3
"""MANIFEST.setup_cmd: build the framework offline from files on disk (Lean project, Go caches)."""
import os, subprocess, sys
sys.path.insert(0, os.path.dirname(os.path.abspath(__file__)))
import vlib
ok, out = vlib.lean_build()
if not ok:
    print(out[-5000:]); sys.exit(1)
# warm the audit tool (loads `import Lean`)
subprocess.run(["lake", "env", "lean", "--run", "AuditMain.lean", "GrogModel.Props.C17"], cwd=vlib.LEAN, capture_output=True)
p, msg = vlib.build_verifdrv()
if p is None:
    print(msg[-5000:]); sys.exit(1)
g, msg = vlib.build_grog()
if g is None:
    print(msg[-5000:]); sys.exit(1)
for extra in getattr(vlib, "WARM_EXTRA", []):
    extra()
print("setup ok")
