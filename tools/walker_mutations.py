#!/usr/bin/env python3
"""Mutation harness of the walker group (C03, C04, C05, C18): apply one named mutation to the working tree of
$GROG_REPO (never /repo itself unless you mean it), run the property check (quick tier, theorem side skipped), print the
VIOLATION lines with their signatures, restore the file.  usage: GROG_REPO=<worktree> python3 tools/walker_mutations.py <name>|list"""
import subprocess, sys, os, json, time
REPO=os.path.abspath(os.environ.get("GROG_REPO", "/repo")); VERIF=os.path.dirname(os.path.dirname(os.path.abspath(__file__)))
M = {
 "c03_release_any": ("C03", "internal/dag/graph_walker.go",
    "			if !ok || !depCompletion.IsSuccess {\n				depsDone = false\n			}",
    "			if !ok && !depCompletion.IsSuccess && false {\n				depsDone = false\n			}"),
 "c03_extra_worker": ("C03", "internal/worker/task_worker_pool.go",
    "	for i := 0; i < twp.maxWorkers; i++ {", "	for i := 0; i <= twp.maxWorkers; i++ {"),
 "c03_nocache_rerun_again": ("C03", "internal/execution/execute.go",
    "(localDep.SkipsCache() && !producedInThisBuild)", "(localDep.SkipsCache() && producedInThisBuild == producedInThisBuild)"),
 "c04_no_complete_on_error": ("C04", "internal/dag/graph_walker.go",
    "			// don't account for cache hits in errors\n			w.onComplete(node, Completion{IsSuccess: false, Err: err})",
    "			// don't account for cache hits in errors\n			return"),
 "c04_no_cancel_descendants": ("C04", "internal/dag/graph_walker.go",
    "			for _, dep := range w.graph.GetDescendants(node) {\n				w.cancelNode(dep)\n			}",
    "			for _, dep := range w.graph.GetDependants(node) {\n				w.cancelNode(dep)\n			}"),
 "c04_errchan_blocking": ("C04", "internal/output/handlers/dir_output_handler.go",
    "				select {\n				case errChan <- fmt.Errorf(\"failed to download file %s: %v\", filePath, err):\n				default:\n					// an earlier error is already recorded\n				}",
    "				errChan <- fmt.Errorf(\"failed to download file %s: %v\", filePath, err)"),
 "c05_release_after_failed_dep": ("C05", "internal/dag/graph_walker.go",
    "			if !ok || !depCompletion.IsSuccess {", "			if !ok || (false && !depCompletion.IsSuccess) {"),
 "c05_exit_zero": ("C05", "internal/cmd/cmds/build.go",
    "				logger.Errorf(\"Target %s failed: %v\", target.Label, completion.Err)\n			}\n		}\n		os.Exit(1)",
    "				logger.Errorf(\"Target %s failed: %v\", target.Label, completion.Err)\n			}\n		}\n		os.Exit(0)"),
 "c05_ff_no_ctx_cancel": ("C05", "internal/dag/graph_walker.go",
    "			w.failFastTriggered = true\n			w.allCancel()", "			w.failFastTriggered = true"),
 "c05_cache_before_check": ("C05", "internal/execution/execute.go",
    "	// Run output checks again to see if they match now\n	if outputCheckErr := runOutputChecks(ctx, target, binToolPaths, outputIdentifiers); outputCheckErr != nil {\n		return dag.CacheMiss, outputCheckErr\n	}",
    "	// Run output checks again to see if they match now\n	if outputCheckErr := runOutputChecks(ctx, target, binToolPaths, outputIdentifiers); outputCheckErr != nil {\n		_ = e.OnTargetComplete(ctx, target, update)\n		return dag.CacheMiss, outputCheckErr\n	}"),
 "c18_walk_ignores_ctx": ("C18", "internal/dag/graph_walker.go",
    "	case <-ctx.Done():\n		logger.Debugf(", "	case <-make(chan struct{}):\n		logger.Debugf("),
 "c18_signal_ignored": ("C18", "internal/console/cmd_setup.go",
    "			GetLogger(ctx).Infof(\"Received signal %v, exiting...\", sig)\n			cancel()",
    "			GetLogger(ctx).Infof(\"Received signal %v, exiting...\", sig)\n			_ = cancel"),
 "c18_cancel_is_success": ("C18", "internal/execution/execute_target.go",
    "			// bubble up cancellation error\n			return ctx.Err()", "			// bubble up cancellation error\n			return nil"),
}
name=sys.argv[1]
if name == 'list':
    print('\n'.join(sorted(M))); sys.exit(0)
prop,f,old,new=M[name]
p=os.path.join(REPO,f); src=open(p).read()
assert src.count(old)==1, (name, src.count(old))
open(p,"w").write(src.replace(old,new))
try:
    t=time.time()
    r=subprocess.run(["python3","tools/check.py",prop,"--tier","quick","--skip-lean"],cwd=VERIF,env=dict(os.environ,GROG_REPO=REPO),capture_output=True,text=True,timeout=2400)
    lines=[l for l in r.stdout.splitlines() if l.startswith(("VIOLATION","KNOWN"))]
    print(f"== {name} [{prop}] rc={r.returncode} {time.time()-t:.0f}s")
    for l in lines[:6]:
        print("  ",l)
        if "replay=" in l:
            rp=l.split("replay=")[1].split()[0]
            j=json.load(open(rp)); print("      sig:",j.get("signature"),"|",j.get("what","")[:160])
finally:
    open(p,"w").write(src)
    subprocess.run(["git","diff","--stat"],cwd=REPO)
