#!/usr/bin/env python3
"""Regenerate MANIFEST.json from the check modules present in tools/checks/ (metadata constants)."""
import importlib, json, os, sys
here = os.path.dirname(os.path.abspath(__file__))
sys.path.insert(0, here)
VERIF = os.path.dirname(here)
props = [json.loads(l) for l in open(os.path.join(VERIF, "properties.jsonl")) if l.strip()]
checks, na = [], []
for p in props:
    pid = p["id"]
    path = os.path.join(here, "checks", pid.lower() + ".py")
    if not os.path.exists(path):
        na.append({"property_id": pid, "reason": "check not built yet in this round (planned: DESIGN.md section 5, " + pid + ")"})
        continue
    m = importlib.import_module("checks." + pid.lower())
    if getattr(m, "NOT_APPLICABLE", None):
        na.append({"property_id": pid, "reason": m.NOT_APPLICABLE})
        continue
    checks.append({
        "property_id": pid,
        "quick_cmd": f"python3 tools/check.py {pid} --tier quick",
        "thorough_cmd": f"python3 tools/check.py {pid} --tier thorough",
        "evidence_file": f"/verif/evidence/{pid}.json",
        "replay_cmd_template": f"python3 tools/check.py {pid} --replay {{path}}",
        "engine": "lean4-model+correspondence",
        "level_claimed": {"category": getattr(m, "LEVEL", "proof"),
                          "text": getattr(m, "LEVEL_TEXT", ""),
                          "design_ref": getattr(m, "DESIGN_REF", "DESIGN.md section 5, " + pid)},
        "level_note": getattr(m, "LEVEL_NOTE", ""),
        "technique": getattr(m, "TECHNIQUE", "Lean 4 theorems about a hand-written executable model + differential correspondence check of model vs implementation"),
    })
man = {
    "version": 1,
    "setup_cmd": "python3 tools/setup.py",
    "hooks": {
        "guard": "verif",
        "enable": "go build -tags verif -overlay /verif/.build/main/overlay.json -modfile /verif/.build/main/go.mod (harness sources are overlaid from /verif/harness at check time; nothing is committed to the repository)",
        "baseline_off_cmd": "cd /repo && go test -mod=mod -json -vet=off -count=1 -timeout 25m ./...",
        "source_commits": [],
        "add_only": True,
    },
    "engines": [{"name": "lean4-model+correspondence", "path": "/verif/lean + /verif/harness + /verif/tools",
                 "serves_properties": [c["property_id"] for c in checks],
                 "kind_free_text": "Lean 4 (core only) executable models and kernel-checked property theorems; Go in-process driver built from the current tree via -overlay; Python orchestrator diffing model and implementation"}],
    "checks": checks,
    "not_applicable": na,
    "notes": "See DESIGN.md. KNOWN_FINDINGS.json lists open findings and fixed: entries.",
}
json.dump(man, open(os.path.join(VERIF, "MANIFEST.json"), "w"), indent=1)
print(f"{len(checks)} checks, {len(na)} not applicable")
