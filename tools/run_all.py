#!/usr/bin/env python3
"""Run the registered quick (or thorough) commands of all checks in MANIFEST.json, optionally for several seeds.
   tools/run_all.py [--tier quick] [--seeds 1,2,3] [--props C01,C02] [-j 2]
Prints one line per (property, seed): rc, wall time, VIOLATION / KNOWN-FINDING lines. Exit 1 if any rc != 0."""
import argparse, json, os, subprocess, sys, time
from concurrent.futures import ThreadPoolExecutor
VERIF = os.path.dirname(os.path.dirname(os.path.abspath(__file__)))

def run(job):
    pid, seed, cmd = job
    env = dict(os.environ, VERIF_SEED=str(seed))
    t = time.time()
    p = subprocess.run(cmd, shell=True, cwd=VERIF, env=env, capture_output=True, text=True)
    lines = [l for l in p.stdout.splitlines() if l.startswith(("VIOLATION", "KNOWN-FINDING"))]
    return pid, seed, p.returncode, time.time() - t, lines

def main():
    ap = argparse.ArgumentParser()
    ap.add_argument("--tier", default="quick")
    ap.add_argument("--seeds", default=os.environ.get("VERIF_SEED", "1"))
    ap.add_argument("--props")
    ap.add_argument("-j", type=int, default=1)
    a = ap.parse_args()
    man = json.load(open(os.path.join(VERIF, "MANIFEST.json")))
    jobs = []
    for seed in [int(s) for s in a.seeds.split(",")]:
        for c in man["checks"]:
            if a.props and c["property_id"] not in a.props.split(","):
                continue
            jobs.append((c["property_id"], seed, c["quick_cmd"] if a.tier == "quick" else c.get("thorough_cmd", c["quick_cmd"])))
    bad = 0
    with ThreadPoolExecutor(a.j) as ex:
        for pid, seed, rc, wall, lines in ex.map(run, jobs):
            print(f"{pid} seed={seed} rc={rc} {wall:.0f}s " + " | ".join(l[:160] for l in lines), flush=True)
            bad += rc != 0
    sys.exit(1 if bad else 0)

if __name__ == "__main__":
    main()
