module verifinstrument

go 1.21
