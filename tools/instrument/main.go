// Command instrument rewrites one Go source file for the C10 step controller:
//
//   - before every statement that calls a file-system / process primitive (a function of package os or
//     syscall other than a few pure ones, or one of the *os.File / *os.Process methods listed below) it
//     inserts   verifYield("<call>")   — one yield per such call, in source order;
//   - every call time.After(d) becomes verifAfter(d).
//
// verifYield / verifAfter are provided by harness/intest/internal/locking/zz_verif_yield.go (build tag
// verif); they do nothing unless a controller installed a hook. The rewritten copy is written to the
// path given as second argument and enters the build only through `go build -overlay`; the repository
// file is never modified. deferred calls and function literals are left alone.
//
// usage: instrument <in.go> <out.go>      (prints the list of inserted yield labels, one per line)
package main

import (
	"fmt"
	"go/ast"
	"go/format"
	"go/parser"
	"go/token"
	"os"
	"strings"
)

var purePkgFuncs = map[string]bool{
	"Getpid": true, "Getppid": true, "SameFile": true, "IsNotExist": true, "IsExist": true, "IsPermission": true,
	"FindProcess": true, "Getenv": true, "Signal": true, "Errno": true, "NewFile": true,
}

var fsMethods = map[string]bool{
	"Write": true, "WriteAt": true, "WriteString": true, "Close": true, "Stat": true, "Truncate": true, "Sync": true,
	"Signal": true, "Read": true, "ReadAt": true, "Chmod": true, "Kill": true,
}

// label of an fs call, "" if the call is not one
func fsLabel(c *ast.CallExpr) string {
	sel, ok := c.Fun.(*ast.SelectorExpr)
	if !ok {
		return ""
	}
	if id, ok := sel.X.(*ast.Ident); ok && (id.Name == "os" || id.Name == "syscall") {
		if purePkgFuncs[sel.Sel.Name] {
			return ""
		}
		return id.Name + "." + sel.Sel.Name
	}
	if id, ok := sel.X.(*ast.Ident); ok && (id.Name == "fmt" || id.Name == "errors" || id.Name == "strings" || id.Name == "strconv" || id.Name == "time" || id.Name == "color" || id.Name == "filepath") {
		return ""
	}
	if fsMethods[sel.Sel.Name] {
		return "." + sel.Sel.Name
	}
	return ""
}

var inserted []string

// calls directly inside node n (not inside nested blocks or function literals), in source order
func directCalls(n ast.Node) []string {
	var out []string
	if n == nil {
		return out
	}
	ast.Inspect(n, func(x ast.Node) bool {
		switch v := x.(type) {
		case *ast.BlockStmt, *ast.FuncLit:
			return false
		case *ast.CallExpr:
			// arguments are evaluated before the call
			for _, a := range v.Args {
				out = append(out, directCalls(a)...)
			}
			if s, ok := v.Fun.(*ast.SelectorExpr); ok {
				out = append(out, directCalls(s.X)...)
			}
			if l := fsLabel(v); l != "" {
				out = append(out, l)
			}
			return false
		}
		return true
	})
	return out
}

func headCalls(s ast.Stmt) []string {
	switch v := s.(type) {
	case *ast.DeferStmt, *ast.GoStmt, *ast.BlockStmt, *ast.SelectStmt, *ast.LabeledStmt:
		return nil
	case *ast.IfStmt:
		return append(directCalls(v.Init), directCalls(v.Cond)...)
	case *ast.ForStmt:
		return append(directCalls(v.Init), directCalls(v.Cond)...)
	case *ast.RangeStmt:
		return directCalls(v.X)
	case *ast.SwitchStmt:
		return append(directCalls(v.Init), directCalls(v.Tag)...)
	case *ast.TypeSwitchStmt:
		return append(directCalls(v.Init), directCalls(v.Assign)...)
	default:
		return directCalls(s)
	}
}

func yieldStmt(label string) ast.Stmt {
	inserted = append(inserted, label)
	return &ast.ExprStmt{X: &ast.CallExpr{Fun: ast.NewIdent("verifYield"),
		Args: []ast.Expr{&ast.BasicLit{Kind: token.STRING, Value: fmt.Sprintf("%q", label)}}}}
}

func rewriteList(list []ast.Stmt) []ast.Stmt {
	var out []ast.Stmt
	for _, s := range list {
		for _, l := range headCalls(s) {
			out = append(out, yieldStmt(l))
		}
		rewriteNested(s)
		out = append(out, s)
	}
	return out
}

func rewriteNested(s ast.Stmt) {
	switch v := s.(type) {
	case *ast.BlockStmt:
		v.List = rewriteList(v.List)
	case *ast.IfStmt:
		v.Body.List = rewriteList(v.Body.List)
		if v.Else != nil {
			rewriteNested(v.Else)
		}
	case *ast.ForStmt:
		v.Body.List = rewriteList(v.Body.List)
	case *ast.RangeStmt:
		v.Body.List = rewriteList(v.Body.List)
	case *ast.SwitchStmt:
		for _, c := range v.Body.List {
			cc := c.(*ast.CaseClause)
			cc.Body = rewriteList(cc.Body)
		}
	case *ast.TypeSwitchStmt:
		for _, c := range v.Body.List {
			cc := c.(*ast.CaseClause)
			cc.Body = rewriteList(cc.Body)
		}
	case *ast.SelectStmt:
		for _, c := range v.Body.List {
			cc := c.(*ast.CommClause)
			cc.Body = rewriteList(cc.Body)
		}
	case *ast.LabeledStmt:
		rewriteNested(v.Stmt)
	}
}

func main() {
	if len(os.Args) != 3 {
		fmt.Fprintln(os.Stderr, "usage: instrument <in.go> <out.go>")
		os.Exit(2)
	}
	fset := token.NewFileSet()
	// parsed without comments (inserted statements would misplace them); build constraints are copied textually
	f, err := parser.ParseFile(fset, os.Args[1], nil, 0)
	if err != nil {
		fmt.Fprintln(os.Stderr, err)
		os.Exit(1)
	}
	src, _ := os.ReadFile(os.Args[1])
	constraints := ""
	for _, line := range strings.Split(string(src), "\n") {
		if strings.HasPrefix(line, "//go:build ") {
			constraints += line + "\n"
		}
		if strings.HasPrefix(line, "package ") {
			break
		}
	}
	for _, d := range f.Decls {
		fd, ok := d.(*ast.FuncDecl)
		if !ok || fd.Body == nil {
			continue
		}
		fd.Body.List = rewriteList(fd.Body.List)
	}
	// time.After(d) -> verifAfter(d)
	ast.Inspect(f, func(x ast.Node) bool {
		if c, ok := x.(*ast.CallExpr); ok {
			if sel, ok := c.Fun.(*ast.SelectorExpr); ok {
				if id, ok := sel.X.(*ast.Ident); ok && id.Name == "time" && sel.Sel.Name == "After" {
					c.Fun = ast.NewIdent("verifAfter")
					inserted = append(inserted, "time.After")
				}
			}
		}
		return true
	})
	out, err := os.Create(os.Args[2])
	if err != nil {
		fmt.Fprintln(os.Stderr, err)
		os.Exit(1)
	}
	fmt.Fprintf(out, "%s// Code generated by /verif/tools/instrument from %s; DO NOT EDIT.\n\n", constraints, os.Args[1])
	if err := format.Node(out, token.NewFileSet(), f); err != nil {
		fmt.Fprintln(os.Stderr, err)
		os.Exit(1)
	}
	out.Close()
	for _, l := range inserted {
		fmt.Println(l)
	}
}
