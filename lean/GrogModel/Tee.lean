/-
  The goroutine / pipe protocol of `RemoteWrapper.Set` (internal/caching/backends/remote_wrapper.go:70-154):

      copier C : io.Copy(io.MultiWriter(fsWrite, remoteWrite), content); then closes both write ends
                 (CloseWithError on a read or write error, Close at EOF)
      reader F : fs.Set(ctx, path, key, fsRead)           then fsRead.Close()
      reader R : remote.Set(ctx, path, key, remoteRead)   then remoteRead.Close()
      main     : wg.Wait() for all three

  io.Pipe is synchronous: a Write blocks until a Read consumes it or the read end is closed (then it fails with
  ErrClosedPipe); a Read blocks until a Write arrives or the write end is closed (then it returns EOF / the error).
  A reader may give up at any moment (its backend failed: before reading anything, in the middle, or after EOF).
  `n` is the number of chunks the content still delivers; the content reader may fail instead of delivering a chunk.
-/
namespace Grog.Tee

/-- where the copier is -/
inductive CState where
  | idle (left : Nat)      -- about to read the next chunk of the content (`left` chunks remain)
  | toF (left : Nat)       -- blocked in fsWrite.Write(chunk)
  | toR (left : Nat)       -- blocked in remoteWrite.Write(chunk)
  | done                   -- both write ends closed, goroutine returned
  deriving DecidableEq, Repr

inductive RState where
  | reading                -- inside Set, reading from its pipe
  | done                   -- Set returned, read end closed
  deriving DecidableEq, Repr

structure State where
  c : CState
  f : RState
  r : RState
  deriving DecidableEq, Repr

inductive Ev where
  | chunk          -- C: content.Read delivers a chunk, C starts writing it to the fs pipe
  | eof            -- C: content is exhausted: Close both write ends, return
  | srcFail        -- C: content.Read fails: CloseWithError both write ends, return
  | fTakes         -- F reads the chunk C is offering; C goes on to the remote pipe
  | rTakes         -- R reads the chunk C is offering; C goes back to the content
  | fGone          -- C's write to the fs pipe fails because F closed the read end: C closes both write ends, returns
  | rGone          -- C's write to the remote pipe fails because R closed the read end: C closes both, returns
  | fQuits         -- F's backend fails (any time while reading): Set returns, read end closed
  | rQuits         -- R's backend fails: Set returns, read end closed
  | fEnds          -- F sees EOF / the copier's error: Set finishes (ok or error), read end closed
  | rEnds          -- R sees EOF / the copier's error
  deriving DecidableEq, Repr

def step (s : State) : Ev → Option State
  | .chunk => match s.c with
    | .idle (n + 1) => some { s with c := .toF n }
    | _ => none
  | .eof => match s.c with
    | .idle 0 => some { s with c := .done }
    | _ => none
  | .srcFail => match s.c with
    | .idle _ => some { s with c := .done }
    | _ => none
  | .fTakes => match s.c, s.f with
    | .toF n, .reading => some { s with c := .toR n }
    | _, _ => none
  | .rTakes => match s.c, s.r with
    | .toR n, .reading => some { s with c := .idle n }
    | _, _ => none
  | .fGone => match s.c, s.f with
    | .toF _, .done => some { s with c := .done }
    | _, _ => none
  | .rGone => match s.c, s.r with
    | .toR _, .done => some { s with c := .done }
    | _, _ => none
  | .fQuits => match s.f with
    | .reading => some { s with f := .done }
    | .done => none
  | .rQuits => match s.r with
    | .reading => some { s with r := .done }
    | .done => none
  | .fEnds => match s.c, s.f with
    | .done, .reading => some { s with f := .done }
    | _, _ => none
  | .rEnds => match s.c, s.r with
    | .done, .reading => some { s with r := .done }
    | _, _ => none

def init (n : Nat) : State := ⟨.idle n, .reading, .reading⟩

/-- `wg.Wait()` returns: all three goroutines are done -/
def Final (s : State) : Prop := s.c = .done ∧ s.f = .done ∧ s.r = .done

/-- termination measure: chunks still to move (twice: two pipes) plus goroutines still running -/
def measure (s : State) : Nat :=
  (match s.c with
    | .idle n => 3 * n + 1
    | .toF n => 3 * n + 3
    | .toR n => 3 * n + 2
    | .done => 0) +
  (if s.f = .reading then 1 else 0) + (if s.r = .reading then 1 else 0)

end Grog.Tee
