/-
  Base definitions shared by all models: byte strings, a few string primitives
  mirroring the Go standard library functions the modelled code uses.
  Core Lean only.
-/
namespace Grog

/-- Go strings are byte strings. -/
abbrev Bytes := List UInt8

def cColon : UInt8 := 58   -- ':'
def cSlash : UInt8 := 47   -- '/'
def cDot   : UInt8 := 46   -- '.'

/-- "..." -/
def dots3 : Bytes := [46, 46, 46]
/-- "//" -/
def slash2 : Bytes := [47, 47]

/-- `strings.Index(s, "...")`: index of the first occurrence. -/
def findDots : Bytes → Option Nat
  | [] => none
  | c :: t =>
    if dots3.isPrefixOf (c :: t) then some 0
    else (findDots t).map (· + 1)

/-- the part of `p` after the last `/` (all of `p` if there is none):
    `parts := strings.Split(p, "/"); parts[len(parts)-1]`, also
    `p[strings.LastIndex(p, "/")+1:]`. -/
def lastComp (p : Bytes) : Bytes :=
  (p.reverse.takeWhile (· != cSlash)).reverse

/-- `strings.TrimRight(p, "/")` -/
def trimSlashes (p : Bytes) : Bytes :=
  (p.reverse.dropWhile (· == cSlash)).reverse

/-- bytewise lexicographic `<` on byte strings (Go's string `<`). -/
def bytesLt : Bytes → Bytes → Bool
  | [], [] => false
  | [], _ :: _ => true
  | _ :: _, [] => false
  | a :: as, b :: bs => a < b || (a == b && bytesLt as bs)

end Grog
