/-
  Model of the deterministic protobuf (proto3) marshalling of the messages that enter the output hash:
  Digest, FileOutput, DirectoryOutput and Output (oneof file | directory), as google.golang.org/protobuf
  emits them for internal/proto/schema/target_result.proto. Docker image outputs are not modelled.
  Tied byte-for-byte to proto.MarshalOptions{Deterministic: true}.Marshal by the C09 correspondence check.
-/
import GrogModel.Base
namespace Grog.Proto

/-- base-128 varint, least significant group first -/
def varint (n : Nat) : Bytes :=
  if h : n < 128 then [UInt8.ofNat n]
  else UInt8.ofNat (n % 128 + 128) :: varint (n / 128)
termination_by n
decreasing_by omega

/-- length-delimited field with a one-byte tag -/
def lenDelim (tag : UInt8) (b : Bytes) : Bytes := tag :: varint b.length ++ b

/-- proto3 string field: omitted when empty -/
def strField (tag : UInt8) (s : Bytes) : Bytes := if s.isEmpty then [] else lenDelim tag s

structure Digest where
  hash : Bytes
  size : Nat            -- size_bytes (int64 ≥ 0)
deriving DecidableEq, Repr

def serDigest (d : Digest) : Bytes :=
  strField 0x0A d.hash ++ (if d.size = 0 then [] else 0x10 :: varint d.size)

/-- message-typed field: omitted when nil, emitted (possibly with length 0) when set -/
def msgField (tag : UInt8) : Option Bytes → Bytes
  | none => []
  | some b => lenDelim tag b

inductive Output where
  | file (path : Bytes) (digest : Option Digest) (exec : Bool)
  | dir (path : Bytes) (digest : Option Digest)
deriving DecidableEq, Repr

def serFile (path : Bytes) (digest : Option Digest) (exec : Bool) : Bytes :=
  strField 0x0A path ++ msgField 0x12 (digest.map serDigest) ++ (if exec then [0x18, 1] else [])

def serDir (path : Bytes) (digest : Option Digest) : Bytes :=
  strField 0x0A path ++ msgField 0x12 (digest.map serDigest)

/-- `proto.Marshal(output)`; a oneof member is always emitted -/
def serOutput : Output → Bytes
  | .file p d x => lenDelim 0x0A (serFile p d x)
  | .dir p d => lenDelim 0x12 (serDir p d)

end Grog.Proto
