/-
  Model of the query commands internal/cmd/cmds/{deps,rdeps,owners,list}.go, of
  `DirectedTargetGraph.AddEdge` and of the edge construction of `analysis.BuildGraph`.
  Output = the lines printed to stdout (label strings, sorted bytewise).
  Core Lean only.
-/
import GrogModel.Select
import GrogModel.Paths
namespace Grog

/-- `AddEdge(from, to)` on a graph with nodes `0 … n-1`: appends to `outEdges[from]` and `inEdges[to]`
    (adding an edge twice gives two entries; `TestDirectedTargetGraph_AddEdge` pins this).
    `none` = the error return (self-loop, unknown node). -/
def addEdge (n : Nat) (es : List Edge) (e : Edge) : Option (List Edge) :=
  if e.1 == e.2 then none
  else if !(e.1 < n && e.2 < n) then none
  else some (es ++ [e])

/-- a sequence of `AddEdge` calls -/
def addEdges (n : Nat) : List Edge → List Edge → Option (List Edge)
  | es, [] => some es
  | es, e :: rest =>
    match addEdge n es e with
    | none => none
    | some es' => addEdges n es' rest

/-- bytewise `≤` on strings (what `sort.Strings` uses) -/
def bytesLe (a b : Bytes) : Bool := !bytesLt b a

/-- `slices.Compact`: drop consecutive repetitions -/
def compact : List Bytes → List Bytes
  | [] => []
  | [a] => [a]
  | a :: b :: t => if a == b then compact (b :: t) else a :: compact (b :: t)

/-- the label strings of a list of nodes -/
def labelStrings (g : BuildGraph) (idx : List Nat) : List Bytes :=
  idx.filterMap (fun i => (g.nodes[i]?).map (fun n => n.label.toBytes))

/-- `label.PrintSorted` of the current code: the label strings, `sort.Strings`, `slices.Compact`, one per line -/
def printSorted (g : BuildGraph) (idx : List Nat) : List Bytes :=
  compact ((labelStrings g idx).mergeSort bytesLe)

/-- `label.PrintSorted` before the fix: no `Compact`; also `LogSelectedNodes` (sorted labels of the
    selected nodes of the node map) -/
def printSortedOld (g : BuildGraph) (idx : List Nat) : List Bytes :=
  (labelStrings g idx).mergeSort bytesLe

/-- `Selector.Match`: filters and platform -/
def BuildGraph.matchAt (g : BuildGraph) (s : Selector) (h : Host) (i : Nat) : Bool :=
  g.matchesAt s i && g.platAt h i

/-- the selector the query commands build: `selection.New(nil, Tags, ExcludeTags, typeFilter)` -/
def querySelector (tags ex : List Bytes) (t : TypeSel) : Selector := ⟨[], tags, ex, t⟩

/-- `grog deps [-t] <label>` -/
def depsCmd (g : BuildGraph) (s : Selector) (h : Host) (transitive : Bool) (t : Nat) : List Bytes :=
  let raw := if transitive then (ancestorsV g.edges t).nodes else preds g.edges t
  printSorted g (raw.filter (g.matchAt s h))

/-- `grog rdeps [-t] <label>` -/
def rdepsCmd (g : BuildGraph) (s : Selector) (h : Host) (transitive : Bool) (t : Nat) : List Bytes :=
  let raw := if transitive then (descendantsV g.edges t).nodes else succs g.edges t
  printSorted g (raw.filter (g.matchAt s h))

/-- `grog list <patterns>`: `SelectTargets` then `LogSelectedNodes` -/
def listCmd (g : BuildGraph) (s : Selector) (h : Host) : List Bytes :=
  printSortedOld g (selectForQuery g s h)

/-- workspace-relative path of an input of a target in package `pkg`:
    `filepath.Join(target.Label.Package, inputFile)` — joins and *cleans* lexically, so an input written
    as `./x`, `d/../x` or `a//b` in the BUILD file names the same file as its canonical spelling
    (`Paths.join` is the model of `filepath.Join` of the analysis group, tied to Go by C11's check). -/
def pkgJoin (pkg input : Bytes) : Bytes := Paths.join [pkg, input]

/-- `grog owners f₁ f₂ …`: targets one of whose resolved inputs is one of the files.
    `inputs i` = resolved inputs of node `i` (package-relative, as written in the BUILD file or as
    returned by the glob resolution), `files` = the arguments after `filepath.Abs`, workspace-relative
    and cleaned. -/
def ownersOf (g : BuildGraph) (inputs : Nat → List Bytes) (files : List Bytes) : List Nat :=
  (List.range g.nodes.length).filter (fun i =>
    match g.nodes[i]? with
    | some n => n.isTarget && (inputs i).any (fun inp => files.contains (pkgJoin n.label.pkg inp))
    | none => false)

def ownersCmd (g : BuildGraph) (inputs : Nat → List Bytes) (files : List Bytes) : List Bytes :=
  printSorted g (ownersOf g inputs files)

/-- the `uniqueLabels` loop of `grog changes`: keep the first occurrence of every node -/
def dedupNodes (l : List Nat) : List Nat :=
  l.foldl (fun acc x => if acc.contains x then acc else acc ++ [x]) []

def BuildGraph.isTargetAt (g : BuildGraph) (i : Nat) : Bool :=
  match g.nodes[i]? with | some n => n.isTarget | none => false

/-- the nodes `grog changes` collects before filtering: owners of the changed files, with `transitive` also all
    their descendants that are targets (one `GetDescendants` per owner, each with its own visited set, none of
    which depends on the `--target-type` / tag filter), de-duplicated (`uniqueLabels`) -/
def changesNodes (g : BuildGraph) (inputs : Nat → List Bytes) (files : List Bytes) (transitive : Bool) : List Nat :=
  let owners := ownersOf g inputs files
  dedupNodes (if transitive then
      owners.flatMap (fun o => o :: (descendantsV g.edges o).nodes.filter g.isTargetAt)
    else owners)

/-- `grog changes --since=… --dependents=none|transitive` after the changed files have been determined
    (package definition files unchanged): collect, then filter (`FilterNodes`), then print sorted. -/
def changesCmd (g : BuildGraph) (s : Selector) (h : Host) (inputs : Nat → List Bytes) (files : List Bytes)
    (transitive : Bool) : List Bytes :=
  printSorted g ((changesNodes g inputs files transitive).filter (g.matchAt s h))

/-- traversal steps of `grog changes --dependents=transitive`: one `GetDescendants` per owner -/
def changesCost (g : BuildGraph) (inputs : Nat → List Bytes) (files : List Bytes) : Nat :=
  ((ownersOf g inputs files).map (fun o => (descendantsV g.edges o).cost)).sum

end Grog
