/-
  Model of the build-graph analysis of grog:

    model.BuildNodeMapFromPackages            (internal/model/build_node_map.go)
    analysis.BuildGraph                        (internal/analysis/analyze.go)
      edges / unknown label / self-loop        (dag.AddEdge, internal/dag/graph.go)
      dag.FindCycle                            (internal/dag/graph.go)
      detectOutputConflicts                    (internal/analysis/output_conflicts.go)
    analysis.CheckTargetConstraints            (internal/analysis/target_constraints.go)

  in the order the commands `grog build` / `grog check` call them
  (loading.MustLoadGraphForBuild, then CheckTargetConstraints, then — build only — the executor).

  Go iterates over maps in an unspecified order where this model iterates over lists; the
  accept/reject verdict does not depend on that order (a theorem: it is characterised by the
  order-free `Spec.valid`), the *reported* defect may.
  Core Lean only.
-/
import GrogModel.Label
import GrogModel.Paths
namespace Grog.Analysis
open Grog Grog.Paths

inductive OutKind | file | dir | docker
deriving DecidableEq, Repr

/-- `model.Output` (Type, Identifier) -/
structure Out where
  kind  : OutKind
  ident : Bytes
deriving DecidableEq, Repr

/-- the fields of `model.Target` the analysis looks at -/
structure Target where
  label    : Label
  deps     : List Label
  /-- resolved inputs -/
  inputs   : List Bytes
  /-- `AllOutputs()`: declared outputs, then the bin output if set -/
  outs     : List Out
  /-- `HasTag("testonly")` -/
  testonly : Bool
  /-- `Command != ""` -/
  hasCmd   : Bool
deriving DecidableEq, Repr

structure Alias where
  label  : Label
  actual : Label
deriving DecidableEq, Repr

inductive Node
  | target (t : Target)
  | alias (a : Alias)
deriving DecidableEq, Repr

def Node.label : Node → Label
  | .target t => t.label
  | .alias a => a.label

/-- `BuildNode.GetDependencies()` -/
def Node.deps : Node → List Label
  | .target t => t.deps
  | .alias a => [a.actual]

/-- `model.Package` (targets and aliases; the Go maps are lists here) -/
structure Pkg where
  targets : List Target
  aliases : List Alias
deriving Repr

inductive Kind
  | duplicate | unknownDep | selfLoop | cycle | conflict
  | inputEscape | outputEscape | testDep | testNoCommand
deriving DecidableEq, Repr

inductive Verdict
  | accept
  | reject (k : Kind)
deriving DecidableEq, Repr

/-- Switches for the three places where the code was repaired; `Cfg.current` is the tree as it is,
    `Cfg.old` the tree before the `fix:` commits (kept for the regression witnesses). -/
structure Cfg where
  /-- output-conflict pairs of one and the same target are skipped -/
  skipSelf  : Bool
  /-- directory outputs are checked for leaving the workspace too -/
  checkDirs : Bool
  /-- the directory output "." (workspace root) contains every relative path -/
  dotRoot   : Bool

def Cfg.current : Cfg := ⟨true, true, true⟩
def Cfg.old : Cfg := ⟨false, false, false⟩

/-! ### BuildNodeMapFromPackages -/

def pkgNodes (p : Pkg) : List Node :=
  p.targets.map Node.target ++ p.aliases.map Node.alias

def allNodes (ps : List Pkg) : List Node := ps.flatMap pkgNodes

def hasLabel (ns : List Node) (l : Label) : Bool := ns.any (fun n => n.label == l)

/-- one insertion into the node map; `none` = "duplicate target label" -/
def addNode (acc : Option (List Node)) (n : Node) : Option (List Node) :=
  match acc with
  | none => none
  | some ns => if hasLabel ns n.label then none else some (ns ++ [n])

def buildNodeMap (ps : List Pkg) : Option (List Node) :=
  (allNodes ps).foldl addNode (some [])

/-! ### BuildGraph: edges -/

/-- `nodes[label]` -/
def lookup (ns : List Node) (l : Label) : Option Node := ns.find? (fun n => n.label == l)

/-- the dependency loop of `BuildGraph` for one node: unknown label, then `AddEdge`'s self-loop test -/
def edgeCheck (ns : List Node) (n : Node) : Option Kind :=
  n.deps.findSome? fun d =>
    match lookup ns d with
    | none => some Kind.unknownDep
    | some m => if m.label == n.label then some Kind.selfLoop else none

def edgeErrors (ns : List Node) : Option Kind := ns.findSome? (edgeCheck ns)

/-- `outEdges[l]`: the dependants of `l`, one entry per declared dependency -/
def succs (ns : List Node) (l : Label) : List Label :=
  ns.flatMap fun n => (n.deps.filter (· == l)).map fun _ => n.label

/-- `inEdges[l]` = `GetDependencies(node)`: the (resolved) dependencies of `l` -/
def preds (ns : List Node) (l : Label) : List Label :=
  match lookup ns l with
  | some n => n.deps
  | none => []

/-! ### FindCycle -/

inductive DfsRes
  | cycle (c : List Label)
  | ok (black : List Label)
  | fuel
deriving DecidableEq, Repr

/-- `stack[idx:] ++ [neighbor]` where `idx` is the last index of `neighbor` on the stack.
    The stack is kept top-first here. -/
def cycleFrom (stack : List Label) (v : Label) : List Label :=
  v :: (stack.takeWhile (· ≠ v)).reverse ++ [v]

/-- the `for _, neighbor := range outEdges[target]` loop of `depthFirstSearch`;
    `rec` is the recursive call. Colours: black = finished (`visited == 2`), on the stack = being
    visited (`visited == 1`), otherwise unvisited. -/
def visitList (rec : List Label → List Label → Label → DfsRes) (stack : List Label) :
    List Label → List Label → DfsRes
  | [], black => .ok black
  | v :: vs, black =>
    if v ∈ black then visitList rec stack vs black
    else if v ∈ stack then .cycle (cycleFrom stack v)
    else match rec stack black v with
      | .ok black' => visitList rec stack vs black'
      | r => r

/-- `depthFirstSearch(target)`; the recursion depth is bounded by `fuel` -/
def visit (succ : Label → List Label) : Nat → List Label → List Label → Label → DfsRes
  | 0, _, _, _ => .fuel
  | f + 1, stack, black, u =>
    match visitList (visit succ f) (u :: stack) (succ u) black with
    | .ok black' => .ok (u :: black')
    | r => r

/-- the outer loop of `FindCycle` over the start nodes -/
def findCycleFrom (succ : Label → List Label) (fuel : Nat) : List Label → List Label → DfsRes
  | [], black => .ok black
  | n :: ns, black =>
    if n ∈ black then findCycleFrom succ fuel ns black
    else match visit succ fuel [] black n with
      | .ok black' => findCycleFrom succ fuel ns black'
      | r => r

/-- insertion into a list sorted by `Label.String()` -/
def insertLabel (l : Label) : List Label → List Label
  | [] => [l]
  | m :: r => if bytesLt m.toBytes l.toBytes then m :: insertLabel l r else l :: m :: r

/-- `NodesAlphabetically()` (labels only) -/
def sortLabels (ls : List Label) : List Label := ls.foldr insertLabel []

/-- `FindCycle()` on explicit adjacency; depth fuel = number of nodes -/
def findCycleG (labels : List Label) (succ : Label → List Label) : DfsRes :=
  findCycleFrom succ labels.length (sortLabels labels) []

def findCycle (ns : List Node) : DfsRes :=
  findCycleG (ns.map Node.label) (succs ns)

/-! ### detectOutputConflicts -/

/-- `getAncestorSet` without its memo table: iterative search over `GetDependencies`, `set` = labels
    seen. (Reference version; the version with the memo table is `ancLoopC` below.) -/
def ancLoop (pred : Label → List Label) : Nat → List Label → List Label → List Label
  | 0, _, set => set
  | _ + 1, [], set => set
  | f + 1, x :: st, set =>
    if x ∈ set then ancLoop pred f st set
    else ancLoop pred f (pred x ++ st) (x :: set)

/-- enough steps for any search: every step either drops a stack entry or marks a new node -/
def ancFuel (ns : List Node) : Nat :=
  2 * (ns.map fun n => n.deps.length + 1).sum + 1

def ancestors (ns : List Node) (a : Label) : List Label :=
  ancLoop (preds ns) (ancFuel ns) (preds ns a) []

/-- `targetsAreOrdered(a, b)` -/
def ordered (cfg : Cfg) (ns : List Node) (a b : Label) : Bool :=
  (cfg.skipSelf && a == b) || (ancestors ns a).contains b || (ancestors ns b).contains a

structure Rec where
  owner : Label
  path  : Bytes
deriving DecidableEq, Repr

def targetsOf : List Node → List Target
  | [] => []
  | .target t :: r => t :: targetsOf r
  | .alias _ :: r => targetsOf r

def recsOf (k : OutKind) (key : Target → Bytes → Bytes) (ts : List Target) : List Rec :=
  ts.flatMap fun t => (t.outs.filter (·.kind = k)).map fun o => ⟨t.label, key t o.ident⟩

def fileRecs (ts : List Target) : List Rec :=
  recsOf .file (fun t i => cleanOutputPath t.label.pkg i) ts
def dirRecs (ts : List Target) : List Rec :=
  recsOf .dir (fun t i => cleanOutputPath t.label.pkg i) ts
def dockerRecs (ts : List Target) : List Rec :=
  recsOf .docker (fun _ i => i) ts

/-- `for i … for j := i+1 …` : is there a pair `i < j` satisfying `p` -/
def pairsAny {α : Type} (p : α → α → Bool) : List α → Bool
  | [] => false
  | x :: xs => xs.any (p x) || pairsAny p xs

/-- `detectOutputConflicts(graph) != nil`. The per-tag and per-path grouping maps of the Go code
    enumerate exactly the pairs `i < j` with equal key. -/
def hasConflict (cfg : Cfg) (ns : List Node) : Bool :=
  let ts := targetsOf ns
  let unord := fun (r s : Rec) => !ordered cfg ns r.owner s.owner
  pairsAny (fun r s => r.path == s.path && unord r s) (dockerRecs ts)
  || pairsAny (fun r s => r.path == s.path && unord r s) (fileRecs ts)
  || pairsAny (fun r s => unord r s && pathsOverlap cfg.dotRoot r.path s.path) (dirRecs ts)
  || (dirRecs ts).any fun d => (fileRecs ts).any fun f =>
        unord d f && pathWithin cfg.dotRoot f.path d.path

/-! #### the same with the memo table of `getAncestorSet` (what the code does)

`hasConflict` above is the memo-free reference; `hasConflictC` threads the `ancestorCache` of
`detectOutputConflicts` through all `targetsAreOrdered` queries in the order of the four loops.
(The per-tag / per-path groups are visited in map order by the Go code; the order of the queries only
changes the contents of the memo table, never an answer — theorem `hasConflictC_eq`.) -/

/-- `ancestorCache`: label ↦ ancestor set -/
abbrev Cache := List (Label × List Label)

def cacheGet (c : Cache) (l : Label) : Option (List Label) :=
  match c.find? (fun e => e.1 == l) with
  | some e => some e.2
  | none => none

/-- the loop of `getAncestorSet`: a popped node is marked; if its set is memoised the whole set is
    added and the node is not expanded -/
def ancLoopC (pred : Label → List Label) (cache : Cache) : Nat → List Label → List Label → List Label
  | 0, _, set => set
  | _ + 1, [], set => set
  | f + 1, x :: st, set =>
    if x ∈ set then ancLoopC pred cache f st set
    else match cacheGet cache x with
      | some anc => ancLoopC pred cache f st (anc ++ x :: set)
      | none => ancLoopC pred cache f (pred x ++ st) (x :: set)

/-- `getAncestorSet(graph, node, cache)` -/
def getAncestorSet (ns : List Node) (cache : Cache) (a : Label) : List Label × Cache :=
  match cacheGet cache a with
  | some s => (s, cache)
  | none =>
    let s := ancLoopC (preds ns) cache (ancFuel ns) (preds ns a) []
    (s, (a, s) :: cache)

/-- `targetsAreOrdered(graph, a, b, ancestorCache)` -/
def orderedC (cfg : Cfg) (ns : List Node) (cache : Cache) (a b : Label) : Bool × Cache :=
  if cfg.skipSelf && a == b then (true, cache)
  else
    let r1 := getAncestorSet ns cache a
    if r1.1.contains b then (true, r1.2)
    else
      let r2 := getAncestorSet ns r1.2 b
      (r2.1.contains a, r2.2)

/-- inner loop: `x` against every later record; state = (conflict found, memo table) -/
def rowC {α : Type} (q : Cache → α → α → Bool × Cache) (x : α) (ys : List α) (st : Bool × Cache) : Bool × Cache :=
  ys.foldl (fun st y => let r := q st.2 x y; (st.1 || r.1, r.2)) st

/-- `for i … for j := i+1 …` with state -/
def pairsC {α : Type} (q : Cache → α → α → Bool × Cache) : List α → Bool × Cache → Bool × Cache
  | [], st => st
  | x :: xs, st => pairsC q xs (rowC q x xs st)

/-- records with the same key (tag / cleaned path) whose owners are not ordered -/
def sameKeyC (cfg : Cfg) (ns : List Node) (c : Cache) (r s : Rec) : Bool × Cache :=
  if r.path == s.path then
    let o := orderedC cfg ns c r.owner s.owner
    (!o.1, o.2)
  else (false, c)

def dirDirC (cfg : Cfg) (ns : List Node) (c : Cache) (r s : Rec) : Bool × Cache :=
  let o := orderedC cfg ns c r.owner s.owner
  (!o.1 && pathsOverlap cfg.dotRoot r.path s.path, o.2)

def dirFileC (cfg : Cfg) (ns : List Node) (c : Cache) (d f : Rec) : Bool × Cache :=
  let o := orderedC cfg ns c d.owner f.owner
  (!o.1 && pathWithin cfg.dotRoot f.path d.path, o.2)

/-- `detectOutputConflicts(graph) != nil` -/
def hasConflictC (cfg : Cfg) (ns : List Node) : Bool :=
  let ts := targetsOf ns
  let st0 : Bool × Cache := (false, [])
  let st1 := pairsC (sameKeyC cfg ns) (dockerRecs ts) st0
  let st2 := pairsC (sameKeyC cfg ns) (fileRecs ts) st1
  let st3 := pairsC (dirDirC cfg ns) (dirRecs ts) st2
  let st4 := (dirRecs ts).foldl (fun st d => rowC (dirFileC cfg ns) d (fileRecs ts) st) st3
  st4.1

/-- `BuildGraph(nodes)`: `none` = a graph is returned -/
def buildGraph (cfg : Cfg) (ns : List Node) : Option Kind :=
  match edgeErrors ns with
  | some k => some k
  | none =>
    match findCycle ns with
    | .ok _ => if hasConflictC cfg ns then some Kind.conflict else none
    | _ => some Kind.cycle

/-! ### CheckTargetConstraints -/

def testSuffix : Bytes := [116, 101, 115, 116]   -- "test"

/-- `TargetLabel.IsTest()`: `strings.HasSuffix(name, "test")` -/
def isTestLabel (l : Label) : Bool := testSuffix.reverse.isPrefixOf l.name.reverse

def Target.isTest (t : Target) : Bool := isTestLabel t.label

/-- `checkInputPathsRelative` -/
def inputErrors (t : Target) : List Kind :=
  t.inputs.filterMap fun i =>
    if isAbs i then some Kind.inputEscape
    else if triesToEscape i then some Kind.inputEscape
    else none

/-- the outputs `checkOutputsAreWithinRepository` looks at -/
def checkedOuts (cfg : Cfg) (t : Target) : List Bytes :=
  (t.outs.filter fun o => o.kind = .file || (cfg.checkDirs && o.kind = .dir)).map (·.ident)

/-- `checkOutputsAreWithinRepository` -/
def outputErrors (cfg : Cfg) (ws : Bytes) (t : Target) : List Kind :=
  (checkedOuts cfg t).filterMap fun o =>
    if isAbs o then some Kind.outputEscape
    else if !isWithinWorkspace ws t.label.pkg o then some Kind.outputEscape
    else none

/-- `resolveDependencyTarget`: follow aliases to a target; the visited set of the Go code bounds
    the walk by the number of nodes -/
def resolve (ns : List Node) : Nat → Label → Option Target
  | 0, _ => none
  | f + 1, l =>
    match lookup ns l with
    | none => none
    | some (.target t) => some t
    | some (.alias a) => resolve ns f a.actual

/-- the two dependency rules of `checkDependencyConstraints` -/
def badDep (t u : Target) : Bool :=
  (u.isTest && !t.isTest) || (u.testonly && !t.testonly && !t.isTest)

def depErrors (ns : List Node) (t : Target) : List Kind :=
  t.deps.filterMap fun d =>
    match resolve ns (ns.length + 1) d with
    | none => none
    | some u => if badDep t u then some Kind.testDep else none

def targetErrors (cfg : Cfg) (ws : Bytes) (t : Target) : List Kind :=
  inputErrors t ++ outputErrors cfg ws t ++
    (if t.isTest && !t.hasCmd then [Kind.testNoCommand] else [])

/-- `CheckTargetConstraints(logger, nodeMap)`: the list of errors (as kinds) -/
def constraintErrors (cfg : Cfg) (ws : Bytes) (ns : List Node) : List Kind :=
  (targetsOf ns).flatMap (targetErrors cfg ws) ++ (targetsOf ns).flatMap (depErrors ns)

/-! ### the whole pipeline -/

/-- what `grog check` / `grog build` decide before anything is executed -/
def analyzeWith (cfg : Cfg) (ws : Bytes) (ps : List Pkg) : Verdict :=
  match buildNodeMap ps with
  | none => .reject .duplicate
  | some ns =>
    match buildGraph cfg ns with
    | some k => .reject k
    | none =>
      match constraintErrors cfg ws ns with
      | [] => .accept
      | k :: _ => .reject k

def analyze := analyzeWith Cfg.current
def analyzeOld := analyzeWith Cfg.old

/-! ### command model: what runs when -/

/-- the commands that go through `loading.MustLoadGraphForBuild`; `build`, `test` and `run` then call
    `cmds.RunBuild` with the user's target patterns -/
inductive Cmd | build | test | run | check
deriving DecidableEq, Repr

/-- what the user asked for: the command and its target patterns / tag filters (uninterpreted: the analysis never
    looks at them — `RunBuild` calls `CheckTargetConstraints(graph.GetNodes())` on ALL loaded nodes before it selects) -/
structure Request where
  cmd      : Cmd
  patterns : List Bytes
  tags     : List Bytes
deriving Repr

inductive Ev
  | diagnostic (k : Kind)
  | exitFail
  | execute      -- selection, then the executor is started (`build`, `test`, `run`)
  | exitOk
deriving DecidableEq, Repr

/-- `grog build|test|run|check`: analysis of the whole loaded graph first; on reject print and exit 1; on accept
    `check` reports success, the others go on to selection and the executor. -/
def runCmd (cfg : Cfg) (r : Request) (ws : Bytes) (ps : List Pkg) : List Ev :=
  match analyzeWith cfg ws ps with
  | .reject k => [.diagnostic k, .exitFail]
  | .accept =>
    match r.cmd with
    | .check => [.exitOk]
    | _ => [.execute, .exitOk]

end Grog.Analysis
