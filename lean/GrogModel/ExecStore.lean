/-
  ExecStore — the store operations `Exec.execTarget` / `Exec.tryHit` stand for.

  `Exec` updates `cache.res` / `cache.cas` by one atomic function update. The code performs a *sequence* of backend
  requests (internal/execution/execute.go OnTargetComplete → output/registry.go WriteOutputs → handlers' Write →
  caching/cas.go Write, then caching/target_cache.go Write; on the hit path target_cache.go Load, then cas.go Load per
  output). This file names these requests, in the code's order, gives the abstraction of the stores a per-request
  semantics with outcomes (a call may fail with or without having stored), and proves that
    (a) when no request fails the effect of the sequence is exactly the atomic update of `execTarget`,
    (b) if any request fails the target result is not written; and whenever the result is written, every blob it
        references has been written before (the order the crash / remote theorems C07 / C08 rely on).
  Core Lean only.
-/
import GrogModel.Lemmas.BuildBasic
set_option linter.unusedSectionVars false
set_option linter.unusedVariables false
namespace Grog.Exec
open Grog

variable {κ : Type} [DecidableEq κ]

/-- one request to the cache backend -/
inductive Req (κ : Type) where
  /-- `TargetResultCache.Load` -/
  | getResult (k : κ)
  /-- `Cas.Load` of the blob of a value -/
  | loadBlob (v : Val)
  /-- `Cas.Write` of the blob of a value (Exists-or-Set) -/
  | writeBlob (v : Val)
  /-- `TargetResultCache.Write` -/
  | setResult (k : κ) (r : Result κ)

/-- how a request ended (for writes as `Store.SetOut`: stored and nil / stored but an error was returned / not stored) -/
inductive Outc where
  | ok | errStored | errNot
deriving DecidableEq

/-- `OnTargetComplete`, in the code's order: on the cached path `Cas.Write` for every declared output that was read back,
    then — only after all of them returned nil — `TargetResultCache.Write`; on the no-cache / cache-disabled path the
    result (which names no outputs) alone. -/
def completeReqs (cfg : Cfg) (t : Target) (k : κ) (ovs : Outs) : List (Req κ) :=
  (if t.noCache || !cfg.enableCache then [] else ovs.map (fun ov => Req.writeBlob ov.2)) ++
    [Req.setResult k (resFor cfg t k ovs)]

/-- the hit path: load the result, then every blob it names -/
def hitReqs (k : κ) (r : Result κ) : List (Req κ) := Req.getResult k :: r.outs.map (fun ov => Req.loadBlob ov.2)

/-- effect of a request that stored -/
def applyReq (c : Cache κ) : Req κ → Cache κ
  | .writeBlob v => { c with cas := upd c.cas v true }
  | .setResult k r => { c with res := upd c.res k (some r) }
  | .getResult _ => c
  | .loadBlob _ => c

/-- run a request sequence against the abstraction of the stores; the first request that returns an error aborts
    the sequence (the caller returns the error); an erroring write may or may not have stored. Returns the cache and
    whether every request returned nil. -/
def applyReqs (c : Cache κ) : List (Req κ) → List Outc → Cache κ × Bool
  | [], _ => (c, true)
  | q :: qs, .ok :: os => applyReqs (applyReq c q) qs os
  | q :: _, .errStored :: _ => (applyReq c q, false)
  | _ :: _, .errNot :: _ => (c, false)
  | _ :: _, [] => (c, false)

def allOk (n : Nat) : List Outc := List.replicate n .ok

theorem applyReqs_writeBlobs_ok (c : Cache κ) (ovs : Outs) (rest : List (Req κ)) (os : List Outc) :
    applyReqs c (ovs.map (fun ov => Req.writeBlob ov.2) ++ rest) (allOk ovs.length ++ os) =
      applyReqs { c with cas := addBlobs c.cas ovs } rest os := by
  induction ovs generalizing c with
  | nil => rfl
  | cons ov l ih =>
    simp only [List.map_cons, List.cons_append, List.length_cons, allOk, List.replicate_succ, applyReqs, applyReq]
    have := ih { c with cas := upd c.cas ov.2 true }
    simp only [allOk] at this
    rw [this]; rfl

/-- **(a)** if `execTarget` succeeds, the cache it leaves (results and blobs) is exactly what its request sequence leaves
    when every request returns nil. (The taint marker is a third, separate request: `TaintCache.Clear`.) -/
theorem execTarget_cache_eq_reqs {P : Params κ} {cfg : Cfg} {defs : Defs} {t : Target} {k : κ} {clr : Bool} {s s' : BState κ}
    (h : execTarget P cfg defs t k clr s = (s', true)) :
    ∃ ovs, collect s'.fs t.outs = some ovs ∧
      (applyReqs s.cache (completeReqs cfg t k ovs) (allOk (completeReqs cfg t k ovs).length)).2 = true ∧
      (applyReqs s.cache (completeReqs cfg t k ovs) (allOk (completeReqs cfg t k ovs).length)).1.res = s'.cache.res ∧
      (applyReqs s.cache (completeReqs cfg t k ovs) (allOk (completeReqs cfg t k ovs).length)).1.cas = s'.cache.cas := by
  obtain ⟨_, _, _, ovs, hcol, hres, hcas, _, _⟩ := execTarget_true h
  refine ⟨ovs, hcol, ?_⟩
  unfold completeReqs
  by_cases hn : (t.noCache || !cfg.enableCache) = true
  · simp only [hn, ↓reduceIte, List.nil_append, List.length_singleton, allOk, List.replicate_succ, List.replicate_zero,
      applyReqs, applyReq]
    rw [hres, hcas]; simp [hn]
  · simp only [hn, Bool.false_eq_true, ↓reduceIte, List.length_append, List.length_map, List.length_singleton]
    have : allOk (ovs.length + 1) = allOk ovs.length ++ [Outc.ok] := by simp [allOk, List.replicate_succ']
    rw [this, applyReqs_writeBlobs_ok]
    simp only [applyReqs, applyReq]
    rw [hres, hcas]; simp [hn]

/-- the blobs written so far by a prefix of blob writes -/
theorem applyReqs_res_of_blobs (c : Cache κ) (ovs : Outs) (k : κ) (r : Result κ) (os : List Outc) :
    let out := applyReqs c (ovs.map (fun ov => Req.writeBlob ov.2) ++ [Req.setResult k r]) os
    (out.2 = false → out.1.res = c.res ∨ (out.1.res = upd c.res k (some r) ∧ ∀ ov ∈ ovs, out.1.cas ov.2 = true)) ∧
    (out.1.res ≠ c.res → ∀ ov ∈ ovs, out.1.cas ov.2 = true) ∧
    (∀ v, c.cas v = true → out.1.cas v = true) := by
  induction ovs generalizing c os with
  | nil =>
    cases os with
    | nil => simp [applyReqs]
    | cons o os =>
      cases o <;> simp [applyReqs, applyReq]
  | cons ov l ih =>
    cases os with
    | nil => simp [applyReqs]
    | cons o os =>
      cases o with
      | ok =>
        simp only [List.map_cons, List.cons_append, applyReqs, applyReq]
        have := ih { c with cas := upd c.cas ov.2 true } os
        simp only at this
        obtain ⟨h1, h2, h3⟩ := this
        have hov : ∀ out : Cache κ, (∀ v, upd c.cas ov.2 true v = true → out.cas v = true) → out.cas ov.2 = true :=
          fun out h => h ov.2 (by simp)
        refine ⟨fun hf => ?_, fun hne ov' hov' => ?_, fun v hv => h3 v (by by_cases e : v = ov.2 <;> simp [upd, e, hv])⟩
        · rcases h1 hf with h | ⟨h, hb⟩
          · exact Or.inl h
          · refine Or.inr ⟨h, fun ov' hov' => ?_⟩
            rcases List.mem_cons.1 hov' with e | e
            · subst e; exact hov _ h3
            · exact hb ov' e
        · rcases List.mem_cons.1 hov' with e | e
          · subst e; exact hov _ h3
          · exact h2 hne ov' e
      | errStored => simp [applyReqs, applyReq]; intro v hv; by_cases e : v = ov.2 <;> simp [upd, e, hv]
      | errNot => simp [applyReqs]

/-- **(b)** whatever the outcomes: if some request of the sequence returns an error, then either the target result is not
    written, or it was the final `Set` of the result itself that "failed after storing" — and then every blob it names
    had been written; in every case *a written result implies that all blobs it references are present* and no blob
    that was present disappears. -/
theorem completeReqs_order (c : Cache κ) (cfg : Cfg) (t : Target) (k : κ) (ovs : Outs) (os : List Outc) :
    let out := applyReqs c (completeReqs cfg t k ovs) os
    (out.1.res ≠ c.res → ∀ ov ∈ (resFor cfg t k ovs).outs, out.1.cas ov.2 = true) ∧
    (out.2 = false → out.1.res = c.res ∨ out.1.res = upd c.res k (some (resFor cfg t k ovs))) ∧
    (∀ v, c.cas v = true → out.1.cas v = true) := by
  unfold completeReqs
  by_cases hn : (t.noCache || !cfg.enableCache) = true
  · simp only [hn, ↓reduceIte, List.nil_append]
    refine ⟨fun _ ov hov => by simp [resFor, hn] at hov, ?_, ?_⟩
    · cases os with
      | nil => simp [applyReqs]
      | cons o os => cases o <;> simp [applyReqs, applyReq]
    · cases os with
      | nil => simp [applyReqs]
      | cons o os => cases o <;> simp [applyReqs, applyReq]
  · simp only [hn, Bool.false_eq_true, ↓reduceIte]
    obtain ⟨h1, h2, h3⟩ := applyReqs_res_of_blobs c ovs k (resFor cfg t k ovs) os
    refine ⟨fun hne ov hov => ?_, fun hf => ?_, h3⟩
    · have : (resFor cfg t k ovs).outs = ovs := by simp [resFor, hn]
      rw [this] at hov; exact h2 hne ov hov
    · rcases h1 hf with h | ⟨h, _⟩
      · exact Or.inl h
      · exact Or.inr h

/-- the hit path succeeds (the result describes the declared outputs and every `Load` finds its blob) exactly when
    `restore` does -/
theorem restore_iff_loads (t : Target) (r : Result κ) (c : Cache κ) (fs : FS) (k : κ) :
    (restore t r c fs).isSome = (validate t r && (hitReqs k r).all
      (fun q => match q with | .loadBlob v => c.cas v | _ => true)) := by
  unfold restore hitReqs
  simp only [List.all_cons, Bool.true_and, List.all_map, Function.comp_def]
  split
  · rename_i h; simp_all; exact h.2
  · simp_all

end Grog.Exec
