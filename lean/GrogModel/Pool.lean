/-
  Model of the worker pool (internal/worker/task_worker_pool.go) and of the part of the executor
  that runs inside a pool task (internal/execution/execute.go getTaskFunc / executeTarget):
  `W` worker goroutines take jobs from a channel of capacity `W`; the task function of a target
  runs its commands (output checks, dependency re-runs of minimal mode, the target command)
  sequentially, each through `exec.CommandContext`, which does not start a process under a
  cancelled context. Core Lean only.

  Events:
    enqueue t     `Run` puts the job of task t into the channel (not closed, not full)
    take w        idle worker w receives the head of the channel
    cmdStart w    the task on worker w starts a command (guard: task context not cancelled)
    cmdEnd w      that command ends
    done w        the task function returns; the result is handed to `Run`; worker idle again
    taskCancel    the context handed to the task functions is cancelled (fail-fast or signal)
    poolCancel    the context of the pool is cancelled (signal): `Shutdown` closes the channel
    workerExit w  idle worker observes the cancelled context / closed empty channel and returns
-/
import GrogModel.Walker
namespace Grog.Pool

abbrev Task := Nat

inductive WState where
  | idle
  | busy (t : Task) (cmd : Bool)
  | exited
  deriving DecidableEq, Repr

structure State where
  workers  : List WState
  queue    : List Task
  closed   : Bool
  taskCtx  : Bool      -- context seen by the task functions is cancelled
  poolCtx  : Bool      -- context of the pool is cancelled
  finished : List Task -- tasks whose result was delivered
  deriving DecidableEq, Repr

def init (w : Nat) : State :=
  { workers := List.replicate w .idle, queue := [], closed := false, taskCtx := false,
    poolCtx := false, finished := [] }

inductive Ev where
  | enqueue (t : Task)
  | take (w : Nat)
  | cmdStart (w : Nat)
  | cmdEnd (w : Nat)
  | done (w : Nat)
  | taskCancel
  | poolCancel
  | workerExit (w : Nat)
  deriving DecidableEq, Repr

def step (s : State) : Ev → Option State
  | .enqueue t =>
    if s.closed = false ∧ s.queue.length < s.workers.length then some { s with queue := s.queue ++ [t] }
    else none
  | .take w =>
    match s.workers[w]?, s.queue with
    | some .idle, t :: rest => some { s with workers := s.workers.set w (.busy t false), queue := rest }
    | _, _ => none
  | .cmdStart w =>
    match s.workers[w]? with
    | some (.busy t false) =>
      if s.taskCtx = false then some { s with workers := s.workers.set w (.busy t true) } else none
    | _ => none
  | .cmdEnd w =>
    match s.workers[w]? with
    | some (.busy t true) => some { s with workers := s.workers.set w (.busy t false) }
    | _ => none
  | .done w =>
    match s.workers[w]? with
    | some (.busy t false) => some { s with workers := s.workers.set w .idle, finished := t :: s.finished }
    | _ => none
  | .taskCancel => if s.taskCtx then none else some { s with taskCtx := true }
  | .poolCancel => if s.poolCtx then none else some { s with poolCtx := true, taskCtx := true, closed := true }
  | .workerExit w =>
    match s.workers[w]? with
    | some .idle =>
      if s.poolCtx = true ∨ (s.closed = true ∧ s.queue = []) then some { s with workers := s.workers.set w .exited }
      else none
    | _ => none

inductive Reach (w : Nat) : State → Prop where
  | init : Reach w (init w)
  | step {s e s'} : Reach w s → step s e = some s' → Reach w s'

def WState.isBusy : WState → Bool
  | .busy _ _ => true
  | _ => false

def WState.cmdRunning : WState → Bool
  | .busy _ true => true
  | _ => false

/-- number of target commands running -/
def running (s : State) : Nat := s.workers.countP WState.cmdRunning
/-- number of workers inside a task function -/
def busy (s : State) : Nat := s.workers.countP WState.isBusy

/-! ### the tail of a target's task function (execution/execute.go executeTarget, execute_target.go)

After the cache decision has fallen through to execution: run the command, re-run the output checks,
mark the bin output executable, write the outputs to the CAS and — as the very last action, on the
success path only — write the target result that makes the target a cache hit next time. -/

/-- how the shell command of the target ended -/
inductive CmdOutcome where
  | ok          -- exit status 0 (or the target has no command)
  | exitNonZero -- `exec.ExitError`
  | timeout     -- the target's timeout fired: "timeout after …"
  | cancelled   -- the build context was cancelled: `ctx.Err()` = context.Canceled is returned as is
  | startError  -- the shell could not be started / log file could not be opened
  deriving DecidableEq, Repr

/-- result of the callback as the walker sees it -/
inductive CbRes where
  | ok | fail | cancelled
  deriving DecidableEq, Repr

structure TailIn where
  cmd            : CmdOutcome
  recheckOk      : Bool   -- output checks pass after the command
  binOk          : Bool   -- chmod of the bin output succeeded
  writeOutputsOk : Bool   -- every declared output exists and was written to the CAS
  resultWriteOk  : Bool   -- the target result record was stored
  deriving DecidableEq, Repr

structure TailOut where
  res           : CbRes
  resultWritten : Bool
  deriving DecidableEq, Repr

/-- `Registry.WriteOutputs`: one writer per declared output (in declaration order, then the bin output); it
    succeeds only if every one of them succeeds — in particular if every declared output was created -/
def writeOutputsOk (writers : List Bool) : Bool := writers.all id

def execTail (i : TailIn) : TailOut :=
  match i.cmd with
  | .exitNonZero => ⟨.fail, false⟩
  | .timeout => ⟨.fail, false⟩
  | .startError => ⟨.fail, false⟩
  | .cancelled => ⟨.cancelled, false⟩
  | .ok =>
    if !i.recheckOk then ⟨.fail, false⟩
    else if !i.binOk then ⟨.fail, false⟩
    else if !i.writeOutputsOk then ⟨.fail, false⟩
    else if !i.resultWriteOk then ⟨.fail, false⟩
    else ⟨.ok, true⟩

/-! ### how often a dependency's command runs in one build (execute.go LoadDependencyOutputs)

In `load_outputs=minimal` mode the task of a target that has to execute first loads the outputs of its
direct dependencies and re-runs a dependency inside its own task
`if loadErr != nil || (localDep.SkipsCache() && !producedInThisBuild)` (after the repair of
F-nocache-rerun, commit e34dacb; before it the condition was `loadErr != nil || localDep.SkipsCache()`).
A dependency therefore runs once in its own task plus once per executing dependant for which that
condition holds. -/

structure RerunCfg where
  minimal   : Bool   -- load_outputs=minimal
  noCache   : Bool   -- the dependency carries the `no-cache` tag
  loadFails : Bool   -- cache fault: its outputs cannot be loaded
  producedInThisBuild : Bool  -- `OutputsLoaded`: its own task already produced the outputs in this build
  dependantsExecuting : Nat   -- direct dependants that execute in this build
  deriving DecidableEq, Repr

def execCount (c : RerunCfg) : Nat :=
  1 + (if c.minimal && (c.loadFails || (c.noCache && !c.producedInThisBuild)) then c.dependantsExecuting else 0)

/-- the code before the repair -/
def execCountOld (c : RerunCfg) : Nat :=
  1 + (if c.minimal && (c.loadFails || c.noCache) then c.dependantsExecuting else 0)

end Grog.Pool

/-
  Composition: the walker, and for every node the state of the pool task its callback submits
  (execute.go: the walk callback ends in `workerPool.Run(taskFunc)`). Worker identities are
  abstracted (the list-based model above bounds their number); what the composition adds is the
  bracket: a task exists only between the entry and the return of its node's callback, and commands
  start only under a live walk context.
-/
namespace Grog.Sys
open Grog.Walker

inductive TaskSt where
  | none | queued | busy (cmd : Bool) | finished
  deriving DecidableEq, Repr

/-- the task is in the job channel or on a worker -/
def TaskSt.active : TaskSt → Bool
  | .queued | .busy _ => true
  | _ => false

structure State where
  w    : Walker.State
  task : Node → TaskSt

def init (c : Cfg) : State := { w := Walker.init c, task := fun _ => .none }

inductive Ev where
  | walker (e : Walker.Ev)          -- any walker event except the return of a callback
  | submit (n : Node)               -- the callback of n calls workerPool.Run
  | take (n : Node)                 -- a worker takes the job
  | cmdStart (n : Node)             -- exec.CommandContext(ctx, ..).Run() inside the task
  | cmdEnd (n : Node)
  | done (n : Node)                 -- the task function returns, the result is handed to Run
  | cbReturn (n : Node) (r : Res)   -- the callback returns (after its task finished, or without a task)

def isCbReturn : Walker.Ev → Bool
  | .cbReturn _ _ => true
  | _ => false

def step (c : Cfg) (s : State) : Ev → Option State
  | .walker e =>
    if isCbReturn e then none else
    match Walker.step c s.w e with
    | some w' => some { s with w := w' }
    | none => none
  | .submit n =>
    if s.w.phase n = .running ∧ s.task n = .none then some { s with task := set s.task n .queued } else none
  | .take n =>
    if s.task n = .queued then some { s with task := set s.task n (.busy false) } else none
  | .cmdStart n =>
    if s.task n = .busy false ∧ s.w.ctx = false then some { s with task := set s.task n (.busy true) } else none
  | .cmdEnd n =>
    if s.task n = .busy true then some { s with task := set s.task n (.busy false) } else none
  | .done n =>
    if s.task n = .busy false then some { s with task := set s.task n .finished } else none
  | .cbReturn n r =>
    if s.task n = .finished ∨ s.task n = .none then
      match Walker.step c s.w (.cbReturn n r) with
      | some w' => some { s with w := w' }
      | none => none
    else none

inductive Reach (c : Cfg) : State → Prop where
  | init : Reach c (init c)
  | step {s e s'} : Reach c s → step c s e = some s' → Reach c s'

end Grog.Sys

/-
  Life cycle of one `grog build` / `grog test` / `grog run` process with respect to cancellation
  (internal/cmd/cmds/build.go RunBuild, run.go runTargetBinaries, console/cmd_setup.go):
  load the BUILD files, analyse and select, wait for the workspace lock, execute (the walker), and —
  for `grog run` — start the built binary under the command context and wait for it.
  A signal cancels the root context at any moment; what the process then exits with, per phase:
    loading      a loader that looks at the context (BUILD.star) fails: Fatalf, exit 1; the others finish
    lockWait     `locker.Lock(ctx)` returns ctx.Err(): Fatalf, exit 1
    executing    Walk returns through ctx.Done: exit 1 (C18.exit_nonzero); or it had already finished
    running      exec.CommandContext refuses to start / kills the binary: cmd.Run fails: Fatalf, exit 1
-/
namespace Grog.Life

inductive Cmd where
  | build | test | run
  deriving DecidableEq, Repr

inductive Phase where
  | loading | selecting | lockWait | executing | starting | running | exited (code : Nat)
  deriving DecidableEq, Repr

structure State where
  phase : Phase
  ctx   : Bool      -- the root context is cancelled
  deriving DecidableEq, Repr

def init : State := { phase := .loading, ctx := false }

/-- how the execution phase ended -/
inductive ExecEnd where
  | viaCtx                   -- Walk returned through ctx.Done (context error, or fail-fast with a failure)
  | finished (failed : Bool) -- Walk returned through the wait group; some target failed / none did
  deriving DecidableEq, Repr

inductive Ev where
  | cancel
  | loadDone (err : Bool)
  | selected
  | lockAcquired
  | lockGaveUp
  | executed (r : ExecEnd)
  | binStarted
  | binRefused
  | binExit (code : Nat)
  deriving DecidableEq, Repr

def step (cmd : Cmd) (s : State) : Ev → Option State
  | .cancel => match s.phase with
    | .exited _ => none
    | _ => if s.ctx then none else some { s with ctx := true }
  | .loadDone err =>
    if s.phase = .loading then
      if err then (if s.ctx then some { s with phase := .exited 1 } else none)   -- only a cancelled load fails here
      else some { s with phase := .selecting }
    else none
  | .selected => if s.phase = .selecting then some { s with phase := .lockWait } else none
  | .lockAcquired => if s.phase = .lockWait then some { s with phase := .executing } else none
  | .lockGaveUp => if s.phase = .lockWait ∧ s.ctx = true then some { s with phase := .exited 1 } else none
  | .executed r =>
    if s.phase = .executing then
      match r with
      | .viaCtx => if s.ctx then some { s with phase := .exited 1 } else none
      | .finished true => some { s with phase := .exited 1 }
      | .finished false => some { s with phase := if cmd = .run then .starting else .exited 0 }
    else none
  | .binStarted => if s.phase = .starting ∧ s.ctx = false then some { s with phase := .running } else none
  | .binRefused => if s.phase = .starting ∧ s.ctx = true then some { s with phase := .exited 1 } else none
  | .binExit code =>
    if s.phase = .running then
      some { s with phase := .exited (if s.ctx then 1 else if code = 0 then 0 else 1) }   -- killed by the context: cmd.Run fails
    else none

end Grog.Life
