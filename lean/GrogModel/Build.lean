/-
  Build — one `grog build` as a fold of `Exec.buildTarget` over a topological order of the selected
  closure; histories of edits, taints, cache tampering and builds over one persistent cache;
  `Spec.clean`: what a from-scratch build computes, defined without any cache.
  Core Lean only.
-/
import GrogModel.Exec
namespace Grog.Build
open Grog Grog.Exec

variable {κ : Type} [DecidableEq κ]

/-- what persists between invocations -/
structure World (κ : Type) where
  defs : Defs
  fs : FS
  cache : Cache κ

def emptyCache : Cache κ := { res := fun _ => none, cas := fun _ => false, taint := fun _ => false }

def start (w : World κ) : BState κ := { fs := w.fs, cache := w.cache, st := fun _ => none, log := [] }

def stepTarget (P : Params κ) (cfg : Cfg) (defs : Defs) (fuel : Nat) (s : BState κ) (l : Lbl) : BState κ :=
  match defs l with
  | some t => buildTarget P cfg defs fuel t s
  | none => s

/-- process the targets of `order` one after the other -/
def run (P : Params κ) (cfg : Cfg) (defs : Defs) (fuel : Nat) (order : List Lbl) (s : BState κ) : BState κ :=
  order.foldl (stepTarget P cfg defs fuel) s

/-- fuel for `loadDepList`: more than any chain of loop iterations over `order` -/
def fuelFor (order : List Lbl) : Nat := (order.length + 1) * (order.length + 1) + 1

def build (P : Params κ) (cfg : Cfg) (w : World κ) (order : List Lbl) : BState κ :=
  run P cfg w.defs (fuelFor order) order (start w)

/-- exit status class of the invocation -/
def succeeded (s : BState κ) (order : List Lbl) : Bool :=
  order.all fun l => match s.st l with
    | some ts => ts.ok
    | none => false

/-- commands executed by the invocation, in order -/
def executed (s : BState κ) : List Lbl := s.log.reverse

def applyWrites (fs : FS) : List (Path × Option Val) → FS
  | [] => fs
  | pv :: l => applyWrites (upd fs pv.1 pv.2) l

def taintAll (c : Cache κ) : List Lbl → Cache κ
  | [] => c
  | l :: ls => taintAll { c with taint := upd c.taint l true } ls

inductive Step where
  /-- replace the definitions; write / delete arbitrary files (sources, files at output paths, external files) -/
  | edit (defs : Defs) (writes : List (Path × Option Val))
  /-- `grog taint`: the labels the patterns select -/
  | taint (ls : List Lbl)
  /-- a blob disappears from the CAS -/
  | dropBlob (v : Val)
  /-- `grog build`: flags and a topological order of the selected closure -/
  | build (cfg : Cfg) (order : List Lbl)

def step (P : Params κ) (w : World κ) : Step → World κ
  | .edit defs ws => { w with defs := defs, fs := applyWrites w.fs ws }
  | .taint ls => { w with cache := taintAll w.cache ls }
  | .dropBlob v => { w with cache := { w.cache with cas := upd w.cache.cas v false } }
  | .build cfg order =>
    let s := build P cfg w order
    { w with fs := s.fs, cache := s.cache }

def runHistory (P : Params κ) (w : World κ) (h : List Step) : World κ := h.foldl (step P) w

/-! ### the clean-build specification -/

namespace Spec

/-- state of the specification: the workspace and the targets that succeeded -/
structure CState where
  fs : FS
  ok : Lbl → Option Bool

/-- run the command on what it can read; succeed iff it exits 0, its checks pass and every declared
    output exists. No cache, no taint, no flags. -/
def cleanTarget (run : Cmd → View → RunRes) (defs : Defs) (t : Target) (c : CState) : CState :=
  if (t.deps.all fun d => c.ok d == some true) = false then { c with ok := upd c.ok t.label (some false) } else
  let r := run t.cmd (viewAt defs t c.fs)
  if r.exit0 = false then { c with ok := upd c.ok t.label (some false) } else
  let fs1 := writeSets (writeOuts c.fs r.outs) r.sets
  if checksPass fs1 t.checks = false then { fs := fs1, ok := upd c.ok t.label (some false) } else
  match collect fs1 t.outs with
  | none => { fs := fs1, ok := upd c.ok t.label (some false) }
  | some _ => { fs := fs1, ok := upd c.ok t.label (some true) }

def cleanStep (run : Cmd → View → RunRes) (defs : Defs) (c : CState) (l : Lbl) : CState :=
  match defs l with
  | some t => cleanTarget run defs t c
  | none => c

/-- the from-scratch build of `order` starting from workspace `fs` -/
def clean (run : Cmd → View → RunRes) (defs : Defs) (fs : FS) (order : List Lbl) : CState :=
  order.foldl (cleanStep run defs) { fs := fs, ok := fun _ => none }

end Spec

end Grog.Build
