/-
  C08 — the remote cache is a write-through / read-through mirror shared across machines.
  Property theorems only; helper lemmas are in GrogModel/Lemmas/Remote.lean.
  Model: GrogModel/Remote.lean (RemoteWrapper over per-machine local caches and one remote store, CAS memo on top).
-/
import GrogModel.Lemmas.Remote
import GrogModel.Tee
namespace Grog.C08
open Grog Grog.Remote
open Grog.Store (NS Res)

/-- the full statement: every target result in the remote store references only blobs in the remote store, and so do they -/
def RemoteClosed (s : State) : Prop :=
  ∀ k b, s.remote .target k = some b → ∀ r ∈ b.refs, ∃ b', s.remote .cas r = some b' ∧
    ∀ r' ∈ b'.refs, (s.remote .cas r').isSome = true

/-- **No dangling references in the remote store (repaired code)**, for every sequence of wrapper calls of any number
    of processes on any number of machines: earlier runs without a remote cache (`localSet`), answers of `Exists`,
    read-through `Get`s, tee `Set`s in which either tier fails, new processes. -/
theorem remote_closed (es : List Ev) (s' : State) (hr : run .fixed init es = some s') : RemoteClosed s' := by
  have h := rinv_run rinv_init es hr
  intro k b hk r hrm
  have hv := h.tgtClosed k b hk r hrm
  simp only [rvis, Option.isSome_iff_exists] at hv
  obtain ⟨b', hb'⟩ := hv
  exact ⟨b', hb', fun r' hr' => h.casClosed r b' hb' r' hr'⟩

/-- a non-trivial run of the repaired model: the blob is only in A's local cache (earlier run without remote), the
    all-tiers check says no, the tee uploads it, the result follows; machine B then reads both through -/
example :
    (run .fixed init
      [.localSet 0 .cas [1] ⟨[1], []⟩, .proc 1 0, .existsAllRes 1 [1] .no,
       .setRes 1 .cas [1] ⟨[1], []⟩ true true true, .setRes 1 .target [9] ⟨[9], [[1]]⟩ true true true,
       .proc 2 1, .getRes 2 .target [9] (some ⟨[9], [[1]]⟩) true, .getRes 2 .cas [1] (some ⟨[1], []⟩) true]).isSome = true := by
  decide

/-- **F-remote-skip (code as found): the property fails.** A blob present only in the local cache (from a run
    without remote cache) makes `Exists` answer true, `Cas.Write` skips the upload, the target result is uploaded:
    the remote store then holds a result whose blob it does not hold. The same trace is replayed on the real
    `Cas` + `RemoteWrapper` by the check. -/
theorem dangling_witness :
    ∃ s', run .old init
        [.localSet 0 .cas [1] ⟨[1], []⟩, .proc 1 0, .existsRes 1 .cas [1] .yes,
         .setRes 1 .target [9] ⟨[9], [[1]]⟩ true true true] = some s' ∧
      s'.remote .target [9] = some ⟨[9], [[1]]⟩ ∧ s'.remote .cas [1] = none := by
  refine ⟨_, rfl, ?_, ?_⟩ <;> decide

theorem not_remote_closed_old : ¬ ∀ es s', run .old init es = some s' → RemoteClosed s' := by
  intro h
  obtain ⟨s', hr, ht, hc⟩ := dangling_witness
  obtain ⟨b', hb', _⟩ := h _ s' hr [9] _ ht [1] (by simp)
  simp [hc] at hb'

/-- the repaired `Cas.Write` does not accept that trace: a local-only blob is not "confirmed" -/
example :
    run .fixed init
        [.localSet 0 .cas [1] ⟨[1], []⟩, .proc 1 0, .existsRes 1 .cas [1] .yes,
         .setRes 1 .target [9] ⟨[9], [[1]]⟩ true true true] = none := by
  rfl

/-- **Read-through**: a `Get` on a machine whose local cache lacks the key returns exactly the remote value and
    leaves it in that machine's local cache; the remote store is unchanged. -/
theorem read_through (v : Variant) (s s' : State) (p : Store.Pid) (ns : NS) (k : Bytes) (b : Blob) (f : Bool)
    (hl : s.loc (s.mach p) ns k = none)
    (hs : step v s (.getRes p ns k (some b) f) = some s') :
    s.remote ns k = some b ∧ s'.loc (s.mach p) ns k = some b ∧ s'.remote = s.remote := by
  simp only [step, hl] at hs
  split at hs
  · rename_i hc
    simp at hs; subst hs
    exact ⟨hc.1, by simp [upd, put], rfl⟩
  · simp at hs

/-- **A remote error or a missing object degrades to an error, never to other content**: when neither the local
    cache nor the remote store can deliver the key, no `Get` answer with a value is possible; and whenever a value is
    returned it is the local value or the remote value. -/
theorem get_never_invents (v : Variant) (s s' : State) (p : Store.Pid) (ns : NS) (k : Bytes) (b : Blob) (f : Bool)
    (hs : step v s (.getRes p ns k (some b) f) = some s') :
    s.loc (s.mach p) ns k = some b ∨ s.remote ns k = some b := by
  simp only [step] at hs
  split at hs
  · rename_i lb hlb
    split at hs
    · rename_i hc; exact Or.inl (by rw [hlb, hc.1])
    · simp at hs
  · split at hs
    · rename_i hc; exact Or.inr hc.1
    · simp at hs

/-- A failed `Get` never touches the remote store, what processes consider confirmed, or the taint markers, and changes
    nothing at all unless the local tier was filled (`f = true`: the copy into the local cache completed and only the final
    re-open failed) — and then the local tier holds exactly the remote value for that key. (A copy that breaks off in the
    middle leaves nothing: the temp file is removed by `fs.Set`.) -/
theorem failed_get_unchanged (v : Variant) (s s' : State) (p : Store.Pid) (ns : NS) (k : Bytes) (f : Bool)
    (hs : step v s (.getRes p ns k none f) = some s') :
    s'.remote = s.remote ∧ s'.conf = s.conf ∧ s'.rtaint = s.rtaint ∧ s'.ltaint = s.ltaint ∧
    ((f = false ∧ s' = s) ∨
     (f = true ∧ ∃ b, s.remote ns k = some b ∧ s'.loc = upd s.loc (s.mach p) (put (s.loc (s.mach p)) ns k b))) := by
  simp only [step] at hs
  split at hs
  · simp at hs
  · split at hs
    · rename_i hf
      split at hs
      · rename_i b hb
        simp at hs; subst hs
        exact ⟨rfl, rfl, rfl, rfl, Or.inr ⟨hf, b, hb, rfl⟩⟩
      · simp at hs
    · rename_i hf
      simp at hs; subst hs
      exact ⟨rfl, rfl, rfl, rfl, Or.inl ⟨by simpa using hf, rfl⟩⟩

end Grog.C08

namespace Grog.C08
open Grog Grog.RemotePath

/-- **Two configurations address the same remote namespace iff bucket, trimmed prefix and workspace identity agree.**
    (workspace identities are non-empty and contain no "/": `sha256(root)[:16]-basename` or, for a GCS shared cache,
    the basename alone) -/
theorem same_namespace_iff (c1 c2 : Cfg) (h1 : cSlash ∉ c1.ws) (h2 : cSlash ∉ c2.ws) :
    (∀ path key, objectOf c1 path key = objectOf c2 path key) ↔
      c1.bucket = c2.bucket ∧ trim c1.pfx = trim c2.pfx ∧ c1.ws = c2.ws := by
  constructor
  · intro h
    have h0 := h [] []
    simp only [objectOf, buildPath, Prod.mk.injEq] at h0
    obtain ⟨hb, hp⟩ := h0
    have hfp : fullPrefix c1 = fullPrefix c2 := by
      have : trim ([] : Bytes) = [] := by decide
      simp only [this, List.append_nil, List.append_assoc] at hp
      exact List.append_cancel_right hp
    refine ⟨hb, ?_⟩
    unfold fullPrefix at hfp
    by_cases e1 : trim c1.pfx = [] <;> by_cases e2 : trim c2.pfx = []
    · simp only [e1, e2, if_true] at hfp; exact ⟨by rw [e1, e2], hfp⟩
    · simp only [e1, e2, if_true, if_false] at hfp
      exact absurd (hfp ▸ (by simp : cSlash ∈ trim c2.pfx ++ [cSlash] ++ c2.ws)) h1
    · simp only [e1, e2, if_true, if_false] at hfp
      exact absurd (hfp.symm ▸ (by simp : cSlash ∈ trim c1.pfx ++ [cSlash] ++ c1.ws)) h2
    · simp only [e1, e2, if_false] at hfp
      exact split_last h1 h2 hfp
  · rintro ⟨hb, hp, hw⟩ path key
    simp [objectOf, buildPath, fullPrefix, hb, hp, hw]

example : objectOf ⟨[98], [47, 112, 47], [119]⟩ [99] [107] = objectOf ⟨[98], [112], [119]⟩ [47, 99] [107, 47] := by decide

end Grog.C08

namespace Grog.C08
open Grog.Tee

/-- **The tee of `RemoteWrapper.Set` cannot deadlock**: in every state of the three goroutines and two pipes that is not
    "all three returned", some step is enabled — whichever side fails, and whenever (before reading, between chunks,
    after EOF), and whether or not the content reader fails. -/
theorem tee_no_deadlock (s : Tee.State) (h : ¬ Tee.Final s) : ∃ e s', Tee.step s e = some s' := by
  obtain ⟨c, f, r⟩ := s
  cases c with
  | idle n => exact ⟨.srcFail, _, rfl⟩
  | toF n => cases f with
    | reading => exact ⟨.fTakes, _, rfl⟩
    | done => exact ⟨.fGone, _, rfl⟩
  | toR n => cases r with
    | reading => exact ⟨.rTakes, _, rfl⟩
    | done => exact ⟨.rGone, _, rfl⟩
  | done => cases f with
    | reading => exact ⟨.fEnds, _, rfl⟩
    | done => cases r with
      | reading => exact ⟨.rEnds, _, rfl⟩
      | done => exact absurd ⟨rfl, rfl, rfl⟩ h

/-- … and every step makes progress, so `wg.Wait()` returns after at most `3 * chunks + 3` steps: no hang. -/
theorem tee_terminates (s s' : Tee.State) (e : Tee.Ev) (h : Tee.step s e = some s') : Tee.measure s' < Tee.measure s := by
  obtain ⟨c, f, r⟩ := s
  cases e <;> cases c <;> cases f <;> cases r <;> simp [Tee.step] at h <;>
    first
    | (subst h; simp [Tee.measure]; try omega)
    | (rename_i n; cases n <;> simp at h <;> subst h <;> simp [Tee.measure] <;> omega)

example : Tee.step (Tee.init 2) .chunk = some ⟨.toF 1, .reading, .reading⟩ ∧ Tee.measure (Tee.init 2) = 9 := by decide

end Grog.C08

namespace Grog.C08
open Grog Grog.Remote
open Grog.Store (NS Res)

/-- **Reading a blob confirms nothing.** A `Get` (the restore of a cached output, `Cas.Load`) never adds a digest to what
    the process considers stored in every tier: a blob that was only *read* — possibly from the local cache alone — is
    uploaded when a later target of the same build produces the same content. (A `Cas.Load` that fed the exists-memo
    would turn the witness trace below into a dangling reference; the check replays that history, `fixed-load-then-write`.) -/
theorem get_does_not_confirm (v : Variant) (s s' : State) (p : Store.Pid) (ns : NS) (k : Bytes) (r : Option Blob) (f : Bool)
    (hs : step v s (.getRes p ns k r f) = some s') : s'.conf = s.conf := by
  cases r with
  | none => exact (failed_get_unchanged v s s' p ns k f hs).2.1
  | some b =>
    simp only [step] at hs
    split at hs
    · split at hs <;> simp at hs; rw [← hs]
    · split at hs <;> simp at hs; rw [← hs]

/-- load, then write the same digest in one process: the repaired model demands the upload (`existsAllRes … no`, tee `Set`)
    before the result that references the blob may be written; skipping it is not a run of the model -/
example :
    (run .fixed init
      [.localSet 0 .cas [1] ⟨[1], []⟩, .localSet 0 .target [8] ⟨[8], [[1]]⟩, .proc 1 0,
       .getRes 1 .target [8] (some ⟨[8], [[1]]⟩) false, .getRes 1 .cas [1] (some ⟨[1], []⟩) false,   -- restore of :x from the local cache
       .existsAllRes 1 [1] .no, .setRes 1 .cas [1] ⟨[1], []⟩ true true true,                          -- :y produces the same blob: uploaded
       .setRes 1 .target [9] ⟨[9], [[1]]⟩ true true true]).isSome = true ∧
    run .fixed init
      [.localSet 0 .cas [1] ⟨[1], []⟩, .localSet 0 .target [8] ⟨[8], [[1]]⟩, .proc 1 0,
       .getRes 1 .target [8] (some ⟨[8], [[1]]⟩) false, .getRes 1 .cas [1] (some ⟨[1], []⟩) false,
       .setRes 1 .target [9] ⟨[9], [[1]]⟩ true true true] = none := by
  constructor
  · decide
  · rfl

end Grog.C08
