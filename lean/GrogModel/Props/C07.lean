/-
  C07 — the cache stays consistent across crashes and storage faults.
  Property theorems only; helper lemmas are in GrogModel/Lemmas/{FsBackend,Store}.lean.
  Models: GrogModel/FsBackend.lean (fs.Set = MkdirAll; CreateTemp; write*; Close; Rename with failing steps and
  kills between any two steps, any number of concurrent Sets) and GrogModel/Store.lean (CAS + target-result cache
  at the level of backend operations, any number of processes, faults, kills).
-/
import GrogModel.Lemmas.FsBackend
import GrogModel.Lemmas.Store
import GrogModel.Lemmas.StoreEmit
namespace Grog.C07
open Grog

/-! ## Level 1: the file-system backend never exposes a partial or foreign content under a key -/

/-- the `cas` namespace directory -/
def casNS : Bytes := [99, 97, 115]

/-- **Every visible entry holds the complete content of one `Set` call issued for exactly that key** — for every
    interleaving of any number of Sets (same or different keys), every failing step, every kill point.
    Temp files (`FName.tmp`) are different names by construction and are never returned for a key. -/
theorem visible_is_complete_set (es : List FsBackend.Ev) (s' : FsBackend.State)
    (hr : FsBackend.run FsBackend.init es = some s') (ns k c : Bytes)
    (hv : s'.files (.key ns k) = some c) :
    ∃ p, FsBackend.Ev.begin p ns k c ∈ es := by
  have hinv := FsBackend.inv_run FsBackend.inv_init es hr
  have hh := hinv.visible ns k c hv
  rcases FsBackend.hist_run es hr _ hh with h | h
  · simp [FsBackend.init] at h
  · exact h

/-- **Content addressing at the file level.** If every `Set` into `cas/` is issued with the digest of the content it
    streams (what the handlers do: the digest is computed from the same bytes), then after any event sequence —
    concurrent writers of the same digest, failed steps, kills — every visible `cas/<d>` has content hashing to `d`. -/
theorem cas_content_addressed (H : Bytes → Bytes) (es : List FsBackend.Ev) (s' : FsBackend.State)
    (hr : FsBackend.run FsBackend.init es = some s')
    (hcall : ∀ p k c, FsBackend.Ev.begin p casNS k c ∈ es → H c = k)
    (d c : Bytes) (hv : s'.files (.key casNS d) = some c) : H c = d := by
  obtain ⟨p, hp⟩ := visible_is_complete_set es s' hr casNS d c hv
  exact hcall p d c hp

/-- a run with two concurrent writers of the same digest, a failed write, a kill that leaves a temp file and a
    completed rename is accepted by the model (the theorem's hypothesis is satisfiable by a non-trivial trace) -/
example :
    (FsBackend.run FsBackend.init
      [.begin 1 casNS [7] [7], .begin 2 casNS [7] [7], .createTemp 1 10, .createTemp 2 11, .write 1 1,
       .begin 3 casNS [8, 9] [8, 9], .createTemp 3 12, .write 3 1, .crash 3,
       .close 1, .fail 2, .rename 1]).isSome = true := by decide

/-! ## Level 2: CAS + target results over atomic backend operations -/

/-- **Content addressing and closure are invariant** over all event sequences of any number of processes:
    faults (`errStored`, `errNotStored`, failing `Exists`/`Get`), kills with in-flight operations landing or not. -/
theorem store_sound_invariant (H : Bytes → Bytes) (es : List Store.Ev) (s' : Store.State)
    (hr : Store.run H Store.init es = some s') : Store.Sound H s' :=
  Store.sound_run (Store.sound_init H) es hr

/-- **A target result is visible only together with everything it references**: every digest in a visible
    `target/<k>` is a visible blob whose content hashes to it, and every digest that blob references (the file
    nodes of a tree) is visible as well. Rests on the order blobs → tree → result, which is the guard of `setBegin`
    and is checked against the real backend-operation traces by the correspondence run. -/
theorem result_refs_present (H : Bytes → Bytes) (es : List Store.Ev) (s' : Store.State)
    (hr : Store.run H Store.init es = some s') (k : Bytes) (res : Store.Blob)
    (hk : s'.tgt k = some res) :
    ∀ r ∈ res.refs, ∃ b, s'.cas r = some b ∧ H b.content = r ∧
      ∀ r' ∈ b.refs, ∃ b', s'.cas r' = some b' ∧ H b'.content = r' := by
  have hs := store_sound_invariant H es s' hr
  intro r hrm
  have hv := hs.tgtClosed k res hk r hrm
  simp only [Store.vis, Option.isSome_iff_exists] at hv
  obtain ⟨b, hb⟩ := hv
  refine ⟨b, hb, hs.addressed r b hb, ?_⟩
  intro r' hr'
  have hv' := hs.casClosed r b hb r' hr'
  simp only [Store.vis, Option.isSome_iff_exists] at hv'
  obtain ⟨b', hb'⟩ := hv'
  exact ⟨b', hb', hs.addressed r' b' hb'⟩

/-- **Recovery.** From any sound cache, whatever happens next (more builds, faults, kills), the cache is sound
    again; in particular the next build sees only complete, content-addressed entries: a visible result can be
    restored (all blobs present: `C06.restoreDir_writeDir` / `restoreFile_writeFile` apply), an invisible one is a
    miss and the target re-executes. -/
theorem recovery (H : Bytes → Bytes) (s s' : Store.State) (es : List Store.Ev)
    (h : Store.Sound H s) (hr : Store.run H s es = some s') : Store.Sound H s' :=
  Store.sound_run h es hr

/-- a two-process history with a fault that stores, a fault that does not, a kill with one of two in-flight
    operations landed, and a complete publication is a run of the model -/
example :
    (Store.run id Store.init
      [.setBegin 1 1 .cas [1] [1] [], .setEnd 1 1 .errStored,          -- stored, but reported as failed
       .existsRes 2 .cas [1] .yes,                                      -- process 2 finds it
       .setBegin 2 1 .cas [2] [2] [[1]], .setBegin 2 2 .cas [3] [3] [],
       .crash 2 [1],                                                    -- killed: the tree blob landed, the other did not
       .existsRes 1 .cas [2] .yes,
       .setBegin 1 2 .target [9] [] [[2]], .setEnd 1 2 .ok,
       .getRes 3 .target [9] .yes, .getRes 3 .cas [3] .no]).isSome = true := by decide

/-! ## The code's order of store operations is a run of the model (the guards are met, not assumed) -/

/-- **`dir_write_is_run`.** Writing a directory output as `DirectoryOutputHandler.Write` + `TargetResultCache.Write` do it
    (GrogModel/Tree.lean: the uploads of `encList`, then the marshalled `treeMsg`, then the result) emits backend events
    that `Store.step` accepts from *every* state in which the process has nothing in flight, for *every* tree: each file blob
    goes under the digest of its content, the tree blob is written when every digest **its content references**
    (`Store.treeRefs`, the file nodes of root and children) is confirmed, the result when the tree blob is. So "blobs → tree →
    result" is a property of the emitted sequence, proved here, not only a guard that a caller is assumed to respect; with
    `store_sound_invariant` the result is visible only together with everything it references. -/
theorem dir_write_is_run (H : Bytes → Bytes) (serD : Directory → Bytes) (serT : TreeMsg → Bytes)
    (es : List (Name × Entry)) (s : Store.State) (p : Store.Pid) (k rbytes : Bytes) (hp : s.pend p = []) :
    ∃ s', Store.run H s (Store.dirOutputEvs H serD serT es s p k rbytes) = some s' ∧
      s'.tgt k = some ⟨rbytes, [H (serT (treeMsg H serD es))]⟩ ∧
      (Store.Sound H s → Store.Sound H s' ∧
        ∀ r ∈ Store.treeRefs (treeMsg H serD es), Store.vis s' r = true) := by
  obtain ⟨s', hr, ht, _, hrefs⟩ := Store.dirOutput_is_run H serD serT es s p k rbytes hp
  refine ⟨s', hr, ht, fun hs => ?_⟩
  have hs' := Store.sound_run hs _ hr
  exact ⟨hs', fun r hrm => hs'.confBacked p r (hrefs r hrm)⟩

/-- and a kill at any point of that sequence (any prefix, then `crash p` with any subset of in-flight writes landing) is
    still a run, hence leaves a sound store: the prefix property of runs -/
theorem run_prefix (H : Bytes → Bytes) (s : Store.State) (a b : List Store.Ev) (s' : Store.State)
    (h : Store.run H s (a ++ b) = some s') : ∃ s1, Store.run H s a = some s1 := by
  rw [Store.run_append'] at h
  cases h1 : Store.run H s a with
  | none => simp [h1] at h
  | some s1 => exact ⟨s1, rfl⟩

theorem dir_write_killed_anywhere (H : Bytes → Bytes) (serD : Directory → Bytes) (serT : TreeMsg → Bytes)
    (es : List (Name × Entry)) (s : Store.State) (p : Store.Pid) (k rbytes : Bytes) (hp : s.pend p = [])
    (hs : Store.Sound H s) (pre suf : List Store.Ev) (landed : List Nat)
    (hsplit : Store.dirOutputEvs H serD serT es s p k rbytes = pre ++ suf) :
    ∃ s', Store.run H s (pre ++ [.crash p landed]) = some s' ∧ Store.Sound H s' := by
  obtain ⟨s3, hr, _, _⟩ := dir_write_is_run H serD serT es s p k rbytes hp
  rw [hsplit] at hr
  obtain ⟨s1, h1⟩ := run_prefix H s pre suf s3 hr
  have h2 : ∃ s2, Store.step H s1 (.crash p landed) = some s2 := ⟨_, rfl⟩
  obtain ⟨s2, h2⟩ := h2
  refine ⟨s2, ?_, ?_⟩
  · rw [Store.run_append', h1]; simp [Store.run, h2]
  · exact Store.sound_step (Store.sound_run hs _ h1) _ h2

/-- a non-empty instance: a directory with two files of equal content, an executable one and a sub-directory, written into
    the empty store by process 1 (`H := id`, toy marshalling): the emitted events are a run, the result is visible -/
def exDir : List (Name × Entry) := [([97], .file [1] false), ([98], .file [1] true), ([99], .dir [([100], .file [2] false)])]
def exSerD (d : Directory) : Bytes := (d.files.map (·.name)).flatten
def exSerT (m : TreeMsg) : Bytes := (m.root.files.map (·.digest)).flatten

example :
    ∃ s', Store.run id Store.init (Store.dirOutputEvs id exSerD exSerT exDir Store.init 1 [107] [7]) = some s' ∧
      (s'.tgt [107]).isSome = true := by
  obtain ⟨s', hr, ht, _⟩ := dir_write_is_run id exSerD exSerT exDir Store.init 1 [107] [7] rfl
  exact ⟨s', hr, by simp [ht]⟩

end Grog.C07
