/-
  C09 — cache keys are canonical: equal exactly when the build state is equal.
  Property theorems only; helper lemmas are in GrogModel/Lemmas/Hash.lean.
  Model: GrogModel/Hash.lean (`enc`, `encFiles`, `key` = the byte streams hashTargetDefinition /
  hashInputFiles / GetTargetChangeHash feed to the hasher; the hash is a parameter `H`).
-/
import GrogModel.Lemmas.Hash
import GrogModel.Lemmas.Proto
namespace Grog.C09
open Grog

/-- two target states agree on everything the property lists: label, command, the *set* of
    (input path, content) pairs, declared outputs, the output digest of every dependency (by dependency
    label), fingerprint entries,
    platform (`none` = multiplatform-cache) -/
def StateEq (a b : KeyState) : Prop :=
  a.label = b.label ∧ a.command = b.command ∧
  (∀ p, p ∈ a.inputs ↔ p ∈ b.inputs) ∧ (∀ p ∈ a.inputs, a.content p = b.content p) ∧
  a.outputs.Perm b.outputs ∧ a.deps.Perm b.deps ∧ a.fingerprint.Perm b.fingerprint ∧
  a.platform = b.platform

/-- every hashed component is shorter than 2^64 bytes / elements (true of every Go string and slice);
    the fingerprint is a map (distinct keys) -/
structure WFState (s : KeyState) : Prop where
  label : Small s.label
  command : Small s.command
  inputs : SmallList s.inputs
  outputs : SmallList s.outputs
  deps : SmallKV s.deps
  depKeys : (s.deps.map Prod.fst).Nodup
  fingerprint : SmallKV s.fingerprint
  fpKeys : (s.fingerprint.map Prod.fst).Nodup
  platform : ∀ p, s.platform = some p → Small p
  content : ∀ p c, s.content p = some c → Small c

/-- The framing is injective: `field a ++ r = field b ++ r'` forces `a = b` and `r = r'`
    (this is the lemma every boundary-shift argument reduces to). -/
theorem field_append_inj {a b r r' : Bytes} (ha : Small a) (hb : Small b)
    (h : field a ++ r = field b ++ r') : a = b ∧ r = r' := field_append_inj' ha hb h





/-- the definition stream determines every canonical component -/
theorem enc_injective (a b : KeyState) (wa : WFState a) (wb : WFState b) (h : enc a = enc b) :
    a.label = b.label ∧ a.command = b.command ∧ canonInputs a = canonInputs b ∧
    sortBytes a.outputs = sortBytes b.outputs ∧ sortKV a.deps = sortKV b.deps ∧
    sortKV a.fingerprint = sortKV b.fingerprint ∧ a.platform = b.platform := by
  simp only [enc, List.append_assoc] at h
  obtain ⟨h1, h⟩ := field_append_inj' wa.label wb.label h
  obtain ⟨h2, h⟩ := field_append_inj' wa.command wb.command h
  obtain ⟨h3, h⟩ := listEnc_append_inj (smallList_canon wa.inputs) (smallList_canon wb.inputs) h
  obtain ⟨h4, h⟩ := listEnc_append_inj (smallList_sort wa.outputs) (smallList_sort wb.outputs) h
  obtain ⟨h5, h⟩ := kvEnc_append_inj (smallKV_sort wa.deps) (smallKV_sort wb.deps) h
  obtain ⟨h6, h⟩ := kvEnc_append_inj (smallKV_sort wa.fingerprint) (smallKV_sort wb.fingerprint) h
  refine ⟨h1, h2, h3, h4, h5, h6, ?_⟩
  cases hpa : a.platform with
  | none =>
    cases hpb : b.platform with
    | none => rfl
    | some q =>
      have := congrArg List.length h
      simp [hpa, hpb, field, length_u64be] at this
      omega
  | some p =>
    cases hpb : b.platform with
    | none =>
      have := congrArg List.length h
      simp [hpa, hpb, field, length_u64be] at this
    | some q =>
      have : field p ++ [] = field q ++ [] := by simpa [hpa, hpb] using h
      rw [(field_append_inj' (wa.platform p hpa) (wb.platform q hpb) this).1]



/-- the file stream determines the content of every (de-duplicated, sorted) input -/
theorem encFiles_injective (a b : KeyState) (wa : WFState a) (wb : WFState b)
    (hc : canonInputs a = canonInputs b) (h : encFiles a = encFiles b) :
    ∀ p ∈ a.inputs, a.content p = b.content p := by
  simp only [encFiles] at h
  rw [← hc] at h
  have := (frames_append_inj a.content b.content wa.content wb.content (canonInputs a) [] []
    (by simpa using h)).1
  intro p hp
  exact this p (mem_compactB_sort.mpr hp)


/-- canonical streams: equal states have equal streams (order, duplicates of inputs and map order
    do not matter) -/
theorem enc_eq_of_stateEq (a b : KeyState) (wa : WFState a) (h : StateEq a b) :
    enc a = enc b ∧ encFiles a = encFiles b ∧ a.inputs.isEmpty = b.inputs.isEmpty := by
  obtain ⟨h1, h2, h3, h4, h5, h6, h7, h8⟩ := h
  have hc : canonInputs a = canonInputs b := (compactB_sort_eq_iff _ _).mpr h3
  refine ⟨?_, ?_, ?_⟩
  · simp only [enc, hc, h1, h2, h8, (sortBytes_eq_iff _ _).mpr h5, (sortKV_eq_iff _ _ wa.depKeys).mpr h6,
      (sortKV_eq_iff _ _ wa.fpKeys).mpr h7]
  · unfold encFiles
    rw [← hc]
    congr 1
    exact List.map_congr_left (fun p hp => by
      have : p ∈ a.inputs := mem_compactB_sort.mp hp
      rw [h4 p this])
  · cases ha : a.inputs with
    | nil =>
      cases hb : b.inputs with
      | nil => rfl
      | cons y t =>
        have : y ∈ a.inputs := (h3 y).mpr (by rw [hb]; exact List.mem_cons_self)
        rw [ha] at this; cases this
    | cons x t =>
      cases hb : b.inputs with
      | nil =>
        have : x ∈ b.inputs := (h3 x).mp (by rw [ha]; exact List.mem_cons_self)
        rw [hb] at this; cases this
      | cons y t' => rfl

/-- **C09.** Two target states receive the same cache key if and only if they agree on label, command,
    the set of (input path, content) pairs, declared outputs, fingerprint entries, platform and dependency
    output digests. `hH`: the hash function does not collide (it is a parameter; nothing is claimed about
    xxh3 or SHA-256); `hU`: its printed digest contains no `_` (hex). -/
theorem key_eq_iff (H : Bytes → Bytes) (hH : ∀ x y, H x = H y → x = y) (hU : ∀ x, cUnderscore ∉ H x)
    (a b : KeyState) (wa : WFState a) (wb : WFState b) :
    key H a = key H b ↔ StateEq a b := by
  constructor
  · intro h
    unfold key at h
    have fin : enc a = enc b → (a.inputs.isEmpty = b.inputs.isEmpty) →
        (a.inputs.isEmpty = false → encFiles a = encFiles b) → StateEq a b := by
      intro he hie hf
      obtain ⟨h1, h2, h3, h4, h5, h6, h7⟩ := enc_injective a b wa wb he
      have hin := (compactB_sort_eq_iff _ _).mp h3
      refine ⟨h1, h2, hin, ?_, (sortBytes_eq_iff _ _).mp h4, (sortKV_eq_iff _ _ wa.depKeys).mp h5,
        (sortKV_eq_iff _ _ wa.fpKeys).mp h6, h7⟩
      cases hia : a.inputs.isEmpty with
      | true => intro p hp; simp [List.isEmpty_iff.mp hia] at hp
      | false => exact encFiles_injective a b wa wb h3 (hf hia)
    cases hia : a.inputs.isEmpty <;> cases hib : b.inputs.isEmpty <;>
      simp only [hia, hib, Bool.false_eq_true, if_false, if_true] at h
    · obtain ⟨e1, e2⟩ := append_sep_inj (hU _) (hU _) h
      exact fin (hH _ _ e1) (by rw [hia, hib]) (fun _ => hH _ _ e2)
    · have : cUnderscore ∈ H (enc b) := by
        rw [← h]; exact List.mem_append_right _ List.mem_cons_self
      exact absurd this (hU _)
    · have : cUnderscore ∈ H (enc a) := by
        rw [h]; exact List.mem_append_right _ List.mem_cons_self
      exact absurd this (hU _)
    · exact fin (hH _ _ h) (by rw [hia, hib]) (fun hf => by rw [hia] at hf; cases hf)
  · intro h
    obtain ⟨e1, e2, e3⟩ := enc_eq_of_stateEq a b wa h
    unfold key
    rw [e1, e2, e3]

/-- The same without any global assumption on the hash: if two well-formed states receive the same key then they are
    equal states **or an explicit collision of `H` is exhibited** on the streams of these two states (the form DESIGN §4
    promises; `key_eq_iff` is the special case of a collision-free `H`). -/
theorem key_eq_state_or_collision (H : Bytes → Bytes) (hU : ∀ x, cUnderscore ∉ H x)
    (a b : KeyState) (wa : WFState a) (wb : WFState b) (h : key H a = key H b) :
    StateEq a b ∨ (enc a ≠ enc b ∧ H (enc a) = H (enc b)) ∨
      (encFiles a ≠ encFiles b ∧ H (encFiles a) = H (encFiles b)) := by
  unfold key at h
  have fin : enc a = enc b → (a.inputs.isEmpty = b.inputs.isEmpty) →
      (a.inputs.isEmpty = false → encFiles a = encFiles b) → StateEq a b := by
    intro he hie hf
    obtain ⟨h1, h2, h3, h4, h5, h6, h7⟩ := enc_injective a b wa wb he
    have hin := (compactB_sort_eq_iff _ _).mp h3
    refine ⟨h1, h2, hin, ?_, (sortBytes_eq_iff _ _).mp h4, (sortKV_eq_iff _ _ wa.depKeys).mp h5,
      (sortKV_eq_iff _ _ wa.fpKeys).mp h6, h7⟩
    cases hia : a.inputs.isEmpty with
    | true => intro p hp; simp [List.isEmpty_iff.mp hia] at hp
    | false => exact encFiles_injective a b wa wb h3 (hf hia)
  cases hia : a.inputs.isEmpty <;> cases hib : b.inputs.isEmpty <;>
    simp only [hia, hib, Bool.false_eq_true, if_false, if_true] at h
  · obtain ⟨e1, e2⟩ := append_sep_inj (hU _) (hU _) h
    by_cases he : enc a = enc b
    · by_cases hf : encFiles a = encFiles b
      · exact Or.inl (fin he (by rw [hia, hib]) (fun _ => hf))
      · exact Or.inr (Or.inr ⟨hf, e2⟩)
    · exact Or.inr (Or.inl ⟨he, e1⟩)
  · have : cUnderscore ∈ H (enc b) := by
      rw [← h]; exact List.mem_append_right _ List.mem_cons_self
    exact absurd this (hU _)
  · have : cUnderscore ∈ H (enc a) := by
      rw [h]; exact List.mem_append_right _ List.mem_cons_self
    exact absurd this (hU _)
  · by_cases he : enc a = enc b
    · exact Or.inl (fin he (by rw [hia, hib]) (fun hf => by rw [hia] at hf; cases hf))
    · exact Or.inr (Or.inl ⟨he, h⟩)

/-- The key does not depend on declaration / glob order, on duplicates among the resolved inputs, or on
    map iteration order (no hypothesis on the hash function is needed for this direction). -/
theorem key_order_independent (H : Bytes → Bytes) (a b : KeyState) (wa : WFState a)
    (h : StateEq a b) : key H a = key H b := by
  obtain ⟨e1, e2, e3⟩ := enc_eq_of_stateEq a b wa h
  unfold key
  rw [e1, e2, e3]

/-! Satisfiability of the hypotheses: a concrete hash (`hexId`, a letter per nibble, hence without `_`
    and injective) and a concrete non-trivial pair of well-formed, equal-but-differently-ordered states. -/

def nib (n : Nat) : UInt8 := UInt8.ofNat (97 + n)
def hexId : Bytes → Bytes
  | [] => []
  | c :: t => nib (c.toNat / 16) :: nib (c.toNat % 16) :: hexId t

theorem hexId_no_underscore : ∀ x, cUnderscore ∉ hexId x
  | [] => by simp [hexId]
  | c :: t => by
    have ih := hexId_no_underscore t
    have h1 : c.toNat / 16 < 16 := by have := c.toNat_lt; omega
    have h2 : c.toNat % 16 < 16 := Nat.mod_lt _ (by decide)
    have k : ∀ n, n < 16 → nib n ≠ cUnderscore := by decide
    simp only [hexId, List.mem_cons, not_or]
    exact ⟨fun e => k _ h1 e.symm, fun e => k _ h2 e.symm, ih⟩

theorem hexId_injective : ∀ x y, hexId x = hexId y → x = y
  | [], [], _ => rfl
  | [], _ :: _, h => by simp [hexId] at h
  | _ :: _, [], h => by simp [hexId] at h
  | c :: t, d :: u, h => by
    simp only [hexId, List.cons.injEq] at h
    obtain ⟨h1, h2, h3⟩ := h
    have k : ∀ m, m < 16 → ∀ n, n < 16 → nib m = nib n → m = n := by decide
    have c1 : c.toNat / 16 < 16 := by have := c.toNat_lt; omega
    have d1 : d.toNat / 16 < 16 := by have := d.toNat_lt; omega
    have e1 := k _ c1 _ d1 h1
    have e2 := k _ (Nat.mod_lt _ (by decide)) _ (Nat.mod_lt _ (by decide)) h2
    have : c.toNat = d.toNat := by omega
    rw [UInt8.toNat_inj.mp this, hexId_injective t u h3]

def exA : KeyState :=
  { label := [47, 47, 112, 58, 116], command := [99], inputs := [[98], [97], [98]],
    content := fun p => if p = [97] then some [1, 2] else none,
    outputs := [[111], [110]], deps := [([100], [104])], fingerprint := [([107], [118])], platform := some [108] }
def exB : KeyState :=
  { exA with inputs := [[97], [98]], outputs := [[110], [111]] }

example : WFState exA ∧ StateEq exA exB ∧ key hexId exA = key hexId exB := by
  have wa : WFState exA :=
    { label := by unfold Small; decide
      command := by unfold Small; decide
      inputs := by unfold SmallList Small; decide
      outputs := by unfold SmallList Small; decide
      deps := by unfold SmallKV Small; decide
      depKeys := by decide
      fingerprint := by unfold SmallKV Small; decide
      fpKeys := by decide
      platform := by
        intro p hp; simp only [exA, Option.some.injEq] at hp; subst hp; unfold Small; decide
      content := by
        intro p c h; simp only [exA] at h; split at h
        · simp only [Option.some.injEq] at h; subst h; unfold Small; decide
        · cases h }
  have he : StateEq exA exB := by
    refine ⟨rfl, rfl, ?_, fun _ _ => rfl, ?_, List.Perm.refl _, List.Perm.refl _, rfl⟩
    · intro p; simp only [exA, exB, List.mem_cons, List.not_mem_nil, or_false]
      constructor
      · rintro (h' | h' | h') <;> simp [h']
      · rintro (h' | h') <;> simp [h']
    · exact List.Perm.swap _ _ _
  exact ⟨wa, he, key_order_independent hexId exA exB wa he⟩

/-! ### regression witnesses for the encoding before the `fix:` commit (F-hash, F-dupinput) -/

def mk (command : Bytes) (inputs : List Bytes) (content : Bytes → Option Bytes)
    (fingerprint : List (Bytes × Bytes)) : KeyState :=
  { label := [47, 47, 58, 116], command := command, inputs := inputs, content := content,
    outputs := [], deps := [], fingerprint := fingerprint, platform := none }

theorem sort1 (a : Bytes) : sortBytes [a] = [a] := by simp [sortBytes]
theorem sort2 (a b : Bytes) (h : bytesLeH a b = true) : sortBytes [a, b] = [a, b] :=
  List.mergeSort_of_pairwise (by simp [h])

/-- With the old, delimiter-free concatenation, different states had equal streams:
    (1) command "ab" + input "c" vs command "a" + input "bc";
    (2) one input named "a,b" vs two inputs "a" and "b";
    (3) fingerprint {a: "b=c"} vs {"a=b": "c"};
    (4) file contents ("ab","c") vs ("a","bc");
    (5) a missing input file vs an empty one. -/
theorem old_collision_witnesses :
    (encOld (mk [97, 98] [[99]] (fun _ => none) []) = encOld (mk [97] [[98, 99]] (fun _ => none) [])) ∧
    (encOld (mk [] [[97, 44, 98]] (fun _ => none) []) = encOld (mk [] [[97], [98]] (fun _ => none) [])) ∧
    (encOld (mk [] [] (fun _ => none) [([97], [98, 61, 99])]) =
      encOld (mk [] [] (fun _ => none) [([97, 61, 98], [99])])) ∧
    (encFilesOld (mk [] [[97], [98]] (fun p => if p = [97] then some [97, 98] else some [99]) []) =
      encFilesOld (mk [] [[97], [98]] (fun p => if p = [97] then some [97] else some [98, 99]) [])) ∧
    (encFilesOld (mk [] [[97]] (fun _ => none) []) = encFilesOld (mk [] [[97]] (fun _ => some []) [])) := by
  have s2 : sortBytes [[97], [98]] = [[97], [98]] := sort2 _ _ (by decide)
  have s0 : sortBytes [] = [] := by simp [sortBytes]
  refine ⟨?_, ?_, ?_, ?_, ?_⟩
  · simp [encOld, mk, sort1, s0, joinComma]
  · simp [encOld, mk, sort1, s2, s0, joinComma, cComma]
  · simp [encOld, mk, sort1, s0, joinComma, cEq]
  · simp [encFilesOld, mk, s2]
  · simp [encFilesOld, mk, sort1]

/-- …and equal states had different streams: a resolved input listed twice (overlapping globs). -/
theorem old_dup_input_witness :
    encOld (mk [] [[97], [97]] (fun _ => none) []) ≠ encOld (mk [] [[97]] (fun _ => none) []) := by
  have s2 : sortBytes [[97], [97]] = [[97], [97]] := sort2 _ _ (by decide)
  have s0 : sortBytes [] = [] := by simp [sortBytes]
  simp [encOld, mk, sort1, s2, s0, joinComma, cComma]

/-! ### output hash -/


/-- Equal output hashes ⇒ the multisets of per-output digests are equal (each digest covers the marshalled
    output message: definition, content digest, executable bit). The digest has fixed width `w` (hex of a fixed number
    of bytes), so it cannot be injective on all byte strings: the hypothesis is collision-freeness **on the streams that
    occur** (`Occ`), here the two concatenated digest streams. -/
theorem outHash_inj (H : Bytes → Bytes) (Occ : Bytes → Prop) (hH : ∀ x y, Occ x → Occ y → H x = H y → x = y)
    (w : Nat) (hw : 0 < w) (hlen : ∀ x, (H x).length = w) (xs ys : List Bytes)
    (ho1 : Occ (sortBytes (xs.map H)).flatten) (ho2 : Occ (sortBytes (ys.map H)).flatten)
    (h : outHash H xs = outHash H ys) :
    (xs.map H).Perm (ys.map H) := by
  unfold outHash at h
  cases hx : xs.isEmpty <;> cases hy : ys.isEmpty <;> simp only [hx, hy] at h
  · have hf := hH _ _ ho1 ho2 h
    have := flatten_inj_of_width w hw _ _
      (fun x hx => by
        obtain ⟨z, _, rfl⟩ := List.mem_map.mp (mem_sortBytes.mp hx); exact hlen z)
      (fun x hx => by
        obtain ⟨z, _, rfl⟩ := List.mem_map.mp (mem_sortBytes.mp hx); exact hlen z) hf
    exact (sortBytes_eq_iff _ _).mp this
  · have := congrArg List.length h; simp [hlen] at this; omega
  · have := congrArg List.length h; simp [hlen] at this; omega
  · rw [List.isEmpty_iff.mp hx, List.isEmpty_iff.mp hy]

/-- The deterministic protobuf marshalling of an `Output` message (file or directory output: path, content
    digest, size, executable bit) is injective — proved for the marshalling *model* `Proto.serOutput`, which
    the correspondence check compares byte-for-byte with `proto.Marshal`. -/
theorem serOutput_injective (a b : Proto.Output) (h : Proto.serOutput a = Proto.serOutput b) : a = b :=
  Proto.serOutput_injective' h

/-- Equal output hashes ⇒ equal multisets of outputs (definition, digest, size, executable bit): no
    hypothesis on the marshalling is left, only collision-freeness of the (fixed-width) hash on the streams that occur:
    the marshalled outputs of both lists and the two concatenated digest streams. -/
theorem outHash_outputs_inj (H : Bytes → Bytes) (Occ : Bytes → Prop)
    (hH : ∀ x y, Occ x → Occ y → H x = H y → x = y) (w : Nat) (hw : 0 < w)
    (hlen : ∀ x, (H x).length = w) (xs ys : List Proto.Output)
    (hox : ∀ o ∈ xs, Occ (Proto.serOutput o)) (hoy : ∀ o ∈ ys, Occ (Proto.serOutput o))
    (ho1 : Occ (sortBytes ((xs.map Proto.serOutput).map H)).flatten)
    (ho2 : Occ (sortBytes ((ys.map Proto.serOutput).map H)).flatten)
    (h : outHash H (xs.map Proto.serOutput) = outHash H (ys.map Proto.serOutput)) : xs.Perm ys := by
  have h1 := outHash_inj H Occ hH w hw hlen _ _ ho1 ho2 h
  have h2 := Proto.perm_of_map_perm_on H _ _ (fun a ha b hb e => by
    obtain ⟨oa, hoa, rfl⟩ := List.mem_map.mp ha
    obtain ⟨ob, hob, rfl⟩ := List.mem_map.mp hb
    exact hH _ _ (hox oa hoa) (hoy ob hob) e) h1
  exact Proto.perm_of_map_perm Proto.serOutput (fun a b => Proto.serOutput_injective') _ _ h2

/-- the hypotheses are satisfiable with a genuinely fixed-width hash: `H x` = first byte of `x` (width 1), which is
    collision-free on the one-byte strings; two one-element output lists whose digests are one byte long -/
example :
    let H : Bytes → Bytes := fun x => [x.headD 0]
    let Occ : Bytes → Prop := fun x => x.length = 1
    (∀ x y, Occ x → Occ y → H x = H y → x = y) ∧ (∀ x, (H x).length = 1) ∧
      Occ (sortBytes ([[5]].map H)).flatten ∧ outHash H [[5]] = outHash H [[5]] := by
  refine ⟨?_, fun _ => rfl, ?_, rfl⟩
  · intro x y hx hy h
    match x, y, hx, hy with
    | [a], [b], _, _ => simpa using h
  · simp [sortBytes]

/-- …and the output hash is independent of the order in which outputs were written. -/
theorem outHash_order_independent (H : Bytes → Bytes) (xs ys : List Bytes) (h : xs.Perm ys) :
    outHash H xs = outHash H ys := by
  unfold outHash
  have he : xs.isEmpty = ys.isEmpty := by
    cases xs <;> cases ys <;> simp_all
  rw [he, (sortBytes_eq_iff _ _).mpr (h.map H)]

/-! ### digests of no-cache dependencies and of file contents -/

/-- The output hash of a target that is not cached (`no-cache`, cache disabled) — the digest its dependants' keys carry —
    is injective on multisets of (output definition, content digest): equal hashes ⇒ the two targets have the same outputs
    with the same digests, up to order.  Each digest is tied to its length-framed definition, so two outputs that swap
    contents, or a definition containing `,` or `:`, cannot make two different sets collide.  Hypotheses: digests are hex
    (contain no `,`), the hash is collision-free on the two joined streams. -/
theorem nocache_outHash_inj (H : Bytes → Bytes) (Occ : Bytes → Prop) (hH : ∀ x y, Occ x → Occ y → H x = H y → x = y)
    (xs ys : List (Bytes × Bytes)) (hx : ∀ o ∈ xs, cComma ∉ o.2) (hy : ∀ o ∈ ys, cComma ∉ o.2)
    (ho1 : Occ (joinComma (sortBytes (xs.map (fun o => nocacheElem o.1 o.2)))))
    (ho2 : Occ (joinComma (sortBytes (ys.map (fun o => nocacheElem o.1 o.2)))))
    (h : outHashNoCache H xs = outHashNoCache H ys) : xs.Perm ys := by
  unfold outHashNoCache at h
  have hj := hH _ _ ho1 ho2 h
  -- the sorted element lists are themselves lists of elements of some pairs
  have pre : ∀ (l : List (Bytes × Bytes)), (∀ o ∈ l, cComma ∉ o.2) →
      ∃ l' : List (Bytes × Bytes), (∀ o ∈ l', cComma ∉ o.2) ∧ l'.map (fun o => nocacheElem o.1 o.2) = sortBytes (l.map (fun o => nocacheElem o.1 o.2)) ∧
        l'.Perm l := by
    intro l hl
    -- sort the pairs by their element
    refine ⟨l.mergeSort (fun a b => bytesLeH (nocacheElem a.1 a.2) (nocacheElem b.1 b.2)), ?_, ?_, List.mergeSort_perm _ _⟩
    · intro o ho; exact hl o ((List.mergeSort_perm _ _).subset ho)
    · unfold sortBytes
      rw [List.map_mergeSort]
      · intro a _ b _; rfl
  obtain ⟨xs', hx', ex, px⟩ := pre xs hx
  obtain ⟨ys', hy', ey, py⟩ := pre ys hy
  rw [← ex, ← ey] at hj
  have := joinComma_elems_inj xs' ys' hx' hy' hj
  exact px.symm.trans (this ▸ py)

/-- order of the outputs does not matter -/
theorem nocache_outHash_order_independent (H : Bytes → Bytes) (xs ys : List (Bytes × Bytes)) (h : xs.Perm ys) :
    outHashNoCache H xs = outHashNoCache H ys := by
  unfold outHashNoCache
  rw [(sortBytes_eq_iff _ _).mpr (h.map _)]

/-- Regression witness for `6f6e2f5`: without the definition in each element (digests alone, sorted and joined) two outputs
    that swap their contents leave the hash unchanged. -/
theorem nocache_old_swap_witness (H : Bytes → Bytes) (d1 d2 : Bytes) :
    H (joinComma (sortBytes ([(([111] : Bytes), d1), ([112], d2)].map Prod.snd))) =
    H (joinComma (sortBytes ([(([111] : Bytes), d2), ([112], d1)].map Prod.snd))) := by
  have : sortBytes [d1, d2] = sortBytes [d2, d1] := (sortBytes_eq_iff _ _).mpr (List.Perm.swap _ _ _)
  simp [this]

/-- File, blob and tree digests are the configured hash of exactly the content (`HashFile`, `HashBytes`, `HashString`):
    equal digests ⇒ equal contents, on contents where the hash does not collide. -/
theorem hashContent_inj (H : Bytes → Bytes) (Occ : Bytes → Prop) (hH : ∀ x y, Occ x → Occ y → H x = H y → x = y)
    (a b : Bytes) (ha : Occ a) (hb : Occ b) (h : hashContent H a = hashContent H b) : a = b := hH a b ha hb h

/-- non-vacuity: with the identity as (collision-free) hash, the two swapped states of the witness above are told apart -/
example : outHashNoCache (fun x => x) [([111], [97]), ([112], [98])] ≠ outHashNoCache (fun x => x) [([111], [98]), ([112], [97])] := by
  intro h
  have hp := nocache_outHash_inj (fun x => x) (fun _ => True) (fun _ _ _ _ e => e) _ _
    (by decide) (by decide) trivial trivial h
  have : (([111], [97]) : Bytes × Bytes) ∈ [(([111] : Bytes), ([98] : Bytes)), ([112], [97])] := hp.subset (by simp)
  revert this; decide

end Grog.C09
