/-
  C06 — cached outputs are restored exactly, from any workspace state.
  Property theorems only; helper lemmas are in GrogModel/Lemmas/Tree*.lean.
  Model: GrogModel/Tree.lean (mirrors internal/output/handlers/{file,dir}_output_handler.go,
  internal/output/registry.go validateTargetResultOutputs, internal/caching/cas.go Write).
-/
import GrogModel.Lemmas.TreeBuild
import GrogModel.Lemmas.TreeSort
namespace Grog.C06
open Grog

/-! ## File outputs -/

/-- **File outputs are restored exactly (bytes and executable bit), from every prior state.**
    `fs0` is the workspace when the output was cached (a regular file `b`, executable bit `x`, at `q ++ [n]`);
    `fs` is *any* workspace state in which the restore runs, provided no ancestor of the destination is a
    non-directory (`Clear fs q`: ancestors may be absent; symlinked ancestors are followed by the OS and are outside
    the model). At the destination itself anything may sit: nothing, a regular file of any content and mode, a
    directory, a symlink (a symlink or directory is removed, not written through — repair F-symlink-dst);
    `cas` is *any* CAS holding the blob under its digest.
    The only use of the hash is the local-hash shortcut, hence the collision hypothesis relates just the
    cached content and the content of a regular file currently at the destination. -/
theorem restoreFile_writeFile (H : Bytes → Digest) (fs0 fs : Entry) (q : Path) (n : Name) (id : Bytes)
    (b : Bytes) (x : Bool) (cas0 : Cas)
    (hsrc : fs0.get (q ++ [n]) = some (.file b x))
    (hpar : Clear fs q)
    (hH : ∀ b' x', fs.get (q ++ [n]) = some (.file b' x') → H b' = H b → b' = b) :
    ∃ cas1, writeFile H .fixed fs0 (q ++ [n]) id cas0 = .ok (.file id (H b) b.length x, cas1) ∧
      ∀ cas : Cas, cas.get (H b) = some b →
        ∃ fs', restoreFile H .fixed (H b) x cas fs (q ++ [n]) = .ok fs' ∧
          fs'.get (q ++ [n]) = some (.file b x) := by
  refine ⟨cas0.write (H b) b, by simp [writeFile, hsrc], ?_⟩
  intro cas hcas
  have hp : parentOf (q ++ [n]) = q := by simp [parentOf]
  -- creating the file once the destination is absent or a regular file and the ancestors are clear
  have create : ∀ fsx : Entry, Clear fsx q → (∀ e, fsx.get (q ++ [n]) = some e → ∃ b' x', e = .file b' x') →
      ∃ fs', (match mkdirAll fsx q with
        | .error e => Except.error e
        | .ok fs1 => createFile fs1 (q ++ [n]) b (some x)) = .ok fs' ∧ fs'.get (q ++ [n]) = some (.file b x) := by
    intro fsx hcl hreg
    obtain ⟨fs1, hm, hdir, hbelow⟩ := mkdirAll_spec hcl
    obtain ⟨fs', hs, hg⟩ := setAt_spec (n := n) (.file b x) hdir
    refine ⟨fs', ?_, hg⟩
    simp only [hm, createFile, hbelow n]
    cases hget : fsx.get (q ++ [n]) with
    | none => simpa using hs
    | some e =>
      obtain ⟨b', x', rfl⟩ := hreg e hget
      simpa using hs
  -- the load path
  have load : ∃ fs', restoreFileLoad .fixed (H b) x cas fs (q ++ [n]) = .ok fs' ∧
      fs'.get (q ++ [n]) = some (.file b x) := by
    simp only [restoreFileLoad, hcas, hp]
    cases hget : fs.get (q ++ [n]) with
    | none => exact create fs hpar (fun e he => by rw [hget] at he; cases he)
    | some e =>
      cases e with
      | file b' x' => exact create fs hpar (fun e he => by rw [hget] at he; cases he; exact ⟨b', x', rfl⟩)
      | dir es =>
        obtain ⟨fs0', hr, hcl⟩ := removeAll_spec (n := n) hpar
        simp only [hr]
        exact create fs0' (clear_prefix hcl) (fun e he => by rw [get_removeAll_self hr] at he; cases he)
      | link t =>
        obtain ⟨fs0', hr, hcl⟩ := removeAll_spec (n := n) hpar
        simp only [hr]
        exact create fs0' (clear_prefix hcl) (fun e he => by rw [get_removeAll_self hr] at he; cases he)
  cases hget : fs.get (q ++ [n]) with
  | none => simpa [restoreFile, hget] using load
  | some e =>
    cases e with
    | file b' x' =>
      by_cases hd : H b' = H b
      · have hb : b' = b := hH b' x' hget hd
        subst hb
        by_cases hx : x' = x
        · subst hx
          exact ⟨fs, by simp [restoreFile, hget], hget⟩
        · obtain ⟨es, hpd⟩ := Entry.parent_dir_of_get hget
          obtain ⟨fs', hs, hg⟩ := setAt_spec (n := n) (.file b' x) ⟨es, hpd⟩
          exact ⟨fs', by simp [restoreFile, hget, hx, hs], hg⟩
      · simpa [restoreFile, hget, hd] using load
    | dir es => simpa [restoreFile, hget] using load
    | link t => simpa [restoreFile, hget] using load

/-- the hypotheses of `restoreFile_writeFile` are satisfiable by a non-trivial state: an executable file two
    levels down, restored into an empty workspace (both parents missing), with `H := id`. -/
example :
    let fs0 : Entry := .dir [([112], .dir [([111], .dir [([102], .file [1, 2] true)])])]
    let fs : Entry := .dir []
    fs0.get ([[112], [111]] ++ [[102]]) = some (.file [1, 2] true) ∧ Clear fs [[112], [111]] ∧
      (restoreFile id .fixed [1, 2] true [([1, 2], [1, 2])] fs [[112], [111], [102]]).toOption.bind
        (·.nodeAt [[112], [111], [102]]) = some (.file [1, 2] true) := by
  refine ⟨rfl, by simp [Clear, lookupE], by decide⟩

/-- Regression witness for F-execbit (the handler as found): an executable file output, cached and restored
    into a workspace where it is absent, comes back without its executable bit. -/
theorem restoreFile_old_loses_exec_witness :
    let fs0 : Entry := .dir [([102], .file [1] true)]
    (writeFile id .old fs0 [[102]] [102] []).toOption = some (.file [102] [1] 1 false, [([1], [1])]) ∧
      (restoreFile id .old [1] false [([1], [1])] (.dir []) [[102]]).toOption.bind (·.nodeAt [[102]])
        = some (.file [1] false) := by
  decide

/-- Regression witness for F-mkdir (the handler as found): restoring `out/f` when `out/` has been deleted
    fails (the real build then silently re-executes the command). -/
theorem restoreFile_old_missing_parent_witness :
    (restoreFile id .old [1] false [([1], [1])] (.dir []) [[111], [102]]).toOption = none ∧
      (restoreFile id .fixed [1] false [([1], [1])] (.dir []) [[111], [102]]).toOption.bind
        (·.nodeAt [[111], [102]]) = some (.file [1] false) := by
  decide

/-! ## The executable flag as a function of the permission mode

The tree model carries one Boolean per file. The handlers derive it from the permission mode; which
bits count decides whether a stale file with an unusual mode passes for the cached executable. -/

/-- "some execute bit is set": the reading of the handlers as found. -/
def anyExec (m : Nat) : Bool := m &&& 0o111 != 0

/-- "the owner may execute it": the reading after the repair (file and directory handlers, write and restore). -/
def ownerExec (m : Nat) : Bool := m &&& 0o100 != 0

/-- `setExecutable`: the mode of the restored file, given the mode found at the destination after the content is in
    place and the cached flag. The mode is only touched when the flag read from it differs from the cached one. -/
def modeAfter (v : Variant) (m : Nat) (cached : Bool) : Nat :=
  let same := match v with
    | .old => anyExec m == cached
    | .fixed => ownerExec m == cached
  if same then m else if cached then 0o755 else 0o644

/-- After the repair a restored output is runnable by its owner exactly if it was cached as executable, whatever
    mode the stale file at the destination had. -/
theorem modeAfter_fixed_owner (m : Nat) (cached : Bool) : ownerExec (modeAfter .fixed m cached) = cached := by
  unfold modeAfter
  by_cases h : ownerExec m = cached
  · simp [h]
  · cases cached <;> simp [h] <;> decide

/-- Regression witness (the handlers as found): a stale file with mode 0654 (or 0645) at the destination of an output
    that was cached as executable is left as it is: the restore succeeds and the owner cannot run the result. -/
theorem modeAfter_old_not_runnable_witness :
    ownerExec (modeAfter .old 0o654 true) = false ∧ ownerExec (modeAfter .old 0o645 true) = false := by
  decide

/-! ## Directory outputs -/

section Dir
variable (H : Bytes → Digest) (serD : Directory → Bytes) (serT : TreeMsg → Bytes) (deT : Bytes → Option TreeMsg)

/-- **Directory outputs are restored exactly, from every prior state of the destination.**

    `fs0` is the workspace when the output was cached: a well-formed directory `es` (names distinct within every
    directory) at `q ++ [n]`. `writeDir` stores the file blobs (de-duplicated by digest), then the tree blob.
    `cas` is *any* CAS that holds what `writeDir` stored (each upload under its digest, the marshalled tree under the
    tree digest). `fs` is *any* workspace state in which the restore runs — destination absent, absent parents, a file
    or a symlink or another tree or the same tree at the destination, stale extra entries — provided no ancestor of
    the destination is a non-directory (`Clear fs q`).  Then `restoreDir` succeeds and the destination has exactly
    the cached recursive listing (`Entry.Same`: same names, kinds, contents, executable bits, link targets, empty
    directories, nothing extra).

    Hypotheses on the parameters, all restricted to what occurs: `serD` injective on the sub-directory messages of
    the tree, `deT` inverts `serT` on the tree message (protobuf), no hash collision among the streams hashed for the
    cached tree; and — only if the destination currently is a directory `es'` — the same for `es'`, `serT` separating
    the two tree messages and no collision among the streams of both (needed for the local-hash shortcut). The
    recursion budget `fuel` of the model only has to exceed the nesting depth. -/
theorem restoreDir_writeDir (fs0 fs : Entry) (q : Path) (n : Name) (id : Bytes)
    (es : List (Name × Entry)) (cas0 : Cas) (fuel : Nat)
    (hsrc : fs0.get (q ++ [n]) = some (.dir es))
    (hwf : (Entry.dir es).WF)
    (hfuel : depthList es < fuel)
    (hserD : InjOnKids H serD serD es)
    (hdeT : deT (serT (treeMsg H serD es)) = some (treeMsg H serD es))
    (hcf : CollisionFree H (streams H serD serT es))
    (hpar : Clear fs q)
    (hprior : ∀ es', fs.get (q ++ [n]) = some (.dir es') →
      (Entry.dir es').WF ∧ InjOnKids H serD serD es' ∧
      (serT (treeMsg H serD es') = serT (treeMsg H serD es) → treeMsg H serD es' = treeMsg H serD es) ∧
      CollisionFree H (streams H serD serT es ++ streams H serD serT es')) :
    ∃ total cas1,
      writeDir H serD serT fs0 (q ++ [n]) id cas0 = .ok (.dir id (H (serT (treeMsg H serD es))) total, cas1) ∧
      ∀ cas : Cas, (∀ u ∈ (encList H serD es).ups, cas.get u.1 = some u.2) →
        cas.get (H (serT (treeMsg H serD es))) = some (serT (treeMsg H serD es)) →
        ∃ fs', restoreDir H serD serT deT fuel (H (serT (treeMsg H serD es))) cas fs (q ++ [n]) = .ok fs' ∧
          ∃ r, fs'.get (q ++ [n]) = some r ∧ r.Same (.dir es) := by
  refine ⟨((encList H serD es).ups.map (·.2.length)).sum,
    (writeBlobs cas0 (encList H serD es).ups).write (H (serT (treeMsg H serD es))) (serT (treeMsg H serD es)),
    by simp [writeDir, hsrc], ?_⟩
  intro cas hups htree
  unfold restoreDir
  split
  · -- local-hash shortcut
    rename_i hsc
    simp only [hashDirAt] at hsc
    cases hg : fs.get (q ++ [n]) with
    | none => simp [hg] at hsc
    | some e =>
      cases e with
      | file b x => simp [hg] at hsc
      | link t => simp [hg] at hsc
      | dir es' =>
        simp only [hg, Option.some.injEq] at hsc
        obtain ⟨hwf', hserD', hserT', hcf'⟩ := hprior es' hg
        exact ⟨fs, rfl, .dir es', hg, shortcut_sound H serD serT es es' hwf hwf' hserD hserD' hserT' hcf' hsc⟩
  · -- fetch the tree, clear the destination, rebuild
    obtain ⟨fs1, hrm, hcl⟩ := removeAll_spec (n := n) hpar
    obtain ⟨fs2, hmk, ⟨es2, hd2⟩, _⟩ := mkdirAll_spec hcl
    obtain ⟨esq, hq⟩ := Entry.parent_dir_of_get hd2
    have hinj : ∀ a ∈ (encList H serD es).kids, ∀ b ∈ (encList H serD es).kids,
        H (serD a.2) = H (serD b.2) → a.2 = b.2 := by
      intro a ha b hb hab
      apply hserD a ha b hb
      apply hcf _ _ _ _ hab
      · simp only [streams, List.mem_append, List.mem_map]; exact Or.inl (Or.inr ⟨a, ha, rfl⟩)
      · simp only [streams, List.mem_append, List.mem_map]; exact Or.inl (Or.inr ⟨b, hb, rfl⟩)
    obtain ⟨built, hb, hsame⟩ := buildDir_enc H serD cas (childMap H serD (children (encList H serD es).kids)) fuel es
      hfuel hwf hups (childMap_lookup H serD _ (kids_digest H serD es) hinj)
    obtain ⟨fs', hset, hget⟩ := setAt_spec (n := n) built ⟨esq, hq⟩
    refine ⟨fs', ?_, built, hget, hsame⟩
    simp only [htree, hdeT, hrm, hmk]
    simp only [treeMsg] at hb ⊢
    simp only [hb, hset]

/-- **End to end**: restore from the very CAS that `writeDir` returned. `cas0` is any CAS that agrees with the new blobs on
    their digests (true for a content-addressed CAS — C07's invariant — when the hash is collision free on the contents involved):
    existing digests are skipped by `Cas.Write`, the rest is appended, and the restore of the result from any prior state
    yields the cached listing. -/
theorem restoreDir_after_writeDir (fs0 fs : Entry) (q : Path) (n : Name) (id : Bytes)
    (es : List (Name × Entry)) (cas0 : Cas) (fuel : Nat)
    (hsrc : fs0.get (q ++ [n]) = some (.dir es))
    (hwf : (Entry.dir es).WF)
    (hfuel : depthList es < fuel)
    (hserD : InjOnKids H serD serD es)
    (hdeT : deT (serT (treeMsg H serD es)) = some (treeMsg H serD es))
    (hcf : CollisionFree H (streams H serD serT es))
    (hag : Agrees cas0 ((encList H serD es).ups ++ [(H (serT (treeMsg H serD es)), serT (treeMsg H serD es))]))
    (hpar : Clear fs q)
    (hprior : ∀ es', fs.get (q ++ [n]) = some (.dir es') →
      (Entry.dir es').WF ∧ InjOnKids H serD serD es' ∧
      (serT (treeMsg H serD es') = serT (treeMsg H serD es) → treeMsg H serD es' = treeMsg H serD es) ∧
      CollisionFree H (streams H serD serT es ++ streams H serD serT es')) :
    ∃ out cas1, writeDir H serD serT fs0 (q ++ [n]) id cas0 = .ok (out, cas1) ∧
      ∃ fs', restoreDir H serD serT deT fuel (H (serT (treeMsg H serD es))) cas1 fs (q ++ [n]) = .ok fs' ∧
        ∃ r, fs'.get (q ++ [n]) = some r ∧ r.Same (.dir es) := by
  obtain ⟨total, cas1, hw, hres⟩ := restoreDir_writeDir H serD serT deT fs0 fs q n id es cas0 fuel hsrc hwf hfuel hserD hdeT hcf hpar hprior
  refine ⟨_, cas1, hw, ?_⟩
  -- identify cas1
  have hc1 : cas1 = writeBlobs cas0 ((encList H serD es).ups ++ [(H (serT (treeMsg H serD es)), serT (treeMsg H serD es))]) := by
    have happ : ∀ (l : List (Digest × Bytes)) (c : Cas) (x : Digest × Bytes), writeBlobs c (l ++ [x]) = (writeBlobs c l).write x.1 x.2 := by
      intro l
      induction l with
      | nil => intro c x; simp [writeBlobs]
      | cons h t ih => intro c x; obtain ⟨d, b⟩ := h; simp [writeBlobs, ih]
    simp only [writeDir, hsrc, Except.ok.injEq, Prod.mk.injEq] at hw
    rw [happ]; exact hw.2.symm
  have hcons : ∀ u ∈ (encList H serD es).ups ++ [(H (serT (treeMsg H serD es)), serT (treeMsg H serD es))],
      ∀ w ∈ (encList H serD es).ups ++ [(H (serT (treeMsg H serD es)), serT (treeMsg H serD es))], u.1 = w.1 → u.2 = w.2 := by
    have form : ∀ u ∈ (encList H serD es).ups ++ [(H (serT (treeMsg H serD es)), serT (treeMsg H serD es))],
        u.1 = H u.2 ∧ u.2 ∈ streams H serD serT es := by
      intro u hu
      simp only [List.mem_append, List.mem_singleton] at hu
      rcases hu with hu | rfl
      · exact ⟨ups_form H serD es u hu, by simp only [streams, List.mem_append, List.mem_map]; exact Or.inl (Or.inl ⟨u, hu, rfl⟩)⟩
      · exact ⟨rfl, by simp [streams]⟩
    intro u hu w hw' huw
    obtain ⟨fu, su⟩ := form u hu
    obtain ⟨fw, sw⟩ := form w hw'
    exact hcf _ su _ sw (by rw [← fu, ← fw, huw])
  obtain ⟨hget, _⟩ := writeBlobs_get _ cas0 hag hcons
  apply hres cas1
  · intro u hu; rw [hc1]; exact hget u (by simp [hu])
  · rw [hc1]; exact hget (H (serT (treeMsg H serD es)), serT (treeMsg H serD es)) (by simp)

end Dir

/-! toy (but, on the trees below, injective) marshalling functions for the satisfiability example -/
def toySerD (d : Directory) : Bytes :=
  d.files.flatMap (fun f => f.name ++ [0] ++ f.digest ++ [0, if f.exec then 1 else 2]) ++ [255] ++
  d.dirs.flatMap (fun x => x.name ++ [0] ++ x.digest ++ [0]) ++ [255] ++
  d.links.flatMap (fun l => l.name ++ [0] ++ l.target ++ [0])
def toySerT (t : TreeMsg) : Bytes := toySerD t.root ++ [254] ++ t.children.flatMap (fun c => toySerD c ++ [253])

def exTree : List (Name × Entry) :=
  [([97], .file [1] true), ([98], .dir []), ([99], .dir [([97], .file [1] true)]), ([100], .link [97])]
def exPrior : List (Name × Entry) := [([97], .file [1] false), ([122], .file [7] false)]
def toyDeT (b : Bytes) : Option TreeMsg :=
  if b = toySerT (treeMsg id toySerD exTree) then some (treeMsg id toySerD exTree) else none

/-- the hypotheses of `restoreDir_writeDir` are satisfiable by a non-trivial tree and prior state: a directory with
    an executable file, an empty sub-directory, a sub-directory repeating the file and a symlink, restored over a
    destination that currently holds another directory (flipped executable bit, a stale extra file), below a missing
    parent; `H := id`. -/
example :
    (Entry.dir exTree).WF ∧ depthList exTree < 3 ∧
    InjOnKids id toySerD toySerD exTree ∧
    toyDeT (toySerT (treeMsg id toySerD exTree)) = some (treeMsg id toySerD exTree) ∧
    CollisionFree id (streams id toySerD toySerT exTree) ∧
    Clear (.dir [([111], .dir [([116], .dir exPrior)])]) [[111]] ∧
    ((Entry.dir exPrior).WF ∧ InjOnKids id toySerD toySerD exPrior ∧
      (toySerT (treeMsg id toySerD exPrior) = toySerT (treeMsg id toySerD exTree) →
        treeMsg id toySerD exPrior = treeMsg id toySerD exTree) ∧
      CollisionFree id (streams id toySerD toySerT exTree ++ streams id toySerD toySerT exPrior)) := by
  refine ⟨by simp [Entry.WF, WFList, namesOf, exTree], by decide, ?_, by simp [toyDeT], ?_, by simp [Clear, lookupE], ?_, ?_, ?_, ?_⟩
  · unfold InjOnKids; simp [encList, exTree, toySerD]
  · unfold CollisionFree
    simp [streams, treeMsg, children, sortKids, insertKid, bytesLt, encList, exTree, toySerD, toySerT]
  · simp [Entry.WF, WFList, namesOf, exPrior]
  · unfold InjOnKids; simp [encList, exPrior]
  · simp [treeMsg, children, sortKids, insertKid, bytesLt, encList, exTree, exPrior, toySerD, toySerT]
  · unfold CollisionFree
    simp [streams, treeMsg, children, sortKids, insertKid, bytesLt, encList, exTree, exPrior, toySerD, toySerT]

/-! ## Restore is total: success or a definite error -/

/-- **`restore_total`.** Restoring a file output is total over prior states: from *every* workspace state whose ancestors of
    the destination are clear — destination absent, a regular file of any content and mode, a directory, a symlink —
    (1) if the CAS has an entry for the stored digest the restore succeeds and the destination is a regular file with the
    stored executable bit (with the cached bytes when the entry is the cached blob: `restoreFile_writeFile`);
    (2) if it has none, the restore either needs nothing (the local file already hashes to the digest) or reports the
    definite error `missingBlob` and — like the code, which fetches the blob before touching the destination — the workspace
    is left as it was. For directory outputs success with all blobs present is `restoreDir_writeDir` (every prior state);
    (3) a missing tree blob gives `missingBlob` unless the destination already hashes to the stored digest. -/
theorem restore_total (H : Bytes → Digest) (serD : Directory → Bytes) (serT : TreeMsg → Bytes)
    (deT : Bytes → Option TreeMsg) (fuel : Nat) (d : Digest) (x : Bool) (cas : Cas) (fs : Entry) (q : Path) (n : Name)
    (hpar : Clear fs q) :
    (∀ c, cas.get d = some c → ∃ fs' c' , restoreFile H .fixed d x cas fs (q ++ [n]) = .ok fs' ∧
        fs'.get (q ++ [n]) = some (.file c' x)) ∧
    (cas.get d = none →
        (∃ b y, fs.get (q ++ [n]) = some (.file b y) ∧ H b = d) ∨
        restoreFile H .fixed d x cas fs (q ++ [n]) = .error .missingBlob) ∧
    (hashDirAt H serD serT fs (q ++ [n]) ≠ some d → cas.get d = none →
        restoreDir H serD serT deT fuel d cas fs (q ++ [n]) = .error .missingBlob) := by
  refine ⟨?_, ?_, ?_⟩
  · intro c hc
    obtain ⟨fs', hl, hg⟩ := restoreFileLoad_fixed_spec (n := n) d x cas c hpar hc
    cases hget : fs.get (q ++ [n]) with
    | none => exact ⟨fs', c, by simpa [restoreFile, hget] using hl, hg⟩
    | some e =>
      cases e with
      | dir es => exact ⟨fs', c, by simpa [restoreFile, hget] using hl, hg⟩
      | link t => exact ⟨fs', c, by simpa [restoreFile, hget] using hl, hg⟩
      | file b y =>
        by_cases hd : H b = d
        · by_cases hx : y = x
          · subst hx; exact ⟨fs, b, by simp [restoreFile, hget, hd], hget⟩
          · obtain ⟨es, hpd⟩ := Entry.parent_dir_of_get hget
            obtain ⟨fs2, hs, hg2⟩ := setAt_spec (n := n) (.file b x) ⟨es, hpd⟩
            exact ⟨fs2, b, by simp [restoreFile, hget, hd, hx, hs], hg2⟩
        · exact ⟨fs', c, by simpa [restoreFile, hget, hd] using hl, hg⟩
  · intro hc
    cases hget : fs.get (q ++ [n]) with
    | none => right; simp [restoreFile, hget, restoreFileLoad, hc]
    | some e =>
      cases e with
      | dir es => right; simp [restoreFile, hget, restoreFileLoad, hc]
      | link t => right; simp [restoreFile, hget, restoreFileLoad, hc]
      | file b y =>
        by_cases hd : H b = d
        · exact Or.inl ⟨b, y, rfl, hd⟩
        · right; simp [restoreFile, hget, hd, restoreFileLoad, hc]
  · intro h hc
    simp [restoreDir, h, hc]

example : restoreDir id toySerD toySerT toyDeT 3 [42] [] (.dir []) [[111]] = .error .missingBlob := by
  simp [restoreDir, hashDirAt, Entry.get, lookupE, Cas.get]

/-! ## Declared outputs must match the stored outputs -/

/-- **`validate_outputs`.** `LoadOutputs` proceeds iff the declared output definitions and the definitions of the
    stored outputs are equal as multisets (permutations of each other) — the Go code compares lengths and the sorted
    slices. -/
theorem validate_outputs (declared stored : List Bytes) :
    validateOutputs declared stored = true ↔ declared.Perm stored := by
  unfold validateOutputs
  constructor
  · intro h
    simp only [Bool.and_eq_true, beq_iff_eq] at h
    exact (sortBytesT_perm declared).symm.trans (h.2 ▸ sortBytesT_perm stored)
  · intro h
    simp only [Bool.and_eq_true, beq_iff_eq]
    exact ⟨h.length_eq, sortBytesT_eq_of_perm h⟩

example : validateOutputs [[2], [1], [1]] [[1], [2], [1]] = true ∧ validateOutputs [[1], [1]] [[1], [2]] = false := by decide

end Grog.C06
