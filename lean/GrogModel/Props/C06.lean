/-
  C06 — cached outputs are restored exactly, from any workspace state.
  Property theorems only; helper lemmas are in GrogModel/Lemmas/Tree*.lean.
  Model: GrogModel/Tree.lean (mirrors internal/output/handlers/{file,dir}_output_handler.go,
  internal/output/registry.go validateTargetResultOutputs, internal/caching/cas.go Write).
-/
import GrogModel.Lemmas.TreeFS
namespace Grog.C06
open Grog

/-! ## File outputs -/

/-- **File outputs are restored exactly (bytes and executable bit), from every prior state.**
    `fs0` is the workspace when the output was cached (a regular file `b`, executable bit `x`, at `q ++ [n]`);
    `fs` is *any* workspace state in which the restore runs, provided no ancestor of the destination is a
    non-directory (`Clear fs q`: ancestors may be absent) and the destination itself is absent or a regular
    file (any content, any mode); `cas` is *any* CAS holding the blob under its digest.
    The only use of the hash is the local-hash shortcut, hence the collision hypothesis relates just the
    cached content and the content currently at the destination. -/
theorem restoreFile_writeFile (H : Bytes → Digest) (fs0 fs : Entry) (q : Path) (n : Name) (id : Bytes)
    (b : Bytes) (x : Bool) (cas0 : Cas)
    (hsrc : fs0.get (q ++ [n]) = some (.file b x))
    (hpar : Clear fs q)
    (hdst : ∀ e, fs.get (q ++ [n]) = some e → ∃ b' x', e = .file b' x')
    (hH : ∀ b' x', fs.get (q ++ [n]) = some (.file b' x') → H b' = H b → b' = b) :
    ∃ cas1, writeFile H .fixed fs0 (q ++ [n]) id cas0 = .ok (.file id (H b) b.length x, cas1) ∧
      ∀ cas : Cas, cas.get (H b) = some b →
        ∃ fs', restoreFile H .fixed (H b) x cas fs (q ++ [n]) = .ok fs' ∧
          fs'.get (q ++ [n]) = some (.file b x) := by
  refine ⟨cas0.write (H b) b, by simp [writeFile, hsrc], ?_⟩
  intro cas hcas
  -- the load path, used from two places
  have load : ∃ fs', restoreFileLoad .fixed (H b) x cas fs (q ++ [n]) = .ok fs' ∧
      fs'.get (q ++ [n]) = some (.file b x) := by
    obtain ⟨fs1, hm, hdir, hbelow⟩ := mkdirAll_spec hpar
    obtain ⟨fs', hs, hg⟩ := setAt_spec (n := n) (.file b x) hdir
    refine ⟨fs', ?_, hg⟩
    have hp : parentOf (q ++ [n]) = q := by simp [parentOf]
    simp only [restoreFileLoad, hcas, hp, hm, createFile, hbelow n]
    cases hget : fs.get (q ++ [n]) with
    | none => simpa using hs
    | some e =>
      obtain ⟨b', x', rfl⟩ := hdst e hget
      simpa using hs
  cases hget : fs.get (q ++ [n]) with
  | none => simpa [restoreFile, hget] using load
  | some e =>
    obtain ⟨b', x', rfl⟩ := hdst e hget
    by_cases hd : H b' = H b
    · have hb : b' = b := hH b' x' hget hd
      subst hb
      by_cases hx : x' = x
      · subst hx
        exact ⟨fs, by simp [restoreFile, hget], hget⟩
      · obtain ⟨es, hpd⟩ := Entry.parent_dir_of_get hget
        obtain ⟨fs', hs, hg⟩ := setAt_spec (n := n) (.file b' x) ⟨es, hpd⟩
        exact ⟨fs', by simp [restoreFile, hget, hx, hs], hg⟩
    · simpa [restoreFile, hget, hd] using load

/-- the hypotheses of `restoreFile_writeFile` are satisfiable by a non-trivial state: an executable file two
    levels down, restored into an empty workspace (both parents missing), with `H := id`. -/
example :
    let fs0 : Entry := .dir [([112], .dir [([111], .dir [([102], .file [1, 2] true)])])]
    let fs : Entry := .dir []
    fs0.get ([[112], [111]] ++ [[102]]) = some (.file [1, 2] true) ∧ Clear fs [[112], [111]] ∧
      (restoreFile id .fixed [1, 2] true [([1, 2], [1, 2])] fs [[112], [111], [102]]).toOption.bind
        (·.nodeAt [[112], [111], [102]]) = some (.file [1, 2] true) := by
  refine ⟨rfl, by simp [Clear, lookupE], by decide⟩

/-- Regression witness for F-execbit (the handler as found): an executable file output, cached and restored
    into a workspace where it is absent, comes back without its executable bit. -/
theorem restoreFile_old_loses_exec_witness :
    let fs0 : Entry := .dir [([102], .file [1] true)]
    (writeFile id .old fs0 [[102]] [102] []).toOption = some (.file [102] [1] 1 false, [([1], [1])]) ∧
      (restoreFile id .old [1] false [([1], [1])] (.dir []) [[102]]).toOption.bind (·.nodeAt [[102]])
        = some (.file [1] false) := by
  decide

/-- Regression witness for F-mkdir (the handler as found): restoring `out/f` when `out/` has been deleted
    fails (the real build then silently re-executes the command). -/
theorem restoreFile_old_missing_parent_witness :
    (restoreFile id .old [1] false [([1], [1])] (.dir []) [[111], [102]]).toOption = none ∧
      (restoreFile id .fixed [1] false [([1], [1])] (.dir []) [[111], [102]]).toOption.bind
        (·.nodeAt [[111], [102]]) = some (.file [1] false) := by
  decide

end Grog.C06
