/-
  C16 — BUILD loaders agree across formats, are deterministic, and never crash.
  Property theorems only; helper lemmas are in GrogModel/Lemmas/Loader*.lean.
  Model: GrogModel/Loader.lean (makefile_loader.go, script_loader.go, enrich_package.go, load.go,
  model/build_node_map.go).  The JSON / YAML / Starlark parsers are third-party code and are not
  modelled (they are parameters / fuzzed by the check).
-/
import GrogModel.Lemmas.LoaderScan
namespace Grog.C16
open Grog Grog.Loader

/-- "# @grog\nfoo:\n" -/
def bareAnnotation : Bytes := [35, 32, 64, 103, 114, 111, 103, 10, 102, 111, 111, 58, 10]

/-- Every slice index the Makefile scanner of the current tree takes is in range: for every file
    and every behaviour of the YAML decoder the scan ends with a package or an ordinary error,
    never with the out-of-range panic. -/
theorem scanner_no_index_error (decode : Bytes → Option Annotation) (file : Bytes) :
    (loadMakefile decode .cur file).err ≠ some .indexPanic := by
  unfold loadMakefile
  have h := mkGo_cur_no_panic decode (scanLines file).1 .outside 0 [] false (by simp [ScanSt.Balanced])
  simp only
  split
  · exact h
  · split <;> simp_all

/-- Regression: before the fix a bare `# @grog` line directly above a target indexed
    `annotationLineNumbers[-1]` (whatever the YAML decoder does). -/
theorem makefile_panic_witness (decode : Bytes → Option Annotation) :
    (loadMakefile decode .v0 bareAnnotation).err = some .indexPanic := by
  rfl

/-- … and on the current tree the same file loads as one target `foo` running `make foo`. -/
theorem makefile_bare_annotation_loads (decode : Bytes → Option Annotation) :
    loadMakefile decode .cur bareAnnotation =
      ⟨[{ name := [102, 111, 111], command := sMake ++ [102, 111, 111] }], true, none⟩ := by
  rfl

end Grog.C16
