/-
  C16 — BUILD loaders agree across formats, are deterministic, and never crash.
  Property theorems only; helper lemmas are in GrogModel/Lemmas/Loader*.lean.
  Model: GrogModel/Loader.lean (makefile_loader.go, script_loader.go, enrich_package.go, load.go,
  model/build_node_map.go).  The JSON / YAML / Starlark parsers are third-party code and are not
  modelled (they are parameters / fuzzed by the check).
-/
import GrogModel.Lemmas.LoaderScan
import GrogModel.Lemmas.LoaderEnrich
import GrogModel.Lemmas.LoaderMerge
namespace Grog.C16
open Grog Grog.Loader

/-- "# @grog\nfoo:\n" -/
def bareAnnotation : Bytes := [35, 32, 64, 103, 114, 111, 103, 10, 102, 111, 111, 58, 10]

/-- Every slice index the Makefile scanner of the current tree takes is in range: for every file
    and every behaviour of the YAML decoder the scan ends with a package or an ordinary error,
    never with the out-of-range panic. -/
theorem scanner_no_index_error (decode : Bytes → Option Annotation) (file : Bytes) :
    (loadMakefile decode .cur file).err ≠ some .indexPanic := by
  unfold loadMakefile
  have h := mkGo_cur_no_panic decode (scanLines file).1 .outside 0 [] false (by simp [ScanSt.Balanced])
  simp only
  split
  · exact h
  · split <;> simp_all

/-- Regression: before the fix a bare `# @grog` line directly above a target indexed
    `annotationLineNumbers[-1]` (whatever the YAML decoder does). -/
theorem makefile_panic_witness (decode : Bytes → Option Annotation) :
    (loadMakefile decode .v0 bareAnnotation).err = some .indexPanic := by
  rfl

/-- … and on the current tree the same file loads as one target `foo` running `make foo`. -/
theorem makefile_bare_annotation_loads (decode : Bytes → Option Annotation) :
    loadMakefile decode .cur bareAnnotation =
      ⟨[{ name := [102, 111, 111], command := sMake ++ [102, 111, 111] }], true, none⟩ := by
  rfl

/-- … and so is every index of the script-annotation scanner. -/
theorem script_scanner_no_index_error (decode : Bytes → Option Annotation) (name file : Bytes) :
    (loadScript decode name file).err ≠ some .indexPanic := by
  unfold loadScript
  have h := scriptGo_no_panic decode (scanLines file).1 .outside 0 {} (by simp [ScanSt.Balanced])
  simp only
  split
  · rename_i e he
    intro c; injection c with c; subst c; exact h he
  · split <;> simp

/-- Both scanners are total functions of the file bytes (by construction: structural recursion over
    the lines) and end in a result record whose error, if any, is one of the three ordinary ones. -/
theorem scanner_total (decode : Bytes → Option Annotation) (name file : Bytes) :
    (∃ r, loadMakefile decode .cur file = r ∧
        (r.err = none ∨ (∃ a b, r.err = some (.yaml a b)) ∨ (∃ n, r.err = some (.noColon n)) ∨ r.err = some .tooLong)) ∧
    (∃ r, loadScript decode name file = r ∧
        (r.err = none ∨ (∃ a b, r.err = some (.yaml a b)) ∨ (∃ n, r.err = some (.noColon n)) ∨ r.err = some .tooLong)) := by
  refine ⟨⟨_, rfl, ?_⟩, ⟨_, rfl, ?_⟩⟩
  · have h := scanner_no_index_error decode file
    cases he : (loadMakefile decode .cur file).err with
    | none => exact Or.inl rfl
    | some e => cases e with
      | yaml a b => exact Or.inr (Or.inl ⟨a, b, rfl⟩)
      | noColon n => exact Or.inr (Or.inr (Or.inl ⟨n, rfl⟩))
      | tooLong => exact Or.inr (Or.inr (Or.inr rfl))
      | indexPanic => exact absurd he h
  · have h := script_scanner_no_index_error decode name file
    cases he : (loadScript decode name file).err with
    | none => exact Or.inl rfl
    | some e => cases e with
      | yaml a b => exact Or.inr (Or.inl ⟨a, b, rfl⟩)
      | noColon n => exact Or.inr (Or.inr (Or.inl ⟨n, rfl⟩))
      | tooLong => exact Or.inr (Or.inr (Or.inr rfl))
      | indexPanic => exact absurd he h

/-- A Makefile target carries every field of its annotation: when the annotation block decodes to `a`
    and the line after it is a make rule for `goal`, the scanner emits exactly the DTO with name
    (`a.name`, or the goal if empty), command `make <goal>` and the dependencies, inputs, outputs, tags,
    fingerprint, platforms, timeout and environment of `a` — the same DTO a BUILD.json/yaml/star file
    with those fields decodes to, hence (enrichment being a function of the DTO) the same target. -/
theorem makefile_fields (decode : Bytes → Option Annotation) (ls : List Bytes) (ns : List Nat)
    (targetLine : Bytes) (lineNo : Nat) (a : Annotation)
    (hne : (joinNL ls).length > 0) (hd : decode (joinNL ls) = some a)
    (hcolon : cColon ∈ trimSpace targetLine) :
    handleTarget decode .cur ls ns targetLine lineNo =
      .ok { name := if a.name ≠ [] then a.name else (trimSpace targetLine).takeWhile (· != cColon)
            command := sMake ++ (trimSpace targetLine).takeWhile (· != cColon)
            deps := a.deps, inputs := a.inputs, outputs := a.outputs, tags := a.tags
            fingerprint := a.fingerprint, platforms := a.platforms, timeout := a.timeout, env := a.env } := by
  unfold handleTarget
  simp [hne, hd, hcolon, mkTarget, bind, Except.bind, pure, Except.pure]

/-- an annotation using all nine fields -/
def fullAnnotation : Annotation :=
  { name := [120]
    deps := [[58, 100]]
    inputs := [[105]]
    tags := [[116]]
    fingerprint := [([107], [118])]
    env := [([69], [49])]
    timeout := [53, 115]
    platforms := some [[112]]
    outputs := [[111]] }

/-- "# @grog\n# x\nfoo: bar\n" -/
def annotatedRule : Bytes :=
  [35, 32, 64, 103, 114, 111, 103, 10, 35, 32, 120, 10, 102, 111, 111, 58, 32, 98, 97, 114, 10]

/-- hypotheses satisfiable, whole-file level: one annotated rule, all nine fields arrive in the DTO. -/
example :
    (loadMakefile (fun _ => some fullAnnotation) .cur annotatedRule).targets =
      [{ name := [120]
         command := sMake ++ [102, 111, 111]
         deps := [[58, 100]]
         inputs := [[105]]
         outputs := [[111]]
         tags := [[116]]
         fingerprint := [([107], [118])]
         env := [([69], [49])]
         timeout := [53, 115]
         platforms := some [[112]] }] := by decide

/-- Regression: before the fix the same file lost fingerprint, platforms, timeout and environment. -/
theorem makefile_fields_dropped_witness :
    (loadMakefile (fun _ => some fullAnnotation) .v0 annotatedRule).targets =
      [{ name := [120]
         command := sMake ++ [102, 111, 111]
         deps := [[58, 100]]
         inputs := [[105]]
         outputs := [[111]]
         tags := [[116]] }] := by decide

/-- Enrichment is a function of the package path, the DTO and of what the globs and timeout strings
    *occurring in the DTO* resolve to — nothing else (no clock, no iteration order, no worker identity). -/
theorem enrich_deterministic {g1 g2 : Bytes → Option (List Bytes)} {d1 d2 : Bytes → Option Nat}
    (pkg : Bytes) (dto : PackageDTO) (h : ∀ t, some t ∈ dto.targets → AgreeOn g1 g2 d1 d2 t) :
    enrich g1 d1 pkg dto = enrich g2 d2 pkg dto :=
  enrich_congr pkg dto h

example : AgreeOn (fun _ => some []) (fun p => if p = [42] then some [] else none) (fun _ => none) (fun _ => none)
    { name := [97], inputs := [[42]] } := by
  refine ⟨?_, rfl⟩
  intro i hi; simp at hi; subst hi; rfl

def tA : Target :=
  { label := ⟨[], [97]⟩
    command := []
    deps := []
    inputs := []
    unresolved := []
    excludes := []
    outputs := []
    binOutput := ⟨[], []⟩
    platforms := none
    checks := []
    tags := []
    fingerprint := []
    env := []
    timeout := 0 }

/-- The loaded graph does not depend on the order in which the BUILD files finish loading (hence not on
    directory-walk order or worker count): for every permutation of the per-file results, LoadPackages +
    BuildNodeMapFromPackages either fail in both orders or succeed in both with the same set of nodes.
    Duplicated labels are an error in every order. -/
theorem merge_order_independent {fs fs' : List (Bytes × Except Err Package)} (h : fs.Perm fs') :
    sameOutcome (loadWorkspace fs) (loadWorkspace fs') :=
  loadWorkspace_perm h

/-- a non-trivial instance: two files of one directory (a target, an alias of another name) and a
    failing file — both arrival orders of the good files load both nodes, any order with the failing
    file fails. -/
example :
    let pa : Package := ⟨[], [tA], []⟩
    let pb : Package := ⟨[], [], [⟨⟨[], [98]⟩, ⟨[], [97]⟩⟩]⟩
    (loadWorkspace [([], .ok pa), ([], .ok pb)]).toOption.map List.length = some 2 ∧
    (loadWorkspace [([], .ok pb), ([], .ok pa)]).toOption.map List.length = some 2 ∧
    (loadWorkspace [([], .ok pb), ([], .error .glob), ([], .ok pa)]).isOk = false ∧
    (loadWorkspace [([], .error .glob), ([], .ok pa), ([], .ok pb)]).isOk = false := by decide

/-- what "succeeds" means, independent of any order: all labels are pairwise distinct -/
theorem load_ok_iff_labels_distinct (l : List (Bytes × Package)) :
    (∃ ns, loadGraph l = .ok ns) ↔ ((allNodes l).map Node.label).Nodup :=
  loadGraph_ok_iff l

def pkgWithTarget : Package := ⟨[], [tA], []⟩
def pkgWithAlias : Package := ⟨[], [], [⟨⟨[], [97]⟩, ⟨[], [98]⟩⟩]⟩

/-- `mergePackages` alone is *not* symmetric (a target merged into a package that already has an alias of
    the same label is not noticed; the other order is) — the node map built right after catches it, which
    is why the theorem above is stated for load + node map. -/
theorem merge_asymmetry_witness :
    (mergePackages pkgWithTarget pkgWithAlias).isOk = true ∧
    (mergePackages pkgWithAlias pkgWithTarget).isOk = false ∧
    (loadGraph [([], pkgWithTarget), ([], pkgWithAlias)]).isOk = false ∧
    (loadGraph [([], pkgWithAlias), ([], pkgWithTarget)]).isOk = false := by decide

end Grog.C16
