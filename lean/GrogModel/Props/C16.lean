/-
  C16 — BUILD loaders agree across formats, are deterministic, and never crash.
  Property theorems only; helper lemmas are in GrogModel/Lemmas/Loader*.lean.
  Model: GrogModel/Loader.lean (makefile_loader.go, script_loader.go, the argument handling of the Starlark
  builtins in starlark_loader.go, enrich_package.go, load.go, model/build_node_map.go).

  What is and is not a theorem, per clause of the property:
    1. "same package in JSON / YAML / Starlark / Makefile loads to the same targets" — every front end produces a
       `PackageDTO` and `enrich` is one function of it. Proved for the modelled front ends: the Makefile scanner
       (`makefile_rules_load_in_order`: k annotated rules ⇒ k DTOs, in order, each with all nine annotation fields)
       and the Starlark builtin (`starlark_target_roundtrip`: `target(...)` is a left inverse of the canonical call
       for a DTO), combined in `makefile_starlark_agree`. JSON and YAML reach the DTO through the struct decoders of
       encoding/json and yaml.v3 (third-party, no model): for them the clause is tie-only (differential run).
    2. "independent of walk order and worker count" — `merge_order_independent`: for every arrival order of the
       per-file results. Assumed, not modelled: the per-file result does not depend on the schedule, lookup+merge
       under the mutex is atomic, the file set is fixed (tie: worker counts 1/2/16, shuffled creation orders).
    3. "malformed ⇒ error" — for the modelled malformations: `makefile_undecodable_annotation_is_error`,
       `makefile_annotated_non_rule_is_error`, `starlark_wrong_type_is_error`, `load_ok_iff_labels_distinct`
       (duplicate labels), plus the error constructors of `enrich`. Syntax errors of JSON/YAML/Starlark text: tie-only.
    4. "never a panic" — `scanner_no_index_error`, `script_scanner_no_index_error` (all slice indices of the two
       scanners); the Starlark conversions are total functions with an error for every non-string (no unchecked type
       assertion is reachable in the model; tie: type-level corruption stream). Third-party parsers: FUZZING only.
    5. "never a hang" — every function of the model is structurally recursive (accepted by Lean without fuel except
       `trimSpace`, whose fuel is the length), i.e. scanners / enrich / merge terminate. Starlark *evaluation* is not
       modelled: exploration only (open finding `starlark:unbounded-evaluation`).
-/
import GrogModel.Lemmas.LoaderScan
import GrogModel.Lemmas.LoaderEnrich
import GrogModel.Lemmas.LoaderMerge
import GrogModel.Lemmas.LoaderBlocks
import GrogModel.Lemmas.LoaderStar
import GrogModel.Lemmas.LoaderNames
import GrogModel.Props.C17
namespace Grog.C16
open Grog Grog.Loader

/-- "# @grog\nfoo:\n" -/
def bareAnnotation : Bytes := [35, 32, 64, 103, 114, 111, 103, 10, 102, 111, 111, 58, 10]

/-- Every slice index the Makefile scanner of the current tree takes is in range: for every file
    and every behaviour of the YAML decoder the scan ends with a package or an ordinary error,
    never with the out-of-range panic. -/
theorem scanner_no_index_error (decode : Bytes → Option Annotation) (file : Bytes) :
    (loadMakefile decode .cur file).err ≠ some .indexPanic := by
  unfold loadMakefile
  have h := mkGo_cur_no_panic decode (scanLines file).1 .outside 0 [] false (by simp [ScanSt.Balanced])
  simp only
  split
  · exact h
  · split <;> simp_all

/-- Regression: before the fix a bare `# @grog` line directly above a target indexed
    `annotationLineNumbers[-1]` (whatever the YAML decoder does). -/
theorem makefile_panic_witness (decode : Bytes → Option Annotation) :
    (loadMakefile decode .v0 bareAnnotation).err = some .indexPanic := by
  rfl

/-- … and on the current tree the same file loads as one target `foo` running `make foo`. -/
theorem makefile_bare_annotation_loads (decode : Bytes → Option Annotation) :
    loadMakefile decode .cur bareAnnotation =
      ⟨[{ name := [102, 111, 111], command := sMake ++ [102, 111, 111] }], true, none⟩ := by
  rfl

/-- … and so is every index of the script-annotation scanner. -/
theorem script_scanner_no_index_error (decode : Bytes → Option Annotation) (name file : Bytes) :
    (loadScript decode name file).err ≠ some .indexPanic := by
  unfold loadScript
  have h := scriptGo_no_panic decode (scanLines file).1 .outside 0 {} (by simp [ScanSt.Balanced])
  simp only
  split
  · rename_i e he
    intro c; injection c with c; subst c; exact h he
  · split <;> simp

/-- A Makefile target carries every field of its annotation: when the annotation block decodes to `a`
    and the line after it is a make rule for `goal`, the scanner emits exactly the DTO with name
    (`a.name`, or the goal if empty), command `make <goal>` and the dependencies, inputs, outputs, tags,
    fingerprint, platforms, timeout and environment of `a` — the same DTO a BUILD.json/yaml/star file
    with those fields decodes to, hence (enrichment being a function of the DTO) the same target. -/
theorem makefile_fields_of_one_rule (decode : Bytes → Option Annotation) (ls : List Bytes) (ns : List Nat)
    (targetLine : Bytes) (lineNo : Nat) (a : Annotation)
    (hne : (joinNL ls).length > 0) (hd : decode (joinNL ls) = some a)
    (hcolon : cColon ∈ trimSpace targetLine) :
    handleTarget decode .cur ls ns targetLine lineNo =
      .ok { name := if a.name ≠ [] then a.name else (trimSpace targetLine).takeWhile (· != cColon)
            command := sMake ++ (trimSpace targetLine).takeWhile (· != cColon)
            deps := a.deps, inputs := a.inputs, outputs := a.outputs, tags := a.tags
            fingerprint := a.fingerprint, platforms := a.platforms, timeout := a.timeout, env := a.env } := by
  unfold handleTarget
  simp [hne, hd, hcolon, mkTarget, bind, Except.bind, pure, Except.pure]

/-- an annotation using all nine fields -/
def fullAnnotation : Annotation :=
  { name := [120]
    deps := [[58, 100]]
    inputs := [[105]]
    tags := [[116]]
    fingerprint := [([107], [118])]
    env := [([69], [49])]
    timeout := [53, 115]
    platforms := some [[112]]
    outputs := [[111]] }

/-- "# @grog\n# x\nfoo: bar\n" -/
def annotatedRule : Bytes :=
  [35, 32, 64, 103, 114, 111, 103, 10, 35, 32, 120, 10, 102, 111, 111, 58, 32, 98, 97, 114, 10]

/-- hypotheses satisfiable, whole-file level: one annotated rule, all nine fields arrive in the DTO. -/
example :
    (loadMakefile (fun _ => some fullAnnotation) .cur annotatedRule).targets =
      [{ name := [120]
         command := sMake ++ [102, 111, 111]
         deps := [[58, 100]]
         inputs := [[105]]
         outputs := [[111]]
         tags := [[116]]
         fingerprint := [([107], [118])]
         env := [([69], [49])]
         timeout := [53, 115]
         platforms := some [[112]] }] := by decide

/-- Regression: before the fix the same file lost fingerprint, platforms, timeout and environment. -/
theorem makefile_fields_dropped_witness :
    (loadMakefile (fun _ => some fullAnnotation) .v0 annotatedRule).targets =
      [{ name := [120]
         command := sMake ++ [102, 111, 111]
         deps := [[58, 100]]
         inputs := [[105]]
         outputs := [[111]]
         tags := [[116]] }] := by decide

/-- Enrichment is a function of the package path, the DTO and of what the globs and timeout strings
    *occurring in the DTO* resolve to — nothing else (no clock, no iteration order, no worker identity). -/
theorem enrich_depends_only_on_occurring_parameters {g1 g2 : Bytes → Option (List Bytes)} {d1 d2 : Bytes → Option Nat}
    (pkg : Bytes) (dto : PackageDTO) (h : ∀ t, some t ∈ dto.targets → AgreeOn g1 g2 d1 d2 t) :
    enrich g1 d1 pkg dto = enrich g2 d2 pkg dto :=
  enrich_congr pkg dto h

example : AgreeOn (fun _ => some []) (fun p => if p = [42] then some [] else none) (fun _ => none) (fun _ => none)
    { name := [97], inputs := [[42]] } := by
  refine ⟨?_, rfl⟩
  intro i hi; simp at hi; subst hi; rfl

def tA : Target :=
  { label := ⟨[], [97]⟩
    command := []
    deps := []
    inputs := []
    unresolved := []
    excludes := []
    outputs := []
    binOutput := ⟨[], []⟩
    platforms := none
    checks := []
    tags := []
    fingerprint := []
    env := []
    timeout := 0 }

/-- The loaded graph does not depend on the order in which the BUILD files finish loading (hence not on
    directory-walk order or worker count): for every permutation of the per-file results, LoadPackages +
    BuildNodeMapFromPackages either fail in both orders or succeed in both with the same set of nodes.
    Duplicated labels are an error in every order. -/
theorem merge_order_independent {fs fs' : List (Bytes × Except Err Package)} (h : fs.Perm fs') :
    sameOutcome (loadWorkspace fs) (loadWorkspace fs') :=
  loadWorkspace_perm h

/-- a non-trivial instance: two files of one directory (a target, an alias of another name) and a
    failing file — both arrival orders of the good files load both nodes, any order with the failing
    file fails. -/
example :
    let pa : Package := ⟨[], [tA], []⟩
    let pb : Package := ⟨[], [], [⟨⟨[], [98]⟩, ⟨[], [97]⟩⟩]⟩
    (loadWorkspace [([], .ok pa), ([], .ok pb)]).toOption.map List.length = some 2 ∧
    (loadWorkspace [([], .ok pb), ([], .ok pa)]).toOption.map List.length = some 2 ∧
    (loadWorkspace [([], .ok pb), ([], .error .glob), ([], .ok pa)]).isOk = false ∧
    (loadWorkspace [([], .error .glob), ([], .ok pa), ([], .ok pb)]).isOk = false := by decide

/-- what "succeeds" means, independent of any order: all labels are pairwise distinct -/
theorem load_ok_iff_labels_distinct (l : List (Bytes × Package)) :
    (∃ ns, loadGraph l = .ok ns) ↔ ((allNodes l).map Node.label).Nodup :=
  loadGraph_ok_iff l

def pkgWithTarget : Package := ⟨[], [tA], []⟩
def pkgWithAlias : Package := ⟨[], [], [⟨⟨[], [97]⟩, ⟨[], [98]⟩⟩]⟩

/-- `mergePackages` alone is *not* symmetric (a target merged into a package that already has an alias of
    the same label is not noticed; the other order is) — the node map built right after catches it, which
    is why the theorem above is stated for load + node map. -/
theorem merge_asymmetry_witness :
    (mergePackages pkgWithTarget pkgWithAlias).isOk = true ∧
    (mergePackages pkgWithAlias pkgWithTarget).isOk = false ∧
    (loadGraph [([], pkgWithTarget), ([], pkgWithAlias)]).isOk = false ∧
    (loadGraph [([], pkgWithAlias), ([], pkgWithTarget)]).isOk = false := by decide

/-! ### file level: Makefile rules, Starlark calls, agreement -/

/-- k annotated rules ⇒ k DTOs, in order: if the lines of a Makefile are a sequence of well-formed annotated rules
    (marker line, comment lines, a rule line with a colon) whose annotation blocks decode, the loader returns exactly
    the list of `mkTarget annotation goal` — name (annotation name or goal), `make <goal>`, dependencies, inputs,
    outputs, tags, fingerprint, platforms, timeout, environment — in file order, "found", and no error. -/
theorem makefile_rules_load_in_order (decode : Bytes → Option Annotation) (file : Bytes)
    (bs : List (Block × Annotation))
    (hlines : scanLines file = (bs.flatMap (·.1.lines), false))
    (h : ∀ p ∈ bs, p.1.WF ∧ p.1.annotation decode = some p.2 ∧ cColon ∈ trimSpace p.1.rule) :
    loadMakefile decode .cur file = ⟨bs.map (fun p => mkTarget p.2 p.1.goal), !bs.isEmpty, none⟩ := by
  unfold loadMakefile
  rw [hlines]
  simp [mkGo_blocks decode bs h 0 [] false]

/-- satisfiable: the two-rule file "# @grog\n# x\nfoo: bar\n# @grog\n# x\nbaz:\n" -/
example :
    (loadMakefile (fun _ => some fullAnnotation) .cur (annotatedRule ++ [35, 32, 64, 103, 114, 111, 103, 10, 35, 32, 120, 10, 98, 97, 122, 58, 10])).targets.map (·.command)
      = [sMake ++ [102, 111, 111], sMake ++ [98, 97, 122]] := by decide

/-- malformed ⇒ error (1): an annotation block that does not decode makes the load fail, whatever follows -/
theorem makefile_undecodable_annotation_is_error (decode : Bytes → Option Annotation) (b : Block) (wf : b.WF)
    (ha : b.annotation decode = none) (rest : List Bytes) :
    ∃ x y, (mkGo decode .cur .outside 0 (b.lines ++ rest) [] false).err = some (.yaml x y) :=
  mkGo_block_yaml_error decode b wf ha 0 rest [] false

/-- malformed ⇒ error (2): an annotation block followed by a line that is not a rule makes the load fail -/
theorem makefile_annotated_non_rule_is_error (decode : Bytes → Option Annotation) (b : Block) (wf : b.WF) (a : Annotation)
    (ha : b.annotation decode = some a) (hcolon : cColon ∉ trimSpace b.rule) (rest : List Bytes) :
    ∃ x, (mkGo decode .cur .outside 0 (b.lines ++ rest) [] false).err = some (.noColon x) :=
  mkGo_block_no_colon_error decode b wf a ha hcolon 0 rest [] false

/-- The Starlark builtin `target(...)` is a left inverse of the canonical call describing a DTO: every field comes
    back byte for byte (lists and maps element-wise, `output_checks` through the dict form, `platforms` absent vs
    present). -/
theorem starlark_target_roundtrip (t : TargetDTO) : starTarget (kwargsOf t) = .ok t :=
  star_roundtrip t

/-- malformed ⇒ error (3): wrongly typed arguments are errors, not panics — e.g. `timeout = 30`, a list with a
    non-string element, a dict with a non-string value, an `output_checks` entry without `command`, an unknown or
    repeated keyword, a missing `name`. -/
theorem starlark_wrong_type_is_error :
    starTarget [(some .name, .str [97]), (some .timeout, .int 30)] = .error .wrongType ∧
    starTarget [(some .name, .str [97]), (some .deps, .list [.str [58, 98], .int 1])] = .error .elemType ∧
    starTarget [(some .name, .str [97]), (some .env, .dict [(.str [107], .bool true)])] = .error .elemType ∧
    starTarget [(some .name, .str [97]), (some .checks, .list [.dict []])] = .error .badCheck ∧
    starTarget [(some .name, .str [97]), (none, .str [])] = .error .unexpected ∧
    starTarget [(some .name, .str [97]), (some .name, .str [98])] = .error .unexpected ∧
    starTarget [(some .command, .str [97])] = .error .missing ∧
    starTarget [(some .name, .none)] = .error .wrongType := by
  refine ⟨?_, ?_, ?_, ?_, ?_, ?_, ?_, ?_⟩ <;> rfl

/-- Cross-format agreement for the two modelled front ends: the Makefile rule annotated with `a` for goal `g` and the
    Starlark call written out for the same fields produce the same DTO — hence, `enrich` being a function of the DTO,
    the same target. -/
theorem makefile_starlark_agree (decode : Bytes → Option Annotation) (b : Block) (wf : b.WF) (a : Annotation)
    (ha : b.annotation decode = some a) (hcolon : cColon ∈ trimSpace b.rule)
    (glob : Bytes → Option (List Bytes)) (dur : Bytes → Option Nat) (pkg : Bytes) :
    ∃ t, mkGo decode .cur .outside 0 b.lines [] false = ⟨[t], true, none⟩ ∧
         starTarget (kwargsOf (mkTarget a b.goal)) = .ok t ∧
         enrich glob dur pkg { targets := [some t] } = enrich glob dur pkg { targets := [some (mkTarget a b.goal)] } := by
  refine ⟨mkTarget a b.goal, ?_, star_roundtrip _, rfl⟩
  obtain ⟨n', hn'⟩ := mkGo_block decode b wf a ha hcolon 0 [] [] false
  have : b.lines = b.lines ++ [] := by simp
  rw [this, hn']; simp [mkGo]

/-! ### names of loaded labels -/

/-- Every label of a loaded package — targets and aliases, whatever format the package came from — has a name
    that passes `validateName` (non-empty, not `...`, only `[A-Za-z0-9_.-]`) and the package's own path
    (`"."` spelled `""`). A target or alias whose name cannot be written as a label is a load error
    (`Err.badName`). -/
theorem enrich_ok_valid_names {glob : Bytes → Option (List Bytes)} {dur : Bytes → Option Nat}
    {pkgPath : Bytes} {dto : PackageDTO} {p : Package} (h : enrich glob dur pkgPath dto = .ok p) :
    (∀ t ∈ p.targets, validName t.label.name = true ∧ t.label.pkg = normPkg pkgPath) ∧
    (∀ a ∈ p.aliases, validName a.label.name = true ∧ a.label.pkg = normPkg pkgPath) :=
  enrich_labels h

/-- Hence `C17.parse_print_label` applies to every label grog prints for a loaded package: printing it and
    parsing it again (from any current package) gives the same label back. Side condition: the package path
    contains no `:` (package paths are directory paths relative to the workspace root; a directory name with a
    colon is the one case excluded). -/
theorem loaded_labels_round_trip {glob : Bytes → Option (List Bytes)} {dur : Bytes → Option Nat}
    {pkgPath : Bytes} {dto : PackageDTO} {p : Package} (h : enrich glob dur pkgPath dto = .ok p)
    (hpath : cColon ∉ normPkg pkgPath) (cur : Bytes) :
    ∀ n ∈ p.nodes, parseLabel cur n.label.toBytes = some n.label := by
  obtain ⟨ht, ha⟩ := enrich_labels h
  intro n hn
  simp only [Package.nodes, List.mem_append, List.mem_map] at hn
  rcases hn with ⟨t, htm, rfl⟩ | ⟨a, ham, rfl⟩
  · obtain ⟨hv, hp⟩ := ht t htm
    exact Grog.C17.parse_print_label cur t.label (by rw [hp]; exact hpath) hv
  · obtain ⟨hv, hp⟩ := ha a ham
    exact Grog.C17.parse_print_label cur a.label (by rw [hp]; exact hpath) hv

/-- satisfiable, and the guard bites: a target named "x:y" is a load error, one named "x.y" loads. -/
example :
    (enrich (fun _ => some []) (fun _ => none) [112] { targets := [some { name := [120, 58, 121] }] }).toOption.isNone = true ∧
    (enrich (fun _ => some []) (fun _ => none) [112] { targets := [some { name := [120, 46, 121] }] }).toOption.isSome = true := by
  decide

end Grog.C16
