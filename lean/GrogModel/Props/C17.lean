/-
  C17 — labels and patterns follow the documented algebra.
  Property theorems only; helper lemmas are in GrogModel/Lemmas/Label.lean.
  Model: GrogModel/Label.lean (mirrors internal/label/target_label.go, target_pattern.go).
-/
import GrogModel.Lemmas.Label
namespace Grog.C17
open Grog

/-- Parsing a printed label returns the same label (for every current package). The two hypotheses
    are exactly what `ParseTargetLabel` itself guarantees of the labels it produces from `//`-labels:
    the package part stops at the first colon and the name passed `validateName`. -/
theorem parse_print_label (cur : Bytes) (l : Label)
    (hp : cColon ∉ l.pkg) (hn : validName l.name = true) :
    parseLabel cur l.toBytes = some l := by
  have hne : l.name.isEmpty = false := by
    unfold validName at hn; cases h : l.name.isEmpty <;> simp_all
  show parseLabel cur (47 :: 47 :: (l.pkg ++ cColon :: l.name)) = some l
  simp only [parseLabel, takeWhile_colon_append hp, dropWhile_colon_append hp, hne, hn]
  simp

example : parseLabel [120] (Label.toBytes ⟨[97, 47, 98], [99]⟩) = some ⟨[97, 47, 98], [99]⟩ := by decide

/-- every label produced by the parser from an absolute label string satisfies the hypotheses of
    `parse_print_label` (so the round trip applies to all of them). -/
theorem parsed_label_ok (cur body : Bytes) (l : Label)
    (h : parseLabel cur (47 :: 47 :: body) = some l) :
    cColon ∉ l.pkg ∧ validName l.name = true := by
  simp only [parseLabel] at h
  split at h
  · split at h
    · simp at h
    · split at h
      · simp at h
      · simp at h; subst h
        refine ⟨colon_notMem_takeWhile _, ?_⟩
        simp_all
  · split at h
    · simp at h
    · split at h
      · simp at h
      · simp at h; subst h
        refine ⟨colon_notMem_takeWhile _, ?_⟩
        simp_all

/-- `//a/b` means `//a/b:b`: the shorthand and the explicit spelling parse identically (including
    when both are rejected). -/
theorem shorthand (cur p : Bytes) (hp : cColon ∉ p) :
    parseLabel cur (slash2 ++ p) = parseLabel cur (slash2 ++ p ++ cColon :: lastComp p) := by
  show parseLabel cur (47 :: 47 :: p) = parseLabel cur (47 :: 47 :: (p ++ cColon :: lastComp p))
  simp only [parseLabel, takeWhile_colon_append hp, dropWhile_colon_append hp,
    takeWhile_colon_self hp, dropWhile_colon_self hp]
  cases hpe : p with
  | nil => simp [lastComp]
  | cons a t =>
    cases hv : validName (lastComp (a :: t))
    · simp
    · have : (lastComp (a :: t)).isEmpty = false := by
        unfold validName at hv; cases h : (lastComp (a :: t)).isEmpty <;> simp_all
      simp [this]

/-- `CanBeShortened` is exactly "the shorthand spelling denotes this label": for a label the parser can produce
    (no colon in the package, valid name) in a non-root package, `//pkg` parses to the label iff the name is the last
    element of the package path.  So `$(bin //tools/lint)` can only ever refer to `//tools/lint:lint`, never to another
    target of that package whose name merely ends the same way. -/
theorem canBeShortened_iff (cur : Bytes) (l : Label) (hp : cColon ∉ l.pkg) (hn : validName l.name = true)
    (hne : l.pkg ≠ []) :
    l.canBeShortened = true ↔ parseLabel cur l.shortBytes = some l := by
  have hs := shorthand cur l.pkg hp
  unfold Label.canBeShortened Label.shortBytes
  rw [hs]
  constructor
  · intro h
    have e : lastComp l.pkg = l.name := by simpa using (beq_iff_eq.mp h).symm
    rw [e]
    exact parse_print_label cur l hp hn
  · intro h
    -- the explicit spelling `//pkg:last(pkg)` parses to ⟨pkg, last(pkg)⟩ whenever it parses at all
    have hx : parseLabel cur (slash2 ++ l.pkg ++ cColon :: lastComp l.pkg) = some l := h
    have : parseLabel cur (47 :: 47 :: (l.pkg ++ cColon :: lastComp l.pkg)) = some l := hx
    simp only [parseLabel, takeWhile_colon_append hp, dropWhile_colon_append hp] at this
    split at this
    · simp at this
    · split at this
      · simp at this
      · simp at this
        have : lastComp l.pkg = l.name := by
          have := congrArg Label.name this; simpa using this
        simp [this]

example : (Label.mk [116, 47, 97, 108] [108]).canBeShortened = false := by decide
example : (Label.mk [116, 47, 108] [108]).canBeShortened = true := by decide

/-- `:x` resolves against the current package (the root package is spelled "" not "."). -/
theorem relative (cur x : Bytes) :
    parseLabel cur (cColon :: x) =
      if validName x then some ⟨if cur = [cDot] then [] else cur, x⟩ else none := by
  show parseLabel cur (58 :: x) = _
  simp only [parseLabel]
  cases hv : validName x
  · cases x <;> simp
  · have : x.isEmpty = false := by
      unfold validName at hv; cases h : x.isEmpty <;> simp_all
    simp [this]

/-- a package path as it occurs in a workspace: no colon, no `...`, no trailing slash -/
def PkgOK (p : Bytes) : Prop :=
  cColon ∉ p ∧ findDots p = none ∧ p.getLast? ≠ some cSlash

theorem parse_recursive (cur p : Bytes) (hp : PkgOK p) (hne : p ≠ []) :
    parsePattern cur (slash2 ++ p ++ cSlash :: dots3) = some ⟨p, [], true⟩ := by
  obtain ⟨h1, h2, h3⟩ := hp
  have hc : cColon ∉ p ++ cSlash :: dots3 := by
    intro h; rcases List.mem_append.mp h with h | h
    · exact h1 h
    · revert h; decide
  show parsePatternWith normPrefix cur (47 :: 47 :: (p ++ cSlash :: dots3)) = _
  simp only [parsePatternWith, takeWhile_colon_self hc, dropWhile_colon_self hc,
    findDots_append_slash_dots p h2]
  have hl : ¬ (p ++ cSlash :: dots3).length > p.length + 1 + 3 := by simp [dots3]
  simp only [hl, take_length_succ_append, normPrefix_append_slash h3]
  simp

/-- `//p/...` matches exactly the labels in package `p` and in packages below it at path-component
    boundaries. -/
theorem recursive_matches_iff (cur p : Bytes) (hp : PkgOK p) (hne : p ≠ []) (l : Label) :
    ∃ pat, parsePattern cur (slash2 ++ p ++ cSlash :: dots3) = some pat ∧
      (pat.matches l = true ↔ (l.pkg = p ∨ (p ++ [cSlash]) <+: l.pkg)) := by
  refine ⟨_, parse_recursive cur p hp hne, ?_⟩
  have : p.isEmpty = false := by cases p <;> simp_all
  simp [Pattern.matches, this]

/-- … never a sibling such as `p2`: a package that extends `p` by a byte other than `/` (and anything
    after it) is not matched by `//p/...`. -/
theorem recursive_never_sibling (cur p : Bytes) (hp : PkgOK p) (hne : p ≠ []) (c : UInt8) (rest n : Bytes)
    (hc : c ≠ cSlash) :
    ∃ pat, parsePattern cur (slash2 ++ p ++ cSlash :: dots3) = some pat ∧
      pat.matches ⟨p ++ c :: rest, n⟩ = false := by
  obtain ⟨pat, h1, h2⟩ := recursive_matches_iff cur p hp hne ⟨p ++ c :: rest, n⟩
  refine ⟨pat, h1, ?_⟩
  rw [Bool.eq_false_iff]
  intro hm
  rcases h2.mp hm with h | h
  · have := congrArg List.length h; simp at this
  · simp only [List.prefix_append_right_inj, List.cons_prefix_cons] at h
    exact hc h.1.symm

example : PkgOK [112] ∧ ([112] : Bytes) ≠ [] := by
  refine ⟨⟨by decide, by decide, by decide⟩, by decide⟩

/-- `//p:all` matches exactly package `p` (p may be the root package ""). -/
theorem all_matches_iff (cur p : Bytes) (hp : PkgOK p) (l : Label) :
    ∃ pat, parsePattern cur (slash2 ++ p ++ cColon :: allBytes) = some pat ∧
      (pat.matches l = true ↔ l.pkg = p) := by
  obtain ⟨h1, h2, h3⟩ := hp
  refine ⟨⟨p, allBytes, false⟩, ?_, ?_⟩
  · show parsePatternWith normPrefix cur (47 :: 47 :: (p ++ cColon :: allBytes)) = _
    simp only [parsePatternWith, takeWhile_colon_append h1, dropWhile_colon_append h1, h2]
    simp [allBytes, normPrefix, trimSlashes_eq_self h3]
  · simp [Pattern.matches]

/-- a name suffix restricts by exact target name -/
theorem name_exact (cur p n : Bytes) (hp : PkgOK p) (hn : n ≠ []) (hall : n ≠ allBytes) (hd : n ≠ dots3)
    (l : Label) :
    ∃ pat, parsePattern cur (slash2 ++ p ++ cColon :: n) = some pat ∧
      (pat.matches l = true ↔ (l.pkg = p ∧ l.name = n)) := by
  obtain ⟨h1, h2, h3⟩ := hp
  have hne : n.isEmpty = false := by cases n <;> simp_all
  refine ⟨⟨p, n, false⟩, ?_, ?_⟩
  · show parsePatternWith normPrefix cur (47 :: 47 :: (p ++ cColon :: n)) = _
    simp only [parsePatternWith, takeWhile_colon_append h1, dropWhile_colon_append h1, h2]
    simp [hne, normPrefix, trimSlashes_eq_self h3]
  · simp [Pattern.matches, hne, hall, hd]

/-- `//...` matches every label -/
theorem root_recursive_matches_all (cur : Bytes) (l : Label) :
    ∃ pat, parsePattern cur (slash2 ++ dots3) = some pat ∧ pat.matches l = true := by
  refine ⟨⟨[], [], true⟩, ?_, ?_⟩
  · show parsePatternWith normPrefix cur (47 :: 47 :: dots3) = _
    simp [parsePatternWith, dots3, findDots, List.isPrefixOf, normPrefix, trimSlashes, cColon]
  · simp [Pattern.matches]

/-- `//...:n` — the recursive pattern at the workspace root keeps its name filter: it matches exactly the
    targets named `n`, in every package -/
theorem root_recursive_name_exact (cur n : Bytes) (hn : n ≠ []) (hall : n ≠ allBytes) (hd : n ≠ dots3) (l : Label) :
    ∃ pat, parsePattern cur (slash2 ++ dots3 ++ cColon :: n) = some pat ∧
      (pat.matches l = true ↔ l.name = n) := by
  have hnn : n.isEmpty = false := by cases n <;> simp_all
  have hc : cColon ∉ dots3 := by decide
  refine ⟨⟨[], n, true⟩, ?_, ?_⟩
  · show parsePatternWith normPrefix cur (47 :: 47 :: (dots3 ++ cColon :: n)) = _
    simp only [parsePatternWith, takeWhile_colon_append hc, dropWhile_colon_append hc]
    simp [hnn, dots3, findDots, List.isPrefixOf, normPrefix, trimSlashes]
  · simp [Pattern.matches, hnn, hall, hd]

/-- `ParsePatternsOrMatchAll`: the arguments are parsed one by one and nothing else happens to them — the
    result is the list of the parsed patterns, in order (no pattern is dropped, merged or widened), except that
    no argument at all means the single match-all pattern; one unparsable argument is an error. -/
theorem parsePatterns_spec (cur : Bytes) (ss : List Bytes) :
    (parsePatterns cur ss = none ↔ ∃ s ∈ ss, parsePattern cur s = none) ∧
    (∀ ps, parsePatterns cur ss = some ps →
      (ss = [] ∧ ps = [matchAllPattern]) ∨
      (ss ≠ [] ∧ ps.length = ss.length ∧ ∀ i (h : i < ss.length) (h' : i < ps.length), parsePattern cur ss[i] = some ps[i])) := by
  obtain ⟨h1, h2⟩ := mapM_option_spec (parsePattern cur) ss
  unfold parsePatterns
  cases hm : ss.mapM (parsePattern cur) with
  | none =>
    refine ⟨by simpa using h1.mp hm, ?_⟩
    intro ps h; simp at h
  | some qs =>
    have hne : ¬ ∃ s ∈ ss, parsePattern cur s = none := fun h => by simp [h1.mpr h] at hm
    obtain ⟨hl, hi⟩ := h2 qs hm
    constructor
    · constructor
      · intro h; cases qs <;> simp at h
      · intro h; exact absurd h hne
    · intro ps h
      cases qs with
      | nil =>
        left
        simp at h
        exact ⟨List.length_eq_zero_iff.mp hl.symm, h.symm⟩
      | cons q r =>
        right
        simp at h; subst h
        refine ⟨?_, hl, hi⟩
        intro e; subst e; simp at hl

/-- the selection a pattern set denotes is exactly the union of what its arguments denote: a label is matched
    by the set `ParsePatternsOrMatchAll` returns iff it is matched by the pattern parsed from one of the
    arguments (every label when there is no argument) -/
theorem parsePatterns_matches_iff (cur : Bytes) (ss : List Bytes) (ps : List Pattern)
    (h : parsePatterns cur ss = some ps) (l : Label) :
    matchesAny ps l = true ↔ (ss = [] ∨ ∃ s ∈ ss, ∃ p, parsePattern cur s = some p ∧ p.matches l = true) := by
  rcases (parsePatterns_spec cur ss).2 ps h with ⟨he, hp⟩ | ⟨hne, hlen, hi⟩
  · subst he; subst hp
    simp [matchesAny, matchAllPattern, Pattern.matches]
  · simp only [hne, false_or, matchesAny, List.any_eq_true]
    constructor
    · rintro ⟨p, hp, hm⟩
      obtain ⟨i, hi', rfl⟩ := List.getElem_of_mem hp
      exact ⟨ss[i]'(hlen ▸ hi'), List.getElem_mem _, ps[i], hi i (hlen ▸ hi') hi', hm⟩
    · rintro ⟨s, hs, p, hp, hm⟩
      obtain ⟨i, hi', rfl⟩ := List.getElem_of_mem hs
      have := hi i hi' (hlen ▸ hi')
      rw [hp] at this
      injection this with e
      exact ⟨ps[i]'(hlen ▸ hi'), List.getElem_mem _, e ▸ hm⟩

/-- `TargetPatternFromLabel` (what `grog run` builds its selection from) matches exactly that label -/
theorem patternFromLabel_matches_iff (l t : Label) (hn : l.name ≠ []) (hall : l.name ≠ allBytes) (hd : l.name ≠ dots3) :
    (patternFromLabel l).matches t = true ↔ t = l := by
  have hnn : l.name.isEmpty = false := by cases h : l.name <;> simp_all
  cases t; cases l
  simp_all [patternFromLabel, Pattern.matches]

example : parsePatterns [] [[47, 47, 46, 46, 46, 58, 120], [47, 47, 97]] = some [⟨[], [120], true⟩, ⟨[97], [97], false⟩] := by decide
example : matchesAny [⟨[], [120], true⟩, ⟨[97], [97], false⟩] ⟨[98], [121]⟩ = false := by decide
example : parsePatterns [97] [] = some [matchAllPattern] := by decide

/-- `//p/...:n` restricts the recursive pattern by exact target name -/
theorem recursive_name_exact (cur p n : Bytes) (hp : PkgOK p) (hne : p ≠ []) (hn : n ≠ []) (hall : n ≠ allBytes)
    (hd : n ≠ dots3) (l : Label) :
    ∃ pat, parsePattern cur (slash2 ++ p ++ cSlash :: dots3 ++ cColon :: n) = some pat ∧
      (pat.matches l = true ↔ ((l.pkg = p ∨ (p ++ [cSlash]) <+: l.pkg) ∧ l.name = n)) := by
  obtain ⟨h1, h2, h3⟩ := hp
  have hnn : n.isEmpty = false := by cases n <;> simp_all
  have hpe : p.isEmpty = false := by cases p <;> simp_all
  have hc : cColon ∉ p ++ cSlash :: dots3 := by
    intro h; rcases List.mem_append.mp h with h | h
    · exact h1 h
    · revert h; decide
  have hl : ¬ (p ++ cSlash :: dots3).length > p.length + 1 + 3 := by simp [dots3]
  refine ⟨⟨p, n, true⟩, ?_, ?_⟩
  · show parsePatternWith normPrefix cur (47 :: 47 :: ((p ++ cSlash :: dots3) ++ cColon :: n)) = _
    simp only [parsePatternWith, takeWhile_colon_append hc, dropWhile_colon_append hc,
      findDots_append_slash_dots _ h2]
    simp only [hl, take_length_succ_append, normPrefix_append_slash h3]
    simp [hnn]
  · simp [Pattern.matches, hpe, hnn, hall, hd]

/-- a relative pattern `:x` matches exactly the targets of the current package named `x`
    (every target of it for `:all` and `:...`); it is never recursive -/
theorem relative_matches_iff (cur pre x : Bytes) (hpre : cColon ∉ pre) (hs : pre = [] ∨ ¬ slash2 <+: pre)
    (hx : x = dots3 ∨ validName x = true) (l : Label) :
    ∃ pat, parsePattern cur (pre ++ cColon :: x) = some pat ∧
      (pat.matches l = true ↔ (l.pkg = cur ∧ (x = allBytes ∨ x = dots3 ∨ l.name = x))) := by
  have hxne : x.isEmpty = false := by
    rcases hx with rfl | hv
    · rfl
    · unfold validName at hv; cases h : x.isEmpty <;> simp_all
  have hcond : (x != dots3 && !validName x) = false := by
    rcases hx with rfl | hv
    · simp
    · simp [hv]
  refine ⟨⟨cur, x, false⟩, ?_, ?_⟩
  · unfold parsePattern parsePatternWith
    have hno : ∀ body, pre ++ cColon :: x ≠ 47 :: 47 :: body := by
      intro body h
      rcases hs with rfl | hs
      · simp [cColon] at h
      · apply hs
        match pre, h with
        | a :: b :: r, h =>
          simp only [List.cons_append, List.cons.injEq] at h
          obtain ⟨rfl, rfl, _⟩ := h
          exact ⟨r, rfl⟩
        | [a], h => simp [cColon] at h
        | [], h => simp [cColon] at h
    split
    · rename_i body heq; exact absurd heq (hno body)
    · simp only [dropWhile_colon_append hpre, hcond]
      simp
  · simp [Pattern.matches, hxne]
    intro _
    constructor
    · rintro ((h | h) | h)
      · exact Or.inl h
      · exact Or.inr (Or.inl h)
      · exact Or.inr (Or.inr h)
    · rintro (h | h | h)
      · exact Or.inl (Or.inl h)
      · exact Or.inl (Or.inr h)
      · exact Or.inr h

/-- pattern shorthand: `//p` parses exactly like `//p:` followed by the last component of `p`
    (so `//x/all` is `//x/all:all`, every target of package `x/all`) -/
theorem pattern_shorthand (cur p : Bytes) (hp : cColon ∉ p) (hd : findDots p = none) :
    parsePattern cur (slash2 ++ p) = parsePattern cur (slash2 ++ p ++ cColon :: lastComp p) := by
  show parsePatternWith normPrefix cur (47 :: 47 :: p) = parsePatternWith normPrefix cur (47 :: 47 :: (p ++ cColon :: lastComp p))
  simp only [parsePatternWith, takeWhile_colon_append hp, dropWhile_colon_append hp,
    takeWhile_colon_self hp, dropWhile_colon_self hp, hd]
  cases hl : (lastComp p).isEmpty <;> simp [hl]

/-- what every pattern produced by the parser satisfies -/
def PatOK (p : Pattern) : Prop :=
  PkgOK p.pfx ∧ (p.recursive = false → p.tp ≠ [])

theorem parsed_pattern_ok (cur s : Bytes) (p : Pattern) (hc : PkgOK cur)
    (h : parsePattern cur s = some p) : PatOK p := by
  unfold parsePattern parsePatternWith at h
  split at h
  · rename_i body
    simp only at h
    split at h
    · simp at h
    · rename_i hcol
      have hnc := colon_notMem_takeWhile body
      split at h
      · rename_i i hi
        split at h
        · simp at h
        · simp at h; subst h
          have hpre : ∃ r, body.takeWhile (· != cColon) = (body.takeWhile (· != cColon)).take i ++ r :=
            ⟨_, (List.take_append_drop i _).symm⟩
          refine ⟨⟨?_, ?_, ?_⟩, by simp⟩
          · apply colon_notMem_trimSlashes
            intro hm; exact hnc (List.mem_of_mem_take hm)
          · exact findDots_trimSlashes (findDots_take_none hi)
          · exact trimSlashes_getLast _
      · rename_i hnd
        split at h
        · simp at h; subst h
          refine ⟨⟨colon_notMem_trimSlashes hnc, findDots_trimSlashes hnd, trimSlashes_getLast _⟩, ?_⟩
          intro _
          simp only
          intro he
          simp_all
        · split at h
          · simp at h
          · simp at h; subst h
            refine ⟨⟨colon_notMem_trimSlashes hnc, findDots_trimSlashes hnd, trimSlashes_getLast _⟩, ?_⟩
            intro _; simp only; intro he; simp_all
  · split at h
    · simp at h
    · rename_i t _
      split at h
      · simp at h
      · rename_i hv
        simp at h; subst h
        refine ⟨hc, ?_⟩
        intro _; simp only; intro he; subst he
        simp [validName, dots3] at hv

theorem print_parse_ok (cur : Bytes) (p : Pattern) (hp : PatOK p) :
    parsePattern cur p.toBytes = some p := by
  obtain ⟨⟨h1, h2, h3⟩, h4⟩ := hp
  obtain ⟨pfx, tp, r⟩ := p
  simp only at h1 h2 h3 h4
  cases r with
  | false =>
    have htp := h4 rfl
    have hne : tp.isEmpty = false := by cases tp <;> simp_all
    show parsePatternWith normPrefix cur (Pattern.toBytes ⟨pfx, tp, false⟩) = _
    have : Pattern.toBytes ⟨pfx, tp, false⟩ = 47 :: 47 :: (pfx ++ cColon :: tp) := by
      simp [Pattern.toBytes, hne, slash2]
    rw [this]
    simp only [parsePatternWith, takeWhile_colon_append h1, dropWhile_colon_append h1, h2]
    simp [hne, normPrefix, trimSlashes_eq_self h3]
  | true =>
    show parsePatternWith normPrefix cur (Pattern.toBytes ⟨pfx, tp, true⟩) = _
    by_cases hpe : pfx = []
    · subst hpe
      cases htp : tp with
      | nil =>
        have : Pattern.toBytes ⟨[], [], true⟩ = 47 :: 47 :: dots3 := by
          simp [Pattern.toBytes, slash2]
        rw [this]
        simp [parsePatternWith, dots3, findDots, List.isPrefixOf, normPrefix, trimSlashes, cColon]
      | cons a t =>
        have : Pattern.toBytes ⟨[], a :: t, true⟩ = 47 :: 47 :: (dots3 ++ cColon :: (a :: t)) := by
          simp [Pattern.toBytes, slash2]
        rw [this]
        have hd : cColon ∉ dots3 := by decide
        simp only [parsePatternWith, takeWhile_colon_append hd, dropWhile_colon_append hd]
        simp [dots3, findDots, List.isPrefixOf, normPrefix, trimSlashes]
    · have hpne : pfx.isEmpty = false := by cases pfx <;> simp_all
      have hc : cColon ∉ pfx ++ cSlash :: dots3 := by
        intro h; rcases List.mem_append.mp h with h | h
        · exact h1 h
        · revert h; decide
      have hl : ¬ (pfx ++ cSlash :: dots3).length > pfx.length + 1 + 3 := by simp [dots3]
      cases htp : tp with
      | nil =>
        have : Pattern.toBytes ⟨pfx, [], true⟩ = 47 :: 47 :: (pfx ++ cSlash :: dots3) := by
          simp [Pattern.toBytes, slash2, hpne]
        rw [this]
        simp only [parsePatternWith, takeWhile_colon_self hc, dropWhile_colon_self hc,
          findDots_append_slash_dots _ h2]
        simp only [hl, take_length_succ_append, normPrefix_append_slash h3]
        simp
      | cons a t =>
        have : Pattern.toBytes ⟨pfx, a :: t, true⟩ =
            47 :: 47 :: ((pfx ++ cSlash :: dots3) ++ cColon :: (a :: t)) := by
          simp [Pattern.toBytes, slash2, hpne]
        rw [this]
        simp only [parsePatternWith, takeWhile_colon_append hc, dropWhile_colon_append hc,
          findDots_append_slash_dots _ h2]
        simp only [hl, take_length_succ_append, normPrefix_append_slash h3]
        simp

/-- Printing then re-parsing a pattern gives back the *same* pattern, hence (corollary below) preserves
    the set of labels it matches. `hc` is the assumption on the current package named in DESIGN.md. -/
theorem print_parse_pattern (cur s : Bytes) (p : Pattern) (hc : PkgOK cur)
    (h : parsePattern cur s = some p) :
    parsePattern cur p.toBytes = some p :=
  print_parse_ok cur p (parsed_pattern_ok cur s p hc h)

theorem print_parse_pattern_matches (cur s : Bytes) (p : Pattern) (hc : PkgOK cur)
    (h : parsePattern cur s = some p) :
    ∃ p', parsePattern cur p.toBytes = some p' ∧ ∀ l, p'.matches l = p.matches l :=
  ⟨p, print_parse_pattern cur s p hc h, fun _ => rfl⟩

example : PkgOK [120, 47, 121] := ⟨by decide, by decide, by decide⟩
example : parsePattern [] [47, 47, 97, 47, 47, 58, 120] = some ⟨[97], [120], false⟩ := by decide

/-- Regression witness for the defect repaired by the `fix:` commit (F-dslash): with the old
    normalisation (one trailing slash removed) `//a//:x` prints as `//a/:x`, which re-parses to a
    pattern that no longer matches the label `//a/:x`. -/
theorem double_slash_witness :
    ∃ p p' l, parsePatternOld [] [47, 47, 97, 47, 47, 58, 120] = some p ∧
      parsePatternOld [] p.toBytes = some p' ∧ p.matches l ≠ p'.matches l :=
  ⟨⟨[97, 47], [120], false⟩, ⟨[97], [120], false⟩, ⟨[97, 47], [120]⟩, by decide, by decide, by decide⟩

/-! ### Algebra of pattern sets and of label spellings (added in the continuation round) -/

/-- A label has one canonical spelling: two well-formed labels that print the same are the same label.
    (Consequence of the round trip; the hypotheses are those `parsed_label_ok` establishes.) -/
theorem label_print_injective (l₁ l₂ : Label)
    (hp₁ : cColon ∉ l₁.pkg) (hn₁ : validName l₁.name = true)
    (hp₂ : cColon ∉ l₂.pkg) (hn₂ : validName l₂.name = true)
    (h : l₁.toBytes = l₂.toBytes) : l₁ = l₂ := by
  have h₁ := parse_print_label [] l₁ hp₁ hn₁
  have h₂ := parse_print_label [] l₂ hp₂ hn₂
  rw [h, h₂] at h₁
  exact (Option.some.inj h₁).symm

example : (Label.mk [97] [98]).toBytes ≠ (Label.mk [97, 58] [98]).toBytes := by decide

/-- A pattern set is the union of its patterns: matching `ps ++ qs` is matching `ps` or matching `qs`
    (so the order and grouping of command-line patterns cannot change what is selected). -/
theorem matchesAny_append (ps qs : List Pattern) (t : Label) :
    matchesAny (ps ++ qs) t = (matchesAny ps t || matchesAny qs t) := by
  simp [matchesAny, List.any_append]

/-- … and is insensitive to the order of the patterns. -/
theorem matchesAny_perm (ps qs : List Pattern) (t : Label) (h : ps.Perm qs) :
    matchesAny ps t = matchesAny qs t := by
  simp only [matchesAny]
  induction h with
  | nil => rfl
  | cons x _ ih => simp [List.any_cons, ih]
  | swap x y l => simp only [List.any_cons]; cases x.matches t <;> cases y.matches t <;> rfl
  | trans _ _ ih₁ ih₂ => exact ih₁.trans ih₂

/-- the match-all pattern (no argument on the command line) matches every label -/
theorem matchAll_matches (t : Label) : matchAllPattern.matches t = true := by
  simp [matchAllPattern, Pattern.matches]

/-- the pattern made from a label matches that label -/
theorem patternFromLabel_matches_self (l : Label) : (patternFromLabel l).matches l = true := by
  simp [patternFromLabel, Pattern.matches]

/-- Recursive patterns are monotone in their prefix: if `q` is `p` or lies below `p` (`p/` is a prefix of
    `q`), everything `//q/...:tp` matches is matched by `//p/...:tp`. -/
theorem recursive_subsumes (p q tp : Bytes) (t : Label)
    (h : q = p ∨ (p ++ [cSlash]) <+: q)
    (hm : (Pattern.mk q tp true).matches t = true) : (Pattern.mk p tp true).matches t = true := by
  rcases h with rfl | hpre
  · exact hm
  · simp only [Pattern.matches, Bool.and_eq_true, Bool.or_eq_true, if_true] at hm ⊢
    refine ⟨?_, hm.2⟩
    have hq : q.isEmpty = false := by
      obtain ⟨r, rfl⟩ := hpre
      simp
    rcases hm.1 with (hE | hE) | hE
    · simp [hq] at hE
    · have : t.pkg = q := by simpa using hE
      right; rw [List.isPrefixOf_iff_prefix, this]; exact hpre
    · right
      rw [List.isPrefixOf_iff_prefix] at hE ⊢
      exact hpre.trans ((List.prefix_append q [cSlash]).trans hE)

/-- an exact pattern is subsumed by the recursive pattern of its own package and by `:all` there -/
theorem exact_subsumed (l t : Label) (h : (patternFromLabel l).matches t = true) :
    (Pattern.mk l.pkg [] true).matches t = true ∧ (Pattern.mk l.pkg allBytes false).matches t = true := by
  simp only [patternFromLabel, Pattern.matches, Bool.and_eq_true, Bool.false_eq_true, if_false] at h
  simp [Pattern.matches, h.1]

example : (Pattern.mk [97] [] true).matches ⟨[97, 47, 98], [99]⟩ = true ∧
    (Pattern.mk [97, 47, 98] [] true).matches ⟨[97, 47, 98], [99]⟩ = true := by decide

/-- `grog build A… B…` selects exactly what `grog build A…` and `grog build B…` select together: the arguments
    parse together iff they parse separately, and the set they denote is the union. -/
theorem parsePatterns_append_isSome (cur : Bytes) (ss₁ ss₂ : List Bytes) :
    (parsePatterns cur (ss₁ ++ ss₂)).isSome = ((parsePatterns cur ss₁).isSome && (parsePatterns cur ss₂).isSome) := by
  have h := (parsePatterns_spec cur (ss₁ ++ ss₂)).1
  have h₁ := (parsePatterns_spec cur ss₁).1
  have h₂ := (parsePatterns_spec cur ss₂).1
  cases e : parsePatterns cur (ss₁ ++ ss₂) with
  | none =>
    obtain ⟨s, hs, hn⟩ := h.mp e
    rcases List.mem_append.mp hs with hs | hs
    · simp [h₁.mpr ⟨s, hs, hn⟩]
    · simp [h₂.mpr ⟨s, hs, hn⟩]
  | some ps =>
    cases e₁ : parsePatterns cur ss₁ with
    | none =>
      obtain ⟨s, hs, hn⟩ := h₁.mp e₁
      rw [h.mpr ⟨s, List.mem_append_left _ hs, hn⟩] at e; cases e
    | some ps₁ =>
      cases e₂ : parsePatterns cur ss₂ with
      | none =>
        obtain ⟨s, hs, hn⟩ := h₂.mp e₂
        rw [h.mpr ⟨s, List.mem_append_right _ hs, hn⟩] at e; cases e
      | some ps₂ => rfl

theorem parsePatterns_union (cur : Bytes) (ss₁ ss₂ : List Bytes) (ps₁ ps₂ ps : List Pattern)
    (h₁ : ss₁ ≠ []) (h₂ : ss₂ ≠ [])
    (hp₁ : parsePatterns cur ss₁ = some ps₁) (hp₂ : parsePatterns cur ss₂ = some ps₂)
    (hp : parsePatterns cur (ss₁ ++ ss₂) = some ps) (l : Label) :
    matchesAny ps l = true ↔ (matchesAny ps₁ l = true ∨ matchesAny ps₂ l = true) := by
  rw [parsePatterns_matches_iff cur _ ps hp l, parsePatterns_matches_iff cur _ ps₁ hp₁ l,
    parsePatterns_matches_iff cur _ ps₂ hp₂ l]
  have hne : ss₁ ++ ss₂ ≠ [] := by simp [h₁]
  simp only [hne, h₁, h₂, false_or, List.mem_append]
  constructor
  · rintro ⟨s, hs | hs, hx⟩
    · exact Or.inl ⟨s, hs, hx⟩
    · exact Or.inr ⟨s, hs, hx⟩
  · rintro (⟨s, hs, hx⟩ | ⟨s, hs, hx⟩)
    · exact ⟨s, Or.inl hs, hx⟩
    · exact ⟨s, Or.inr hs, hx⟩

example : parsePatterns [] ([[47, 47, 97]] ++ [[47, 47, 98]]) = some [⟨[97], [97], false⟩, ⟨[98], [98], false⟩] := by decide

end Grog.C17
