/-
  C05 — failures are contained (keep-going / fail-fast) and never cached.
  Property theorems only. Models: GrogModel/Walker.lean (graph_walker.go, tail of cmds/build.go),
  GrogModel/Pool.lean (`execTail`: execute.go executeTarget / execute_target.go).
-/
import GrogModel.Lemmas.WalkerLive
import GrogModel.Lemmas.WalkerExamples
import GrogModel.Lemmas.Pool
namespace Grog.C05
open Grog.Walker

/-- The full statement of the keep-going clause at the end of a walk. -/
def KeepGoingRuns (c : Cfg) (s : State) : Prop :=
  ∀ n, n ∈ c.sel →
    (s.phase n = .exited ↔ ∃ a, Anc c a n ∧ s.phase a = .failed) ∧
    ((¬ ∃ a, Anc c a n ∧ s.phase a = .failed) → (s.phase n = .ok ∨ s.phase n = .failed))

/-- Keep-going mode, no interrupt, all routines finished (every schedule, every failing subset): a
    selected node was skipped iff some transitive dependency failed, and a node none of whose
    transitive dependencies failed was built (its callback ran to a recorded completion). -/
theorem keep_going_runs_iff {c : Cfg} {s : State} (ok : CfgOK c) (h : Reach c s)
    (hkg : c.failFast = false) (hc : s.ctx = false)
    (hall : ∀ n, n ∈ c.sel → (s.phase n).terminal = true) : KeepGoingRuns c s := by
  have inv := reach_inv ok h
  intro n hn
  have ht := hall n hn
  have hexit : s.phase n = .exited → ∃ a, Anc c a n ∧ s.phase a = .failed := inv.exitedWhy hc n
  have hback : (∃ a, Anc c a n ∧ s.phase a = .failed) → s.phase n = .exited := by
    rintro ⟨a, ha, hf⟩
    cases hp : s.phase n <;> simp_all [Phase.terminal]
    · have := inv_started_anc inv ha (by simp [hp, Phase.started]); simp_all
    · have := inv_started_anc inv ha (by simp [hp, Phase.started]); simp_all
    · have := inv.abortedCtx n hp; simp_all
  refine ⟨⟨hexit, hback⟩, ?_⟩
  intro hno
  cases hp : s.phase n <;> simp_all [Phase.terminal]
  · have := inv.abortedCtx n hp; simp_all

/-- hypotheses satisfiable: the run in which node 0 fails and node 1 is skipped -/
example : Reach (Ex.chain2 false) (Ex.after (Ex.chain2 false) Ex.failedRun) ∧
    (Ex.after (Ex.chain2 false) Ex.failedRun).ctx = false ∧
    (∀ n, n ∈ (Ex.chain2 false).sel → ((Ex.after (Ex.chain2 false) Ex.failedRun).phase n).terminal = true) ∧
    (Ex.after (Ex.chain2 false) Ex.failedRun).phase 1 = .exited :=
  ⟨Ex.reach_after (by decide), by decide, by decide, by decide⟩

/-- A callback is never entered below a failure: `wake n` is enabled only if every transitive
    dependency is `ok` — in particular none is `failed` or `exited` (all modes, all schedules). -/
theorem no_exec_below_failure {c : Cfg} {s s' : State} (ok : CfgOK c) (h : Reach c s)
    {n a : Node} (hw : step c s (.wake n) = some s') (ha : Anc c a n) :
    s.phase a = .ok ∧ s.phase a ≠ .failed ∧ s.phase a ≠ .exited := by
  have := inv_ready_anc (reach_inv ok h) ha (step_wake.mp hw).2.2.1
  simp [this]

/-- and a node with a failed transitive dependency is never started afterwards either: its callback
    is not entered in any later state -/
theorem below_failure_never_started {c : Cfg} {s : State} (ok : CfgOK c) (h : Reach c s)
    {n a : Node} (ha : Anc c a n) (hf : s.phase a = .failed) : (s.phase n).started = false := by
  cases hs : (s.phase n).started
  · rfl
  · have := inv_started_anc (reach_inv ok h) ha hs; simp_all

/-- Fail-fast: the `onComplete` of a failing callback (the moment the failure is observed) leaves
    `failFastTriggered` set, the walk context cancelled and the cancellation of every routine
    delivered or scheduled. -/
theorem fail_fast_trigger {c : Cfg} {s s' : State} {n : Node} (ok : CfgOK c) (h : Reach c s)
    (hF : c.failFast = true) (hp : s.phase n = .returned false)
    (hs : step c s (.complete n) = some s') :
    s'.phase n = .failed ∧ s'.ff = true ∧ s'.ctx = true ∧
    ∀ m, s'.cancel m = true ∨ s'.pend m = true := by
  have inv' := reach_inv ok (Reach.step h hs)
  obtain ⟨hsel, hh⟩ := step_complete.mp hs
  have hph : s'.phase n = .failed := by
    rcases hh with ⟨hp', _⟩ | ⟨_, rfl⟩
    · simp_all
    · simp [Walker.set]
  have hff := inv'.failedFF hF n hph
  exact ⟨hph, hff, inv'.ffCtx hff, inv'.ffAll hff⟩

example : (step (Ex.chain2 true) (Ex.after (Ex.chain2 true) [.wake 0, .cbReturn 0 .fail]) (.complete 0)).isSome = true ∧
    (Ex.after (Ex.chain2 true) [.wake 0, .cbReturn 0 .fail]).phase 0 = .returned false := by decide

/-- Fail-fast, every schedule: in every reachable state in which a failure has been observed (some
    completion is a failure) the walk context is cancelled; under a cancelled task context the pool
    model has no enabled `cmdStart` (`exec.CommandContext` — trusted base), so no further target
    command starts. Callbacks may still be entered; they cannot start a command. -/
theorem fail_fast_no_command_start {c : Cfg} {s : State} (ok : CfgOK c) (h : Reach c s)
    (hF : c.failFast = true) {a : Node} (hf : s.phase a = .failed)
    (p : Pool.State) (hp : p.taskCtx = s.ctx) (w : Nat) :
    s.ctx = true ∧ Pool.step p (.cmdStart w) = none := by
  have inv := reach_inv ok h
  have hc := inv.ffCtx (inv.failedFF hF a hf)
  refine ⟨hc, ?_⟩
  simp only [Pool.step]
  split <;> simp_all

example : Reach (Ex.chain2 true) (Ex.after (Ex.chain2 true) Ex.ffRun) ∧
    (Ex.after (Ex.chain2 true) Ex.ffRun).phase 0 = .failed :=
  ⟨Ex.reach_after (by decide), by decide⟩

/-- once fail-fast is triggered, later successful completions release nobody -/
theorem fail_fast_no_release {c : Cfg} {s : State} (n : Node) (hff : s.ff = true) :
    (completeOk c s n).ready = s.ready := by
  simp [completeOk, hff]

/-- the cancellation of the walk context is permanent -/
theorem ctx_stays_cancelled {c : Cfg} {s s' : State} {e : Ev} (hs : step c s e = some s')
    (hc : s.ctx = true) : s'.ctx = true := by
  cases e with
  | wake n => obtain ⟨_, _, _, rfl⟩ := step_wake.mp hs; exact hc
  | cbReturn n r =>
    obtain ⟨_, _, hr⟩ := step_cbReturn.mp hs
    rcases hr with ⟨_, rfl⟩ | ⟨_, rfl⟩ | ⟨_, _, rfl⟩ | ⟨_, _, rfl⟩ <;> exact hc
  | complete n =>
    obtain ⟨_, hh⟩ := step_complete.mp hs
    rcases hh with ⟨_, rfl⟩ | ⟨_, rfl⟩
    · simp [hc]
    · unfold completeFail; split
      · exact hc
      · split
        · rfl
        · exact hc
  | exit n => obtain ⟨_, _, _, rfl⟩ := step_exit.mp hs; exact hc
  | deliverCancel n => obtain ⟨_, _, rfl⟩ := step_deliverCancel.mp hs; exact hc
  | ctxCancel => obtain ⟨_, rfl⟩ := step_ctxCancel.mp hs; rfl
  | walkReturn b =>
    obtain ⟨_, hh⟩ := step_walkReturn.mp hs
    rcases hh with ⟨_, _, rfl⟩ | ⟨_, _, rfl⟩ <;> exact hc

/-- Failures are never cached: on every path of the task tail on which the callback does not report
    success (non-zero exit, timeout, start error, cancellation, failing re-check of the output checks,
    missing declared output / failed CAS write, failed result write) no target result is written;
    and success writes it. -/
theorem failed_not_cached (i : Pool.TailIn) :
    ((Pool.execTail i).res ≠ .ok → (Pool.execTail i).resultWritten = false) ∧
    ((Pool.execTail i).res = .ok → (Pool.execTail i).resultWritten = true) := by
  obtain ⟨cmd, a, b, d, e⟩ := i
  cases cmd <;> cases a <;> cases b <;> cases d <;> cases e <;> decide

example : (Pool.execTail ⟨.ok, true, true, false, true⟩).res = .fail := by decide   -- missing declared output
example : (Pool.execTail ⟨.timeout, true, true, true, true⟩) = ⟨.fail, false⟩ := by decide

/-- a target with several declared outputs fails (and writes no result) as soon as ANY of them is missing /
    cannot be written, wherever it stands in the declaration order -/
theorem missing_any_declared_output_fails (writers : List Bool) (h : false ∈ writers)
    (recheck bin res : Bool) :
    Pool.execTail ⟨.ok, recheck, bin, Pool.writeOutputsOk writers, res⟩ = ⟨.fail, false⟩ := by
  have hw : Pool.writeOutputsOk writers = false := by
    simp only [Pool.writeOutputsOk]
    cases hall : writers.all id
    · rfl
    · have := List.all_eq_true.mp hall false h
      simp at this
  cases recheck <;> cases bin <;> cases res <;> simp [Pool.execTail, hw]

example : Pool.execTail ⟨.ok, true, true, Pool.writeOutputsOk [false, true], true⟩ = ⟨.fail, false⟩ := by decide

/-- The result that reaches the walker is a failure exactly for the four failure kinds of the
    property (and for storage errors); a cancellation is not a failure. -/
theorem tail_failure_kinds (i : Pool.TailIn) :
    (Pool.execTail i).res = .cancelled ↔ i.cmd = .cancelled := by
  obtain ⟨cmd, a, b, d, e⟩ := i
  cases cmd <;> cases a <;> cases b <;> cases d <;> cases e <;> decide

/-- Exit status (tail of `RunBuild`): grog exits non-zero iff `Walk` returned the context error or the
    returned completion map contains a failure; the map is the snapshot of the phases at return. -/
theorem exit_status {c : Cfg} {s s' : State} {b : Bool} (hs : step c s (.walkReturn b) = some s') :
    exitNonZero c s' = true ↔ (s'.retErr = some true ∨ ∃ n, n ∈ c.sel ∧ s.phase n = .failed) := by
  obtain ⟨_, hh⟩ := step_walkReturn.mp hs
  rcases hh with ⟨_, _, rfl⟩ | ⟨_, _, rfl⟩ <;> simp [exitNonZero]

/-- keep-going without interrupt: the exit status is non-zero iff some selected node failed, and the
    failed labels printed are exactly the failed completions (`snap`) -/
theorem keep_going_exit_status {c : Cfg} {s s' : State} (hc : s.ctx = false) (hs : step c s (.walkReturn false) = some s') :
    (exitNonZero c s' = true ↔ ∃ n, n ∈ c.sel ∧ s.phase n = .failed) ∧ s'.snap = s.phase := by
  obtain ⟨_, hh⟩ := step_walkReturn.mp hs
  rcases hh with ⟨hb, _⟩ | ⟨_, _, rfl⟩
  · simp at hb
  · simp [exitNonZero, hc]

/-- fail-fast: whenever `Walk` returns after fail-fast was triggered, the exit status is non-zero -/
theorem fail_fast_exit_nonzero {c : Cfg} {s s' : State} {b : Bool} (ok : CfgOK c) (h : Reach c s)
    (hff : s.ff = true) (hs : step c s (.walkReturn b) = some s') : exitNonZero c s' = true := by
  obtain ⟨a, ha, hf⟩ := (reach_inv ok h).ffWhy hff
  exact (exit_status hs).mpr (Or.inr ⟨a, ha, hf⟩)

example : (Ex.after (Ex.chain2 true) [.wake 0, .cbReturn 0 .fail, .complete 0]).ff = true ∧
    (step (Ex.chain2 true) (Ex.after (Ex.chain2 true) [.wake 0, .cbReturn 0 .fail, .complete 0]) (.walkReturn true)).isSome = true := by
  decide

end Grog.C05
