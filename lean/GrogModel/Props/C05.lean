/-
  C05 — failures are contained (keep-going / fail-fast) and never cached.
  Property theorems only. Models: GrogModel/Walker.lean (graph_walker.go, tail of cmds/build.go),
  GrogModel/Pool.lean (`execTail`: execute.go executeTarget / execute_target.go).
-/
import GrogModel.Lemmas.WalkerLive
import GrogModel.Lemmas.WalkerExamples
import GrogModel.Lemmas.Pool
import GrogModel.Lemmas.Sys
import GrogModel.Lemmas.BuildFail
import GrogModel.Props.C01
import GrogModel.Props.C15
namespace Grog.C05
open Grog.Walker

/-- The full statement of the keep-going clause at the end of a walk. -/
def KeepGoingRuns (c : Cfg) (s : State) : Prop :=
  ∀ n, n ∈ c.sel →
    (s.phase n = .exited ↔ ∃ a, Anc c a n ∧ s.phase a = .failed) ∧
    ((¬ ∃ a, Anc c a n ∧ s.phase a = .failed) → (s.phase n = .ok ∨ s.phase n = .failed))

/-- Keep-going mode, no interrupt, all routines finished (every schedule, every failing subset): a
    selected node was skipped iff some transitive dependency failed, and a node none of whose
    transitive dependencies failed was built (its callback ran to a recorded completion). -/
theorem keep_going_runs_iff {c : Cfg} {s : State} (ok : CfgOK c) (h : Reach c s)
    (hkg : c.failFast = false) (hc : s.ctx = false)
    (hall : ∀ n, n ∈ c.sel → (s.phase n).terminal = true) : KeepGoingRuns c s := by
  have inv := reach_inv ok h
  intro n hn
  have ht := hall n hn
  have hexit : s.phase n = .exited → ∃ a, Anc c a n ∧ s.phase a = .failed := inv.exitedWhy hc n
  have hback : (∃ a, Anc c a n ∧ s.phase a = .failed) → s.phase n = .exited := by
    rintro ⟨a, ha, hf⟩
    cases hp : s.phase n <;> simp_all [Phase.terminal]
    · have := inv_started_anc inv ha (by simp [hp, Phase.started]); simp_all
    · have := inv_started_anc inv ha (by simp [hp, Phase.started]); simp_all
    · have := inv.abortedCtx n hp; simp_all
  refine ⟨⟨hexit, hback⟩, ?_⟩
  intro hno
  cases hp : s.phase n <;> simp_all [Phase.terminal]
  · have := inv.abortedCtx n hp; simp_all

/-- hypotheses satisfiable: the run in which node 0 fails and node 1 is skipped -/
example : Reach (Ex.chain2 false) (Ex.after (Ex.chain2 false) Ex.failedRun) ∧
    (Ex.after (Ex.chain2 false) Ex.failedRun).ctx = false ∧
    (∀ n, n ∈ (Ex.chain2 false).sel → ((Ex.after (Ex.chain2 false) Ex.failedRun).phase n).terminal = true) ∧
    (Ex.after (Ex.chain2 false) Ex.failedRun).phase 1 = .exited :=
  ⟨Ex.reach_after (by decide), by decide, by decide, by decide⟩

/-- …and on the diamond (0 ← {1,2} ← 3, unselected dependant 4): 0 ok, 1 fails while 2 is still running, 2 finishes ok: exactly the
    dependant 3 of the failure is skipped, the healthy sibling 2 is built, the unselected node is untouched -/
example : Reach (Ex.diamond false) (Ex.after (Ex.diamond false) Ex.diamondFailRun) ∧
    (Ex.after (Ex.diamond false) Ex.diamondFailRun).ctx = false ∧
    (∀ n, n ∈ (Ex.diamond false).sel → ((Ex.after (Ex.diamond false) Ex.diamondFailRun).phase n).terminal = true) ∧
    ((Ex.after (Ex.diamond false) Ex.diamondFailRun).phase 0, (Ex.after (Ex.diamond false) Ex.diamondFailRun).phase 1,
     (Ex.after (Ex.diamond false) Ex.diamondFailRun).phase 2, (Ex.after (Ex.diamond false) Ex.diamondFailRun).phase 3,
     (Ex.after (Ex.diamond false) Ex.diamondFailRun).phase 4) = (.ok, .failed, .ok, .exited, .parked) ∧
    Anc (Ex.diamond false) 1 3 ∧ ¬ Anc (Ex.diamond false) 1 2 :=
  ⟨Ex.reach_after (by decide), by decide, by decide, by decide, Ex.diamond_anc.mpr (by decide),
   fun h => absurd (Ex.diamond_anc.mp h) (by decide)⟩

/-- A callback is never entered below a failure: `wake n` is enabled only if every transitive
    dependency is `ok` — in particular none is `failed` or `exited` (all modes, all schedules). -/
theorem no_exec_below_failure {c : Cfg} {s s' : State} (ok : CfgOK c) (h : Reach c s)
    {n a : Node} (hw : step c s (.wake n) = some s') (ha : Anc c a n) :
    s.phase a = .ok ∧ s.phase a ≠ .failed ∧ s.phase a ≠ .exited := by
  have := inv_ready_anc (reach_inv ok h) ha (step_wake.mp hw).2.2.1
  simp [this]

/-- and a node with a failed transitive dependency is never started afterwards either: its callback
    is not entered in any later state -/
theorem below_failure_never_started {c : Cfg} {s : State} (ok : CfgOK c) (h : Reach c s)
    {n a : Node} (ha : Anc c a n) (hf : s.phase a = .failed) : (s.phase n).started = false := by
  cases hs : (s.phase n).started
  · rfl
  · have := inv_started_anc (reach_inv ok h) ha hs; simp_all

/-- Fail-fast: the `onComplete` of a failing callback (the moment the failure is observed) leaves
    `failFastTriggered` set, the walk context cancelled and the cancellation of every routine
    delivered or scheduled. -/
theorem fail_fast_trigger {c : Cfg} {s s' : State} {n : Node} (ok : CfgOK c) (h : Reach c s)
    (hF : c.failFast = true) (hp : s.phase n = .returned false)
    (hs : step c s (.complete n) = some s') :
    s'.phase n = .failed ∧ s'.ff = true ∧ s'.ctx = true ∧
    ∀ m, s'.cancel m = true ∨ s'.pend m = true := by
  have inv' := reach_inv ok (Reach.step h hs)
  obtain ⟨hsel, hh⟩ := step_complete.mp hs
  have hph : s'.phase n = .failed := by
    rcases hh with ⟨hp', _⟩ | ⟨_, rfl⟩
    · simp_all
    · simp [Walker.set]
  have hff := inv'.failedFF hF n hph
  exact ⟨hph, hff, inv'.ffCtx hff, inv'.ffAll hff⟩

example : (step (Ex.chain2 true) (Ex.after (Ex.chain2 true) [.wake 0, .cbReturn 0 .fail]) (.complete 0)).isSome = true ∧
    (Ex.after (Ex.chain2 true) [.wake 0, .cbReturn 0 .fail]).phase 0 = .returned false := by decide

/-- Fail-fast, every schedule, on the composition walker × tasks: in every reachable state of `Sys` in which a failure has been
    observed (some completion is a failure) the walk context is cancelled and NO task can start a command — for every node, whatever
    the state of its task. Callbacks may still be entered (a routine that finds both `ready` and `cancel` may take `ready`) and a
    task that was taken may still answer from the cache (`getTaskFunc`'s hit branch does not look at the context): a target can
    still be *restored* and recorded `ok` after the failure was observed; what cannot happen is that a command starts. -/
theorem fail_fast_no_command_start {c : Cfg} {s : Sys.State} (ok : CfgOK c) (h : Sys.Reach c s)
    (hF : c.failFast = true) {a : Node} (hf : s.w.phase a = .failed) :
    s.w.ctx = true ∧ ∀ n, Sys.step c s (.cmdStart n) = none := by
  have inv := reach_inv ok (Sys.reach_walker h)
  have hc := inv.ffCtx (inv.failedFF hF a hf)
  exact ⟨hc, fun n => by simp [Sys.step, hc]⟩

/-- fail-fast on the diamond, composed: the tasks of 1 and 2 are both on a worker, 1 is inside its command and fails, 2 has not
    started its command yet: the failure is observed, and the command of 2 can no longer start -/
example : ∃ s, Sys.Reach (Ex.diamond true) s ∧ s.w.phase 1 = .failed ∧ s.task 2 = .busy false ∧
    Sys.step (Ex.diamond true) s (.cmdStart 2) = none := by
  have h0 : Sys.Reach (Ex.diamond true) (Sys.init _) := Sys.Reach.init
  have h1 := Sys.Reach.step h0 (e := .walker (.wake 0)) (s' := _) rfl
  have h2 := Sys.Reach.step h1 (e := .cbReturn 0 .ok) (s' := _) rfl
  have h3 := Sys.Reach.step h2 (e := .walker (.complete 0)) (s' := _) rfl
  have h4 := Sys.Reach.step h3 (e := .walker (.wake 1)) (s' := _) rfl
  have h5 := Sys.Reach.step h4 (e := .walker (.wake 2)) (s' := _) rfl
  have h6 := Sys.Reach.step h5 (e := .submit 1) (s' := _) rfl
  have h7 := Sys.Reach.step h6 (e := .submit 2) (s' := _) rfl
  have h8 := Sys.Reach.step h7 (e := .take 1) (s' := _) rfl
  have h9 := Sys.Reach.step h8 (e := .take 2) (s' := _) rfl
  have h10 := Sys.Reach.step h9 (e := .cmdStart 1) (s' := _) rfl
  have h11 := Sys.Reach.step h10 (e := .cmdEnd 1) (s' := _) rfl
  have h12 := Sys.Reach.step h11 (e := .done 1) (s' := _) rfl
  have h13 := Sys.Reach.step h12 (e := .cbReturn 1 .fail) (s' := _) rfl
  have h14 := Sys.Reach.step h13 (e := .walker (.complete 1)) (s' := _) rfl
  exact ⟨_, h14, by decide, by decide, by decide⟩

/-- once fail-fast is triggered, later successful completions release nobody -/
theorem fail_fast_no_release {c : Cfg} {s : State} (n : Node) (hff : s.ff = true) :
    (completeOk c s n).ready = s.ready := by
  simp [completeOk, hff]

/-- the cancellation of the walk context is permanent -/
theorem ctx_stays_cancelled {c : Cfg} {s s' : State} {e : Ev} (hs : step c s e = some s')
    (hc : s.ctx = true) : s'.ctx = true := by
  cases e with
  | wake n => obtain ⟨_, _, _, rfl⟩ := step_wake.mp hs; exact hc
  | cbReturn n r =>
    obtain ⟨_, _, hr⟩ := step_cbReturn.mp hs
    rcases hr with ⟨_, rfl⟩ | ⟨_, rfl⟩ | ⟨_, _, rfl⟩ | ⟨_, _, rfl⟩ <;> exact hc
  | complete n =>
    obtain ⟨_, hh⟩ := step_complete.mp hs
    rcases hh with ⟨_, rfl⟩ | ⟨_, rfl⟩
    · simp [hc]
    · unfold completeFail; split
      · exact hc
      · split
        · rfl
        · exact hc
  | exit n => obtain ⟨_, _, _, rfl⟩ := step_exit.mp hs; exact hc
  | deliverCancel n => obtain ⟨_, _, rfl⟩ := step_deliverCancel.mp hs; exact hc
  | ctxCancel => obtain ⟨_, rfl⟩ := step_ctxCancel.mp hs; rfl
  | walkReturn b =>
    obtain ⟨_, hh⟩ := step_walkReturn.mp hs
    rcases hh with ⟨_, _, rfl⟩ | ⟨_, _, rfl⟩ <;> exact hc

/-! ### failures are never cached — on the build model (`Exec.buildTarget`, `Build.build`)

  The cache here is the real model state `BState.cache` (result records, CAS, taints) of the build group; `okAt s l` is "the
  target's status after the step/build is ok". Mode `all`; mode `minimal` has the same cache, verdicts and log by the C15
  lock-step theorem. -/

section build
open Grog.Exec Grog.Build
variable {κ : Type} [DecidableEq κ]

/-- **One target.** A step of the build after which its target is not ok — dependency failed, or the command ran and exited
    non-zero / a check fails afterwards / a declared output is missing — leaves the whole cache as it was: no result record, no
    blob, no taint change; the target's status is the failure status. (`Exec.execTarget_false` lifted over all branches of the
    decision; the converse direction is `C14.stored_only_on_success`.) -/
theorem failed_step_stores_nothing (P : Params κ) (cfg : Exec.Cfg) (defs : Defs) (fuel : Nat) (t : Target) (s : BState κ)
    (hm : cfg.minimal = false) (hn : ¬ okAt (buildTarget P cfg defs fuel t s) t.label) :
    (buildTarget P cfg defs fuel t s).cache = s.cache ∧ (buildTarget P cfg defs fuel t s).st t.label = some failStat :=
  buildTarget_not_ok_cache P cfg defs fuel t s hm hn

/-- **…and why it failed**: if its dependencies were ok, the command was executed (the label enters the log) and it exited
    non-zero, or a check fails on what it left, or a declared output is missing. -/
theorem failed_step_ran (P : Params κ) (cfg : Exec.Cfg) (defs : Defs) (fuel : Nat) (t : Target) (s : BState κ)
    (hm : cfg.minimal = false) (hn : ¬ okAt (buildTarget P cfg defs fuel t s) t.label)
    (hd : depsOk s.st t.deps = true) (ho : depOhs s.st t.hdeps ≠ none) :
    (buildTarget P cfg defs fuel t s).log = t.label :: s.log ∧
    ((P.run t.cmd (viewAt defs t s.fs)).exit0 = false ∨ checksPass (fsAfter P defs t s.fs) t.checks = false ∨
      collect (fsAfter P defs t s.fs) t.outs = none) :=
  buildTarget_not_ok_ran P cfg defs fuel t s hm hn hd ho

/-- **Two builds: a failed target is attempted again.** Build `order` from any world with a sound cache (every cache reachable
    from the empty one is: `C01.cacheSound_preserved`) and any workspace; then build again from what the first build left
    (its workspace, its cache; same definitions; the flags may differ). Every target that was not ok in the first build is not ok in
    the second either — it is never answered from the cache as a success —, and if its dependencies were ok its command is
    executed again: its label is in the second build's log. -/
theorem failed_target_is_attempted_again {P : Params κ} (hG : Good P) (hfx : P.fx.gateChecks = true) (cfg₁ cfg₂ : Exec.Cfg)
    (hm₁ : cfg₁.minimal = false) (hm₂ : cfg₂.minimal = false) (w : World κ) (order : List Lbl) (hwf : WF w.defs order)
    (hs : CacheSound P w.cache) :
    let s₁ := build P cfg₁ w order
    let s₂ := build P cfg₂ { w with fs := s₁.fs, cache := s₁.cache } order
    ∀ l ∈ order, ∀ t, w.defs l = some t → ¬ okAt s₁ l →
      ¬ okAt s₂ l ∧ ((∀ d ∈ t.deps, okAt s₁ d) → l ∈ s₂.log) := by
  intro s₁ s₂ l hl t ht hn
  have hI1 := run_inv hG hfx hm₁ hwf (fuelFor order) (start w) _
    (inv_start (P := P) (defs := w.defs) (order := order) w hs w.fs (fun _ _ => rfl))
  have hs1 : CacheSound P s₁.cache := hI1.sound
  have hoff : ∀ p, (∀ l ∈ order, ∀ t, w.defs l = some t → p ∉ outPaths t) → w.fs p = s₁.fs p := by
    intro p hp
    exact (run_fs_off hG hm₁ w.defs (fuelFor order) order (start w)
      (fun l hl t ht => (hwf.hdeps l hl t ht).2.1) p hp).symm
  have hI2 := run_inv hG hfx hm₂ hwf (fuelFor order) (start { w with fs := s₁.fs, cache := s₁.cache }) _
    (inv_start (P := P) (defs := w.defs) (order := order) { w with fs := s₁.fs, cache := s₁.cache } hs1 w.fs
      (fun p hp => (hoff p hp).symm))
  have hiff : ∀ l ∈ order, okAt s₁ l ↔ okAt s₂ l := fun l hl => (hI1.okIff l hl).trans (hI2.okIff l hl).symm
  refine ⟨fun h => hn ((hiff l hl).2 h), fun hdeps => ?_⟩
  have hA := attempted_run_aux hG hfx hm₂ hwf (fuelFor order) order [] (start { w with fs := s₁.fs, cache := s₁.cache }) _
    (by simp) (inv_start (P := P) (defs := w.defs) (order := order) { w with fs := s₁.fs, cache := s₁.cache } hs1 w.fs
      (fun p hp => (hoff p hp).symm)) (fun l hl => by simp at hl)
  obtain ⟨pre, suf, hsplit⟩ := List.append_of_mem hl
  have hdo : ∀ d ∈ t.deps, d ∈ order := by
    intro d hd
    have := hwf.topo pre l suf hsplit t ht d hd
    rw [hsplit]; simp [this]
  exact hA l (by simpa using hl) t ht (fun h => hn ((hiff l hl).2 h)) (fun d hd => (hiff d (hdo d hd)).1 (hdeps d hd))

/-- a key type with an injective key function (the key *is* the key-state) and a world in which every command fails -/
inductive FKey where
  | mk (ks : KeyState FKey)

noncomputable instance : DecidableEq FKey := fun a b => Classical.propDecidable (a = b)

noncomputable def failP : Params FKey := ⟨FKey.mk, fun _ _ => ⟨false, [], []⟩, Fixes.current⟩

theorem failP_good : Good failP := ⟨fun a b h => by cases h; rfl, fun c v h => by simp [failP] at h, fun c v => rfl⟩

/-- the two-build theorem instantiated: the one-target workspace of `C15.exDefs` (target `[1]` declares output `[9]`), its command
    fails; empty cache. The first build leaves `[1]` not ok, the second build — from the first one's cache and workspace — executes it
    again. All hypotheses of `failed_target_is_attempted_again` are discharged here, none is vacuous. -/
example :
    let w : World FKey := ⟨C15.exDefs, fun _ => none, emptyCache⟩
    let s₁ := build failP ⟨true, false⟩ w [[1]]
    let s₂ := build failP ⟨true, false⟩ { w with fs := s₁.fs, cache := s₁.cache } [[1]]
    ¬ okAt s₁ [1] ∧ ¬ okAt s₂ [1] ∧ [1] ∈ s₂.log := by
  intro w s₁ s₂
  have hwf : WF w.defs [[1]] := C15.exBuildOK.wf
  have hs : CacheSound failP w.cache := C01.cacheSound_empty failP
  have hI1 := run_inv failP_good rfl (cfg := ⟨true, false⟩) rfl hwf (fuelFor [[1]]) (start w) _
    (inv_start (P := failP) (defs := w.defs) (order := [[1]]) w hs w.fs (fun _ _ => rfl))
  have hn : ¬ okAt s₁ [1] := by
    intro h
    have := (hI1.okIff [1] (by simp)).1 h
    simp [cleanRun, Spec.cleanStep, Spec.cleanTarget, w, C15.exDefs, mkT, failP] at this
  have ht : w.defs [1] = some (mkT [1] [⟨false, [9]⟩] [] false) := by simp [w, C15.exDefs]
  have := failed_target_is_attempted_again failP_good rfl ⟨true, false⟩ ⟨true, false⟩ rfl rfl w [[1]] hwf hs [1] (by simp) _ ht hn
  exact ⟨hn, this.1, this.2 (fun d hd => by simp [mkT] at hd)⟩

end build

/-! ### the task tail: which errors are failures, which are cancellations

  `Pool.execTail` is a classification table of `executeTarget`'s error paths (the build model above has only "exit 0 or not").
  `failed_not_cached` and `tail_failure_kinds` are case analyses of that table — true by its construction; what they record is
  the *order* of the stages (the result record is written last, on the success path only) and which paths wrap
  `context.Canceled`. The statements with content about the cache are the three above. -/

/-- on every path of the task tail on which the callback does not report success (non-zero exit, timeout, start error,
    cancellation at any stage, failing re-check of the output checks, missing declared output / failed CAS write, failed result
    write) no target result is written; and success writes it. -/
theorem failed_not_cached (i : Pool.TailIn) :
    ((Pool.execTail i).res ≠ .ok → (Pool.execTail i).resultWritten = false) ∧
    ((Pool.execTail i).res = .ok → (Pool.execTail i).resultWritten = true) := by
  obtain ⟨cmd, a, b, d, e⟩ := i
  cases cmd <;> cases a <;> cases b <;> cases d <;> cases e <;> decide

example : (Pool.execTail ⟨.ok, .ok, true, .fail, .ok⟩).res = .fail := by decide   -- missing declared output
example : (Pool.execTail ⟨.timeout, .ok, true, .ok, .ok⟩) = ⟨.fail, false⟩ := by decide
example : (Pool.execTail ⟨.ok, .cancelled, true, .ok, .ok⟩) = ⟨.cancelled, false⟩ := by decide   -- interrupted during the re-check

/-- a target with several declared outputs does not succeed (and writes no result) as soon as ANY of them is missing /
    cannot be written, wherever it stands in the declaration order -/
theorem missing_any_declared_output_fails (writers : List Bool) (h : false ∈ writers)
    (cmd : Pool.CmdOutcome) (recheck : Pool.StageRes) (bin : Bool) (res : Pool.StageRes) :
    (Pool.execTail ⟨cmd, recheck, bin, Pool.writeOutputsRes writers, res⟩).res ≠ .ok ∧
    (Pool.execTail ⟨cmd, recheck, bin, Pool.writeOutputsRes writers, res⟩).resultWritten = false ∧
    Pool.execTail ⟨.ok, .ok, true, Pool.writeOutputsRes writers, res⟩ = ⟨.fail, false⟩ := by
  have hw : Pool.writeOutputsRes writers = .fail := by
    have hall : writers.all id = false := by
      cases hall : writers.all id
      · rfl
      · have := List.all_eq_true.mp hall false h
        simp at this
    simp [Pool.writeOutputsRes, Pool.writeOutputsOk, hall]
  rw [hw]
  cases cmd <;> cases recheck <;> cases bin <;> cases res <;> decide

example : Pool.execTail ⟨.ok, .ok, true, Pool.writeOutputsRes [false, true], .ok⟩ = ⟨.fail, false⟩ := by decide

/-- The result that reaches the walker is a cancellation exactly when the command, or a later stage that was reached, was
    interrupted (each wraps `context.Canceled` with `%w`); every other unsuccessful path — the four failure kinds of the property
    and storage errors — is a failure. -/
theorem tail_failure_kinds (i : Pool.TailIn) :
    (Pool.execTail i).res = .cancelled ↔
      (i.cmd = .cancelled ∨ (i.cmd = .ok ∧ (i.recheck = .cancelled ∨
        (i.recheck = .ok ∧ i.binOk = true ∧ (i.writeOutputs = .cancelled ∨ (i.writeOutputs = .ok ∧ i.resultWrite = .cancelled)))))) := by
  obtain ⟨cmd, a, b, d, e⟩ := i
  cases cmd <;> cases a <;> cases b <;> cases d <;> cases e <;> decide

/-- Exit status (tail of `RunBuild`): grog exits non-zero iff `Walk` returned the context error or the
    returned completion map contains a failure; the map is the snapshot of the phases at return. -/
theorem exit_status {c : Cfg} {s s' : State} {b : Bool} (hs : step c s (.walkReturn b) = some s') :
    exitNonZero c s' = true ↔ (s'.retErr = some true ∨ ∃ n, n ∈ c.sel ∧ s.phase n = .failed) := by
  obtain ⟨_, hh⟩ := step_walkReturn.mp hs
  rcases hh with ⟨_, _, rfl⟩ | ⟨_, _, rfl⟩ <;> simp [exitNonZero]

/-- keep-going without interrupt: the exit status is non-zero iff some selected node failed, and the
    failed labels printed are exactly the failed completions (`snap`) -/
theorem keep_going_exit_status {c : Cfg} {s s' : State} (hc : s.ctx = false) (hs : step c s (.walkReturn false) = some s') :
    (exitNonZero c s' = true ↔ ∃ n, n ∈ c.sel ∧ s.phase n = .failed) ∧ s'.snap = s.phase := by
  obtain ⟨_, hh⟩ := step_walkReturn.mp hs
  rcases hh with ⟨hb, _⟩ | ⟨_, _, rfl⟩
  · simp at hb
  · simp [exitNonZero, hc]

/-- fail-fast: whenever `Walk` returns after fail-fast was triggered, the exit status is non-zero -/
theorem fail_fast_exit_nonzero {c : Cfg} {s s' : State} {b : Bool} (ok : CfgOK c) (h : Reach c s)
    (hff : s.ff = true) (hs : step c s (.walkReturn b) = some s') : exitNonZero c s' = true := by
  obtain ⟨a, ha, hf⟩ := (reach_inv ok h).ffWhy hff
  exact (exit_status hs).mpr (Or.inr ⟨a, ha, hf⟩)

example : (Ex.after (Ex.chain2 true) [.wake 0, .cbReturn 0 .fail, .complete 0]).ff = true ∧
    (step (Ex.chain2 true) (Ex.after (Ex.chain2 true) [.wake 0, .cbReturn 0 .fail, .complete 0]) (.walkReturn true)).isSome = true := by
  decide

end Grog.C05
