/-
  C15 — load_outputs=minimal is observationally equivalent to `all` for what gets built.
  Model: GrogModel/Exec.lean (`tryHit` minimal branch, `loadOutputs`, `loadDepList`).
  Proved here: the per-target decision does not depend on the mode (no lost blobs), what minimal mode
  materialises is exactly what mode `all` restores from the same result, a loaded dependency is marked loaded with
  the stored output hash; and (Lemmas/BuildMinimal.lean: lock-step simulation `Rel` of the two modes)
  `deps_present_at_exec_holds` — when a command starts in minimal mode every declared output of every direct dependency is
  materialised and current — and `same_verdict_and_execs_holds` — over every well-formed history without lost blobs, run in
  lock step in both modes over separate caches, each build has the same verdict, the same executed commands in the same
  order, the same per-target verdicts and leaves the same cache.
-/
import GrogModel.Lemmas.BuildBasic
import GrogModel.Lemmas.BuildMinimal
set_option linter.unusedSectionVars false
set_option linter.unusedVariables false
set_option linter.unusedSimpArgs false
namespace Grog.C15
open Grog Grog.Exec Grog.Build

variable {κ : Type} [DecidableEq κ]

def withMode (cfg : Cfg) (m : Bool) : Cfg := { cfg with minimal := m }

/-- **same_decision_step.** From the same state (same cache, same taints, same workspace outside output paths) the
    hit/execute decision for a target is the same in both modes, provided the blobs of the stored result are
    present (no cache fault): both modes require a result for the key, no taint, no no-cache tag, an enabled cache,
    passing checks and a stored result that names exactly the declared outputs. -/
theorem same_decision_step (P : Params κ) (cfg : Cfg) (t : Target) (k : κ) (s : BState κ)
    (hfx : P.fx.minValidate = true)
    (hblobs : ∀ r, s.cache.res k = some r → ∀ ov ∈ r.outs, s.cache.cas ov.2 = true) :
    (tryHit P (withMode cfg false) t k s).isSome = (tryHit P (withMode cfg true) t k s).isSome := by
  unfold tryHit withMode
  cases hr : s.cache.res k with
  | none => rfl
  | some r =>
    simp only
    split
    · simp only [Bool.false_eq_true, ↓reduceIte, hfx, Bool.not_true, Bool.or_false]
      have hb : (r.outs.all fun ov => s.cache.cas ov.2) = true := List.all_eq_true.2 (hblobs r hr)
      unfold restore
      simp only [hb, Bool.and_true]
      cases validate t r <;> simp
    · rfl

/-- the two modes also hand the same output hash and key to the dependants -/
theorem same_status_step (P : Params κ) (cfg : Cfg) (t : Target) (k : κ) (s sa sm : BState κ)
    (ha : tryHit P (withMode cfg false) t k s = some sa) (hmi : tryHit P (withMode cfg true) t k s = some sm) :
    ∃ tsa tsm, sa.st t.label = some tsa ∧ sm.st t.label = some tsm ∧ tsa.ok = tsm.ok ∧ tsa.oh = tsm.oh ∧ tsa.key = tsm.key ∧
      sa.cache = sm.cache ∧ sa.log = sm.log := by
  unfold tryHit withMode at ha hmi
  cases hr : s.cache.res k with
  | none => simp [hr] at ha
  | some r =>
    simp only [hr] at ha hmi
    split at ha
    · rename_i hg
      simp only [hg, ↓reduceIte] at hmi
      simp only [Bool.false_eq_true, ↓reduceIte] at ha
      split at hmi
      · split at ha
        · simp only [Option.some.injEq] at ha hmi; subst ha; subst hmi
          exact ⟨{ ok := true, key := some k, oh := some r.oh, loaded := true }, { ok := true, key := some k, oh := some r.oh, loaded := false }, by simp, by simp, rfl, rfl, rfl, rfl, rfl⟩
        · cases ha
      · cases hmi
    · cases ha

/-- **materialised_equal.** Whatever minimal mode materialises for a target (when a dependant needs it) is written by
    the same `restore` from the same stored result that mode `all` would have used at once: the bytes at the output
    paths are the stored values, and the target is marked loaded with the stored output hash. -/
theorem materialised_equal (d : Target) (r : Result κ) (s s' : BState κ) (h : loadOutputs d r s = some s') :
    s' = s ∨ (s'.fs = writeOuts s.fs r.outs ∧ r.outs.map (·.1) = d.outs ∧
      ∃ ds, s'.st d.label = some ds ∧ ds.loaded = true ∧ ds.oh = some r.oh) := by
  unfold loadOutputs at h
  split at h
  · cases h
  · rename_i ds hds
    split at h
    · simp only [Option.some.injEq] at h; exact Or.inl h.symm
    · split at h
      · rename_i fs' hrest
        obtain ⟨hv, _, hfs⟩ := restore_some hrest
        simp only [Option.some.injEq] at h; subst h
        exact Or.inr ⟨hfs, hv, { ds with loaded := true, oh := some r.oh }, by simp, rfl, rfl⟩
      · cases h

/-- **deps_present_at_exec**, stated in full. The `all` run (`sa`) and the `minimal` run (`sm`) have processed the same
    prefix `pre` of a well-formed order (relation `Rel`: same cache, log and statuses, same workspace off the output
    paths, every finished target of the minimal run loaded or restorable); the next target `t` has all its dependencies
    finished successfully and misses the cache. Then `LoadDependencyOutputs` succeeds with the fuel the build gives it,
    re-runs nothing, and when the command of `t` starts every declared output of every direct dependency is
    materialised (`loaded`) and current: it has, path by path, the value the `all` run has in its workspace. -/
def deps_present_at_exec (P : Params κ) : Prop :=
  ∀ (cfg : Cfg) (outP : Path → Prop) (defs : Defs) (order pre : List Lbl) (l : Lbl) (suf : List Lbl) (t : Target) (sa sm : BState κ),
    BuildOK outP defs order → order = pre ++ l :: suf → defs l = some t → Rel P outP defs sa sm pre →
    depsOk sm.st t.deps = true →
    ∃ sm1, loadDepList P (withMode cfg true) defs (fuelFor order) t.ldeps sm = (sm1, true) ∧
      sm1.log = sm.log ∧ sm1.cache = sm.cache ∧
      ∀ d ∈ t.deps, ∃ ds dt, sm1.st d = some ds ∧ ds.ok = true ∧ ds.loaded = true ∧ defs d = some dt ∧
        ∀ p ∈ outPaths dt, sm1.fs p = sa.fs p

theorem deps_present_at_exec_holds (P : Params κ) (hro : P.fx.rerunOnce = true) (hlf : P.fx.loadFault = true) :
    deps_present_at_exec P := by
  intro cfg outP defs order pre l suf t sa sm hB ho ht hR hok
  have hlo : l ∈ order := by rw [ho]; simp
  have hpo : ∀ d ∈ pre, d ∈ order := fun d hd => by rw [ho]; simp [hd]
  obtain ⟨hld, _⟩ := hB.wfm l hlo t ht
  have hdeps : ∀ d ∈ t.deps, d ∈ pre := hB.wf.topo pre l suf ho t ht
  obtain ⟨sm1, hload, hR1, _, _, hloaded, _⟩ :=
    loadDepList_restores hro hlf (cfg := withMode cfg true) hB.wf hB.disc hpo t.ldeps (fuelFor order) sm
      (fuel_ok hB.wf hB.wfm l hlo t ht) (fun d hd => hdeps d (by rw [← hld]; exact hd))
      (fun d hd => depsOk_mem hok d (by rw [← hld]; exact hd)) hR
  refine ⟨sm1, hload, by rw [← hR1.log, hR.log], by rw [← hR1.cache, hR.cache], ?_⟩
  intro d hd
  obtain ⟨m, h1, h2, h3⟩ := hloaded d (by rw [hld]; exact hd)
  obtain ⟨dt, hdt⟩ := hB.wf.defined d (hpo d (hdeps d hd))
  exact ⟨m, dt, h1, h2, h3, hdt, fun p hp => hR1.loaded d (hdeps d hd) m h1 h2 h3 dt hdt p hp⟩

/-- "current" also in the sense of the dependency's output hash: under the invariant of the `all` run (C01's `Inv`), what
    minimal mode has materialised for a finished dependency is exactly what its output hash — the one that went into the
    dependant's key — describes. -/
theorem deps_current_at_exec {P : Params κ} {outP : Path → Prop} {defs : Defs} {order pre : List Lbl} {sa sm1 : BState κ}
    {c : Spec.CState} (hI : Inv P defs order sa c pre) (hR1 : Rel P outP defs sa sm1 pre)
    (d : Lbl) (hd : d ∈ pre) (m : TStat κ) (hm : sm1.st d = some m) (hok : m.ok = true) (hl : m.loaded = true) :
    ∃ dt oh, defs d = some dt ∧ m.oh = some oh ∧ OhMatches dt oh sm1.fs := by
  have hst := hR1.st d
  rw [hm] at hst
  cases hsa : sa.st d with
  | none => rw [hsa] at hst; exact absurd hst (by simp [StAgree])
  | some x =>
    rw [hsa] at hst
    obtain ⟨h1, _, h3⟩ := hst
    obtain ⟨dt, oh, hdt, hoh, hmt⟩ := hI.dep d hd x hsa (by rw [h1]; exact hok)
    exact ⟨dt, oh, hdt, by rw [← h3]; exact hoh,
      OhMatches_congr (fun p hp => (hR1.loaded d hd m hm hok hl dt hdt p hp).symm) hmt⟩

/-- **same_verdict_and_execs** — the lock-step statement of the property over whole histories.
    `w` is the common starting world (any definitions, workspace and cache whose CAS holds every blob its results name);
    `h` is any history of edits (of definitions, sources, files at output paths, external files), taints and builds with
    any flags, run once with every build in mode `all` and once with every build in mode `minimal`, over separate
    caches; then one more build `cfg`, `order` in both modes. Every build is well formed (`BuildOK`: `WF`, dependency
    lists without duplicates, declared outputs inside `outP`, inputs and check files outside). **Excluded:** `dropBlob`
    steps (a lost blob makes mode `all` re-execute a target that mode `minimal` still answers from its result record; the
    correspondence check compares such histories modulo irretrievable targets) and non-well-formed builds. -/
def same_verdict_and_execs (P : Params κ) : Prop :=
  ∀ (outP : Path → Prop) (w : World κ) (h : List Step) (cfg : Cfg) (order : List Lbl),
    CasOK w.cache → HistOK outP w.defs h →
    BuildOK outP (runHistory P w (forceMode false h)).defs order →
    let wa := runHistory P w (forceMode false h)
    let wm := runHistory P w (forceMode true h)
    let sa := build P (withMode cfg false) wa order
    let sm := build P (withMode cfg true) wm order
    succeeded sa order = succeeded sm order ∧ executed sa = executed sm ∧ sa.cache = sm.cache ∧
      (∀ l, (∃ ts, sa.st l = some ts ∧ ts.ok = true) ↔ (∃ ts, sm.st l = some ts ∧ ts.ok = true))

theorem same_verdict_and_execs_holds (P : Params κ) (hG : Good P) (hfx : P.fx.minValidate = true) (hro : P.fx.rerunOnce = true)
    (hlf : P.fx.loadFault = true) : same_verdict_and_execs P := by
  intro outP w h cfg order hcas hH hB
  have hW0 : WRel outP w w := ⟨rfl, rfl, fun _ _ => rfl, hcas⟩
  obtain ⟨hW, _⟩ := history_wrel hG hfx hro hlf h w w hW0 hH
  obtain ⟨hR0, _⟩ := build_rel hG hfx hro hlf cfg hW hB
  have hR : Rel P outP (runHistory P w (forceMode false h)).defs (build P (withMode cfg false) (runHistory P w (forceMode false h)) order)
      (build P (withMode cfg true) (runHistory P w (forceMode true h)) order) order := hR0
  refine ⟨succeeded_agree hR.st order, by simp only [executed]; rw [hR.log], hR.cache, ?_⟩
  intro l
  have := hR.st l
  constructor
  · rintro ⟨ts, h1, h2⟩
    rw [h1] at this
    cases hm : (build P (withMode cfg true) (runHistory P w (forceMode true h)) order).st l with
    | none => rw [hm] at this; exact absurd this (by simp [StAgree])
    | some y => rw [hm] at this; exact ⟨y, rfl, by rw [← this.1]; exact h2⟩
  · rintro ⟨ts, h1, h2⟩
    rw [h1] at this
    cases ha : (build P (withMode cfg false) (runHistory P w (forceMode false h)) order).st l with
    | none => rw [ha] at this; exact absurd this (by simp [StAgree])
    | some x => rw [ha] at this; exact ⟨x, rfl, by rw [this.1]; exact h2⟩

/-- the hypotheses are satisfiable by a non-trivial history: an edit that introduces a target with an output, a taint,
    two builds of that target -/
def exDefs : Defs := fun l => if l = [1] then some (mkT [1] [⟨false, [9]⟩] [] false) else none

theorem exBuildOK : BuildOK (fun p => p = [9]) exDefs [[1]] := by
  have hd : ∀ l t, exDefs l = some t → l = [1] ∧ t = mkT [1] [⟨false, [9]⟩] [] false := by
    intro l t h
    simp only [exDefs] at h
    split at h
    · rename_i e; simp only [Option.some.injEq] at h; exact ⟨e, h.symm⟩
    · cases h
  refine ⟨⟨by simp, ?_, ?_, ?_, ?_, ?_, ?_, ?_⟩, ?_, ⟨?_, ?_, ?_⟩⟩
  · intro l hl; simp at hl; subst hl; exact ⟨mkT [1] [⟨false, [9]⟩] [] false, by simp [exDefs]⟩
  · intro l t h; obtain ⟨rfl, rfl⟩ := hd l t h; rfl
  · intro l _ t h; obtain ⟨rfl, rfl⟩ := hd l t h; simp [mkT, outPaths]
  · intro pre l suf _ t h d hdm; obtain ⟨rfl, rfl⟩ := hd l t h; simp [mkT] at hdm
  · intro l₁ h₁ l₂ h₂ hne; simp at h₁ h₂; subst h₁; subst h₂; exact absurd rfl hne
  · intro l _ t h l' _ t' h' p hp; obtain ⟨rfl, rfl⟩ := hd l t h; simp [mkT] at hp
  · intro l _ t h l' _ t' h' c hc; obtain ⟨rfl, rfl⟩ := hd l t h; simp [mkT] at hc
  · intro l _ t h; obtain ⟨rfl, rfl⟩ := hd l t h; simp [mkT]
  · intro l _ t h p hp; obtain ⟨rfl, rfl⟩ := hd l t h; simpa [mkT, outPaths] using hp
  · intro l _ t h p hp; obtain ⟨rfl, rfl⟩ := hd l t h; simp [mkT] at hp
  · intro l _ t h c hc; obtain ⟨rfl, rfl⟩ := hd l t h; simp [mkT] at hc

example : CasOK (emptyCache : Cache Nat) ∧
    HistOK (fun p => p = [9]) (fun _ => none) [.edit exDefs [([5], some [7])], .build ⟨true, false⟩ [[1]], .taint [[1]], .build ⟨true, true⟩ [[1]]] :=
  ⟨fun k r h => by simp [emptyCache] at h, exBuildOK, exBuildOK, trivial⟩

/-- **nocache_rerun_witness** (regression, F-nocache-rerun): with the unrepaired loop a no-cache dependency that
    already ran in this build (its outputs are loaded) is executed again when a dependant loads its dependencies;
    with the repair it is not. -/
theorem nocache_rerun_witness :
    ∃ (defs : Defs) (d : Target) (s : BState Nat), d.noCache = true ∧ (∃ ds, s.st d.label = some ds ∧ ds.loaded = true) ∧
      ∀ (P : Params Nat) (cfg : Cfg), (P.run d.cmd (viewAt defs d s.fs)).exit0 = true →
        (P.fx.rerunOnce = false → (loadDepList P cfg defs 2 [d.label] s).1.log = [d.label]) ∧
        (P.fx.rerunOnce = true → (loadDepList P cfg defs 2 [d.label] s).1.log = []) := by
  let d : Target := mkT [100] [] [] true
  let c : Cache Nat := { res := fun _ => some ⟨.nocache [], []⟩, cas := fun _ => false, taint := fun _ => false }
  let st0 : Lbl → Option (TStat Nat) := fun l => if l = [100] then some ⟨true, some 0, some (.nocache []), true⟩ else none
  let s : BState Nat := { fs := fun _ => none, cache := c, st := st0, log := [] }
  refine ⟨fun l => if l = [100] then some d else none, d, s, rfl, ⟨⟨true, some 0, some (.nocache []), true⟩, by simp [s, st0, d, mkT], rfl⟩, ?_⟩
  intro P cfg hx
  constructor
  · intro hf
    simp [loadDepList, d, s, st0, c, mkT, loadOutputs, hf]
    have hx' : (P.run ⟨[], 0, [], [], false⟩ (viewAt (fun l => if l = [100] then some d else none) d s.fs)).exit0 = true := hx
    simp [execTarget, d, mkT, s, c, checksPass, collect, viewAt] at hx' ⊢
    simp [hx']
  · intro hf
    simp [loadDepList, d, s, st0, c, mkT, loadOutputs, hf]

/-- **check_reads_dependency_witness** (regression; output checks run before the dependency outputs are there).
    `t` depends on `d` and has the output check "`d`'s output file exists"; both are cache hits. Under `all` (`sa`: `d` was
    restored into the workspace) the check passes and nothing runs. Under `minimal` (`sm`: `d` is a hit that was not
    materialised) the unrepaired code runs the check on a workspace without `d`'s output, so the check fails and `t` is
    executed; the repaired code loads the outputs of `t`'s dependencies before the check, and nothing runs. -/
theorem check_reads_dependency_witness :
    ∃ (defs : Defs) (t : Target) (sa sm : BState Nat) (ks : KeyState Nat), sa.cache = sm.cache ∧ sa.log = [] ∧ sm.log = [] ∧
      ∀ (P : Params Nat), P.K ks = 7 → P.fx.gateChecks = true →
        (buildTarget P ⟨true, false⟩ defs 5 t sa).log = [] ∧
        (P.fx.checkDeps = false → (buildTarget P ⟨true, true⟩ defs 5 t sm).log = [t.label]) ∧
        (P.fx.checkDeps = true → (buildTarget P ⟨true, true⟩ defs 5 t sm).log = []) := by
  let od : OutDef := ⟨false, [111]⟩
  let d : Target := mkT [100] [od] [] false
  let t : Target := mkT [116] [] [([111], none)] false [[100]]
  let ohd : OH Nat := .outs [(od, [1])]
  let c : Cache Nat := { res := fun k => if k = 3 then some ⟨ohd, [(od, [1])]⟩ else if k = 7 then some ⟨.self 7, []⟩ else none,
                         cas := fun _ => true, taint := fun _ => false }
  let defs : Defs := fun l => if l = [100] then some d else if l = [116] then some t else none
  let sa : BState Nat := { fs := fun p => if p = [111] then some [1] else none, cache := c,
                           st := fun l => if l = [100] then some ⟨true, some 3, some ohd, true⟩ else none, log := [] }
  let sm : BState Nat := { fs := fun _ => none, cache := c,
                           st := fun l => if l = [100] then some ⟨true, some 3, some ohd, false⟩ else none, log := [] }
  refine ⟨defs, t, sa, sm, keyState t (fun _ => none) [ohd], rfl, rfl, rfl, ?_⟩
  intro P hK hg
  have hK' : P.K ⟨[116], ⟨[], 0, [], [], false⟩, [], [], [([100], ohd)], [], []⟩ = 7 := hK
  refine ⟨?_, ?_, ?_⟩
  · simp [buildTarget, buildTargetNoPre, hg, t, sa, c, mkT, depsOk, depOhs, ohOf, keyState, hK', tryHit, checksPass, restore, validate,
      writeOuts, upd]
  · intro hf
    have hb : buildTarget P ⟨true, true⟩ defs 5 t sm =
        (let r := execTarget P ⟨true, true⟩ defs t 7 false
          { sm with fs := upd (fun _ => none) [111] (some [1]),
                    st := upd sm.st [100] (some ⟨true, some 3, some ohd, true⟩) }
         if r.2 then r.1 else failT r.1 t.label) := by
      simp [buildTarget, buildTargetNoPre, hf, hg, t, d, od, ohd, sm, c, defs, mkT, depsOk, depOhs, ohOf, keyState, hK', tryHit, checksPass,
        loadDepList, loadOutputs, restore, validate, writeOuts, upd]
    rw [hb]
    simp only
    split
    · rw [execTarget_log]
    · show (execTarget _ _ _ _ _ _ _).1.log = _
      rw [execTarget_log]
  · intro hf
    simp [buildTarget, buildTargetNoPre, hf, hg, t, d, od, ohd, sm, c, defs, mkT, depsOk, depOhs, ohOf, keyState, hK', tryHit, checksPass,
      loadDepList, loadOutputs, restore, validate, writeOuts, upd]

/-- **load_fault_witness** (regression; fault while dependency outputs are loaded): `t` needs `d1` and `d2`; the
    stored result of `d1` cannot be read. The unrepaired loop re-runs `d1` and returns: `d2` is still not materialised
    when `t`'s command starts. The repaired loop carries on and loads `d2`. -/
theorem load_fault_witness :
    ∃ (defs : Defs) (s : BState Nat), (∃ ds, s.st [50] = some ds ∧ ds.ok = true ∧ ds.loaded = false) ∧ s.cache.res 1 = none ∧
      ∀ (P : Params Nat) (cfg : Cfg), (P.run ⟨[], 0, [], [], false⟩ ⟨[], []⟩).exit0 = true →
        (P.fx.loadFault = false → ∃ ds, (loadDepList P cfg defs 5 [[49], [50]] s).1.st [50] = some ds ∧ ds.loaded = false) ∧
        (P.fx.loadFault = true → (loadDepList P cfg defs 5 [[49], [50]] s).2 = true ∧
            ∃ ds, (loadDepList P cfg defs 5 [[49], [50]] s).1.st [50] = some ds ∧ ds.loaded = true) := by
  let d1 : Target := mkT [49] [] [] false
  let d2 : Target := mkT [50] [] [] false
  let c : Cache Nat := { res := fun k => if k = 2 then some ⟨.self 2, []⟩ else none, cas := fun _ => false, taint := fun _ => false }
  let st0 : Lbl → Option (TStat Nat) := fun l =>
    if l = [49] then some ⟨true, some 1, some (.self 1), false⟩ else if l = [50] then some ⟨true, some 2, some (.self 2), false⟩ else none
  let s : BState Nat := { fs := fun _ => none, cache := c, st := st0, log := [] }
  refine ⟨fun l => if l = [49] then some d1 else if l = [50] then some d2 else none, s,
    ⟨⟨true, some 2, some (.self 2), false⟩, by simp [s, st0], rfl, rfl⟩, by simp [s, c], ?_⟩
  intro P cfg hx
  have hx' : (P.run ⟨[], 0, [], [], false⟩ (viewAt (fun l => if l = [49] then some d1 else if l = [50] then some d2 else none) d1 s.fs)).exit0 = true := by
    simpa [viewAt, d1, mkT] using hx
  constructor
  · intro hf
    simp [loadDepList, d1, d2, s, st0, c, mkT, hf, execTarget, checksPass, collect, viewAt] at hx' ⊢
    simp [hx', upd]
  · intro hf
    simp [loadDepList, d1, d2, s, st0, c, mkT, hf, execTarget, checksPass, collect, viewAt, loadOutputs, restore, validate, writeOuts] at hx' ⊢
    simp [hx', upd]

end Grog.C15
