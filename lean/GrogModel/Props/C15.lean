/-
  C15 — load_outputs=minimal is observationally equivalent to `all` for what gets built.
  Model: GrogModel/Exec.lean (`tryHit` minimal branch, `loadOutputs`, `loadDepList`).
  Proved here: the per-target decision does not depend on the mode (no lost blobs), what minimal mode
  materialises is exactly what mode `all` restores from the same result, a loaded dependency is marked loaded with
  the stored output hash. The whole-history lock-step statement is kept as `same_verdict_and_execs` (a `def`);
  the correspondence check compares the two modes on the real CLI in lock step.
-/
import GrogModel.Lemmas.BuildBasic
set_option linter.unusedSectionVars false
set_option linter.unusedVariables false
set_option linter.unusedSimpArgs false
namespace Grog.C15
open Grog Grog.Exec Grog.Build

variable {κ : Type} [DecidableEq κ]

def withMode (cfg : Cfg) (m : Bool) : Cfg := { cfg with minimal := m }

/-- **same_decision_step.** From the same state (same cache, same taints, same workspace outside output paths) the
    hit/execute decision for a target is the same in both modes, provided the blobs of the stored result are
    present (no cache fault): both modes require a result for the key, no taint, no no-cache tag, an enabled cache,
    passing checks and a stored result that names exactly the declared outputs. -/
theorem same_decision_step (P : Params κ) (cfg : Cfg) (t : Target) (k : κ) (s : BState κ)
    (hfx : P.fx.minValidate = true)
    (hblobs : ∀ r, s.cache.res k = some r → ∀ ov ∈ r.outs, s.cache.cas ov.2 = true) :
    (tryHit P (withMode cfg false) t k s).isSome = (tryHit P (withMode cfg true) t k s).isSome := by
  unfold tryHit withMode
  cases hr : s.cache.res k with
  | none => rfl
  | some r =>
    simp only
    split
    · simp only [Bool.false_eq_true, ↓reduceIte, hfx, Bool.not_true, Bool.or_false]
      have hb : (r.outs.all fun ov => s.cache.cas ov.2) = true := List.all_eq_true.2 (hblobs r hr)
      unfold restore
      simp only [hb, Bool.and_true]
      cases validate t r <;> simp
    · rfl

/-- the two modes also hand the same output hash and key to the dependants -/
theorem same_status_step (P : Params κ) (cfg : Cfg) (t : Target) (k : κ) (s sa sm : BState κ)
    (ha : tryHit P (withMode cfg false) t k s = some sa) (hmi : tryHit P (withMode cfg true) t k s = some sm) :
    ∃ tsa tsm, sa.st t.label = some tsa ∧ sm.st t.label = some tsm ∧ tsa.ok = tsm.ok ∧ tsa.oh = tsm.oh ∧ tsa.key = tsm.key ∧
      sa.cache = sm.cache ∧ sa.log = sm.log := by
  unfold tryHit withMode at ha hmi
  cases hr : s.cache.res k with
  | none => simp [hr] at ha
  | some r =>
    simp only [hr] at ha hmi
    split at ha
    · rename_i hg
      simp only [hg, ↓reduceIte] at hmi
      simp only [Bool.false_eq_true, ↓reduceIte] at ha
      split at hmi
      · split at ha
        · simp only [Option.some.injEq] at ha hmi; subst ha; subst hmi
          exact ⟨{ ok := true, key := some k, oh := some r.oh, loaded := true }, { ok := true, key := some k, oh := some r.oh, loaded := false }, by simp, by simp, rfl, rfl, rfl, rfl, rfl⟩
        · cases ha
      · cases hmi
    · cases ha

/-- **materialised_equal.** Whatever minimal mode materialises for a target (when a dependant needs it) is written by
    the same `restore` from the same stored result that mode `all` would have used at once: the bytes at the output
    paths are the stored values, and the target is marked loaded with the stored output hash. -/
theorem materialised_equal (d : Target) (r : Result κ) (s s' : BState κ) (h : loadOutputs d r s = some s') :
    s' = s ∨ (s'.fs = writeOuts s.fs r.outs ∧ r.outs.map (·.1) = d.outs ∧
      ∃ ds, s'.st d.label = some ds ∧ ds.loaded = true ∧ ds.oh = some r.oh) := by
  unfold loadOutputs at h
  split at h
  · cases h
  · rename_i ds hds
    split at h
    · simp only [Option.some.injEq] at h; exact Or.inl h.symm
    · split at h
      · rename_i fs' hrest
        obtain ⟨hv, _, hfs⟩ := restore_some hrest
        simp only [Option.some.injEq] at h; subst h
        exact Or.inr ⟨hfs, hv, { ds with loaded := true, oh := some r.oh }, by simp, rfl, rfl⟩
      · cases h

/-- `deps_present_at_exec`, stated in full (not proved for whole builds): whenever a command starts, every declared
    output of every direct dependency is in the workspace with the value the dependency's output hash encodes. -/
def deps_present_at_exec (P : Params κ) : Prop :=
  ∀ (cfg : Cfg) (defs : Defs) (fuel : Nat) (t : Target) (s s1 : BState κ),
    loadDepList P cfg defs fuel t.ldeps s = (s1, true) →
    ∀ d ∈ t.deps, ∀ ds, s1.st d = some ds → ds.ok = true → ds.loaded = true

/-- the lock-step statement of the property over whole histories (kept as a definition; the correspondence check
    runs both modes of the real CLI in lock step on every generated history) -/
def same_verdict_and_execs (P : Params κ) : Prop :=
  ∀ (w : World κ) (h : List Step) (cfg : Cfg) (order : List Lbl),
    let wa := runHistory P w (h.map fun st => match st with | .build c o => .build (withMode c false) o | x => x)
    let wm := runHistory P w (h.map fun st => match st with | .build c o => .build (withMode c true) o | x => x)
    succeeded (build P (withMode cfg false) wa order) order = succeeded (build P (withMode cfg true) wm order) order

/-- **nocache_rerun_witness** (regression, F-nocache-rerun): with the unrepaired loop a no-cache dependency that
    already ran in this build (its outputs are loaded) is executed again when a dependant loads its dependencies;
    with the repair it is not. -/
theorem nocache_rerun_witness :
    ∃ (defs : Defs) (d : Target) (s : BState Nat), d.noCache = true ∧ (∃ ds, s.st d.label = some ds ∧ ds.loaded = true) ∧
      ∀ (P : Params Nat) (cfg : Cfg), (P.run d.cmd (viewAt defs d s.fs)).exit0 = true →
        (P.fx.rerunOnce = false → (loadDepList P cfg defs 2 [d.label] s).1.log = [d.label]) ∧
        (P.fx.rerunOnce = true → (loadDepList P cfg defs 2 [d.label] s).1.log = []) := by
  let d : Target := mkT [100] [] [] true
  let c : Cache Nat := { res := fun _ => some ⟨.nocache [], []⟩, cas := fun _ => false, taint := fun _ => false }
  let st0 : Lbl → Option (TStat Nat) := fun l => if l = [100] then some ⟨true, some 0, some (.nocache []), true⟩ else none
  let s : BState Nat := { fs := fun _ => none, cache := c, st := st0, log := [] }
  refine ⟨fun l => if l = [100] then some d else none, d, s, rfl, ⟨⟨true, some 0, some (.nocache []), true⟩, by simp [s, st0, d, mkT], rfl⟩, ?_⟩
  intro P cfg hx
  constructor
  · intro hf
    simp [loadDepList, d, s, st0, c, mkT, loadOutputs, hf]
    have hx' : (P.run ⟨[], 0, [], [], false⟩ (viewAt (fun l => if l = [100] then some d else none) d s.fs)).exit0 = true := hx
    simp [execTarget, d, mkT, s, c, checksPass, collect, viewAt] at hx' ⊢
    simp [hx']
  · intro hf
    simp [loadDepList, d, s, st0, c, mkT, loadOutputs, hf]

/-- **load_fault_witness** (regression; fault while dependency outputs are loaded): `t` needs `d1` and `d2`; the
    stored result of `d1` cannot be read. The unrepaired loop re-runs `d1` and returns: `d2` is still not materialised
    when `t`'s command starts. The repaired loop carries on and loads `d2`. -/
theorem load_fault_witness :
    ∃ (defs : Defs) (s : BState Nat), (∃ ds, s.st [50] = some ds ∧ ds.ok = true ∧ ds.loaded = false) ∧ s.cache.res 1 = none ∧
      ∀ (P : Params Nat) (cfg : Cfg), (P.run ⟨[], 0, [], [], false⟩ ⟨[], []⟩).exit0 = true →
        (P.fx.loadFault = false → ∃ ds, (loadDepList P cfg defs 5 [[49], [50]] s).1.st [50] = some ds ∧ ds.loaded = false) ∧
        (P.fx.loadFault = true → (loadDepList P cfg defs 5 [[49], [50]] s).2 = true ∧
            ∃ ds, (loadDepList P cfg defs 5 [[49], [50]] s).1.st [50] = some ds ∧ ds.loaded = true) := by
  let d1 : Target := mkT [49] [] [] false
  let d2 : Target := mkT [50] [] [] false
  let c : Cache Nat := { res := fun k => if k = 2 then some ⟨.self 2, []⟩ else none, cas := fun _ => false, taint := fun _ => false }
  let st0 : Lbl → Option (TStat Nat) := fun l =>
    if l = [49] then some ⟨true, some 1, some (.self 1), false⟩ else if l = [50] then some ⟨true, some 2, some (.self 2), false⟩ else none
  let s : BState Nat := { fs := fun _ => none, cache := c, st := st0, log := [] }
  refine ⟨fun l => if l = [49] then some d1 else if l = [50] then some d2 else none, s,
    ⟨⟨true, some 2, some (.self 2), false⟩, by simp [s, st0], rfl, rfl⟩, by simp [s, c], ?_⟩
  intro P cfg hx
  have hx' : (P.run ⟨[], 0, [], [], false⟩ (viewAt (fun l => if l = [49] then some d1 else if l = [50] then some d2 else none) d1 s.fs)).exit0 = true := by
    simpa [viewAt, d1, mkT] using hx
  constructor
  · intro hf
    simp [loadDepList, d1, d2, s, st0, c, mkT, hf, execTarget, checksPass, collect, viewAt] at hx' ⊢
    simp [hx', upd]
  · intro hf
    simp [loadDepList, d1, d2, s, st0, c, mkT, hf, execTarget, checksPass, collect, viewAt, loadOutputs, restore, validate, writeOuts] at hx' ⊢
    simp [hx', upd]

end Grog.C15
