/-
  C10 — at most one grog build runs in a workspace; stale locks are recovered.
  Property theorems only; the invariant proof is in GrogModel/Lemmas/LockInv.lean, the progress
  lemmas in GrogModel/Lemmas/LockLive.lean.
  Model: GrogModel/Lock.lean (internal/locking/workspace_locker.go; one transition per file-system call,
  any number of processes, crash of any process between any two of its calls).
-/
import GrogModel.Lemmas.LockInv
namespace Grog.C10
open Grog.Lock

/-- Mutual exclusion, current tree (flock protocol): in every reachable state — any number of
    processes, any interleaving of their file-system calls, any crashes, with or without a lock file
    left behind — at most one process is past lock acquisition. -/
theorem mutex {s : State} (h : Reach s) {i j : Nat}
    (hi : (s.pc i).inCritical = true) (hj : (s.pc j).inCritical = true) : i = j := by
  have inv := inv_reach h
  have ci : ∃ n, (s.pc i).critical n := by
    cases hp : s.pc i <;> simp [hp, PC.inCritical] at hi <;> exact ⟨_, by simp [PC.critical]; rfl⟩
  have cj : ∃ n, (s.pc j).critical n := by
    cases hp : s.pc j <;> simp [hp, PC.inCritical] at hj <;> exact ⟨_, by simp [PC.critical]; rfl⟩
  obtain ⟨n, hn⟩ := ci
  obtain ⟨m, hm⟩ := cj
  exact critical_unique inv hn hm

/-- the hypotheses of `mutex` are satisfiable: after process 0 has run alone for six calls it holds
    the lock (on a reachable state). -/
example : ((solo 0 6 (init false)).pc 0).inCritical = true := by decide

/-! ### Regression: the PID-file protocol of the tree before the fix violates mutual exclusion -/

/-- A creates the lock file; before A writes its PID, B finds the file, reads it (empty), treats it
    as stale, removes it, creates its own and acquires; A then writes its PID into the unlinked file
    and acquires as well. -/
def scheduleEmpty : List Ev :=
  [.step 0, .step 1, .step 1, .step 1, .step 1, .step 1, .step 1, .step 0, .step 0]

theorem mutex_witness_empty :
    (V0.runStrict (V0.init 2 none) scheduleEmpty).map (fun s => (s.pcs 0, s.pcs 1)) =
      some (V0.PC.holding, V0.PC.holding) := by decide

/-- A lock file with a dead PID is left behind. B and C both read it and find the PID dead; B removes
    the file, creates its own and acquires; C then removes *B's* file, creates its own and acquires. -/
def scheduleStale : List Ev :=
  [.step 0, .step 0, .step 0, .step 1, .step 1, .step 1,
   .step 0, .step 0, .step 0, .step 0, .step 1, .step 1, .step 1, .step 1]

theorem mutex_witness_stale :
    (V0.runStrict (V0.init 2 (some (.pid 7))) scheduleStale).map (fun s => (s.pcs 0, s.pcs 1)) =
      some (V0.PC.holding, V0.PC.holding) := by decide

end Grog.C10
