/-
  C10 — at most one grog build runs in a workspace; stale locks are recovered.
  Property theorems only; the invariant proof is in GrogModel/Lemmas/LockInv.lean, the progress
  lemmas in GrogModel/Lemmas/LockLive.lean.
  Model: GrogModel/Lock.lean (internal/locking/workspace_locker.go; one transition per file-system call,
  any number of processes, crash of any process between any two of its calls).
-/
import GrogModel.Lemmas.LockFair
namespace Grog.C10
open Grog.Lock

/-- Mutual exclusion, current tree (flock protocol): in every reachable state — any number of
    processes, any interleaving of their file-system calls, any crashes, with or without a lock file
    left behind — at most one process is past lock acquisition. -/
theorem mutex {s : State} (h : Reach s) {i j : Nat}
    (hi : (s.pc i).inCritical = true) (hj : (s.pc j).inCritical = true) : i = j := by
  have inv := inv_reach h
  have ci : ∃ n, (s.pc i).critical n := by
    cases hp : s.pc i <;> simp [hp, PC.inCritical] at hi <;> exact ⟨_, by simp [PC.critical]; rfl⟩
  have cj : ∃ n, (s.pc j).critical n := by
    cases hp : s.pc j <;> simp [hp, PC.inCritical] at hj <;> exact ⟨_, by simp [PC.critical]; rfl⟩
  obtain ⟨n, hn⟩ := ci
  obtain ⟨m, hm⟩ := cj
  exact critical_unique inv hn hm

/-- the hypotheses of `mutex` are satisfiable: after process 0 has run alone for six calls it holds
    the lock (on a reachable state). -/
example : ((solo 0 6 (init false)).pc 0).inCritical = true := by decide

/-- A stale lock never blocks: in any reachable state in which no *other* process holds a flock — in
    particular when every other process has been killed, wherever in `Lock`/`Unlock` it died and whatever it
    left at the lock path — a contender at ANY point of its acquisition path (including `opened`, `locked`,
    `statted`, `mismatch`: it may hold a descriptor, even the flock, on an inode the path no longer names)
    that runs alone is past acquisition after at most ten of its own calls. (The content of a left-over lock
    file plays no role in this protocol; its presence is covered by both initial states.) -/
theorem stale_never_blocks {s : State} (h : Reach s) (w : Nat) (hw : (s.pc w).contending)
    (others : ∀ j, j ≠ w → (s.pc j).noLock) :
    ∃ k, k ≤ 10 ∧ ∃ n, (solo w k s).pc w = .holding n :=
  solo_acquires_contending (inv_reach h) w hw others

/-- … specialised: every other process is dead, has finished, or has not started (processes are indexed by
    `Nat` and all start `idle`, so "all others dead" alone would be unsatisfiable on reachable states). -/
theorem stale_never_blocks_others_gone {s : State} (h : Reach s) (w : Nat) (hw : (s.pc w).contending)
    (others : ∀ j, j ≠ w → s.pc j = .dead ∨ s.pc j = .done ∨ s.pc j = .idle) :
    ∃ k, k ≤ 10 ∧ ∃ n, (solo w k s).pc w = .holding n :=
  stale_never_blocks h w hw (fun j hj n => by
    rcases others j hj with e | e | e <;> rw [e] <;> simp [PC.owns])

/-- the state used in the examples below: lock file present; 0 acquires; 1 opens the file and fails to flock;
    0 is killed while holding -/
def afterHolderKilled : State :=
  run (init true) [.step 0, .step 0, .step 0, .step 0, .step 0, .step 0, .step 1, .step 1, .crash 0]

theorem afterHolderKilled_reach : Reach afterHolderKilled := by
  unfold afterHolderKilled
  have key : ∀ (es : List Ev) (s : State), Reach s → Reach (run s es) := by
    intro es
    induction es with
    | nil => intro s h; exact h
    | cons e es ih =>
      intro s h
      simp only [run]
      cases hs : step s e with
      | none => exact ih s h
      | some s' => exact ih s' (Reach.step e h hs)
  exact key _ _ (Reach.init true)

/-- the hypotheses of `stale_never_blocks_others_gone` hold on a reachable state — 0 dead, 1 mid-loop, all
    others never started — and its conclusion computes. -/
example :
    Reach afterHolderKilled ∧ (afterHolderKilled.pc 1).contending ∧
    (∀ j, j ≠ 1 → afterHolderKilled.pc j = .dead ∨ afterHolderKilled.pc j = .done ∨ afterHolderKilled.pc j = .idle) ∧
    ((solo 1 9 afterHolderKilled).pc 1).inCritical = true := by
  have h1 : afterHolderKilled.pc 1 = .busy 0 := by decide
  refine ⟨afterHolderKilled_reach, by rw [h1]; trivial, ?_, by decide⟩
  intro j hj
  match j with
  | 0 => exact Or.inl (by decide)
  | 1 => exact absurd rfl hj
  | j + 2 => exact Or.inr (Or.inr (by simp [afterHolderKilled, run, step, init, State.pc, State.setPc, State.setProc, State.releaseAll]))

/-- No contender is ever stuck (deadlock-freedom of the acquisition path): in every state the pending call of
    a process that is trying to acquire is enabled, and a holder can always unlock. -/
theorem contender_never_stuck (s : State) (i : Nat) :
    ((s.pc i).contending → (step s (.step i)).isSome = true) ∧
    (∀ n, s.pc i = .holding n → (step s (.unlock i)).isSome = true) := by
  refine ⟨contending_enabled s i, ?_⟩
  intro n hn; simp only [step, hn]; rfl

/-- Progress under every interleaving (hence under any fair scheduler, with any number of live waiters): once
    a process has won the flock on the inode the lock path names (`locked n` with `path = some n`), nothing the
    other processes do — steps, crashes, unlocks, in any order and number — can take the lock from it or
    change the path: after its next four own calls it is the holder. Only killing it stops it. -/
theorem flock_winner_acquires {s : State} (h : Reach s) (w n : Nat) (hw : s.pc w = .locked n)
    (hp : s.path = some n) (es : List Ev) (hes : ∀ e ∈ es, e ≠ .crash w ∧ e ≠ .unlock w)
    (hfair : 4 ≤ countSteps w es) :
    (run s es).pc w = .holding n := by
  have := (winner_progress w n es s 4 (inv_reach h) (by rw [hw]; rfl) hp hes).1
  have e0 : 4 - countSteps w es = 0 := by omega
  rw [e0] at this
  cases hpc : (run s es).pc w <;> rw [hpc] at this <;> simp [PC.stage] at this
  rw [this]

/-- satisfiable: 0 has won the flock; 1 and 2 contend (and 2 is killed) in between 0's calls. -/
example :
    let s := run (init false) [.step 0, .step 1, .step 0]
    s.pc 0 = .locked 1 ∧ s.path = some 1 ∧
    (run s [.step 1, .step 0, .step 2, .step 1, .step 0, .step 2, .crash 2, .step 0, .step 1, .step 0]).pc 0 = .holding 1 := by
  decide

/-- A waiter proceeds: if `hld` holds the lock, `w` is anywhere on its acquisition path (it may have opened
    the lock file before the holder unlinks it) and nobody else holds a flock, then after `hld` has run
    `Unlock()` (remove, close) — or after `hld` was killed — `w`, running alone, holds the lock within ten of
    its own calls. -/
theorem waiter_proceeds {s : State} (h : Reach s) (hld w n : Nat) (hh : s.pc hld = .holding n)
    (hw : (s.pc w).contending) (hne : w ≠ hld) (others : ∀ j, j ≠ w → j ≠ hld → (s.pc j).noLock) :
    (∃ k, k ≤ 10 ∧ ∃ m, (solo w k (run s [.unlock hld, .step hld, .step hld])).pc w = .holding m) ∧
    (∃ k, k ≤ 10 ∧ ∃ m, (solo w k (run s [.crash hld])).pc w = .holding m) := by
  constructor
  · -- release
    have e1 : step s (.unlock hld) = some (s.setPc hld (.unlocking n)) := by simp only [step, hh]
    have e2 : step (s.setPc hld (.unlocking n)) (.step hld) =
        some ({ s.setPc hld (.unlocking n) with path := none }.setPc hld (.removed n)) := by
      simp only [step, pc_setPc_self]
    have e3 : step ({ s.setPc hld (.unlocking n) with path := none }.setPc hld (.removed n)) (.step hld) =
        some ((({ s.setPc hld (.unlocking n) with path := none }.setPc hld (.removed n)).release hld n).setPc hld .done) := by
      simp only [step, pc_setPc_self]
    have r1 := Reach.step _ h e1
    have r2 := Reach.step _ r1 e2
    have r3 := Reach.step _ r2 e3
    have hrun : run s [.unlock hld, .step hld, .step hld] =
        (({ s.setPc hld (.unlocking n) with path := none }.setPc hld (.removed n)).release hld n).setPc hld .done := by
      rw [run_cons_some e1, run_cons_some e2, run_cons_some e3]; rfl
    rw [hrun]
    apply stale_never_blocks r3 w
    · simpa [State.setPc, State.setProc, State.pc, State.release, hne] using hw
    · intro j hj
      by_cases e : j = hld
      · subst e; intro m; simp [State.setPc, State.setProc, State.pc, State.release, PC.owns]
      · have := others j hj e
        simpa [State.setPc, State.setProc, State.pc, State.release, e] using this
  · -- death
    have e1 : step s (.crash hld) = some ((s.releaseAll hld).setPc hld .dead) := by simp only [step, hh]
    have r1 := Reach.step _ h e1
    have hrun : run s [.crash hld] = (s.releaseAll hld).setPc hld .dead := by
      rw [run_cons_some e1]; rfl
    rw [hrun]
    apply stale_never_blocks r1 w
    · simpa [State.setPc, State.setProc, State.pc, State.releaseAll, hne] using hw
    · intro j hj
      by_cases e : j = hld
      · subst e; intro m; simp [State.setPc, State.setProc, State.pc, State.releaseAll, PC.owns]
      · have := others j hj e
        simpa [State.setPc, State.setProc, State.pc, State.releaseAll, e] using this

/-- hypotheses satisfiable: 0 holds, 1 has just failed to flock and is about to sleep. -/
example :
    let s := run (init false) [.step 0, .step 0, .step 0, .step 0, .step 0, .step 0, .step 1, .step 1, .step 1]
    (∃ n, s.pc 0 = .holding n) ∧ (s.pc 1).label = "os.ReadFile" := by
  refine ⟨⟨1, by decide⟩, by decide⟩

/-- Regression (`grog clean` before fix 5a4d0e7): process 0 holds the lock; the lock path is removed by a process
    that does not hold it; process 1 then creates a fresh lock file and acquires as well. This is why the
    invariant needs "only a holder removes the path", and why `clean` now takes the lock. -/
theorem clean_without_lock_witness :
    let s := solo 1 6 (wipe (solo 0 6 (init false)))
    (s.pc 0).inCritical = true ∧ (s.pc 1).inCritical = true := by decide

/-! ### Regression: the PID-file protocol of the tree before the fix violates mutual exclusion -/

/-- A creates the lock file; before A writes its PID, B finds the file, reads it (empty), treats it
    as stale, removes it, creates its own and acquires; A then writes its PID into the unlinked file
    and acquires as well. -/
def scheduleEmpty : List Ev :=
  [.step 0, .step 1, .step 1, .step 1, .step 1, .step 1, .step 1, .step 0, .step 0]

theorem mutex_witness_empty :
    (V0.runStrict (V0.init 2 none) scheduleEmpty).map (fun s => (s.pcs 0, s.pcs 1)) =
      some (V0.PC.holding, V0.PC.holding) := by decide

/-- A lock file with a dead PID is left behind. B and C both read it and find the PID dead; B removes
    the file, creates its own and acquires; C then removes *B's* file, creates its own and acquires. -/
def scheduleStale : List Ev :=
  [.step 0, .step 0, .step 0, .step 1, .step 1, .step 1,
   .step 0, .step 0, .step 0, .step 0, .step 1, .step 1, .step 1, .step 1]

theorem mutex_witness_stale :
    (V0.runStrict (V0.init 2 (some (.pid 7))) scheduleStale).map (fun s => (s.pcs 0, s.pcs 1)) =
      some (V0.PC.holding, V0.PC.holding) := by decide

end Grog.C10
