/-
  C10 — at most one grog build runs in a workspace; stale locks are recovered.
  Property theorems only; the invariant proof is in GrogModel/Lemmas/LockInv.lean, the progress
  lemmas in GrogModel/Lemmas/LockLive.lean.
  Model: GrogModel/Lock.lean (internal/locking/workspace_locker.go; one transition per file-system call,
  any number of processes, crash of any process between any two of its calls).
-/
import GrogModel.Lemmas.LockLive
namespace Grog.C10
open Grog.Lock

/-- Mutual exclusion, current tree (flock protocol): in every reachable state — any number of
    processes, any interleaving of their file-system calls, any crashes, with or without a lock file
    left behind — at most one process is past lock acquisition. -/
theorem mutex {s : State} (h : Reach s) {i j : Nat}
    (hi : (s.pc i).inCritical = true) (hj : (s.pc j).inCritical = true) : i = j := by
  have inv := inv_reach h
  have ci : ∃ n, (s.pc i).critical n := by
    cases hp : s.pc i <;> simp [hp, PC.inCritical] at hi <;> exact ⟨_, by simp [PC.critical]; rfl⟩
  have cj : ∃ n, (s.pc j).critical n := by
    cases hp : s.pc j <;> simp [hp, PC.inCritical] at hj <;> exact ⟨_, by simp [PC.critical]; rfl⟩
  obtain ⟨n, hn⟩ := ci
  obtain ⟨m, hm⟩ := cj
  exact critical_unique inv hn hm

/-- the hypotheses of `mutex` are satisfiable: after process 0 has run alone for six calls it holds
    the lock (on a reachable state). -/
example : ((solo 0 6 (init false)).pc 0).inCritical = true := by decide

/-- A stale lock never blocks: in any reachable state in which no *other* process holds a flock — in
    particular when every other process is dead, wherever in `Lock`/`Unlock` it died and whatever it left
    at the lock path — a contender in its acquisition loop that runs alone holds the lock after at most
    nine of its own calls. (The content of a left-over lock file plays no role in this protocol; its
    presence is covered by both initial states `init true` / `init false`.) -/
theorem stale_never_blocks {s : State} (h : Reach s) (w : Nat) (hw : (s.pc w).inLoop)
    (others : ∀ j, j ≠ w → (s.pc j).noLock) :
    ∃ k, k ≤ 9 ∧ ∃ n, (solo w k s).pc w = .holding n :=
  solo_acquires (inv_reach h) w hw others

/-- … specialised: all other processes are dead. -/
theorem stale_never_blocks_all_dead {s : State} (h : Reach s) (w : Nat) (hw : (s.pc w).inLoop)
    (others : ∀ j, j ≠ w → s.pc j = .dead) :
    ∃ k, k ≤ 9 ∧ ∃ n, (solo w k s).pc w = .holding n :=
  stale_never_blocks h w hw (fun j hj n => by rw [others j hj]; simp [PC.owns])

/-- hypotheses satisfiable: process 0 acquires (pre-existing lock file), is killed while holding;
    process 1, which was waiting, then acquires alone. -/
example :
    let s := run (init true) [.step 0, .step 0, .step 0, .step 0, .step 0, .step 0, .step 1, .step 1, .crash 0]
    s.pc 0 = .dead ∧ (s.pc 1).label = ".Close" ∧ ((solo 1 9 s).pc 1).inCritical = true := by decide

/-- A waiter proceeds: if `hld` holds the lock, `w` is in its acquisition loop and nobody else holds a
    flock, then after `hld` has run `Unlock()` (remove, close) — or after `hld` was killed — `w`, running
    alone, holds the lock within nine of its own calls. -/
theorem waiter_proceeds {s : State} (h : Reach s) (hld w n : Nat) (hh : s.pc hld = .holding n)
    (hw : (s.pc w).inLoop) (hne : w ≠ hld) (others : ∀ j, j ≠ w → j ≠ hld → (s.pc j).noLock) :
    (∃ k, k ≤ 9 ∧ ∃ m, (solo w k (run s [.unlock hld, .step hld, .step hld])).pc w = .holding m) ∧
    (∃ k, k ≤ 9 ∧ ∃ m, (solo w k (run s [.crash hld])).pc w = .holding m) := by
  constructor
  · -- release
    have e1 : step s (.unlock hld) = some (s.setPc hld (.unlocking n)) := by simp only [step, hh]
    have e2 : step (s.setPc hld (.unlocking n)) (.step hld) =
        some ({ s.setPc hld (.unlocking n) with path := none }.setPc hld (.removed n)) := by
      simp only [step, pc_setPc_self]
    have e3 : step ({ s.setPc hld (.unlocking n) with path := none }.setPc hld (.removed n)) (.step hld) =
        some ((({ s.setPc hld (.unlocking n) with path := none }.setPc hld (.removed n)).release hld n).setPc hld .done) := by
      simp only [step, pc_setPc_self]
    have r1 := Reach.step _ h e1
    have r2 := Reach.step _ r1 e2
    have r3 := Reach.step _ r2 e3
    have hrun : run s [.unlock hld, .step hld, .step hld] =
        (({ s.setPc hld (.unlocking n) with path := none }.setPc hld (.removed n)).release hld n).setPc hld .done := by
      rw [run_cons_some e1, run_cons_some e2, run_cons_some e3]; rfl
    rw [hrun]
    apply stale_never_blocks r3 w
    · simpa [State.setPc, State.setProc, State.pc, State.release, hne] using hw
    · intro j hj
      by_cases e : j = hld
      · subst e; intro m; simp [State.setPc, State.setProc, State.pc, State.release, PC.owns]
      · have := others j hj e
        simpa [State.setPc, State.setProc, State.pc, State.release, e] using this
  · -- death
    have e1 : step s (.crash hld) = some ((s.releaseAll hld).setPc hld .dead) := by simp only [step, hh]
    have r1 := Reach.step _ h e1
    have hrun : run s [.crash hld] = (s.releaseAll hld).setPc hld .dead := by
      rw [run_cons_some e1]; rfl
    rw [hrun]
    apply stale_never_blocks r1 w
    · simpa [State.setPc, State.setProc, State.pc, State.releaseAll, hne] using hw
    · intro j hj
      by_cases e : j = hld
      · subst e; intro m; simp [State.setPc, State.setProc, State.pc, State.releaseAll, PC.owns]
      · have := others j hj e
        simpa [State.setPc, State.setProc, State.pc, State.releaseAll, e] using this

/-- hypotheses satisfiable: 0 holds, 1 has just failed to flock and is about to sleep. -/
example :
    let s := run (init false) [.step 0, .step 0, .step 0, .step 0, .step 0, .step 0, .step 1, .step 1, .step 1]
    (∃ n, s.pc 0 = .holding n) ∧ (s.pc 1).label = "os.ReadFile" := by
  refine ⟨⟨1, by decide⟩, by decide⟩

/-- Regression (`grog clean` before fix 5a4d0e7): process 0 holds the lock; the lock path is removed by a process
    that does not hold it; process 1 then creates a fresh lock file and acquires as well. This is why the
    invariant needs "only a holder removes the path", and why `clean` now takes the lock. -/
theorem clean_without_lock_witness :
    let s := solo 1 6 (wipe (solo 0 6 (init false)))
    (s.pc 0).inCritical = true ∧ (s.pc 1).inCritical = true := by decide

/-! ### Regression: the PID-file protocol of the tree before the fix violates mutual exclusion -/

/-- A creates the lock file; before A writes its PID, B finds the file, reads it (empty), treats it
    as stale, removes it, creates its own and acquires; A then writes its PID into the unlinked file
    and acquires as well. -/
def scheduleEmpty : List Ev :=
  [.step 0, .step 1, .step 1, .step 1, .step 1, .step 1, .step 1, .step 0, .step 0]

theorem mutex_witness_empty :
    (V0.runStrict (V0.init 2 none) scheduleEmpty).map (fun s => (s.pcs 0, s.pcs 1)) =
      some (V0.PC.holding, V0.PC.holding) := by decide

/-- A lock file with a dead PID is left behind. B and C both read it and find the PID dead; B removes
    the file, creates its own and acquires; C then removes *B's* file, creates its own and acquires. -/
def scheduleStale : List Ev :=
  [.step 0, .step 0, .step 0, .step 1, .step 1, .step 1,
   .step 0, .step 0, .step 0, .step 0, .step 1, .step 1, .step 1, .step 1]

theorem mutex_witness_stale :
    (V0.runStrict (V0.init 2 (some (.pid 7))) scheduleStale).map (fun s => (s.pcs 0, s.pcs 1)) =
      some (V0.PC.holding, V0.PC.holding) := by decide

end Grog.C10
