/-
  Composition of the stores group's models (C06 Tree, C07 FsBackend/Store, C08 Remote) with the build semantics
  (C01 Exec/Build), the lock (C10) and cancellation (C18).

  The build semantics treat the cache as a function `Exec.Cache` (`res`, `cas`, `taint`) updated atomically, and take
  three things as definitions / hypotheses: (a) what is stored is sound (`CacheSound`, preserved by builds: C01),
  (b) restoring a stored output writes exactly the stored value (`Exec.restore`, "C06"), (c) a second machine sees the
  first machine's cache (not modelled there at all). Here the persistent stores are the transition systems of
  GrogModel/Store.lean (crashes, faults) and GrogModel/Remote.lean (machines, remote faults); `storeCache` / `viewCache`
  read a store state as an `Exec.Cache`, and the theorems below discharge (a) after crashes (C07.recovery, composed),
  (b) from `C06.restoreDir_writeDir`, (c) from `C08.remote_closed` + read-through, and put C10 + C07 + C01 together for
  the build after an interrupt (C18).  Adapters: GrogModel/Lemmas/ComposeStores.lean.  Gaps: design_notes/COMPOSE.md.
-/
import GrogModel.Lemmas.ComposeStores
import GrogModel.Props.C01
import GrogModel.Props.C07
import GrogModel.Props.C08
set_option linter.unusedSectionVars false
set_option linter.unusedVariables false
namespace Grog.Compose
open Grog Grog.Exec Grog.Build

variable {κ : Type} [DecidableEq κ]

/-! ## C07, last sentence: the build after crashes and storage faults -/

/-- **C07.recovery, composed with the build semantics.** Take any run of the store model from the empty store — any
    number of processes, faults that store or not, kills with in-flight writes landing or not — in which every target
    result handed to `Set` is (the marshalling of) an entry of a sound cache (what builds do: C01). Then the cache a fresh
    process reads from the surviving store state is `CacheSound`: a crash or fault can only lose entries or leave
    complete ones, never produce an entry no build wrote. -/
theorem recovery_cache_sound (P : Params κ) (cd : Codec κ) (tn : Lbl → Bool) (H : Bytes → Bytes)
    (es : List Store.Ev) (s' : Store.State) (hr : Store.run H Store.init es = some s')
    (hw : Store.BeginsSatisfy (WritesSound P cd) es) :
    CacheSound P (storeCache cd tn s') :=
  storeCache_sound P cd tn s' (Store.carries_run (Store.carries_init _) es hw hr)

/-- … from any store state that carries only sound writes (the invariant, for continuing histories) -/
theorem recovery_cache_sound_from (P : Params κ) (cd : Codec κ) (tn : Lbl → Bool) (H : Bytes → Bytes)
    (s s' : Store.State) (es : List Store.Ev) (h0 : Store.Carries (WritesSound P cd) s)
    (hr : Store.run H s es = some s') (hw : Store.BeginsSatisfy (WritesSound P cd) es) :
    CacheSound P (storeCache cd tn s') :=
  storeCache_sound P cd tn s' (Store.carries_run h0 es hw hr)

/-- **The next build on the same cache and workspace satisfies C01** (the composed statement of C07's last sentence):
    after any such crash/fault history, a build in mode `all` over a well-formed order — starting from whatever the
    killed build left at the output paths — succeeds exactly when the cache-free clean build does, and then every
    declared output is byte-identical to the clean build's: lost entries are re-executed, nothing corrupt is restored. -/
theorem recovery_next_build_eq_clean {P : Params κ} (hG : Good P) (hfx : P.fx.gateChecks = true)
    (cd : Codec κ) (tn : Lbl → Bool) (H : Bytes → Bytes)
    (es : List Store.Ev) (s' : Store.State) (hr : Store.run H Store.init es = some s')
    (hw : Store.BeginsSatisfy (WritesSound P cd) es)
    (cfg : Cfg) (hm : cfg.minimal = false) (defs : Defs) (fs : FS) (order : List Lbl) (hwf : WF defs order) (fs0 : FS)
    (hag : ∀ p, (∀ l ∈ order, ∀ t, defs l = some t → p ∉ outPaths t) → fs p = fs0 p) :
    let w : World κ := ⟨defs, fs, storeCache cd tn s'⟩
    let s := build P cfg w order
    let c := Spec.clean P.run defs fs0 order
    (succeeded s order = true ↔ ∀ l ∈ order, c.ok l = some true) ∧
    (succeeded s order = true → ∀ l ∈ order, ∀ t, defs l = some t → ∀ p ∈ outPaths t, s.fs p = c.fs p) :=
  C01.build_eq_clean hG hfx cfg hm ⟨defs, fs, storeCache cd tn s'⟩ order hwf
    (recovery_cache_sound P cd tn H es s' hr hw) fs0 hag

section Example
/-- toy parameters: every key is 0, every command succeeds and writes nothing -/
def exP : Params Nat := ⟨fun _ => 0, fun _ _ => ⟨true, [], []⟩, Fixes.current⟩
def exKS : KeyState Nat := ⟨[], ⟨[], 0, [], []⟩, [], [], [], [], []⟩
def exRes : Result Nat := mkRes false exKS 0 []
/-- file names: key `n` is `n` zero bytes; every stored result unmarshals to `exRes` -/
def exCd : Codec Nat := ⟨fun n => List.replicate n 0, id, fun _ => some exRes⟩

theorem exRes_sound : SoundEntry exP 0 exRes := ⟨exKS, rfl, rfl, rfl, false, rfl⟩

/-- the hypotheses of `recovery_cache_sound` are satisfiable by a non-trivial history: a blob stored although an error
    was returned, a second process killed while its result write is in flight (it lands), a third one reading it -/
example :
    (Store.run id Store.init
      [.setBegin 1 1 .cas [1] [1] [], .setEnd 1 1 .errStored, .existsRes 2 .cas [1] .yes,
       .setBegin 2 1 .target [] [7] [[1]], .crash 2 [1], .getRes 3 .target [] .yes]).isSome = true ∧
    Store.BeginsSatisfy (WritesSound exP exCd)
      [.setBegin 1 1 .cas [1] [1] [], .setEnd 1 1 .errStored, .existsRes 2 .cas [1] .yes,
       .setBegin 2 1 .target [] [7] [[1]], .crash 2 [1], .getRes 3 .target [] .yes] := by
  refine ⟨by decide, ?_⟩
  intro p op ns k c refs hm
  simp only [List.mem_cons, Store.Ev.setBegin.injEq, reduceCtorEq, List.not_mem_nil, or_false, false_or] at hm
  rcases hm with ⟨_, _, rfl, _⟩ | ⟨_, _, rfl, rfl, _⟩
  · intro h; cases h
  · intro _ k r hk hr
    have : k = 0 := by
      have := congrArg List.length hk
      simpa [exCd] using this
    subst this
    simp only [exCd, Option.some.injEq] at hr
    subst hr
    exact exRes_sound
end Example

/-! ## C08: a second machine restores what the first one built, without executing it -/

open Grog.Store (NS)

/-- what machines hand to the wrapper: target results that are (marshalled) entries of sound caches (C01), blobs under
    the digest of their content (C07) -/
def RemoteWritesOK (P : Params κ) (cd : Codec κ) : NS → Bytes → Bytes → Prop :=
  fun ns key content => WritesSound P cd ns key content ∧ (ns = .cas → cd.dig content = key)

/-- "the results of A's build of `order` are in the remote store": for every target of the order, the entry A's cache
    holds under the target's key is what `target/<key>` of the remote unmarshals to, and that entry references the digests
    of the result's outputs -/
def Published (P : Params κ) (cd : Codec κ) (defs : Defs) (order : List Lbl) (fA : BState κ) (sR : Remote.State) : Prop :=
  ∀ l ∈ order, ∀ t ohs r, defs l = some t → depOhs fA.st t.hdeps = some ohs →
    fA.cache.res (P.K (keyState t fA.fs ohs)) = some r →
    ∃ b, sR.remote .target (cd.encK (P.K (keyState t fA.fs ohs))) = some b ∧ cd.decR b.content = some r ∧
      b.refs = r.outs.map (fun ov => cd.dig ov.2)

/-- State form. `sR` is a remote-closed state of the two-tier store (C08.remote_closed) whose contents were written
    soundly; machine `mB` has an empty local cache. -/
theorem second_machine_state {P : Params κ} (hG : Good P) (cd : Codec κ) (hdig : ∀ a b, cd.dig a = cd.dig b → a = b)
    (cfg : Cfg) (defs : Defs) (order : List Lbl) (hwf : WF defs order) (hpl : Plain P cfg defs order)
    (wA : World κ) (hdA : wA.defs = defs) (hsA : CacheSound P wA.cache)
    (hokA : succeeded (build P cfg wA order) order = true)
    (sR : Remote.State) (hcl : C08.RemoteClosed sR) (hcar : RCarries (RemoteWritesOK P cd) sR)
    (hpub : Published P cd defs order (build P cfg wA order) sR)
    (mB : Remote.Mid) (hempty : ∀ ns k, sR.loc mB ns k = none)
    (fsB : FS) (hsrc : ∀ p, (∀ l ∈ order, ∀ t, defs l = some t → p ∉ outPaths t) → fsB p = wA.fs p) :
    let sB := build P cfg ⟨defs, fsB, viewCache cd (fun _ => false) sR mB⟩ order
    executed sB = [] ∧ succeeded sB order = true ∧
    ∀ l ∈ order, ∀ t, defs l = some t → ∀ p ∈ outPaths t, sB.fs p = (build P cfg wA order).fs p := by
  intro sB
  subst hdA
  let fA := build P cfg wA order
  let vc : Cache κ := viewCache cd (fun _ => false) sR mB
  have hview : ∀ ns k, canGet sR mB ns k = sR.remote ns k := by
    intro ns k; simp [canGet, hempty ns k]
  -- the view is a sound cache
  have hvs : CacheSound P vc := by
    intro k r hr
    simp only [vc, viewCache, hview] at hr
    cases hb : sR.remote .target (cd.encK k) with
    | none => simp [hb] at hr
    | some b =>
      simp only [hb, Option.bind_some] at hr
      exact (hcar.remote .target (cd.encK k) b hb).1 rfl k r rfl hr
  -- every target of A's build is settled; it stays settled when A's cache is replaced by B's view
  have hsetA : ∀ l ∈ order, Settled P wA.defs fA l := by
    have hset := settled_run_aux hG hwf hpl (fuelFor order) order [] (start wA) (by simp) (fun l hl => by simp at hl)
    simp only [List.nil_append] at hset
    have hok := (succeeded_iff _ order).1 hokA
    exact fun l hl => hset l hl (hok l hl)
  let f' : BState κ := { fA with cache := vc }
  have hsetB : ∀ l ∈ order, Settled P wA.defs f' l := by
    intro l hl
    obtain ⟨t, ts, ohs, r, ht, hts, hk, hohs, hres, hoh, hv, hb, hta, hch⟩ := hsetA l hl
    obtain ⟨b, hrb, hdec, hrefs⟩ := hpub l hl t ohs r ht hohs hres
    refine ⟨t, ts, ohs, r, ht, hts, hk, hohs, ?_, hoh, hv, ?_, rfl, hch⟩
    · show vc.res (P.K (keyState t fA.fs ohs)) = some r
      simp only [vc, viewCache, hview]
      rw [hrb]
      simp [hdec]
    · intro ov hov
      show vc.cas ov.2 = true
      obtain ⟨b', hb', _⟩ := hcl _ b hrb (cd.dig ov.2) (by rw [hrefs]; exact List.mem_map.mpr ⟨ov, hov, rfl⟩)
      have hc := (hcar.remote .cas (cd.dig ov.2) b' hb').2 rfl
      have : b'.content = ov.2 := hdig _ _ hc
      simp only [vc, viewCache, hview, hb', this, beq_self_eq_true]
  -- B's build: every target is a hit
  have hfsA : ∀ p, (∀ l ∈ order, ∀ t, wA.defs l = some t → p ∉ outPaths t) → fA.fs p = wA.fs p :=
    fun p hp => build_fs_off hG hpl.all wA hwf p hp
  have h2 := second_run_aux hG hwf hpl (fuelFor order) f' hsetB order []
    (start ⟨wA.defs, fsB, vc⟩) (by simp)
    ⟨rfl, rfl, fun p hp => by show fsB p = fA.fs p; rw [hsrc p hp, hfsA p hp], fun l hl => by simp at hl⟩
  simp only [List.nil_append] at h2
  have hlog : sB.log = [] := h2.log
  have hokB : succeeded sB order = true := (succeeded_iff _ order).2 (fun l hl => (h2.st l hl).1)
  refine ⟨by simp [executed, hlog], hokB, ?_⟩
  -- byte-identical outputs: both builds are simulated by the same clean build (C01.build_sim)
  have hsim := C01.build_sim hG hpl.gate cfg cfg hpl.all hpl.all wA.defs order hwf wA ⟨wA.defs, fsB, vc⟩ rfl rfl hsA hvs
    (fun p hp => (hsrc p hp).symm)
  intro l hl t ht p hp
  have hokl : ∃ ts, fA.st l = some ts ∧ ts.ok = true := (succeeded_iff _ order).1 hokA l hl
  exact (hsim.2 l hl hokl t ht p hp).symm

/-- **C08.second_machine.** Any history of the two-tier store (`es`: any number of machines and processes, builds with
    and without remote cache, remote faults) whose writes are sound (target results come from sound caches — C01 on every
    publishing machine —, blobs are stored under the digest of their content — C07) and that contains, for every target of
    A's successful build of `order`, a tee `Set` of A's result that reached the remote tier and was not replaced afterwards
    by another value. Machine B has an empty local cache, addresses the same namespace (same keys: `cd.encK`) and has the
    same sources. Then B's build of `order` over its read-through view of the store
      * executes no command,
      * succeeds,
      * and leaves every declared output byte-identical to A's.
    Closure of the remote store (`C08.remote_closed`, repaired `Cas.Write`) is what makes every referenced blob retrievable;
    `get_returns_view` / `view_get_enabled` / `view_stable_get` tie `viewCache` to the `Get` events of the transition system
    (the value a Get returns is the view's; B's own read-through fills do not change the view). -/
theorem second_machine {P : Params κ} (hG : Good P) (cd : Codec κ) (hdig : ∀ a b, cd.dig a = cd.dig b → a = b)
    (cfg : Cfg) (defs : Defs) (order : List Lbl) (hwf : WF defs order) (hpl : Plain P cfg defs order)
    (wA : World κ) (hdA : wA.defs = defs) (hsA : CacheSound P wA.cache)
    (hokA : succeeded (build P cfg wA order) order = true)
    (es : List Remote.Ev) (sR : Remote.State) (hrun : Remote.run .fixed Remote.init es = some sR)
    (hwr : RWritesSatisfy (RemoteWritesOK P cd) es)
    (hup : ∀ l ∈ order, ∀ t ohs r, defs l = some t → depOhs (build P cfg wA order).st t.hdeps = some ohs →
      (build P cfg wA order).cache.res (P.K (keyState t (build P cfg wA order).fs ohs)) = some r →
      ∃ pre post p b lst ok, es = pre ++ Remote.Ev.setRes p .target (cd.encK (P.K (keyState t (build P cfg wA order).fs ohs))) b lst true ok :: post ∧
        (∀ e ∈ post, WritesOnly .target (cd.encK (P.K (keyState t (build P cfg wA order).fs ohs))) b e) ∧
        cd.decR b.content = some r ∧ b.refs = r.outs.map (fun ov => cd.dig ov.2))
    (mB : Remote.Mid) (hempty : ∀ ns k, sR.loc mB ns k = none)
    (fsB : FS) (hsrc : ∀ p, (∀ l ∈ order, ∀ t, defs l = some t → p ∉ outPaths t) → fsB p = wA.fs p) :
    let sB := build P cfg ⟨defs, fsB, viewCache cd (fun _ => false) sR mB⟩ order
    executed sB = [] ∧ succeeded sB order = true ∧
    ∀ l ∈ order, ∀ t, defs l = some t → ∀ p ∈ outPaths t, sB.fs p = (build P cfg wA order).fs p := by
  have hcl : C08.RemoteClosed sR := C08.remote_closed es sR hrun
  have hcar : RCarries (RemoteWritesOK P cd) sR := rcarries_run es _ _ (rcarries_init _) hwr hrun
  have hpub : Published P cd defs order (build P cfg wA order) sR := by
    intro l hl t ohs r ht hohs hres
    obtain ⟨pre, post, p, b, lst, ok, he, hpost, hdec, hrefs⟩ := hup l hl t ohs r ht hohs hres
    refine ⟨b, ?_, hdec, hrefs⟩
    rw [he] at hrun
    exact published_of_trace .fixed Remote.init sR pre post p .target _ b lst ok hrun hpost
  exact second_machine_state hG cd hdig cfg defs order hwf hpl wA hdA hsA hokA sR hcl hcar hpub mB hempty fsB hsrc

section Example2
/-- a key type with an injective key function: the key *is* the key-state -/
inductive ExKey where
  | mk (ks : KeyState ExKey)

noncomputable instance : DecidableEq ExKey := fun a b => Classical.propDecidable (a = b)

/-- parameters satisfying `Good`: injective key; every command succeeds and writes exactly the outputs it names -/
noncomputable def exGoodP : Params ExKey :=
  ⟨ExKey.mk, fun c _ => ⟨true, c.writes.map (fun o => (o, [])), []⟩, Fixes.current⟩

theorem exGoodP_good : Good exGoodP :=
  ⟨fun a b h => by cases h; rfl, fun c v _ => by simp [exGoodP, List.map_map, Function.comp_def], fun c v => rfl⟩

noncomputable def exCd2 : Codec ExKey := ⟨fun _ => [], id, fun _ => none⟩

/-- the hypotheses of `second_machine` are satisfiable: `Good` parameters, an injective digest, a history of the two-tier
    store in which A uploads a blob that was only in its local cache and a result referencing it, B reads both through —
    all writes sound —, and the (empty) selection; non-trivial selections are the histories of the C08 check. -/
example :
    Good exGoodP ∧ (∀ a b, exCd2.dig a = exCd2.dig b → a = b) ∧
    WF (fun _ => none) [] ∧ Plain exGoodP ⟨true, false⟩ (fun _ => none) [] ∧
    (Remote.run .fixed Remote.init
      [.localSet 0 .cas [1] ⟨[1], []⟩, .proc 1 0, .existsAllRes 1 [1] .no,
       .setRes 1 .cas [1] ⟨[1], []⟩ true true true, .setRes 1 .target [9] ⟨[9], [[1]]⟩ true true true,
       .proc 2 1, .getRes 2 .target [9] (some ⟨[9], [[1]]⟩) true, .getRes 2 .cas [1] (some ⟨[1], []⟩) true]).isSome = true ∧
    RWritesSatisfy (RemoteWritesOK exGoodP exCd2)
      [.localSet 0 .cas [1] ⟨[1], []⟩, .proc 1 0, .existsAllRes 1 [1] .no,
       .setRes 1 .cas [1] ⟨[1], []⟩ true true true, .setRes 1 .target [9] ⟨[9], [[1]]⟩ true true true,
       .proc 2 1, .getRes 2 .target [9] (some ⟨[9], [[1]]⟩) true, .getRes 2 .cas [1] (some ⟨[1], []⟩) true] := by
  refine ⟨exGoodP_good, fun a b h => h, ?_, ⟨rfl, rfl, rfl, rfl, fun l hl => by simp at hl⟩, by decide, ?_, ?_⟩
  · exact ⟨List.nodup_nil, fun l hl => by simp at hl, fun l t h => by simp at h, fun l hl => by simp at hl,
      fun pre l suf h => by simp at h, fun l hl => by simp at hl, fun l hl => by simp at hl, fun l hl => by simp at hl⟩
  · intro p ns k b l r ok hm
    simp only [List.mem_cons, Remote.Ev.setRes.injEq, reduceCtorEq, List.not_mem_nil, or_false, false_or] at hm
    rcases hm with ⟨_, rfl, rfl, rfl, _⟩ | ⟨_, rfl, rfl, rfl, _⟩
    · exact ⟨fun h => (by cases h), fun _ => rfl⟩
    · exact ⟨fun _ k r _ hr => (by simp [exCd2] at hr), fun h => (by cases h)⟩
  · intro m ns k b hm
    simp only [List.mem_cons, Remote.Ev.localSet.injEq, reduceCtorEq, List.not_mem_nil, or_false, false_or] at hm
    obtain ⟨_, rfl, rfl, rfl⟩ := hm
    exact ⟨fun h => (by cases h), fun _ => rfl⟩
end Example2

end Grog.Compose
