/-
  Composition of the stores group's models (C06 Tree, C07 FsBackend/Store, C08 Remote) with the build semantics
  (C01 Exec/Build), the lock (C10) and cancellation (C18).

  The build semantics treat the cache as a function `Exec.Cache` (`res`, `cas`, `taint`) updated atomically, and take
  three things as definitions / hypotheses: (a) what is stored is sound (`CacheSound`, preserved by builds: C01),
  (b) restoring a stored output writes exactly the stored value (`Exec.restore`, "C06"), (c) a second machine sees the
  first machine's cache (not modelled there at all). Here the persistent stores are the transition systems of
  GrogModel/Store.lean (crashes, faults) and GrogModel/Remote.lean (machines, remote faults); `storeCache` / `viewCache`
  read a store state as an `Exec.Cache`, and the theorems below discharge (a) after crashes (C07.recovery, composed),
  (b) from `C06.restoreDir_writeDir`, (c) from `C08.remote_closed` + read-through, and put C10 + C07 + C01 together for
  the build after an interrupt (C18).  Adapters: GrogModel/Lemmas/ComposeStores.lean.  Gaps: design_notes/COMPOSE.md.
-/
import GrogModel.Lemmas.ComposeStores
import GrogModel.Props.C01
import GrogModel.Props.C07
import GrogModel.Props.C08
import GrogModel.Props.C10
import GrogModel.Props.C06
import GrogModel.Lemmas.ComposeTree
set_option linter.unusedSectionVars false
set_option linter.unusedVariables false
namespace Grog.Compose
open Grog Grog.Exec Grog.Build

variable {κ : Type} [DecidableEq κ]

/-! ## C07, last sentence: the build after crashes and storage faults -/

/-- **C07.recovery, composed with the build semantics.** Take any run of the store model from the empty store — any
    number of processes, faults that store or not, kills with in-flight writes landing or not — in which every target
    result handed to `Set` is (the marshalling of) an entry of a sound cache (what builds do: C01). Then the cache a fresh
    process reads from the surviving store state is `CacheSound`: a crash or fault can only lose entries or leave
    complete ones, never produce an entry no build wrote. -/
theorem recovery_cache_sound (P : Params κ) (cd : Codec κ) (tn : Lbl → Bool) (H : Bytes → Bytes)
    (es : List Store.Ev) (s' : Store.State) (hr : Store.run H Store.init es = some s')
    (hw : Store.BeginsSatisfy (WritesSound P cd) es) :
    CacheSound P (storeCache cd tn s') :=
  storeCache_sound P cd tn s' (Store.carries_run (Store.carries_init _) es hw hr)

/-- … from any store state that carries only sound writes (the invariant, for continuing histories) -/
theorem recovery_cache_sound_from (P : Params κ) (cd : Codec κ) (tn : Lbl → Bool) (H : Bytes → Bytes)
    (s s' : Store.State) (es : List Store.Ev) (h0 : Store.Carries (WritesSound P cd) s)
    (hr : Store.run H s es = some s') (hw : Store.BeginsSatisfy (WritesSound P cd) es) :
    CacheSound P (storeCache cd tn s') :=
  storeCache_sound P cd tn s' (Store.carries_run h0 es hw hr)

/-- **The next build on the same cache and workspace satisfies C01** (the composed statement of C07's last sentence):
    after any such crash/fault history, a build in mode `all` over a well-formed order — starting from whatever the
    killed build left at the output paths — succeeds exactly when the cache-free clean build does, and then every
    declared output is byte-identical to the clean build's: lost entries are re-executed, nothing corrupt is restored. -/
theorem recovery_next_build_eq_clean {P : Params κ} (hG : Good P) (hfx : P.fx.gateChecks = true)
    (cd : Codec κ) (tn : Lbl → Bool) (H : Bytes → Bytes)
    (es : List Store.Ev) (s' : Store.State) (hr : Store.run H Store.init es = some s')
    (hw : Store.BeginsSatisfy (WritesSound P cd) es)
    (cfg : Cfg) (hm : cfg.minimal = false) (defs : Defs) (fs : FS) (order : List Lbl) (hwf : WF defs order) (fs0 : FS)
    (hag : ∀ p, (∀ l ∈ order, ∀ t, defs l = some t → p ∉ outPaths t) → fs p = fs0 p) :
    let w : World κ := ⟨defs, fs, storeCache cd tn s'⟩
    let s := build P cfg w order
    let c := Spec.clean P.run defs fs0 order
    (succeeded s order = true ↔ ∀ l ∈ order, c.ok l = some true) ∧
    (succeeded s order = true → ∀ l ∈ order, ∀ t, defs l = some t → ∀ p ∈ outPaths t, s.fs p = c.fs p) :=
  C01.build_eq_clean hG hfx cfg hm ⟨defs, fs, storeCache cd tn s'⟩ order hwf
    (recovery_cache_sound P cd tn H es s' hr hw) fs0 hag

section Example
/-- toy parameters: every key is 0, every command succeeds and writes nothing -/
def exP : Params Nat := ⟨fun _ => 0, fun _ _ => ⟨true, [], []⟩, Fixes.current⟩
def exKS : KeyState Nat := ⟨[], ⟨[], 0, [], [], false⟩, [], [], [], [], []⟩
def exRes : Result Nat := mkRes false exKS 0 []
/-- file names: key `n` is `n` zero bytes; every stored result unmarshals to `exRes` -/
def exCd : Codec Nat := ⟨fun n => List.replicate n 0, id, fun _ => some exRes⟩

theorem exRes_sound : SoundEntry exP 0 exRes := ⟨exKS, rfl, rfl, rfl, false, rfl⟩

/-- the hypotheses of `recovery_cache_sound` are satisfiable by a non-trivial history: a blob stored although an error
    was returned, a second process killed while its result write is in flight (it lands), a third one reading it -/
example :
    (Store.run id Store.init
      [.setBegin 1 1 .cas [1] [1] [], .setEnd 1 1 .errStored, .existsRes 2 .cas [1] .yes,
       .setBegin 2 1 .target [] [7] [[1]], .crash 2 [1], .getRes 3 .target [] .yes]).isSome = true ∧
    Store.BeginsSatisfy (WritesSound exP exCd)
      [.setBegin 1 1 .cas [1] [1] [], .setEnd 1 1 .errStored, .existsRes 2 .cas [1] .yes,
       .setBegin 2 1 .target [] [7] [[1]], .crash 2 [1], .getRes 3 .target [] .yes] := by
  refine ⟨by decide, ?_⟩
  intro p op ns k c refs hm
  simp only [List.mem_cons, Store.Ev.setBegin.injEq, reduceCtorEq, List.not_mem_nil, or_false, false_or] at hm
  rcases hm with ⟨_, _, rfl, _⟩ | ⟨_, _, rfl, rfl, _⟩
  · intro h; cases h
  · intro _ k r hk hr
    have : k = 0 := by
      have := congrArg List.length hk
      simpa [exCd] using this
    subst this
    simp only [exCd, Option.some.injEq] at hr
    subst hr
    exact exRes_sound
end Example

/-! ## C08: a second machine restores what the first one built, without executing it -/

open Grog.Store (NS)

/-- what machines hand to the wrapper: target results that are (marshalled) entries of sound caches (C01), blobs under
    the digest of their content (C07) -/
def RemoteWritesOK (P : Params κ) (cd : Codec κ) : NS → Bytes → Bytes → Prop :=
  fun ns key content => WritesSound P cd ns key content ∧ (ns = .cas → cd.dig content = key)

/-- "the results of A's build of `order` are in the remote store": for every target of the order, the entry A's cache
    holds under the target's key is what `target/<key>` of the remote unmarshals to, and that entry references the digests
    of the result's outputs -/
def Published (P : Params κ) (cd : Codec κ) (defs : Defs) (order : List Lbl) (fA : BState κ) (sR : Remote.State) : Prop :=
  ∀ l ∈ order, ∀ t ohs r, defs l = some t → depOhs fA.st t.hdeps = some ohs →
    fA.cache.res (P.K (keyState t fA.fs ohs)) = some r →
    ∃ b, sR.remote .target (cd.encK (P.K (keyState t fA.fs ohs))) = some b ∧ cd.decR b.content = some r ∧
      b.refs = r.outs.map (fun ov => cd.dig ov.2)

/-- State form. `sR` is a remote-closed state of the two-tier store (C08.remote_closed) whose contents were written
    soundly; machine `mB` has an empty local cache. -/
theorem second_machine_state {P : Params κ} (hG : Good P) (cd : Codec κ) (hdig : ∀ a b, cd.dig a = cd.dig b → a = b)
    (cfg : Cfg) (defs : Defs) (order : List Lbl) (hwf : WF defs order) (hpl : Plain P cfg defs order)
    (wA : World κ) (hdA : wA.defs = defs) (hsA : CacheSound P wA.cache)
    (hokA : succeeded (build P cfg wA order) order = true)
    (sR : Remote.State) (hcl : C08.RemoteClosed sR) (hcar : RCarries (RemoteWritesOK P cd) sR)
    (hpub : Published P cd defs order (build P cfg wA order) sR)
    (mB : Remote.Mid) (hempty : ∀ ns k, sR.loc mB ns k = none)
    (hnt : ∀ l ∈ order, Remote.viewTaint sR mB l = false)
    (fsB : FS) (hsrc : ∀ p, (∀ l ∈ order, ∀ t, defs l = some t → p ∉ outPaths t) → fsB p = wA.fs p) :
    let sB := build P cfg ⟨defs, fsB, viewCache cd (Remote.viewTaint sR mB) sR mB⟩ order
    executed sB = [] ∧ succeeded sB order = true ∧
    ∀ l ∈ order, ∀ t, defs l = some t → ∀ p ∈ outPaths t, sB.fs p = (build P cfg wA order).fs p := by
  intro sB
  subst hdA
  let fA := build P cfg wA order
  let vc : Cache κ := viewCache cd (Remote.viewTaint sR mB) sR mB
  have hview : ∀ ns k, canGet sR mB ns k = sR.remote ns k := by
    intro ns k; simp [canGet, hempty ns k]
  -- the view is a sound cache
  have hvs : CacheSound P vc := by
    intro k r hr
    simp only [vc, viewCache, hview] at hr
    cases hb : sR.remote .target (cd.encK k) with
    | none => simp [hb] at hr
    | some b =>
      simp only [hb, Option.bind_some] at hr
      exact (hcar.remote .target (cd.encK k) b hb).1 rfl k r rfl hr
  -- every target of A's build is settled; it stays settled when A's cache is replaced by B's view
  have hsetA : ∀ l ∈ order, Settled P wA.defs fA l := by
    have hset := settled_run_aux hG hwf hpl (fuelFor order) order [] (start wA) (by simp) (fun l hl => by simp at hl)
    simp only [List.nil_append] at hset
    have hok := (succeeded_iff _ order).1 hokA
    exact fun l hl => hset l hl (hok l hl)
  let f' : BState κ := { fA with cache := vc }
  have hsetB : ∀ l ∈ order, Settled P wA.defs f' l := by
    intro l hl
    obtain ⟨t, ts, ohs, r, ht, hts, hk, hohs, hres, hoh, hv, hb, hta, hch⟩ := hsetA l hl
    obtain ⟨b, hrb, hdec, hrefs⟩ := hpub l hl t ohs r ht hohs hres
    refine ⟨t, ts, ohs, r, ht, hts, hk, hohs, ?_, hoh, hv, ?_, hnt l hl, hch⟩
    · show vc.res (P.K (keyState t fA.fs ohs)) = some r
      simp only [vc, viewCache, hview]
      rw [hrb]
      simp [hdec]
    · intro ov hov
      show vc.cas ov.2 = true
      obtain ⟨b', hb', _⟩ := hcl _ b hrb (cd.dig ov.2) (by rw [hrefs]; exact List.mem_map.mpr ⟨ov, hov, rfl⟩)
      have hc := (hcar.remote .cas (cd.dig ov.2) b' hb').2 rfl
      have : b'.content = ov.2 := hdig _ _ hc
      simp only [vc, viewCache, hview, hb', this, beq_self_eq_true]
  -- B's build: every target is a hit
  have hfsA : ∀ p, (∀ l ∈ order, ∀ t, wA.defs l = some t → p ∉ outPaths t) → fA.fs p = wA.fs p :=
    fun p hp => build_fs_off hG hpl.all wA hwf p hp
  have h2 := second_run_aux hG hwf hpl (fuelFor order) f' hsetB order []
    (start ⟨wA.defs, fsB, vc⟩) (by simp)
    ⟨rfl, rfl, fun p hp => by show fsB p = fA.fs p; rw [hsrc p hp, hfsA p hp], fun l hl => by simp at hl⟩
  simp only [List.nil_append] at h2
  have hlog : sB.log = [] := h2.log
  have hokB : succeeded sB order = true := (succeeded_iff _ order).2 (fun l hl => (h2.st l hl).1)
  refine ⟨by simp [executed, hlog], hokB, ?_⟩
  -- byte-identical outputs: both builds are simulated by the same clean build (C01.build_sim)
  have hsim := C01.build_sim hG hpl.gate cfg cfg hpl.all hpl.all wA.defs order hwf wA ⟨wA.defs, fsB, vc⟩ rfl rfl hsA hvs
    (fun p hp => (hsrc p hp).symm)
  intro l hl t ht p hp
  have hokl : ∃ ts, fA.st l = some ts ∧ ts.ok = true := (succeeded_iff _ order).1 hokA l hl
  exact (hsim.2 l hl hokl t ht p hp).symm

/-- **C08.second_machine.** Any history of the two-tier store (`es`: any number of machines and processes, builds with
    and without remote cache, remote faults) whose writes are sound (target results come from sound caches — C01 on every
    publishing machine —, blobs are stored under the digest of their content — C07) and that contains, for every target of
    A's successful build of `order`, a tee `Set` of A's result that reached the remote tier and was not replaced afterwards
    by another value. Machine B has an empty local cache, addresses the same namespace (same keys: `cd.encK`), has the
    same sources, and **sees no taint marker for a target of the order** — taint markers are written to and looked up in both
    tiers (`Remote.viewTaint`), so a marker another machine set, or one whose remote `Delete` failed, makes B execute that
    target (`tainted_target_is_executed_not_served`, `stale_taint_witness`). Then B's build of `order` over its read-through view of the store
      * executes no command,
      * succeeds,
      * and leaves every declared output byte-identical to A's.
    Closure of the remote store (`C08.remote_closed`, repaired `Cas.Write`) is what makes every referenced blob retrievable;
    `get_returns_view` / `view_get_enabled` / `view_stable_get` tie `viewCache` to the `Get` events of the transition system
    (the value a Get returns is the view's; B's own read-through fills do not change the view). -/
theorem second_machine {P : Params κ} (hG : Good P) (cd : Codec κ) (hdig : ∀ a b, cd.dig a = cd.dig b → a = b)
    (cfg : Cfg) (defs : Defs) (order : List Lbl) (hwf : WF defs order) (hpl : Plain P cfg defs order)
    (wA : World κ) (hdA : wA.defs = defs) (hsA : CacheSound P wA.cache)
    (hokA : succeeded (build P cfg wA order) order = true)
    (es : List Remote.Ev) (sR : Remote.State) (hrun : Remote.run .fixed Remote.init es = some sR)
    (hwr : RWritesSatisfy (RemoteWritesOK P cd) es)
    (hup : ∀ l ∈ order, ∀ t ohs r, defs l = some t → depOhs (build P cfg wA order).st t.hdeps = some ohs →
      (build P cfg wA order).cache.res (P.K (keyState t (build P cfg wA order).fs ohs)) = some r →
      ∃ pre post p b lst ok, es = pre ++ Remote.Ev.setRes p .target (cd.encK (P.K (keyState t (build P cfg wA order).fs ohs))) b lst true ok :: post ∧
        (∀ e ∈ post, WritesOnly .target (cd.encK (P.K (keyState t (build P cfg wA order).fs ohs))) b e) ∧
        cd.decR b.content = some r ∧ b.refs = r.outs.map (fun ov => cd.dig ov.2))
    (mB : Remote.Mid) (hempty : ∀ ns k, sR.loc mB ns k = none)
    (hnt : ∀ l ∈ order, Remote.viewTaint sR mB l = false)
    (fsB : FS) (hsrc : ∀ p, (∀ l ∈ order, ∀ t, defs l = some t → p ∉ outPaths t) → fsB p = wA.fs p) :
    let sB := build P cfg ⟨defs, fsB, viewCache cd (Remote.viewTaint sR mB) sR mB⟩ order
    executed sB = [] ∧ succeeded sB order = true ∧
    ∀ l ∈ order, ∀ t, defs l = some t → ∀ p ∈ outPaths t, sB.fs p = (build P cfg wA order).fs p := by
  have hcl : C08.RemoteClosed sR := C08.remote_closed es sR hrun
  have hcar : RCarries (RemoteWritesOK P cd) sR := rcarries_run es _ _ (rcarries_init _) hwr hrun
  have hpub : Published P cd defs order (build P cfg wA order) sR := by
    intro l hl t ohs r ht hohs hres
    obtain ⟨pre, post, p, b, lst, ok, he, hpost, hdec, hrefs⟩ := hup l hl t ohs r ht hohs hres
    refine ⟨b, ?_, hdec, hrefs⟩
    rw [he] at hrun
    exact published_of_trace .fixed Remote.init sR pre post p .target _ b lst ok hrun hpost
  exact second_machine_state hG cd hdig cfg defs order hwf hpl wA hdA hsA hokA sR hcl hcar hpub mB hempty hnt fsB hsrc

/-- a target the machine sees tainted is never served from the cache: the decision falls through to execution -/
theorem tainted_target_is_executed_not_served (P : Params κ) (cfg : Cfg) (t : Target) (k : κ) (s : BState κ)
    (h : s.cache.taint t.label = true) : tryHit P cfg t k s = none := by
  unfold tryHit
  split
  · rfl
  · simp [h]

/-- **Stale remote taint (reviewer's trace).** A taints `x` (tee `Set`: marker in A's local cache and in the remote), rebuilds
    it and clears the taint; the local `Delete` succeeds, the remote `Delete` fails (the executor only logs that). Machine B
    with an empty local cache then *sees `x` tainted* — and, by the previous theorem, executes it instead of restoring it.
    This is why `second_machine` requires B's taint view to be empty on the selected targets. The check replays this history
    on the real `TaintCache` + `RemoteWrapper`. (Verdict: not a violation of C08 — a remote error degrading to a re-execution
    is allowed by its last clause; whether a taint that survives its target's rebuild violates C13 is the taint owner's call.) -/
theorem stale_taint_witness :
    (Remote.run .fixed Remote.init
      [.proc 1 0, .taintSet 1 [120] true true true, .taintDelete 1 [120] false true false, .proc 2 1]).map
        (fun s => (Remote.viewTaint s 0 [120], Remote.viewTaint s 1 [120])) = some (true, true) := by
  decide

section Example2
/-- a key type with an injective key function: the key *is* the key-state -/
inductive ExKey where
  | mk (ks : KeyState ExKey)

noncomputable instance : DecidableEq ExKey := fun a b => Classical.propDecidable (a = b)

/-- parameters satisfying `Good`: injective key; every command succeeds and writes exactly the outputs it names -/
noncomputable def exGoodP : Params ExKey :=
  ⟨ExKey.mk, fun c _ => ⟨true, c.writes.map (fun o => (o, [])), []⟩, Fixes.current⟩

theorem exGoodP_good : Good exGoodP :=
  ⟨fun a b h => by cases h; rfl, fun c v _ => by simp [exGoodP, List.map_map, Function.comp_def], fun c v => rfl⟩

noncomputable def exCd2 : Codec ExKey := ⟨fun _ => [], id, fun _ => none⟩

/-- the hypotheses of `second_machine` are satisfiable: `Good` parameters, an injective digest, a history of the two-tier
    store in which A uploads a blob that was only in its local cache and a result referencing it, B reads both through —
    all writes sound —, and the (empty) selection; non-trivial selections are the histories of the C08 check. -/
example :
    Good exGoodP ∧ (∀ a b, exCd2.dig a = exCd2.dig b → a = b) ∧
    WF (fun _ => none) [] ∧ Plain exGoodP ⟨true, false⟩ (fun _ => none) [] ∧
    (Remote.run .fixed Remote.init
      [.localSet 0 .cas [1] ⟨[1], []⟩, .proc 1 0, .existsAllRes 1 [1] .no,
       .setRes 1 .cas [1] ⟨[1], []⟩ true true true, .setRes 1 .target [9] ⟨[9], [[1]]⟩ true true true,
       .proc 2 1, .getRes 2 .target [9] (some ⟨[9], [[1]]⟩) true, .getRes 2 .cas [1] (some ⟨[1], []⟩) true]).isSome = true ∧
    RWritesSatisfy (RemoteWritesOK exGoodP exCd2)
      [.localSet 0 .cas [1] ⟨[1], []⟩, .proc 1 0, .existsAllRes 1 [1] .no,
       .setRes 1 .cas [1] ⟨[1], []⟩ true true true, .setRes 1 .target [9] ⟨[9], [[1]]⟩ true true true,
       .proc 2 1, .getRes 2 .target [9] (some ⟨[9], [[1]]⟩) true, .getRes 2 .cas [1] (some ⟨[1], []⟩) true] := by
  refine ⟨exGoodP_good, fun a b h => h, ?_, ⟨rfl, rfl, rfl, rfl, fun l hl => by simp at hl⟩, by decide, ?_, ?_⟩
  · exact ⟨List.nodup_nil, fun l hl => by simp at hl, fun l t h => by simp at h, fun l hl => by simp at hl,
      fun pre l suf h => by simp at h, fun l hl => by simp at hl, fun l hl => by simp at hl, fun l hl => by simp at hl⟩
  · intro p ns k b l r ok hm
    simp only [List.mem_cons, Remote.Ev.setRes.injEq, reduceCtorEq, List.not_mem_nil, or_false, false_or] at hm
    rcases hm with ⟨_, rfl, rfl, rfl, _⟩ | ⟨_, rfl, rfl, rfl, _⟩
    · exact ⟨fun h => (by cases h), fun _ => rfl⟩
    · exact ⟨fun _ k r _ hr => (by simp [exCd2] at hr), fun h => (by cases h)⟩
  · intro m ns k b hm
    simp only [List.mem_cons, Remote.Ev.localSet.injEq, reduceCtorEq, List.not_mem_nil, or_false] at hm
    obtain ⟨_, rfl, rfl, rfl⟩ := hm
    exact ⟨fun h => (by cases h), fun _ => rfl⟩
end Example2

/-! ## C06 → C01: the concrete restore refines `Exec.restore` -/

/-- The build semantics' workspace read off a concrete one: the value at a (workspace-relative) path is the canonical
    serialisation of the object there. `comps` splits a path string into components; `canon` must not distinguish objects
    with the same recursive listing. -/
def absFS (comps : Exec.Path → Grog.Path) (canon : Entry → Val) (root : Entry) : Exec.FS :=
  fun p => (root.get (comps p)).map canon

/-- **Directory outputs: `restoreDir ∘ writeDir` refines `Exec.restore`.** Under the hypotheses of
    `C06.restoreDir_writeDir` (every well-formed tree, every CAS holding what `writeDir` stored, every prior state whose
    ancestors of the destination are not blocked), the abstraction of the workspace after the concrete restore is exactly
    what the build semantics define a restore to be — `writeOuts`: the stored value at the output path, nothing else
    changed — at the output path itself and at every path that diverges from it (inputs, check files and outputs of other
    targets; `analysis` rejects nested outputs, C11). The stored value is what `collect` read when the output was cached:
    `absFS … fs0 out`. This is the equation `Exec.restore` takes as a definition ("C06"). -/
theorem restoreDir_refines_exec_restore (H : Bytes → Digest) (serD : Directory → Bytes) (serT : TreeMsg → Bytes)
    (deT : Bytes → Option TreeMsg) (fs0 fs : Entry) (q : Grog.Path) (n : Name) (id : Bytes)
    (es : List (Name × Entry)) (cas0 : Cas) (fuel : Nat)
    (hsrc : fs0.get (q ++ [n]) = some (.dir es)) (hwf : (Entry.dir es).WF) (hfuel : depthList es < fuel)
    (hserD : InjOnKids H serD serD es)
    (hdeT : deT (serT (treeMsg H serD es)) = some (treeMsg H serD es))
    (hcf : CollisionFree H (streams H serD serT es)) (hpar : Clear fs q)
    (hprior : ∀ es', fs.get (q ++ [n]) = some (.dir es') →
      (Entry.dir es').WF ∧ InjOnKids H serD serD es' ∧
      (serT (treeMsg H serD es') = serT (treeMsg H serD es) → treeMsg H serD es' = treeMsg H serD es) ∧
      CollisionFree H (streams H serD serT es ++ streams H serD serT es'))
    (comps : Exec.Path → Grog.Path) (canon : Entry → Val) (hcanon : ∀ a b : Entry, a.Same b → canon a = canon b)
    (out : Exec.Path) (hout : comps out = q ++ [n])
    (cas : Cas) (hups : ∀ u ∈ (encList H serD es).ups, cas.get u.1 = some u.2)
    (htree : cas.get (H (serT (treeMsg H serD es))) = some (serT (treeMsg H serD es))) :
    absFS comps canon fs0 out = some (canon (.dir es)) ∧
    ∃ fs', restoreDir H serD serT deT fuel (H (serT (treeMsg H serD es))) cas fs (q ++ [n]) = .ok fs' ∧
      ∀ p, (p = out ∨ Diverge (q ++ [n]) (comps p)) →
        absFS comps canon fs' p = writeOuts (absFS comps canon fs) [(⟨true, out⟩, canon (.dir es))] p := by
  refine ⟨by simp [absFS, hout, hsrc], ?_⟩
  obtain ⟨_, _, _, hres⟩ := C06.restoreDir_writeDir H serD serT deT fs0 fs q n id es cas0 fuel hsrc hwf hfuel hserD hdeT hcf hpar hprior
  obtain ⟨fs', hr, r, hget, hsame⟩ := hres cas hups htree
  refine ⟨fs', hr, ?_⟩
  intro p hp
  simp only [writeOuts]
  rcases hp with rfl | hd
  · simp [absFS, hout, hget, hcanon r _ hsame]
  · have hne : p ≠ out := by
      rintro rfl
      obtain ⟨c, a, b, r1, r2, hab, h1, h2⟩ := hd
      rw [hout, h1] at h2
      have := List.append_cancel_left h2
      simp at this
      exact hab this.1
    rw [upd_other _ _ _ _ hne]
    simp only [absFS]
    rw [restoreDir_frame H serD serT deT fuel _ cas fs fs' (q ++ [n]) (comps p) hd hr]

/-- **File outputs: `restoreFile ∘ writeFile` refines `Exec.restore`** (bytes and executable bit are part of the value). -/
theorem restoreFile_refines_exec_restore (H : Bytes → Digest) (fs0 fs : Entry) (q : Grog.Path) (n : Name) (id : Bytes)
    (b : Bytes) (x : Bool) (cas0 : Cas)
    (hsrc : fs0.get (q ++ [n]) = some (.file b x)) (hpar : Clear fs q)
    (hH : ∀ b' x', fs.get (q ++ [n]) = some (.file b' x') → H b' = H b → b' = b)
    (comps : Exec.Path → Grog.Path) (canon : Entry → Val) (out : Exec.Path) (hout : comps out = q ++ [n])
    (cas : Cas) (hcas : cas.get (H b) = some b) :
    absFS comps canon fs0 out = some (canon (.file b x)) ∧
    ∃ fs', restoreFile H .fixed (H b) x cas fs (q ++ [n]) = .ok fs' ∧
      ∀ p, (p = out ∨ Diverge (q ++ [n]) (comps p)) →
        absFS comps canon fs' p = writeOuts (absFS comps canon fs) [(⟨false, out⟩, canon (.file b x))] p := by
  refine ⟨by simp [absFS, hout, hsrc], ?_⟩
  obtain ⟨_, _, hres⟩ := C06.restoreFile_writeFile H fs0 fs q n id b x cas0 hsrc hpar hH
  obtain ⟨fs', hr, hget⟩ := hres cas hcas
  refine ⟨fs', hr, ?_⟩
  intro p hp
  simp only [writeOuts]
  rcases hp with rfl | hd
  · simp [absFS, hout, hget]
  · have hne : p ≠ out := by
      rintro rfl
      obtain ⟨c, a, b', r1, r2, hab, h1, h2⟩ := hd
      rw [hout, h1] at h2
      have := List.append_cancel_left h2
      simp at this
      exact hab this.1
    rw [upd_other _ _ _ _ hne]
    simp only [absFS]
    rw [restoreFile_frame H .fixed (H b) x cas fs fs' (q ++ [n]) (comps p) hd hr]

/-- a canonical form that is invariant under `Same` (it looks at the node at the root of the object only; the theorem
    holds for every such function, e.g. a serialisation of the sorted recursive listing) -/
def exCanon : Entry → Val
  | .file b x => 0 :: (if x then 1 else 0) :: b
  | .link t => 2 :: t
  | .dir _ => [1]

theorem exCanon_same (a b : Entry) (h : a.Same b) : exCanon a = exCanon b := by
  have h0 := h []
  simp only [Entry.nodeAt, Entry.get_nil, Option.map_some, Option.some.injEq] at h0
  cases a <;> cases b <;> simp [Entry.node] at h0 <;> simp [exCanon, h0]

/-- the additional hypotheses of the refinement theorems are satisfiable (the C06 hypotheses have their own example in
    Props/C06.lean): a `Same`-invariant canonical form, a path splitter, an output path and two diverging observed paths -/
example :
    (∀ a b : Entry, a.Same b → exCanon a = exCanon b) ∧
    Diverge ([[111], [117]] ++ [[116]]) [[111], [105], [110]] ∧ Diverge ([[111]] ++ [[116]]) [[115]] ∧
    absFS (fun p => [p]) exCanon (.dir [([116], .file [7] true)]) [116] = some [0, 1, 7] := by
  refine ⟨exCanon_same, ⟨[[111]], [117], [105], [[116]], [[110]], by decide, rfl, rfl⟩,
    ⟨[], [111], [115], [[116]], [], by decide, rfl, rfl⟩, by decide⟩

/-! ## C18: the build after an interrupt -/

/-- **C18.next_build_ok.** An interrupted (or killed) `grog build` leaves (1) possibly a lock file and dead lock holders,
    (2) a cache in which the interrupted process's in-flight writes landed or not, (3) a workspace with arbitrary content at
    the output paths. The next `grog build`:
      1. gets the workspace lock within ten of its own file-system calls once every other process is dead, done or not started — wherever
         the interrupted process died in `Lock`/`Unlock`, whatever it left at the lock path (`C10.stale_never_blocks`);
      2. reads a sound cache from the surviving store state — `es` is *any* history of the store model, in particular one
         with `crash p landed` of the interrupted process at any point (`recovery_cache_sound`, C07);
      3. therefore succeeds exactly when the clean build does and then produces byte-identical declared outputs
         (`C01.build_eq_clean`): what the interrupted build did not finish is re-executed, nothing half-written is used. -/
theorem next_build_ok {P : Params κ} (hG : Good P) (hfx : P.fx.gateChecks = true)
    -- the lock
    {sL : Lock.State} (hL : Lock.Reach sL) (me : Nat) (hme : (sL.pc me).contending)
    (hgone : ∀ j, j ≠ me → sL.pc j = .dead ∨ sL.pc j = .done ∨ sL.pc j = .idle)
    -- the cache after the interrupt
    (cd : Codec κ) (tn : Lbl → Bool) (H : Bytes → Bytes)
    (es : List Store.Ev) (s' : Store.State) (hr : Store.run H Store.init es = some s')
    (hw : Store.BeginsSatisfy (WritesSound P cd) es)
    -- the next build
    (cfg : Cfg) (hm : cfg.minimal = false) (defs : Defs) (fs : FS) (order : List Lbl) (hwf : WF defs order) (fs0 : FS)
    (hag : ∀ p, (∀ l ∈ order, ∀ t, defs l = some t → p ∉ outPaths t) → fs p = fs0 p) :
    (∃ k, k ≤ 10 ∧ ∃ n, (Lock.solo me k sL).pc me = .holding n) ∧
    CacheSound P (storeCache cd tn s') ∧
    (let s := build P cfg ⟨defs, fs, storeCache cd tn s'⟩ order
     let c := Spec.clean P.run defs fs0 order
     (succeeded s order = true ↔ ∀ l ∈ order, c.ok l = some true) ∧
     (succeeded s order = true → ∀ l ∈ order, ∀ t, defs l = some t → ∀ p ∈ outPaths t, s.fs p = c.fs p)) :=
  ⟨C10.stale_never_blocks_others_gone hL me hme hgone,
   recovery_cache_sound P cd tn H es s' hr hw,
   recovery_next_build_eq_clean hG hfx cd tn H es s' hr hw cfg hm defs fs order hwf fs0 hag⟩

/-- `next_build_ok` **applied**: every hypothesis is instantiated — the reachable lock state in which process 0 was killed while
    holding and process 1 is in its acquisition loop, all others never started (`C10.afterHolderKilled`,
    `C10.afterHolderKilled_reach`); the store history in which a process is killed while its result write is in flight (and it
    lands); `Good` parameters with an injective key; the empty selection — and the first conjunct of the conclusion is obtained from
    the theorem: process 1 holds the lock after at most ten of its own calls. -/
example : ∃ k, k ≤ 10 ∧ ∃ n, (Lock.solo 1 k C10.afterHolderKilled).pc 1 = .holding n := by
  have h1 : C10.afterHolderKilled.pc 1 = .busy 0 := by decide
  have hme : (C10.afterHolderKilled.pc 1).contending := by rw [h1]; trivial
  have hgone : ∀ j, j ≠ 1 → C10.afterHolderKilled.pc j = .dead ∨ C10.afterHolderKilled.pc j = .done ∨ C10.afterHolderKilled.pc j = .idle := by
    intro j hj
    match j with
    | 0 => exact Or.inl (by decide)
    | 1 => exact absurd rfl hj
    | j + 2 => exact Or.inr (Or.inr (by simp [C10.afterHolderKilled, Lock.run, Lock.step, Lock.init, Lock.State.pc, Lock.State.setPc, Lock.State.setProc, Lock.State.releaseAll]))
  have hw : Store.BeginsSatisfy (WritesSound exGoodP exCd2)
      [.setBegin 1 1 .cas [1] [1] [], .setEnd 1 1 .errStored, .existsRes 2 .cas [1] .yes,
       .setBegin 2 1 .target [] [7] [[1]], .crash 2 [1], .getRes 3 .target [] .yes] := by
    intro p op ns k c refs _ _ k' r _ hr
    simp [exCd2] at hr
  obtain ⟨s', hr⟩ := Option.isSome_iff_exists.mp (by decide : (Store.run id Store.init
      [.setBegin 1 1 .cas [1] [1] [], .setEnd 1 1 .errStored, .existsRes 2 .cas [1] .yes,
       .setBegin 2 1 .target [] [7] [[1]], .crash 2 [1], .getRes 3 .target [] .yes]).isSome = true)
  have hwf : WF (fun _ => none) [] :=
    ⟨List.nodup_nil, fun l hl => by simp at hl, fun l t h => by simp at h, fun l hl => by simp at hl,
      fun pre l suf h => by simp at h, fun l hl => by simp at hl, fun l hl => by simp at hl, fun l hl => by simp at hl⟩
  exact (next_build_ok exGoodP_good rfl C10.afterHolderKilled_reach 1 hme hgone exCd2 (fun _ => false) id _ s' hr hw
    ⟨true, false⟩ rfl (fun _ => none) (fun _ => none) [] hwf (fun _ => none) (fun _ _ => rfl)).1

end Grog.Compose
