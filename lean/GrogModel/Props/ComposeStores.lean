/-
  Composition of the stores group's models (C06 Tree, C07 FsBackend/Store, C08 Remote) with the build semantics
  (C01 Exec/Build), the lock (C10) and cancellation (C18).

  The build semantics treat the cache as a function `Exec.Cache` (`res`, `cas`, `taint`) updated atomically, and take
  three things as definitions / hypotheses: (a) what is stored is sound (`CacheSound`, preserved by builds: C01),
  (b) restoring a stored output writes exactly the stored value (`Exec.restore`, "C06"), (c) a second machine sees the
  first machine's cache (not modelled there at all). Here the persistent stores are the transition systems of
  GrogModel/Store.lean (crashes, faults) and GrogModel/Remote.lean (machines, remote faults); `storeCache` / `viewCache`
  read a store state as an `Exec.Cache`, and the theorems below discharge (a) after crashes (C07.recovery, composed),
  (b) from `C06.restoreDir_writeDir`, (c) from `C08.remote_closed` + read-through, and put C10 + C07 + C01 together for
  the build after an interrupt (C18).  Adapters: GrogModel/Lemmas/ComposeStores.lean.  Gaps: design_notes/COMPOSE.md.
-/
import GrogModel.Lemmas.ComposeStores
import GrogModel.Props.C01
import GrogModel.Props.C07
set_option linter.unusedSectionVars false
set_option linter.unusedVariables false
namespace Grog.Compose
open Grog Grog.Exec Grog.Build

variable {κ : Type} [DecidableEq κ]

/-! ## C07, last sentence: the build after crashes and storage faults -/

/-- **C07.recovery, composed with the build semantics.** Take any run of the store model from the empty store — any
    number of processes, faults that store or not, kills with in-flight writes landing or not — in which every target
    result handed to `Set` is (the marshalling of) an entry of a sound cache (what builds do: C01). Then the cache a fresh
    process reads from the surviving store state is `CacheSound`: a crash or fault can only lose entries or leave
    complete ones, never produce an entry no build wrote. -/
theorem recovery_cache_sound (P : Params κ) (cd : Codec κ) (tn : Lbl → Bool) (H : Bytes → Bytes)
    (es : List Store.Ev) (s' : Store.State) (hr : Store.run H Store.init es = some s')
    (hw : Store.BeginsSatisfy (WritesSound P cd) es) :
    CacheSound P (storeCache cd tn s') :=
  storeCache_sound P cd tn s' (Store.carries_run (Store.carries_init _) es hw hr)

/-- … from any store state that carries only sound writes (the invariant, for continuing histories) -/
theorem recovery_cache_sound_from (P : Params κ) (cd : Codec κ) (tn : Lbl → Bool) (H : Bytes → Bytes)
    (s s' : Store.State) (es : List Store.Ev) (h0 : Store.Carries (WritesSound P cd) s)
    (hr : Store.run H s es = some s') (hw : Store.BeginsSatisfy (WritesSound P cd) es) :
    CacheSound P (storeCache cd tn s') :=
  storeCache_sound P cd tn s' (Store.carries_run h0 es hw hr)

/-- **The next build on the same cache and workspace satisfies C01** (the composed statement of C07's last sentence):
    after any such crash/fault history, a build in mode `all` over a well-formed order — starting from whatever the
    killed build left at the output paths — succeeds exactly when the cache-free clean build does, and then every
    declared output is byte-identical to the clean build's: lost entries are re-executed, nothing corrupt is restored. -/
theorem recovery_next_build_eq_clean {P : Params κ} (hG : Good P) (hfx : P.fx.gateChecks = true)
    (cd : Codec κ) (tn : Lbl → Bool) (H : Bytes → Bytes)
    (es : List Store.Ev) (s' : Store.State) (hr : Store.run H Store.init es = some s')
    (hw : Store.BeginsSatisfy (WritesSound P cd) es)
    (cfg : Cfg) (hm : cfg.minimal = false) (defs : Defs) (fs : FS) (order : List Lbl) (hwf : WF defs order) (fs0 : FS)
    (hag : ∀ p, (∀ l ∈ order, ∀ t, defs l = some t → p ∉ outPaths t) → fs p = fs0 p) :
    let w : World κ := ⟨defs, fs, storeCache cd tn s'⟩
    let s := build P cfg w order
    let c := Spec.clean P.run defs fs0 order
    (succeeded s order = true ↔ ∀ l ∈ order, c.ok l = some true) ∧
    (succeeded s order = true → ∀ l ∈ order, ∀ t, defs l = some t → ∀ p ∈ outPaths t, s.fs p = c.fs p) :=
  C01.build_eq_clean hG hfx cfg hm ⟨defs, fs, storeCache cd tn s'⟩ order hwf
    (recovery_cache_sound P cd tn H es s' hr hw) fs0 hag

section Example
/-- toy parameters: every key is 0, every command succeeds and writes nothing -/
def exP : Params Nat := ⟨fun _ => 0, fun _ _ => ⟨true, [], []⟩, Fixes.current⟩
def exKS : KeyState Nat := ⟨[], ⟨[], 0, [], []⟩, [], [], [], [], []⟩
def exRes : Result Nat := mkRes false exKS 0 []
/-- file names: key `n` is `n` zero bytes; every stored result unmarshals to `exRes` -/
def exCd : Codec Nat := ⟨fun n => List.replicate n 0, id, fun _ => some exRes⟩

theorem exRes_sound : SoundEntry exP 0 exRes := ⟨exKS, rfl, rfl, rfl, false, rfl⟩

/-- the hypotheses of `recovery_cache_sound` are satisfiable by a non-trivial history: a blob stored although an error
    was returned, a second process killed while its result write is in flight (it lands), a third one reading it -/
example :
    (Store.run id Store.init
      [.setBegin 1 1 .cas [1] [1] [], .setEnd 1 1 .errStored, .existsRes 2 .cas [1] .yes,
       .setBegin 2 1 .target [] [7] [[1]], .crash 2 [1], .getRes 3 .target [] .yes]).isSome = true ∧
    Store.BeginsSatisfy (WritesSound exP exCd)
      [.setBegin 1 1 .cas [1] [1] [], .setEnd 1 1 .errStored, .existsRes 2 .cas [1] .yes,
       .setBegin 2 1 .target [] [7] [[1]], .crash 2 [1], .getRes 3 .target [] .yes] := by
  refine ⟨by decide, ?_⟩
  intro p op ns k c refs hm
  simp only [List.mem_cons, Store.Ev.setBegin.injEq, reduceCtorEq, List.not_mem_nil, or_false, false_or] at hm
  rcases hm with ⟨_, _, rfl, _⟩ | ⟨_, _, rfl, rfl, _⟩
  · intro h; cases h
  · intro _ k r hk hr
    have : k = 0 := by
      have := congrArg List.length hk
      simpa [exCd] using this
    subst this
    simp only [exCd, Option.some.injEq] at hr
    subst hr
    exact exRes_sound
end Example

end Grog.Compose
