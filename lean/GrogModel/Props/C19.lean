/-
  C19 — graph algorithms scale polynomially, not with the number of paths.
  Property theorems only; helper lemmas are in GrogModel/Lemmas/Graph*.lean.
  Model: GrogModel/Graph.lean (internal/dag/graph.go), GrogModel/Select.lean (selection/build_selection.go).

  Cost unit: one loop iteration over an adjacency list entry, or one call of the recursive closure.
  What is proved is the operation count of the model; the wall time of the real code is measured by
  tools/checks/c19.py (DESIGN section 8).
-/
import GrogModel.Lemmas.GraphPaths
import GrogModel.Lemmas.GraphSelect
import GrogModel.Lemmas.GraphMemo
import GrogModel.Query
namespace Grog.C19
open Grog

/-- a graph as `AddEdge` builds it: all edge endpoints are nodes `0 … n-1` -/
def WF (n : Nat) (es : List Edge) : Prop := ∀ e ∈ es, e.1 < n ∧ e.2 < n

/-- `GetDescendants` (failure propagation, `rdeps -t`, `changes`): for every graph and every node the
    visited-set traversal spends at most `|V| + |E|` steps. -/
theorem visited_cost_le (n : Nat) (es : List Edge) (v : Nat) (hwf : WF n es) (hv : v < n) :
    (descendantsV es v).cost ≤ n + es.length :=
  descendantsV_cost_le es n v hwf hv

/-- `GetAncestors` (`deps -t`, `graph -t`): the same bound. -/
theorem ancestors_cost_le (n : Nat) (es : List Edge) (v : Nat) (hwf : WF n es) (hv : v < n) :
    (ancestorsV es v).cost ≤ n + es.length := by
  have := descendantsV_cost_le (flipEdges es) n v (by
    intro e he
    obtain ⟨a, b⟩ := e
    have := hwf _ (mem_flipEdges.mp he)
    exact ⟨this.2, this.1⟩) hv
  rwa [length_flipEdges] at this

example : WF 4 [(0, 1), (0, 2), (1, 3), (2, 3)] ∧ (descendantsV [(0, 1), (0, 2), (1, 3), (2, 3)] 0).cost = 8 := by
  refine ⟨by unfold WF; decide, by decide⟩

/-- `SelectTargetsForBuild`: for every graph, every set of start nodes (each node of the map is looked at
    once: `order.Nodup`) the whole selection spends at most `|V| + |E|` steps, no matter how many
    patterns match or how the matches overlap. -/
theorem select_cost_le (g : BuildGraph) (s : Selector) (h : Host) (order sel : List Nat) (c : Nat)
    (hord : order.Nodup) (hsub : ∀ i ∈ order, i < g.nodes.length)
    (hok : selectForBuild g s h order = .ok sel c) :
    c ≤ g.nodes.length + g.edges.length := by
  have h1 := (selectLoop_ok_spec hok).2.2.2.2
  have h2 : (g.roots s h order).length ≤ order.length := List.length_filter_le _ _
  have h3 : order.length ≤ g.nodes.length := by
    have := List.Nodup.length_le_of_subset hord (fun x hx => List.mem_range.mpr (hsub x hx))
    simpa using this
  omega

/-- Output-conflict detection: one `getAncestorSet` (memo cache left out, see `ancestorSetV`) costs at most
    `1 + |inEdges v| + |E|` steps and returns exactly the transitive dependencies, for every graph. With
    `k` output records the detection asks `targetsAreOrdered` for at most `k²` pairs, each at most two
    ancestor sets: `≤ 2·k²·(1 + 2|E|)` steps without the cache (the cache replaces expansions by set
    unions; the real cost is measured by tools/checks/c19.py). -/
theorem ancestor_set_cost_le (es : List Edge) (v : Nat) :
    (ancestorSetV es v).cost ≤ 1 + 2 * es.length ∧
    ∀ x, x ∈ (ancestorSetV es v).nodes ↔ ReachPlus es x v := by
  refine ⟨?_, fun x => mem_ancestorSetV⟩
  have h1 := ancestorSetV_cost_le es v
  have h2 := length_preds_le es v
  omega

/-- the hypotheses of `select_cost_le` are satisfiable (x ← alias ← t, pattern `//:t`): cost 3 ≤ 3 + 2 -/
example :
    let g : BuildGraph := ⟨[⟨⟨[], [120]⟩, true, [], [], false⟩, ⟨⟨[], [97, 120]⟩, false, [], [], false⟩,
      ⟨⟨[], [116]⟩, true, [], [], false⟩], [(0, 1), (1, 2)]⟩
    ([2, 0, 1] : List Nat).Nodup ∧ (∀ i ∈ [2, 0, 1], i < g.nodes.length) ∧
    selectForBuild g ⟨[⟨[], [116], false⟩], [], [], .all⟩ ⟨[108], false⟩ [2, 0, 1] = .ok [0, 1, 2] 3 := by
  refine ⟨by decide, by decide, by decide⟩

/-- `grog changes --dependents=transitive`: one `GetDescendants` per changed target, hence at most
    `|changed| · (|V| + |E|)` steps. -/
theorem changes_cost_le (n : Nat) (es : List Edge) (hwf : WF n es) :
    ∀ (owners : List Nat), (∀ o ∈ owners, o < n) →
      ((owners.map (fun o => (descendantsV es o).cost)).sum ≤ owners.length * (n + es.length))
  | [], _ => by simp
  | o :: rest, h => by
    have h1 := visited_cost_le n es o hwf (h o (List.mem_cons_self ..))
    have h2 := changes_cost_le n es hwf rest (fun x hx => h x (List.mem_cons_of_mem _ hx))
    simp only [List.map_cons, List.sum_cons, List.length_cons]
    rw [Nat.succ_mul]; omega

/-- `grog changes` with a filter: the nodes are collected by traversals that never look at the filter (the
    `--target-type` / `--tag` / `--exclude-tag` selector is applied to the collected list afterwards), so the cost
    is the same for every filter and at most `|owners| · (|V| + |E|)` — in particular a ladder of filtered-out
    library layers below a few tests costs no more than with `--target-type=all`. -/
theorem changes_filter_independent (g : BuildGraph) (s : Selector) (h : Host) (inputs : Nat → List Bytes)
    (files : List Bytes) (tr : Bool) (hwf : WF g.nodes.length g.edges) :
    changesCmd g s h inputs files tr = printSorted g ((changesNodes g inputs files tr).filter (g.matchAt s h)) ∧
    changesCost g inputs files ≤ (ownersOf g inputs files).length * (g.nodes.length + g.edges.length) := by
  refine ⟨rfl, ?_⟩
  apply changes_cost_le g.nodes.length g.edges hwf
  intro o ho
  simp only [ownersOf, List.mem_filter, List.mem_range] at ho
  exact ho.1

/-- The output-conflict pass with its memo table (`ancestorCache`): for every graph and every list of target pairs
    the pair loops of `detectOutputConflicts` compare (at most `D²` for `D` output records), starting from an empty
    table, the pass finishes and costs at most `3·|pairs| + |V|·(1 + 2|E|·(1 + |V|))` steps: every node's ancestor
    set is computed at most once (a cache miss costs at most `1 + 2|E|(1+|V|)` steps, merging cached sets included),
    every other `targetsAreOrdered` is two table look-ups. Without the table (`nil` cache per call) every pair
    would pay the miss cost: `|pairs|·2·(1 + 2|E|(1+|V|))`. -/
theorem conflict_pass_cost_le (n : Nat) (es : List Edge) (hwf : WF n es) (pairs : List (Nat × Nat))
    (hp : ∀ p ∈ pairs, p.1 < n ∧ p.2 < n) :
    ∃ st, pairLoop (flipEdges es) pairs ⟨[], 0⟩ = some st ∧
      st.cost ≤ 3 * pairs.length + n * (1 + 2 * es.length * (1 + n)) := by
  have hes : InRange n (flipEdges es) := by
    intro e he
    obtain ⟨a, b⟩ := e
    have := hwf _ (mem_flipEdges.mp he)
    exact ⟨this.2, this.1⟩
  obtain ⟨st, h1, _, h3⟩ := pairLoop_spec (flipEdges es) n hes pairs ⟨[], 0⟩ (memoOK_nil n) hp
  refine ⟨st, h1, ?_⟩
  have hu := unmemo_le n ([] : Memo)
  have hpot : st.cost ≤ passPot n (flipEdges es) st := by simp [passPot]
  have h0 : passPot n (flipEdges es) ⟨[], 0⟩ ≤ n * (1 + 2 * es.length * (1 + n)) := by
    simp only [passPot, missCost, length_flipEdges, Nat.zero_add]
    rw [Nat.mul_comm]
    exact Nat.mul_le_mul_right _ hu
  omega

/-- the pass on a diamond with every pair compared: 6 pairs, cost 24 ≤ 3·6 + 4·(1 + 2·4·5) = 182 -/
example : (pairLoop (flipEdges [(0, 1), (0, 2), (1, 3), (2, 3)]) [(0, 1), (0, 2), (0, 3), (1, 2), (1, 3), (2, 3)] ⟨[], 0⟩).map (·.cost) = some 24 := by
  decide

/-- On an acyclic graph (`Ranked`: some numbering increases along every edge and is bounded by `N`) the
    visited-set `GetDescendants` returns exactly the nodes the path-enumerating one of the old tree
    returned (as a set; the old one repeated a node once per path). -/
theorem same_answer (es : List Edge) (rank : Nat → Nat) (N fuel : Nat) (hr : Ranked es rank N) (hf : N ≤ fuel)
    (v x : Nat) : x ∈ descendantsPaths es fuel v ↔ x ∈ (descendantsV es v).nodes :=
  mem_pathsFrom_iff_descendantsV hr hf v x

theorem same_answer_ancestors (es : List Edge) (rank : Nat → Nat) (N fuel : Nat) (hr : Ranked es rank N)
    (hf : N ≤ fuel) (v x : Nat) : x ∈ ancestorsPaths es fuel v ↔ x ∈ (ancestorsV es v).nodes := by
  unfold ancestorsPaths ancestorsV
  rw [preds_eq_succs_flip]
  exact mem_pathsFrom_iff_descendantsV (ranked_flip hr) hf v x

/-- the hypotheses of `same_answer` are satisfiable by a non-trivial graph: the ladder, ranked by level -/
example : Ranked (ladderEdges 3) (fun v => v / 2) 3 := ranked_ladder 3

/-- … and the visited-set result has no repetitions, for every graph. -/
theorem visited_nodup (es : List Edge) (v : Nat) :
    (descendantsV es v).nodes.Nodup ∧ (ancestorsV es v).nodes.Nodup :=
  ⟨nodup_descendantsV es v, nodup_descendantsV _ v⟩

/-- The old tree (regression witness for F-paths): on the width-2 ladder of depth `d` the path-enumerating
    `GetDescendants` from a bottom node makes at least `2^d` calls (exactly `2^(d+1) - 1`). -/
theorem ladder_exponential (d fuel : Nat) (hf : d ≤ fuel) :
    2 ^ d ≤ pathsCost (succs (ladderEdges d)) fuel 0 := by
  rw [succs_ladderEdges]
  have h := ladder_paths_length d d fuel 0 (by omega) hf
  have hp : 2 ^ (d + 1) = 2 ^ d * 2 := Nat.pow_succ ..
  have : 0 < 2 ^ d := Nat.pow_pos (by omega)
  simp only [pathsCost]; omega

/-- exact count, for the record -/
theorem ladder_paths_exact (d fuel : Nat) (hf : d ≤ fuel) :
    (descendantsPaths (ladderEdges d) fuel 0).length + 2 = 2 ^ (d + 1) := by
  unfold descendantsPaths
  rw [succs_ladderEdges]
  exact ladder_paths_length d d fuel 0 (by omega) hf

/-- … whereas the current traversal of the same ladder spends at most `2(d+1) + 4d` steps. -/
theorem ladder_visited_linear (d : Nat) :
    (descendantsV (ladderEdges d) 0).cost ≤ 2 * (d + 1) + 4 * d := by
  have := descendantsV_cost_le (ladderEdges d) (2 * (d + 1)) 0
    (fun e he => ⟨(mem_ladderEdges he).1, (mem_ladderEdges he).2.1⟩) (by omega)
  rwa [length_ladderEdges] at this

/-- the selection of the old tree walked every path as well: its call count on the ladder (selecting the
    top node `2d`, walking `inEdges`) for `d = 4`: 30 calls against 10 nodes and 16 edges. -/
theorem ladder_select_paths_witness :
    selectAncestorsPaths (ladderEdges 4) (fun _ => true) 5 8 = some 30 := by decide

end Grog.C19
