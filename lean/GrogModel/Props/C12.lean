/-
  C12 — selection is the pattern matches plus their dependency closure, nothing else.
  Property theorems only; helper lemmas are in GrogModel/Lemmas/GraphSelect.lean.
  Model: GrogModel/Select.lean (internal/selection/{selector,target_matchers,build_selection}.go).

  Edges are `(dependency, dependant)` pairs; an alias is a node whose single edge comes from its
  `actual`, so "followed through aliases" is ordinary reachability. `order` is the iteration order of
  the Go node map: every theorem holds for every order.
-/
import GrogModel.Lemmas.GraphSelect
namespace Grog.C12
open Grog

/-- node `m` matches the patterns and the tag / exclude-tag / type filters and the host platform. A target is
    tested itself; an alias by its own label against the patterns and *the target it points to* against the
    type / tag / exclude-tag / platform filters (`selMatchesAt`, `selPlatAt`) — so an excluded target is never
    selected merely because it has an alias (before the fix it was: `alias_bypass_witness_old`). -/
def Matched (g : BuildGraph) (s : Selector) (h : Host) (m : Nat) : Prop :=
  g.selMatchesAt s m = true ∧ g.selPlatAt h m = true

theorem selMatchesAt_lt {g : BuildGraph} {s : Selector} {m : Nat} (h : g.selMatchesAt s m = true) : m < g.nodes.length := by
  simp only [BuildGraph.selMatchesAt] at h
  by_cases hlt : m < g.nodes.length
  · exact hlt
  · rw [List.getElem?_eq_none (by omega)] at h; simp at h

/-- a starting point that passes the (alias-resolving) platform test passes the node-level one the ancestor walk uses -/
theorem selPlatAt_platAt {g : BuildGraph} {h : Host} {m : Nat} (hp : g.selPlatAt h m = true) : g.platAt h m = true := by
  simp only [BuildGraph.selPlatAt, BuildGraph.platAt] at hp ⊢
  cases hn : g.nodes[m]? with
  | none => simp [hn] at hp
  | some n =>
    simp only [hn] at hp ⊢
    cases ht : n.isTarget with
    | true => simpa [ht] using hp
    | false => simp [platformOK, ht]

/-- `x` is `m` or a transitive dependency of `m` -/
def DepOf (g : BuildGraph) (x m : Nat) : Prop := Reach g.edges x m

/-- node `x` is a target whose platform list excludes the host (and `--all-platforms` is off) -/
def Incompatible (g : BuildGraph) (h : Host) (x : Nat) : Prop :=
  ∃ n, g.nodes[x]? = some n ∧ n.isTarget = true ∧ h.allPlatforms = false ∧
    n.platforms ≠ [] ∧ h.platform ∉ n.platforms

/-- the graph is as `AddEdge` builds it: edges join existing nodes -/
def WF (g : BuildGraph) : Prop := ∀ e ∈ g.edges, e.1 < g.nodes.length ∧ e.2 < g.nodes.length

/-- the iteration visits every node of the map -/
def Covers (g : BuildGraph) (order : List Nat) : Prop := ∀ i, i < g.nodes.length → i ∈ order

theorem mem_roots {g : BuildGraph} {s : Selector} {h : Host} {order : List Nat} (hc : Covers g order) (m : Nat) :
    m ∈ g.roots s h order ↔ Matched g s h m := by
  simp only [BuildGraph.roots, List.mem_filter, Bool.and_eq_true, Matched]
  constructor
  · exact fun hm => hm.2
  · intro hm
    exact ⟨hc m (selMatchesAt_lt hm.1), hm⟩

/-- On success the selected set is exactly the matching nodes together with all their transitive
    dependencies (edges through aliases are edges). -/
theorem select_eq_closure (g : BuildGraph) (s : Selector) (h : Host) (order sel : List Nat) (c : Nat)
    (hc : Covers g order) (hok : selectForBuild g s h order = .ok sel c) (x : Nat) :
    x ∈ sel ↔ Matched g s h x ∨ ∃ m, Matched g s h m ∧ ReachPlus g.edges x m := by
  rw [(selectLoop_ok_spec hok).1 x]
  constructor
  · rintro ⟨r, hr, hreach⟩
    have hm := (mem_roots hc r).mp hr
    cases hreach with
    | refl => exact Or.inl hm
    | step e rest => exact Or.inr ⟨r, hm, _, e, rest⟩
  · rintro (hm | ⟨m, hm, y, e, rest⟩)
    · exact ⟨x, (mem_roots hc x).mpr hm, Reach.refl _⟩
    · exact ⟨m, (mem_roots hc m).mpr hm, Reach.step e rest⟩

/-- The selected set is closed under direct dependencies (the hypothesis of the walker theorems:
    a selected node never waits for an unselected one). -/
theorem select_closed (g : BuildGraph) (s : Selector) (h : Host) (order sel : List Nat) (c : Nat)
    (hok : selectForBuild g s h order = .ok sel c) :
    ∀ y ∈ sel, ∀ x, (x, y) ∈ g.edges → x ∈ sel :=
  (selectLoop_ok_spec hok).2.1

/-- … and has no repetitions. -/
theorem select_nodup (g : BuildGraph) (s : Selector) (h : Host) (order sel : List Nat) (c : Nat)
    (hok : selectForBuild g s h order = .ok sel c) : sel.Nodup :=
  (selectLoop_ok_spec hok).2.2.2.1

/-- Selection always terminates with a selection or a platform error (the fuel of the model is never
    exhausted). -/
theorem select_total (g : BuildGraph) (s : Selector) (h : Host) (order : List Nat) :
    (∃ sel c, selectForBuild g s h order = .ok sel c) ∨ (∃ x c, selectForBuild g s h order = .platformError x c) := by
  cases hr : selectForBuild g s h order with
  | ok sel c => exact Or.inl ⟨sel, c, rfl⟩
  | platformError x c => exact Or.inr ⟨x, c, rfl⟩
  | fuel => exact absurd hr (selectLoop_ne_fuel _ _ _ _ _)

theorem platAt_false_iff {g : BuildGraph} {h : Host} {x : Nat} (hx : x < g.nodes.length) :
    g.platAt h x = false ↔ Incompatible g h x := by
  simp only [BuildGraph.platAt, Incompatible, List.getElem?_eq_getElem hx, Option.some.injEq,
    exists_eq_left', platformOK]
  cases g.nodes[x].isTarget <;> cases h.allPlatforms <;> cases hp : g.nodes[x].platforms <;> simp

/-- Selection fails iff the closure (a matching node or one of its transitive dependencies) contains a
    platform-incompatible target: an error, never a partial build. A matching node that is itself
    incompatible is skipped, not an error (unless something else that matches depends on it). -/
theorem platform_error_iff (g : BuildGraph) (s : Selector) (h : Host) (order : List Nat)
    (hwf : WF g) (hc : Covers g order) :
    (∃ x c, selectForBuild g s h order = .platformError x c) ↔
      ∃ m x, Matched g s h m ∧ DepOf g x m ∧ Incompatible g h x := by
  have hlt : ∀ m x, Matched g s h m → Reach g.edges x m → x < g.nodes.length := by
    intro m x hm hr
    have hm' : m < g.nodes.length := selMatchesAt_lt hm.1
    cases hr with
    | refl => exact hm'
    | step e _ => exact (hwf _ e).1
  constructor
  · rintro ⟨x, cx, hx⟩
    obtain ⟨h1, ⟨r, hr, hreach⟩, _⟩ := selectLoop_err_inv _ _ _ _ _ _ _ hx
    have hm := (mem_roots hc r).mp hr
    have hreach' := reach_flip.mp hreach
    exact ⟨r, x, hm, hreach', (platAt_false_iff (hlt r x hm hreach')).mp h1⟩
  · rintro ⟨m, x, hm, hdep, hinc⟩
    rcases select_total g s h order with ⟨sel, c, hok⟩ | herr
    · exfalso
      have hspec := selectLoop_ok_spec hok
      have hx : x ∈ sel := (hspec.1 x).mpr ⟨m, (mem_roots hc m).mpr hm, hdep⟩
      have hallok := hspec.2.2.1 (fun r hr => selPlatAt_platAt ((mem_roots hc r).mp hr).2) x hx
      have := (platAt_false_iff (hlt m x hm hdep)).mpr hinc
      rw [this] at hallok; cases hallok
    · exact herr

/-- The outcome does not depend on the iteration order of the node map: two orders that both visit
    every node agree on success / failure and select the same set. -/
theorem select_order_independent (g : BuildGraph) (s : Selector) (h : Host) (o1 o2 : List Nat)
    (hwf : WF g) (h1 : Covers g o1) (h2 : Covers g o2) :
    ((∃ x c, selectForBuild g s h o1 = .platformError x c) ↔ (∃ x c, selectForBuild g s h o2 = .platformError x c)) ∧
    (∀ sel1 c1 sel2 c2, selectForBuild g s h o1 = .ok sel1 c1 → selectForBuild g s h o2 = .ok sel2 c2 →
      ∀ x, x ∈ sel1 ↔ x ∈ sel2) := by
  refine ⟨?_, ?_⟩
  · rw [platform_error_iff g s h o1 hwf h1, platform_error_iff g s h o2 hwf h2]
  · intro sel1 c1 sel2 c2 hs1 hs2 x
    rw [select_eq_closure g s h o1 sel1 c1 h1 hs1, select_eq_closure g s h o2 sel2 c2 h2 hs2]

/-- `only_selected_run` in its barest form: everything that ran was selected. The theorem
    `C12.only_selected_run` (Props/Compose.lean) proves it — and more — for every reachable state of the
    walker × pool-task models of C03–C05 built from a successful selection; tools/checks/c12.py samples it
    through real `grog build` traces. `ran` = the targets whose task was queued or on a worker. -/
def only_selected_run_statement (sel ran : List Nat) : Prop := ∀ t ∈ ran, t ∈ sel

/-! ### the hypotheses are satisfiable, and the witnesses of the targeted cases -/

namespace Ex
def lbl (n : Bytes) : Label := ⟨[], n⟩
/-- x (darwin only) ← ax (alias) ← t ; pattern //:t on linux -/
def g : BuildGraph :=
  ⟨[⟨lbl [120], true, [], [[100]], false⟩, ⟨lbl [97, 120], false, [], [], false⟩, ⟨lbl [116], true, [], [], false⟩],
   [(0, 1), (1, 2)]⟩
def sel : Selector := ⟨[⟨[], [116], false⟩], [], [], .all⟩
def linux : Host := ⟨[108], false⟩
def anyHost : Host := ⟨[108], true⟩
end Ex

/-- an incompatible dependency reached only through an alias is an error … -/
example : selectForBuild Ex.g Ex.sel Ex.linux [0, 1, 2] = .platformError 0 3 := by decide
/-- … and with `--all-platforms` the alias and its target are selected (in any order). -/
example : selectForBuild Ex.g Ex.sel Ex.anyHost [2, 0, 1] = .ok [0, 1, 2] 3 := by decide
/-! the alias finding: `lib` (tag `slow`) ← `al` (alias), `app`; `--exclude-tag=slow //...` -/
namespace ExAlias
def slow : Bytes := [115]
def g : BuildGraph :=
  ⟨[⟨Ex.lbl [108], true, [slow], [], false⟩, ⟨Ex.lbl [97, 108], false, [], [], false⟩, ⟨Ex.lbl [97, 112], true, [], [], false⟩],
   [(0, 1)]⟩
def sel : Selector := ⟨[⟨[], [], true⟩], [], [slow], .all⟩
end ExAlias

/-- current code: the alias of an excluded target is not a starting point; only `app` is selected … -/
theorem alias_filtered_witness : selectForBuild ExAlias.g ExAlias.sel Ex.linux [0, 1, 2] = .ok [2] 1 := by decide

/-- … whereas selecting aliases by pattern alone (the tree before the fix) selected the alias and with it the
    excluded target `lib` (replayed on the real CLI by tools/checks/c12.py, signature `alias-bypasses-filters`). -/
theorem alias_bypass_witness_old :
    selectLoop ExAlias.g.edges (ExAlias.g.platAt Ex.linux)
      ([0, 1, 2].filter (fun i => ExAlias.g.selMatchesAtOld ExAlias.sel i && ExAlias.g.platAt Ex.linux i)) [] 0 = .ok [2, 0, 1] 3 := by
  decide

example : WF Ex.g ∧ Covers Ex.g [2, 0, 1] := by
  refine ⟨by unfold WF; decide, ?_⟩
  intro i hi
  have : i = 0 ∨ i = 1 ∨ i = 2 := by simp [Ex.g] at hi; omega
  rcases this with rfl | rfl | rfl <;> decide

/-! ### alias chains (`resolveAliasedTarget`), any length — added in the continuation round -/

/-- whatever `resolveAliasedTarget` returns is a target of the graph -/
theorem resolveFrom_isTarget (g : BuildGraph) : ∀ (fuel i : Nat) (t : Node),
    g.resolveFrom fuel i = some t → t.isTarget = true ∧ t ∈ g.nodes := by
  intro fuel
  induction fuel with
  | zero => intro i t h; simp [BuildGraph.resolveFrom] at h
  | succ f ih =>
    intro i t h
    simp only [BuildGraph.resolveFrom] at h
    split at h
    · simp at h
    · rename_i n hn
      split at h
      · rename_i ht
        have : n = t := by simpa using h
        subst this
        exact ⟨ht, List.mem_of_getElem? hn⟩
      · split at h
        · simp at h
        · exact ih _ _ h

/-- a target resolves to itself -/
theorem resolve_target (g : BuildGraph) (i : Nat) (n : Node) (hn : g.nodes[i]? = some n) (ht : n.isTarget = true) :
    g.resolve i = some n := by
  simp [BuildGraph.resolve, BuildGraph.resolveFrom, hn, ht]

/-- one link of a chain: an alias resolves to whatever the node it points to resolves to (so a chain of any
    length ends in the same target as its tail — an alias of an alias is not a dead end) -/
theorem resolveFrom_alias_step (g : BuildGraph) (fuel i d : Nat) (n : Node) (rest : List Nat)
    (hn : g.nodes[i]? = some n) (ha : n.isTarget = false) (hd : preds g.edges i = d :: rest) :
    g.resolveFrom (fuel + 1) i = g.resolveFrom fuel d := by
  simp [BuildGraph.resolveFrom, hn, ha, hd]

/-- more fuel never changes an answer already found -/
theorem resolveFrom_mono (g : BuildGraph) : ∀ (fuel i : Nat) (t : Node),
    g.resolveFrom fuel i = some t → g.resolveFrom (fuel + 1) i = some t := by
  intro fuel
  induction fuel with
  | zero => intro i t h; simp [BuildGraph.resolveFrom] at h
  | succ f ih =>
    intro i t h
    rw [BuildGraph.resolveFrom] at h ⊢
    split at h
    · simp at h
    · rename_i n hn
      split at h
      · rename_i ht; simp [ht, h]
      · rename_i ht
        split at h
        · simp at h
        · rename_i d rest hd
          simp only [ht, hd]
          exact ih _ _ h

/-- The filters reach through alias chains of every length: an alias whose chain ends in a target that the
    type / tag / exclude-tag filters reject is never a starting point of the selection. -/
theorem alias_of_rejected_not_root (g : BuildGraph) (s : Selector) (i : Nat) (n t : Node)
    (hn : g.nodes[i]? = some n) (ha : n.isTarget = false) (hr : g.resolve i = some t)
    (hx : (typeOK s.typ t && tagsOK s.tags t.tags && !excluded s.excludeTags t.tags) = false) :
    g.selMatchesAt s i = false := by
  simp only [BuildGraph.selMatchesAt, hn, ha, hr]
  simp [hx]

/-- … and likewise for the platform filter -/
theorem alias_of_incompatible_not_root (g : BuildGraph) (h : Host) (i : Nat) (n t : Node)
    (hn : g.nodes[i]? = some n) (ha : n.isTarget = false) (hr : g.resolve i = some t)
    (hx : platformOK h t = false) : g.selPlatAt h i = false := by
  simp [BuildGraph.selPlatAt, hn, ha, hr, hx]

/-! two-hop chain: `lib` (tag `slow`) ← `al` ← `al2`, `app`; `--exclude-tag=slow //...` selects `app` only -/
namespace ExAlias2
def g : BuildGraph :=
  ⟨[⟨Ex.lbl [108], true, [ExAlias.slow], [], false⟩, ⟨Ex.lbl [97, 108], false, [], [], false⟩,
    ⟨Ex.lbl [97, 50], false, [], [], false⟩, ⟨Ex.lbl [97, 112], true, [], [], false⟩],
   [(0, 1), (1, 2)]⟩
end ExAlias2

example : ExAlias2.g.resolve 2 = some ⟨Ex.lbl [108], true, [ExAlias.slow], [], false⟩ := by decide
theorem alias_chain_filtered_witness :
    selectForBuild ExAlias2.g ExAlias.sel Ex.linux [0, 1, 2, 3] = .ok [3] 1 := by decide

end Grog.C12
