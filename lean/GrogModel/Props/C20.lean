/-
  C20 — query commands agree with the graph and predict rebuilds.
  Property theorems only; helper lemmas are in GrogModel/Lemmas/GraphQuery.lean, GraphDfs.lean.
  Model: GrogModel/Query.lean (internal/cmd/cmds/{deps,rdeps,owners,list}.go, label.PrintSorted,
  dag.AddEdge), GrogModel/Graph.lean.

  Edges are `(dependency, dependant)`. "Printed" = the list of stdout lines.
  `Pairwise (bytesLt · ·)` = strictly increasing in bytewise order = sorted and every line once.
-/
import GrogModel.Lemmas.GraphQuery
namespace Grog.C20
open Grog

/-- `i` is a direct (resp. transitive) dependency of `t` -/
def IsDep (es : List Edge) (transitive : Bool) (i t : Nat) : Prop :=
  if transitive then ReachPlus es i t ∧ i ≠ t else (i, t) ∈ es

/-- line `x` is the label of node `i` -/
def LabelOf (g : BuildGraph) (i : Nat) (x : Bytes) : Prop :=
  ∃ n, g.nodes[i]? = some n ∧ x = n.label.toBytes

theorem mem_ancestorsV {es : List Edge} {t x : Nat} :
    x ∈ (ancestorsV es t).nodes ↔ ReachPlus es x t ∧ x ≠ t := by
  unfold ancestorsV
  rw [mem_descendantsV, reachPlus_flip]

/-- `grog deps [-t] t` prints a strictly increasing list (sorted, each label once) whose lines are
    exactly the labels of the direct (transitive) dependencies of `t` that pass the filters. -/
theorem deps_exact (g : BuildGraph) (s : Selector) (h : Host) (tr : Bool) (t : Nat) :
    (depsCmd g s h tr t).Pairwise (fun a b => bytesLt a b = true) ∧
    ∀ x, x ∈ depsCmd g s h tr t ↔
      ∃ i, IsDep g.edges tr i t ∧ g.matchAt s h i = true ∧ LabelOf g i x := by
  refine ⟨(printSorted_spec g _).1, fun x => ?_⟩
  rw [depsCmd, (printSorted_spec g _).2 x]
  cases tr with
  | true =>
    simp only [↓reduceIte, List.mem_filter, mem_ancestorsV, IsDep, LabelOf]
    constructor
    · rintro ⟨i, ⟨hi, hm⟩, hl⟩; exact ⟨i, hi, hm, hl⟩
    · rintro ⟨i, hi, hm, hl⟩; exact ⟨i, ⟨hi, hm⟩, hl⟩
  | false =>
    simp only [Bool.false_eq_true, ↓reduceIte, List.mem_filter, mem_preds, IsDep, LabelOf]
    constructor
    · rintro ⟨i, ⟨hi, hm⟩, hl⟩; exact ⟨i, hi, hm, hl⟩
    · rintro ⟨i, hi, hm, hl⟩; exact ⟨i, ⟨hi, hm⟩, hl⟩

/-- `grog rdeps [-t] t`: the same for dependants. -/
theorem rdeps_exact (g : BuildGraph) (s : Selector) (h : Host) (tr : Bool) (t : Nat) :
    (rdepsCmd g s h tr t).Pairwise (fun a b => bytesLt a b = true) ∧
    ∀ x, x ∈ rdepsCmd g s h tr t ↔
      ∃ i, IsDep g.edges tr t i ∧ g.matchAt s h i = true ∧ LabelOf g i x := by
  refine ⟨(printSorted_spec g _).1, fun x => ?_⟩
  rw [rdepsCmd, (printSorted_spec g _).2 x]
  cases tr with
  | true =>
    simp only [↓reduceIte, List.mem_filter, mem_descendantsV, IsDep, LabelOf]
    constructor
    · rintro ⟨i, ⟨⟨hi, hne⟩, hm⟩, hl⟩; exact ⟨i, ⟨hi, fun e => hne e.symm⟩, hm, hl⟩
    · rintro ⟨i, ⟨hi, hne⟩, hm, hl⟩; exact ⟨i, ⟨⟨hi, fun e => hne e.symm⟩, hm⟩, hl⟩
  | false =>
    simp only [Bool.false_eq_true, ↓reduceIte, List.mem_filter, mem_succs, IsDep, LabelOf]
    constructor
    · rintro ⟨i, ⟨hi, hm⟩, hl⟩; exact ⟨i, hi, hm, hl⟩
    · rintro ⟨i, hi, hm, hl⟩; exact ⟨i, ⟨hi, hm⟩, hl⟩

/-- the hypotheses-free statements above apply to a diamond through an alias: -/
example : IsDep [(0, 1), (0, 2), (1, 3), (2, 3)] true 0 3 :=
  ⟨⟨1, by decide, Reach.step (by decide : ((1 : Nat), (3 : Nat)) ∈ [(0, 1), (0, 2), (1, 3), (2, 3)]) (Reach.refl _)⟩, by decide⟩

/-- Transitive `deps` and `rdeps` are mutual inverses: `a` is among the transitive dependencies of `b`
    iff `b` is among the transitive dependants of `a` (for every graph: in- and out-edges are the two
    projections of one edge list). -/
theorem inverse (es : List Edge) (a b : Nat) :
    a ∈ (ancestorsV es b).nodes ↔ b ∈ (descendantsV es a).nodes := by
  rw [mem_ancestorsV, mem_descendantsV]
  exact ⟨fun ⟨h, hne⟩ => ⟨h, fun e => hne e.symm⟩, fun ⟨h, hne⟩ => ⟨h, fun e => hne e.symm⟩⟩

/-- … and so are the direct ones. -/
theorem inverse_direct (es : List Edge) (a b : Nat) : a ∈ preds es b ↔ b ∈ succs es a := by
  rw [mem_preds, mem_succs]

/-- node `i` is a target one of whose resolved inputs is one of the files -/
def Owns (g : BuildGraph) (inputs : Nat → List Bytes) (files : List Bytes) (i : Nat) : Prop :=
  ∃ n, g.nodes[i]? = some n ∧ n.isTarget = true ∧ ∃ inp ∈ inputs i, pkgJoin n.label.pkg inp ∈ files

theorem mem_ownersOf {g : BuildGraph} {inputs : Nat → List Bytes} {files : List Bytes} {i : Nat} :
    i ∈ ownersOf g inputs files ↔ Owns g inputs files i := by
  simp only [ownersOf, List.mem_filter, List.mem_range, Owns]
  constructor
  · rintro ⟨hlt, hm⟩
    rw [List.getElem?_eq_getElem hlt] at hm
    simp only [Bool.and_eq_true, List.any_eq_true, List.contains_iff_mem] at hm
    exact ⟨_, List.getElem?_eq_getElem hlt, hm.1, hm.2⟩
  · rintro ⟨n, hn, ht, inp, hi, hf⟩
    have hlt : i < g.nodes.length := by
      by_cases hlt : i < g.nodes.length
      · exact hlt
      · rw [List.getElem?_eq_none (by omega)] at hn; cases hn
    refine ⟨hlt, ?_⟩
    rw [hn]
    simp only [Bool.and_eq_true, List.any_eq_true, List.contains_iff_mem]
    exact ⟨ht, inp, hi, hf⟩

/-- `grog owners f₁ …` prints, sorted and each once, exactly the labels of the targets that have one of
    the files among their resolved inputs. -/
theorem owners_exact (g : BuildGraph) (inputs : Nat → List Bytes) (files : List Bytes) :
    (ownersCmd g inputs files).Pairwise (fun a b => bytesLt a b = true) ∧
    ∀ x, x ∈ ownersCmd g inputs files ↔ ∃ i, Owns g inputs files i ∧ LabelOf g i x := by
  refine ⟨(printSorted_spec g _).1, fun x => ?_⟩
  rw [ownersCmd, (printSorted_spec g _).2 x]
  constructor
  · rintro ⟨i, hi, hl⟩; exact ⟨i, mem_ownersOf.mp hi, hl⟩
  · rintro ⟨i, hi, hl⟩; exact ⟨i, mem_ownersOf.mpr hi, hl⟩

/-- `grog changes` (graph part): prints, sorted and each once, exactly the labels of the owners of the
    changed files and — with `--dependents=transitive` — of the targets among their transitive dependants,
    that pass the filters. -/
theorem changes_exact (g : BuildGraph) (s : Selector) (h : Host) (inputs : Nat → List Bytes) (files : List Bytes)
    (tr : Bool) :
    (changesCmd g s h inputs files tr).Pairwise (fun a b => bytesLt a b = true) ∧
    ∀ x, x ∈ changesCmd g s h inputs files tr ↔
      ∃ i, (Owns g inputs files i ∨
             (tr = true ∧ g.isTargetAt i = true ∧ ∃ o, Owns g inputs files o ∧ IsDep g.edges true o i)) ∧
           g.matchAt s h i = true ∧ LabelOf g i x := by
  refine ⟨(printSorted_spec g _).1, fun x => ?_⟩
  rw [changesCmd, changesNodes, (printSorted_spec g _).2 x]
  cases tr with
  | false =>
    simp only [Bool.false_eq_true, ↓reduceIte, List.mem_filter, mem_dedupNodes, mem_ownersOf, false_and, or_false, LabelOf]
    constructor
    · rintro ⟨i, ⟨hi, hm⟩, hl⟩; exact ⟨i, hi, hm, hl⟩
    · rintro ⟨i, hi, hm, hl⟩; exact ⟨i, ⟨hi, hm⟩, hl⟩
  | true =>
    simp only [↓reduceIte, List.mem_filter, mem_dedupNodes, List.mem_flatMap, List.mem_cons, mem_ownersOf,
      mem_descendantsV, true_and, LabelOf, IsDep]
    constructor
    · rintro ⟨i, ⟨⟨o, ho, hio⟩, hm⟩, hl⟩
      refine ⟨i, ?_, hm, hl⟩
      rcases hio with rfl | ⟨⟨hr, hne⟩, ht⟩
      · exact Or.inl ho
      · exact Or.inr ⟨ht, o, ho, hr, fun e => hne e.symm⟩
    · rintro ⟨i, hi, hm, hl⟩
      refine ⟨i, ⟨?_, hm⟩, hl⟩
      rcases hi with ho | ⟨ht, o, ho, hr, hne⟩
      · exact ⟨i, ho, Or.inl rfl⟩
      · exact ⟨o, ho, Or.inr ⟨⟨hr, fun e => hne e.symm⟩, ht⟩⟩

/-- inputs are compared after `filepath.Join`, i.e. cleaned: a target of package `svc` that writes its
    inputs as `./m`, `d/../s` and `a//b` owns `svc/m`, `svc/s`, `svc/a/b`; a root target with `./V` owns `V`
    (a plain concatenation `pkg + "/" + input` would find none of them). -/
theorem owners_noncanonical_witness :
    pkgJoin [115, 118, 99] [46, 47, 109] = [115, 118, 99, 47, 109] ∧
    pkgJoin [115, 118, 99] [100, 47, 46, 46, 47, 115] = [115, 118, 99, 47, 115] ∧
    pkgJoin [115, 118, 99] [97, 47, 47, 98] = [115, 118, 99, 47, 97, 47, 98] ∧
    pkgJoin [] [46, 47, 86] = [86] ∧
    ownersOf ⟨[⟨⟨[], [115]⟩, true, [], [], false⟩], []⟩ (fun _ => [[46, 47, 86]]) [[86]] = [0] := by
  refine ⟨by decide, by decide, by decide, by decide, by decide⟩

/-- distinct nodes print distinct labels (the node map is keyed by label) -/
def PrintedDistinct (g : BuildGraph) : Prop :=
  ∀ (i j : Nat) (ni nj : Node), g.nodes[i]? = some ni → g.nodes[j]? = some nj →
    ni.label.toBytes = nj.label.toBytes → i = j

theorem nodup_labelStrings {g : BuildGraph} (hd : PrintedDistinct g) :
    ∀ idx : List Nat, idx.Nodup → (labelStrings g idx).Nodup
  | [], _ => by simp [labelStrings]
  | i :: idx, hn => by
    have hn' := List.nodup_cons.mp hn
    have ih := nodup_labelStrings hd idx hn'.2
    cases hi : g.nodes[i]? with
    | none => simpa [labelStrings, hi] using ih
    | some n =>
      have : labelStrings g (i :: idx) = n.label.toBytes :: labelStrings g idx := by
        simp [labelStrings, hi]
      rw [this]
      refine List.nodup_cons.mpr ⟨?_, ih⟩
      intro hmem
      obtain ⟨j, hj, nj, hnj, heq⟩ := mem_labelStrings.mp hmem
      have := hd i j n nj hi hnj heq
      subst this; exact hn'.1 hj

/-- `grog list <patterns>` prints, sorted, exactly the labels of the nodes that match the patterns, the
    filters and the platform; each once when labels are distinct. -/
theorem list_exact (g : BuildGraph) (s : Selector) (h : Host) :
    (listCmd g s h).Pairwise (fun a b => bytesLe a b = true) ∧
    (∀ x, x ∈ listCmd g s h ↔
      ∃ (i : Nat) (n : Node), g.nodes[i]? = some n ∧ matchesFilters s n = true ∧ platformOK h n = true ∧ x = n.label.toBytes) ∧
    (PrintedDistinct g → (listCmd g s h).Pairwise (fun a b => bytesLt a b = true)) := by
  have hsorted : (listCmd g s h).Pairwise (fun a b => bytesLe a b = true) :=
    List.pairwise_mergeSort bytesLe_trans bytesLe_total _
  refine ⟨hsorted, fun x => ?_, fun hd => ?_⟩
  · rw [listCmd, printSortedOld, (List.mergeSort_perm _ bytesLe).mem_iff, mem_labelStrings]
    simp only [selectForQuery, List.mem_filter, List.mem_range, Bool.and_eq_true,
      BuildGraph.matchesAt, BuildGraph.platAt]
    constructor
    · rintro ⟨i, ⟨_, hm, hp⟩, n, hn, rfl⟩
      rw [hn] at hm hp
      exact ⟨i, n, hn, hm, hp, rfl⟩
    · rintro ⟨i, n, hn, hm, hp, rfl⟩
      have hlt : i < g.nodes.length := by
        by_cases hlt : i < g.nodes.length
        · exact hlt
        · rw [List.getElem?_eq_none (by omega)] at hn; cases hn
      refine ⟨i, ⟨hlt, ?_, ?_⟩, n, hn, rfl⟩ <;> rw [hn] <;> assumption
  · have hnd : (listCmd g s h).Nodup := by
      rw [listCmd, printSortedOld]
      refine (List.mergeSort_perm _ bytesLe).nodup_iff.mpr (nodup_labelStrings hd _ ?_)
      exact List.Nodup.sublist List.filter_sublist List.nodup_range
    -- sorted and duplicate-free is strictly increasing
    have hboth := List.pairwise_and_iff.mpr ⟨hsorted, hnd⟩
    exact List.Pairwise.imp (fun ⟨h1, h2⟩ => bytesLt_of_le_of_ne _ _ h1 h2) hboth

/-- distinct labels with colon-free package paths (directory names) print distinctly -/
theorem printedDistinct_of_labels (g : BuildGraph)
    (hcolon : ∀ (i : Nat) (n : Node), g.nodes[i]? = some n → cColon ∉ n.label.pkg)
    (hdist : ∀ (i j : Nat) (ni nj : Node), g.nodes[i]? = some ni → g.nodes[j]? = some nj → ni.label = nj.label → i = j) :
    PrintedDistinct g := by
  intro i j ni nj hi hj h
  exact hdist i j ni nj hi hj (toBytes_inj _ _ (hcolon i ni hi) (hcolon j nj hj) h)

/-- The inverse law at the level of the printed lines (`--target-type=all`, no tag filters,
    `--all-platforms`): the label of `a` is printed by `deps -t b` iff the label of `b` is printed by
    `rdeps -t a`. -/
theorem inverse_printed (g : BuildGraph) (plat : Bytes) (hd : PrintedDistinct g) (a b : Nat) (na nb : Node)
    (ha : g.nodes[a]? = some na) (hb : g.nodes[b]? = some nb) :
    na.label.toBytes ∈ depsCmd g (querySelector [] [] .all) ⟨plat, true⟩ true b ↔
    nb.label.toBytes ∈ rdepsCmd g (querySelector [] [] .all) ⟨plat, true⟩ true a := by
  rw [(deps_exact g _ _ true b).2, (rdeps_exact g _ _ true a).2]
  constructor
  · rintro ⟨i, hdep, _, n, hn, heq⟩
    have : a = i := hd a i na n ha hn heq
    subst this
    exact ⟨b, hdep, matchAt_trivial g plat b nb hb, nb, hb, rfl⟩
  · rintro ⟨i, hdep, _, n, hn, heq⟩
    have : b = i := hd b i nb n hb hn heq
    subst this
    exact ⟨a, hdep, matchAt_trivial g plat a na ha, na, ha, rfl⟩

/-- the hypotheses of `inverse_printed` / `list_exact` hold for a concrete graph (a ← b) -/
example : PrintedDistinct ⟨[⟨⟨[], [97]⟩, true, [], [], false⟩, ⟨⟨[], [98]⟩, true, [], [], false⟩], [(0, 1)]⟩ := by
  intro i j ni nj hi hj h
  match i, j with
  | 0, 0 => rfl
  | 1, 1 => rfl
  | 0, 1 => simp at hi hj; subst hi; subst hj; revert h; decide
  | 1, 0 => simp at hi hj; subst hi; subst hj; revert h; decide
  | i + 2, _ => simp at hi
  | 0, j + 2 => simp at hj
  | 1, j + 2 => simp at hj

/-- `edit_predicts`, full statement: after editing file `f`, the targets a build re-executes are a subset
    of `owners f` and their transitive rdeps. `reexec` is an observation of the real build (or of the build
    model of C02); it is not defined in this group. -/
def edit_predicts_statement (g : BuildGraph) (inputs : Nat → List Bytes) (f : Bytes) (reexec : List Nat) : Prop :=
  ∀ t ∈ reexec, t ∈ ownersOf g inputs [f] ∨ ∃ o ∈ ownersOf g inputs [f], t ∈ (descendantsV g.edges o).nodes

/-- `edit_predicts` against the abstract build hypothesis of C02 (`reexec ⊆ changed ∪ descendants(changed)`,
    where `changed` = targets whose own key state changed) and the fact that editing `f` changes the own
    state of owners of `f` only. The two hypotheses are theorems of the build group (C02.reexec_subset);
    the composition with them and the check of the real CLI are what this group contributes. -/
theorem edit_predicts_partial (g : BuildGraph) (inputs : Nat → List Bytes) (f : Bytes)
    (changed reexec : List Nat)
    (hchanged : ∀ c ∈ changed, c ∈ ownersOf g inputs [f])
    (hC02 : ∀ t ∈ reexec, t ∈ changed ∨ ∃ c ∈ changed, t ∈ (descendantsV g.edges c).nodes) :
    edit_predicts_statement g inputs f reexec := by
  intro t ht
  rcases hC02 t ht with h | ⟨c, hc, hd⟩
  · exact Or.inl (hchanged t h)
  · exact Or.inr ⟨c, hchanged c hc, hd⟩

/-- the hypotheses of `edit_predicts_partial` are satisfiable: a ← b, file `f` owned by `a`, `a` changed,
    `a` and `b` re-executed -/
example :
    let g : BuildGraph := ⟨[⟨⟨[], [97]⟩, true, [], [], false⟩, ⟨⟨[], [98]⟩, true, [], [], false⟩], [(0, 1)]⟩
    let inputs : Nat → List Bytes := fun i => if i = 0 then [[102]] else []
    (∀ c ∈ [0], c ∈ ownersOf g inputs [[102]]) ∧
    (∀ t ∈ [0, 1], t ∈ [0] ∨ ∃ c ∈ [0], t ∈ (descendantsV g.edges c).nodes) := by
  refine ⟨by decide, by decide⟩

/-- what a sequence of `AddEdge` calls builds: the given edges in order, all between existing nodes,
    none a self-loop (so the graphs the traversals run on satisfy `C19.WF`) -/
theorem addEdges_spec (n : Nat) : ∀ (l es es' : List Edge), addEdges n es l = some es' →
    es' = es ++ l ∧ ∀ e ∈ l, e.1 ≠ e.2 ∧ e.1 < n ∧ e.2 < n
  | [], es, es', h => by simp [addEdges] at h; simp [h]
  | e :: rest, es, es', h => by
    simp only [addEdges, addEdge] at h
    by_cases h1 : e.1 = e.2
    · simp [h1] at h
    · by_cases h2 : e.1 < n ∧ e.2 < n
      · simp only [beq_iff_eq, h1, ↓reduceIte, h2.1, h2.2, decide_true, Bool.and_self, Bool.not_true,
          Bool.false_eq_true] at h
        have ih := addEdges_spec n rest (es ++ [e]) es' h
        refine ⟨by rw [ih.1]; simp, ?_⟩
        intro e' he'
        rcases List.mem_cons.mp he' with rfl | he'
        · exact ⟨h1, h2⟩
        · exact ih.2 e' he'
      · have : (decide (e.1 < n) && decide (e.2 < n)) = false := by
          simp only [Bool.and_eq_false_imp, decide_eq_true_eq, decide_eq_false_iff_not]
          intro h3 h4; exact h2 ⟨h3, h4⟩
        simp [h1, this] at h

/-! ### regression witnesses (the tree before the two `fix:` commits) -/

/-- F-paths: on the diamond the path-enumerating `GetAncestors` returned the bottom node once per path,
    and `PrintSorted` without `Compact` printed what it was given … -/
theorem old_paths_duplicate_witness :
    ancestorsPaths [(0, 1), (0, 2), (1, 3), (2, 3)] 4 3 = [1, 0, 2, 0] ∧
    (ancestorsV [(0, 1), (0, 2), (1, 3), (2, 3)] 3).nodes = [1, 0, 2] := by
  refine ⟨by decide, by decide⟩

/-- … and a dependency listed twice is two edges (`AddEdge` appends), hence two lines for a direct query
    before `PrintSorted` compacted its output. -/
theorem old_print_duplicate_witness :
    addEdges 2 [] [(0, 1), (0, 1)] = some [(0, 1), (0, 1)] ∧ preds [(0, 1), (0, 1)] 1 = [0, 0] ∧
    compact [[47, 47, 58, 97], [47, 47, 58, 97]] = [[47, 47, 58, 97]] := by
  refine ⟨by decide, by decide, by decide⟩

end Grog.C20
