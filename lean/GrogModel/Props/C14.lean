/-
  C14 — success implies postconditions (exit 0, outputs exist, checks pass); a failing check forces
  execution; still-failing checks fail the target and nothing is stored.
  Model: GrogModel/Exec.lean (getTaskFunc / executeTarget / OnTargetComplete of execute.go).
  Statements are about the per-target decision in mode `all` from an arbitrary state; a build is a fold
  of this step (GrogModel/Build.lean), so they hold at every step of every build of every history.
-/
import GrogModel.Lemmas.BuildBasic
import GrogModel.Lemmas.BuildForced
import GrogModel.Lemmas.BuildFail
import GrogModel.Props.C15
set_option linter.unusedSectionVars false
set_option linter.unusedVariables false
set_option linter.unusedSimpArgs false
namespace Grog.C14
open Grog Grog.Exec

variable {κ : Type} [DecidableEq κ]

/-- the files inspected by the output checks of `t` are not declared outputs of `t` -/
def ChecksOffOutputs (t : Target) : Prop := ∀ c ∈ t.checks, c.1 ∉ t.outs.map (·.path)

/-- **success_post.** If the decision marks `t` successful then, in the resulting workspace, every declared
    output exists and every output check holds; and either the command ran in this step and returned
    exit 0 (within its timeout), or a stored result was restored whose outputs are exactly the declared ones. -/
theorem success_post (P : Params κ) (cfg : Cfg) (defs : Defs) (fuel : Nat) (t : Target) (s : BState κ)
    (hm : cfg.minimal = false) (hfx : P.fx.gateChecks = true) (hco : ChecksOffOutputs t)
    (s' : BState κ) (hs : buildTarget P cfg defs fuel t s = s')
    (ts : TStat κ) (hst : s'.st t.label = some ts) (hok : ts.ok = true) :
    (∀ o ∈ t.outs, (s'.fs o.path).isSome = true) ∧ checksPass s'.fs t.checks = true ∧
    (((P.run t.cmd (viewAt defs t s.fs)).exit0 = true ∧ s'.log = t.label :: s.log) ∨
     (s'.log = s.log ∧ ∃ r, s.cache.res (ts.key.getD (P.K (keyState t s.fs []))) = some r ∧ r.outs.map (·.1) = t.outs)) := by
  have hcase := buildTarget_all P cfg defs fuel t s hm
  rw [hs] at hcase
  cases hcase with
  | depFailed h e => simp [e, failT, failStat] at hst; subst hst; simp at hok
  | noHash h h2 e => simp [e, failT, failStat] at hst; subst hst; simp at hok
  | failed ohs s2 h h2 h3 e e2 => simp [e2, failT, failStat] at hst; subst hst; simp at hok
  | hit ohs h h2 e =>
    obtain ⟨r, fs', hr, _, _, _, hchk, hrest, hs'⟩ := tryHit_all_some hm e
    obtain ⟨hv, _, hfs⟩ := restore_some hrest
    have hfs' : s'.fs = writeOuts s.fs r.outs := by rw [hs']; exact hfs
    have hkey : ts.key = some (P.K (keyState t s.fs ohs)) := by
      rw [hs'] at hst; simp at hst; rw [← hst]
    refine ⟨?_, ?_, Or.inr ⟨by rw [hs'], r, by simpa [hkey] using hr, hv⟩⟩
    · intro o ho
      rw [hfs']
      apply writeOuts_mem_isSome
      rw [← hv] at ho
      simp only [List.mem_map] at ho ⊢
      obtain ⟨ov, hov, rfl⟩ := ho
      exact ⟨ov, hov, rfl⟩
    · have : checksPass s.fs t.checks = true := by
        rcases hchk with h | h
        · exact h
        · rw [hfx] at h; cases h
      rw [← this]
      apply checksPass_congr
      intro c hc
      rw [hfs']
      apply writeOuts_not_mem
      have := hco c hc
      rw [← hv] at this
      simpa [List.map_map] using this
  | ran ohs h h2 h3 e =>
    obtain ⟨hx, _, hc, ovs, hcol, _, _, _, _⟩ := execTarget_true e
    obtain ⟨hmap, hval⟩ := collect_some hcol
    refine ⟨?_, hc, Or.inl ⟨hx, ?_⟩⟩
    · intro o ho
      rw [← hmap] at ho
      simp only [List.mem_map] at ho
      obtain ⟨ov, hov, rfl⟩ := ho
      rw [hval ov hov]; rfl
    · have := execTarget_log P cfg defs t (P.K (keyState t s.fs ohs)) (s.cache.taint t.label) s
      rw [e] at this; exact this

/-- **stored_only_on_success.** The result cache changes in a step only if the command ran, returned exit 0,
    its checks hold afterwards and every declared output exists (it is "cached only if …"). -/
theorem stored_only_on_success (P : Params κ) (cfg : Cfg) (defs : Defs) (fuel : Nat) (t : Target) (s : BState κ)
    (hm : cfg.minimal = false) (hne : (buildTarget P cfg defs fuel t s).cache.res ≠ s.cache.res) :
    (P.run t.cmd (viewAt defs t s.fs)).exit0 = true ∧
    checksPass (fsAfter P defs t s.fs) t.checks = true ∧
    (collect (fsAfter P defs t s.fs) t.outs).isSome = true := by
  have hcase := buildTarget_all P cfg defs fuel t s hm
  cases hcase with
  | depFailed h e => rw [e] at hne; exact absurd rfl hne
  | noHash h h2 e => rw [e] at hne; exact absurd rfl hne
  | failed ohs s2 h h2 h3 e e2 =>
    obtain ⟨hc, _, _⟩ := execTarget_false e
    rw [e2] at hne; simp only [failT] at hne; rw [hc] at hne; exact absurd rfl hne
  | hit ohs h h2 e =>
    obtain ⟨r, fs', _, _, _, _, _, _, hs1⟩ := tryHit_all_some hm e
    rw [hs1] at hne; exact absurd rfl hne
  | ran ohs h h2 h3 e =>
    obtain ⟨hx, hfs, hc, ovs, hcol, _⟩ := execTarget_true e
    rw [hfs] at hc hcol
    exact ⟨hx, hc, by rw [hcol]; rfl⟩

/-- **failing_check_forces_exec.** If a check is false before the decision, the hit branch is not taken
    (in either mode), whatever the cache holds. -/
theorem failing_check_forces_exec (P : Params κ) (cfg : Cfg) (t : Target) (k : κ) (s : BState κ)
    (hfx : P.fx.gateChecks = true) (hc : checksPass s.fs t.checks = false) : tryHit P cfg t k s = none := by
  unfold tryHit
  split
  · rfl
  · simp [hc, hfx]

/-- … and therefore the command runs (mode `all`, dependencies fine). -/
theorem failing_check_executes (P : Params κ) (cfg : Cfg) (defs : Defs) (fuel : Nat) (t : Target) (s : BState κ)
    (hm : cfg.minimal = false) (hfx : P.fx.gateChecks = true) (hc : checksPass s.fs t.checks = false)
    (hd : depsOk s.st t.deps = true) (ohs : List (OH κ)) (ho : depOhs s.st t.hdeps = some ohs) :
    (buildTarget P cfg defs fuel t s).log = t.label :: s.log := by
  have hcase := buildTarget_all P cfg defs fuel t s hm
  cases hcase with
  | depFailed h e => rw [hd] at h; cases h
  | noHash h h2 e => rw [ho] at h2; cases h2
  | hit ohs' h h2 e => rw [failing_check_forces_exec P cfg t _ s hfx hc] at e; cases e
  | ran ohs' h h2 h3 e =>
    have := execTarget_log P cfg defs t (P.K (keyState t s.fs ohs')) (s.cache.taint t.label) s
    rw [e] at this; exact this
  | failed ohs' s2 h h2 h3 e e2 =>
    have := execTarget_log P cfg defs t (P.K (keyState t s.fs ohs')) (s.cache.taint t.label) s
    rw [e] at this; rw [e2]; exact this

/-- **still_failing_fails.** If the checks are false in the workspace the command leaves behind, the target
    fails and the cache is exactly what it was. -/
theorem still_failing_fails (P : Params κ) (cfg : Cfg) (defs : Defs) (fuel : Nat) (t : Target) (s : BState κ)
    (hm : cfg.minimal = false) (hfx : P.fx.gateChecks = true)
    (hpre : checksPass s.fs t.checks = false)
    (hpost : checksPass (fsAfter P defs t s.fs) t.checks = false)
    (s' : BState κ) (hs : buildTarget P cfg defs fuel t s = s') :
    s'.st t.label = some failStat ∧ s'.cache = s.cache := by
  have hcase := buildTarget_all P cfg defs fuel t s hm
  rw [hs] at hcase
  cases hcase with
  | depFailed h e => simp [e, failT]
  | noHash h h2 e => simp [e, failT]
  | hit ohs h h2 e => rw [failing_check_forces_exec P cfg t _ s hfx hpre] at e; cases e
  | ran ohs h h2 h3 e =>
    obtain ⟨_, hfs, hc, _⟩ := execTarget_true e
    rw [hfs, hpost] at hc; cases hc
  | failed ohs s2 h h2 h3 e e2 =>
    obtain ⟨hc, _, _⟩ := execTarget_false e
    simp [e2, failT, hc]

/-- **post_failing_fails** (continuation round; the case the seeded mutations C14-m14 / C05-m14 break). Whatever the checks
    said *before* the command — in particular when they passed on the state an earlier build left behind — if the command
    ran in this step and the checks are false in the workspace it leaves behind, the target fails and the cache is exactly
    what it was. (`still_failing_fails` is the special case in which the checks also failed before.) -/
theorem post_failing_fails (P : Params κ) (cfg : Cfg) (defs : Defs) (fuel : Nat) (t : Target) (s : BState κ)
    (hm : cfg.minimal = false)
    (hpost : checksPass (fsAfter P defs t s.fs) t.checks = false)
    (s' : BState κ) (hs : buildTarget P cfg defs fuel t s = s')
    (hran : s'.log = t.label :: s.log) :
    s'.st t.label = some failStat ∧ s'.cache = s.cache := by
  have hcase := buildTarget_all P cfg defs fuel t s hm
  rw [hs] at hcase
  cases hcase with
  | depFailed h e => simp [e, failT]
  | noHash h h2 e => simp [e, failT]
  | hit ohs h h2 e =>
    obtain ⟨r, fs', hr, _, _, _, hchk, hrest, hs'⟩ := tryHit_all_some hm e
    have hl : s'.log = s.log := by rw [hs']
    rw [hl] at hran
    exact absurd hran.symm (List.cons_ne_self _ _)
  | ran ohs h h2 h3 e =>
    obtain ⟨_, hfs, hc, _⟩ := execTarget_true e
    rw [hfs, hpost] at hc; cases hc
  | failed ohs s2 h h2 h3 e e2 =>
    obtain ⟨hc, _, _⟩ := execTarget_false e
    simp [e2, failT, hc]

/-! the hypotheses of `post_failing_fails` are satisfiable with the checks passing *before* the command: the check wants
    file `f` to contain `1`, the workspace has it, nothing is cached, and the command overwrites `f` with `2` -/
def nvP : Params Nat :=
  { K := fun _ => 0
    run := fun _ _ => ⟨true, [], [([102], [2])]⟩
    fx := Fixes.current }
def nvT : Target :=
  { label := [97], cmd := ⟨[], 0, [], [([102], [2])], false⟩, inputs := [], outs := [], deps := [], hdeps := [], ldeps := []
    fp := [], plat := [], noCache := false, checks := [([102], some [1])] }
def nvS : BState Nat :=
  { fs := fun p => if p = [102] then some [1] else none
    cache := { res := fun _ => none, cas := fun _ => false, taint := fun _ => false }
    st := fun _ => none
    log := [] }
example : checksPass nvS.fs nvT.checks = true ∧
    checksPass (fsAfter nvP (fun _ => none) nvT nvS.fs) nvT.checks = false ∧
    (buildTarget nvP ⟨true, false⟩ (fun _ => none) 1 nvT nvS).log = nvT.label :: nvS.log :=
  ⟨by decide, by decide, by decide⟩

/-- hypotheses of the theorems above are satisfiable: a target with a check on a file that does not exist -/
example : ∃ (t : Target) (fs : FS), ChecksOffOutputs t ∧ checksPass fs t.checks = false :=
  ⟨{ label := [97], cmd := ⟨[], 0, [], [], false⟩, inputs := [], outs := [⟨false, [111]⟩], deps := [], hdeps := [], ldeps := [],
     fp := [], plat := [], noCache := false, checks := [([102], none)] }, fun _ => none, by
    intro c hc; simp at hc; subst hc; simp, by simp [checksPass]⟩

/-- **old_gate_witness** (regression, F-check): with the hit condition of the unrepaired code (the pre-check
    result is only logged) a target whose check fails is served from the cache and marked successful. -/
theorem old_gate_witness :
    ∃ (P : Params Nat) (cfg : Cfg) (t : Target) (s : BState Nat) (s1 : BState Nat),
      P.fx.gateChecks = false ∧ checksPass s.fs t.checks = false ∧
      tryHit P cfg t 0 s = some s1 ∧ (∃ ts, s1.st t.label = some ts ∧ ts.ok = true) ∧ checksPass s1.fs t.checks = false := by
  refine ⟨{ K := fun _ => 0, run := fun _ _ => ⟨true, [], []⟩, fx := { Fixes.current with gateChecks := false } },
    ⟨true, false⟩,
    { label := [97], cmd := ⟨[], 0, [], [], false⟩, inputs := [], outs := [], deps := [], hdeps := [], ldeps := [],
      fp := [], plat := [], noCache := false, checks := [([102], none)] },
    { fs := fun _ => none, cache := { res := fun _ => some ⟨.self 0, []⟩, cas := fun _ => false, taint := fun _ => false },
      st := fun _ => none, log := [] }, ?_, rfl, ?_, ?_⟩
  · exact { fs := fun _ => none, cache := { res := fun _ => some ⟨.self 0, []⟩, cas := fun _ => false, taint := fun _ => false },
            st := upd (fun _ => none) [97] (some { ok := true, key := some 0, oh := some (.self 0), loaded := true }), log := [] }
  · simp [checksPass]
  · refine ⟨?_, ⟨{ ok := true, key := some 0, oh := some (.self 0), loaded := true }, by simp, rfl⟩, by simp [checksPass]⟩
    simp [tryHit, restore, validate, writeOuts, checksPass, Fixes.current]


/-! ## whole builds and histories

  `success_post` is about one step from an arbitrary state. Below: a whole build (`Build.build`) from an **arbitrary
  world** — any definitions, workspace and cache, in particular the world reached by any history (`Build.runHistory`) of
  edits, taints, lost blobs and earlier builds with any flags: nothing is assumed about the cache. Mode `all`;
  `load_outputs=minimal` through C15's lock step. -/
section histories
open Grog.Build

/-- **success_post_build.** If a mode-`all` build over a well-formed order succeeds then for every selected target, in
    the workspace the build leaves: every declared output exists and every output check passes; and in the state in which
    the target was processed either its command ran and exited 0 (within its timeout) or a stored result whose outputs are
    exactly the declared ones was restored. (`WF.checksOff`: check files are not declared outputs; commands are hermetic and
    write exactly what they name, `Good`.) -/
theorem success_post_build {P : Params κ} (hG : Good P) (hfx : P.fx.gateChecks = true) (cfg : Cfg) (hm : cfg.minimal = false)
    (w : World κ) (order : List Lbl) (hwf : WF w.defs order) (hsucc : succeeded (build P cfg w order) order = true) :
    ∀ l ∈ order, ∀ t, w.defs l = some t →
      (∀ o ∈ t.outs, ((build P cfg w order).fs o.path).isSome = true) ∧ checksPass (build P cfg w order).fs t.checks = true ∧
      ∃ s0 : BState κ, (∀ x ∈ (buildTarget P cfg w.defs (fuelFor order) t s0).log, x ∈ (build P cfg w order).log) ∧
        (((P.run t.cmd (viewAt w.defs t s0.fs)).exit0 = true ∧ (buildTarget P cfg w.defs (fuelFor order) t s0).log = l :: s0.log) ∨
         ((buildTarget P cfg w.defs (fuelFor order) t s0).log = s0.log ∧
           ∃ k r, s0.cache.res k = some r ∧ r.outs.map (·.1) = t.outs)) := by
  intro l hl t ht
  obtain ⟨pre, suf, ho, _, hlsuf, hb⟩ := build_split P cfg w hwf.nodup l hl t ht
  have hlab : t.label = l := hwf.label l t ht
  have hsufo : ∀ l' ∈ suf, l' ∈ order := fun l' h => by rw [ho]; simp [h]
  have hnd := hwf.nodup; rw [ho] at hnd
  have hne : ∀ l' ∈ suf, l' ≠ l := fun l' h e => hlsuf (e ▸ h)
  obtain ⟨ts, hts, hk⟩ := (succeeded_iff _ order).1 hsucc l hl
  have hfr := run_frame P cfg w.defs (fuelFor order) hm hwf.label suf
    (buildTarget P cfg w.defs (fuelFor order) t (run P cfg w.defs (fuelFor order) pre (start w)))
  rw [hb, (hfr.1 l hlsuf).1, ← hlab] at hts
  have hco : ChecksOffOutputs t := fun c hc => by
    have := hwf.checksOff l hl t ht l hl t ht c hc
    simpa [outPaths] using this
  obtain ⟨h1, h2, h3⟩ := success_post P cfg w.defs (fuelFor order) t _ hm hfx hco _ rfl ts hts hk
  have hoff : ∀ p, (∀ l' ∈ suf, ∀ t', w.defs l' = some t' → p ∉ outPaths t') →
      (build P cfg w order).fs p = (buildTarget P cfg w.defs (fuelFor order) t (run P cfg w.defs (fuelFor order) pre (start w))).fs p := by
    intro p hp
    rw [hb]
    exact run_fs_off hG hm w.defs (fuelFor order) suf _ (fun l' h t' ht' => (hwf.hdeps l' (hsufo l' h) t' ht').2.1) p hp
  refine ⟨fun o ho' => ?_, ?_, run P cfg w.defs (fuelFor order) pre (start w), fun x hx => by rw [hb]; exact hfr.2 x hx, ?_⟩
  · rw [hoff o.path (fun l' h t' ht' => ?_)]
    · exact h1 o ho'
    · exact fun hin => hwf.outsDisj l hl l' (hsufo l' h) (fun e => hne l' h e.symm) t t' ht ht' o.path
        (by simp only [outPaths, List.mem_map]; exact ⟨o, ho', rfl⟩) hin
  · rw [← h2]
    apply checksPass_congr
    intro c hc
    exact hoff c.1 (fun l' h t' ht' => hwf.checksOff l hl t ht l' (hsufo l' h) t' ht' c hc)
  · rcases h3 with ⟨hx, hlog⟩ | ⟨hlog, r, hr, hv⟩
    · exact Or.inl ⟨hx, by rw [hlog, hlab]⟩
    · exact Or.inr ⟨hlog, _, r, hr, hv⟩

/-- **success_post_history.** The same after any history: the world a history of edits, taints, lost blobs and builds (any
    flags, well-formed or not) leaves is just another world. -/
theorem success_post_history {P : Params κ} (hG : Good P) (hfx : P.fx.gateChecks = true) (w : World κ) (h : List Step)
    (cfg : Cfg) (hm : cfg.minimal = false) (order : List Lbl) (hwf : WF (runHistory P w h).defs order)
    (hsucc : succeeded (build P cfg (runHistory P w h) order) order = true) :
    ∀ l ∈ order, ∀ t, (runHistory P w h).defs l = some t →
      (∀ o ∈ t.outs, ((build P cfg (runHistory P w h) order).fs o.path).isSome = true) ∧
      checksPass (build P cfg (runHistory P w h) order).fs t.checks = true := by
  intro l hl t ht
  obtain ⟨h1, h2, _⟩ := success_post_build hG hfx cfg hm (runHistory P w h) order hwf hsucc l hl t ht
  exact ⟨h1, h2⟩

/-- **success_post_minimal.** Under `load_outputs=minimal`, for every lock-step history (C15: well-formed builds, no lost
    blobs): the build succeeds iff the mode-`all` build of the `all` universe succeeds (whose postconditions are
    `success_post_build`), and then every declared output of every selected target exists in the `all` universe and is,
    in the `minimal` universe, either in the workspace with the same bytes or restorable from the cache (a stored result
    naming exactly the declared outputs, with these bytes, all blobs present). -/
theorem success_post_minimal {P : Params κ} (hG : Good P) (hgc : P.fx.gateChecks = true) (hfx : P.fx.minValidate = true)
    (hro : P.fx.rerunOnce = true) (hlf : P.fx.loadFault = true) (outP : Path → Prop) (w : World κ) (h : List Step) (cfg : Cfg)
    (order : List Lbl) (hcas : CasOK w.cache) (hH : HistOK outP w.defs h)
    (hB : BuildOK outP (runHistory P w (forceMode false h)).defs order)
    (hsucc : succeeded (build P (C15.withMode cfg true) (runHistory P w (forceMode true h)) order) order = true) :
    succeeded (build P (C15.withMode cfg false) (runHistory P w (forceMode false h)) order) order = true ∧
    ∀ l ∈ order, ∀ t, (runHistory P w (forceMode false h)).defs l = some t → ∀ o ∈ t.outs,
      ∃ v, (build P (C15.withMode cfg false) (runHistory P w (forceMode false h)) order).fs o.path = some v ∧
        ((build P (C15.withMode cfg true) (runHistory P w (forceMode true h)) order).fs o.path = some v ∨
         ∃ k r, (build P (C15.withMode cfg true) (runHistory P w (forceMode true h)) order).cache.res k = some r ∧
           r.outs.map (·.1) = t.outs ∧ (o, v) ∈ r.outs ∧
           ∀ ov ∈ r.outs, (build P (C15.withMode cfg true) (runHistory P w (forceMode true h)) order).cache.cas ov.2 = true) := by
  obtain ⟨hs, _, _, _⟩ := C15.same_verdict_and_execs_holds P hG hfx hro hlf outP w h cfg order hcas hH hB
  have hsa : succeeded (build P (C15.withMode cfg false) (runHistory P w (forceMode false h)) order) order = true := by
    rw [hs]; exact hsucc
  refine ⟨hsa, ?_⟩
  intro l hl t ht o ho
  have hW0 : WRel outP w w := ⟨rfl, rfl, fun _ _ => rfl, hcas⟩
  obtain ⟨hW, _⟩ := history_wrel hG hfx hro hlf h w w hW0 hH
  obtain ⟨hR0, _⟩ := build_rel hG hfx hro hlf cfg hW hB
  have hR : Rel P outP (runHistory P w (forceMode false h)).defs (build P (C15.withMode cfg false) (runHistory P w (forceMode false h)) order)
      (build P (C15.withMode cfg true) (runHistory P w (forceMode true h)) order) order := hR0
  obtain ⟨hex, _, _⟩ := success_post_build hG hgc (C15.withMode cfg false) rfl _ order hB.wf hsa l hl t ht
  have hex' := hex o ho
  cases hv : (build P (C15.withMode cfg false) (runHistory P w (forceMode false h)) order).fs o.path with
  | none => rw [hv] at hex'; cases hex'
  | some v =>
    refine ⟨v, rfl, ?_⟩
    obtain ⟨m, hm1, hm2⟩ := (succeeded_iff _ order).1 hsucc l hl
    have hp : o.path ∈ outPaths t := by simp only [outPaths, List.mem_map]; exact ⟨o, ho, rfl⟩
    cases hl' : m.loaded with
    | true =>
      left
      have := hR.loaded l hl m hm1 hm2 hl' t ht o.path hp
      rw [this]; exact hv
    | false =>
      right
      obtain ⟨t', k, r, ht', _, hres, _, _, hmap, hblobs, hvals⟩ := hR.unloaded l hl m hm1 hm2 hl'
      have : t' = t := by
        have e : (runHistory P w (forceMode false h)).defs l = some t' := ht'
        rw [ht] at e; exact (Option.some.inj e).symm
      subst this
      have hmem : ∃ ov ∈ r.outs, ov.1 = o := by
        have : o ∈ r.outs.map (·.1) := by rw [hmap]; exact ho
        obtain ⟨ov, h1, h2⟩ := List.mem_map.1 this
        exact ⟨ov, h1, h2⟩
      obtain ⟨ov, hov, he⟩ := hmem
      have hval := hvals ov hov
      rw [he, hv] at hval
      have : ov = (o, v) := by
        apply Prod.ext he
        simpa using hval.symm
      exact ⟨k, r, hres, hmap, by rw [← this]; exact hov, hblobs⟩

/-- the hypotheses are satisfiable by a non-empty order (one target with an output; its build succeeds) -/
example : ∃ (P : Params Nat) (w : World Nat) (order : List Lbl), order ≠ [] ∧ WF w.defs order ∧
    succeeded (build P ⟨true, false⟩ w order) order = true := by
  refine ⟨⟨fun _ => 0, fun c _ => ⟨true, c.writes.map (fun o => (o, [7])), []⟩, Fixes.current⟩,
    { defs := C15.exDefs, fs := fun _ => none, cache := emptyCache }, [[1]], by simp, C15.exBuildOK.wf, ?_⟩
  decide

end histories

end Grog.C14
