/-
  C14 — success implies postconditions (exit 0, outputs exist, checks pass); a failing check forces
  execution; still-failing checks fail the target and nothing is stored.
  Model: GrogModel/Exec.lean (getTaskFunc / executeTarget / OnTargetComplete of execute.go).
  Statements are about the per-target decision in mode `all` from an arbitrary state; a build is a fold
  of this step (GrogModel/Build.lean), so they hold at every step of every build of every history.
-/
import GrogModel.Lemmas.BuildBasic
set_option linter.unusedSectionVars false
set_option linter.unusedSimpArgs false
namespace Grog.C14
open Grog Grog.Exec

variable {κ : Type} [DecidableEq κ]

/-- the files inspected by the output checks of `t` are not declared outputs of `t` -/
def ChecksOffOutputs (t : Target) : Prop := ∀ c ∈ t.checks, c.1 ∉ t.outs.map (·.path)

/-- **success_post.** If the decision marks `t` successful then, in the resulting workspace, every declared
    output exists and every output check holds; and either the command ran in this step and returned
    exit 0 (within its timeout), or a stored result was restored whose outputs are exactly the declared ones. -/
theorem success_post (P : Params κ) (cfg : Cfg) (defs : Defs) (fuel : Nat) (t : Target) (s : BState κ)
    (hm : cfg.minimal = false) (hfx : P.fx.gateChecks = true) (hco : ChecksOffOutputs t)
    (s' : BState κ) (hs : buildTarget P cfg defs fuel t s = s')
    (ts : TStat κ) (hst : s'.st t.label = some ts) (hok : ts.ok = true) :
    (∀ o ∈ t.outs, (s'.fs o.path).isSome = true) ∧ checksPass s'.fs t.checks = true ∧
    (((P.run t.cmd (viewAt defs t s.fs)).exit0 = true ∧ s'.log = t.label :: s.log) ∨
     (s'.log = s.log ∧ ∃ r, s.cache.res (ts.key.getD (P.K (keyState t s.fs []))) = some r ∧ r.outs.map (·.1) = t.outs)) := by
  have hcase := buildTarget_all P cfg defs fuel t s hm
  rw [hs] at hcase
  cases hcase with
  | depFailed h e => simp [e, failT, failStat] at hst; subst hst; simp at hok
  | noHash h h2 e => simp [e, failT, failStat] at hst; subst hst; simp at hok
  | failed ohs s2 h h2 h3 e e2 => simp [e2, failT, failStat] at hst; subst hst; simp at hok
  | hit ohs h h2 e =>
    obtain ⟨r, fs', hr, _, _, _, hchk, hrest, hs'⟩ := tryHit_all_some hm e
    obtain ⟨hv, _, hfs⟩ := restore_some hrest
    have hfs' : s'.fs = writeOuts s.fs r.outs := by rw [hs']; exact hfs
    have hkey : ts.key = some (P.K (keyState t s.fs ohs)) := by
      rw [hs'] at hst; simp at hst; rw [← hst]
    refine ⟨?_, ?_, Or.inr ⟨by rw [hs'], r, by simpa [hkey] using hr, hv⟩⟩
    · intro o ho
      rw [hfs']
      apply writeOuts_mem_isSome
      rw [← hv] at ho
      simp only [List.mem_map] at ho ⊢
      obtain ⟨ov, hov, rfl⟩ := ho
      exact ⟨ov, hov, rfl⟩
    · have : checksPass s.fs t.checks = true := by
        rcases hchk with h | h
        · exact h
        · rw [hfx] at h; cases h
      rw [← this]
      apply checksPass_congr
      intro c hc
      rw [hfs']
      apply writeOuts_not_mem
      have := hco c hc
      rw [← hv] at this
      simpa [List.map_map] using this
  | ran ohs h h2 h3 e =>
    obtain ⟨hx, _, hc, ovs, hcol, _, _, _, _⟩ := execTarget_true e
    obtain ⟨hmap, hval⟩ := collect_some hcol
    refine ⟨?_, hc, Or.inl ⟨hx, ?_⟩⟩
    · intro o ho
      rw [← hmap] at ho
      simp only [List.mem_map] at ho
      obtain ⟨ov, hov, rfl⟩ := ho
      rw [hval ov hov]; rfl
    · have := execTarget_log P cfg defs t (P.K (keyState t s.fs ohs)) (s.cache.taint t.label) s
      rw [e] at this; exact this

/-- **stored_only_on_success.** The result cache changes in a step only if the command ran, returned exit 0,
    its checks hold afterwards and every declared output exists (it is "cached only if …"). -/
theorem stored_only_on_success (P : Params κ) (cfg : Cfg) (defs : Defs) (fuel : Nat) (t : Target) (s : BState κ)
    (hm : cfg.minimal = false) (hne : (buildTarget P cfg defs fuel t s).cache.res ≠ s.cache.res) :
    (P.run t.cmd (viewAt defs t s.fs)).exit0 = true ∧
    checksPass (fsAfter P defs t s.fs) t.checks = true ∧
    (collect (fsAfter P defs t s.fs) t.outs).isSome = true := by
  have hcase := buildTarget_all P cfg defs fuel t s hm
  cases hcase with
  | depFailed h e => rw [e] at hne; exact absurd rfl hne
  | noHash h h2 e => rw [e] at hne; exact absurd rfl hne
  | failed ohs s2 h h2 h3 e e2 =>
    obtain ⟨hc, _, _⟩ := execTarget_false e
    rw [e2] at hne; simp only [failT] at hne; rw [hc] at hne; exact absurd rfl hne
  | hit ohs h h2 e =>
    obtain ⟨r, fs', _, _, _, _, _, _, hs1⟩ := tryHit_all_some hm e
    rw [hs1] at hne; exact absurd rfl hne
  | ran ohs h h2 h3 e =>
    obtain ⟨hx, hfs, hc, ovs, hcol, _⟩ := execTarget_true e
    rw [hfs] at hc hcol
    exact ⟨hx, hc, by rw [hcol]; rfl⟩

/-- **failing_check_forces_exec.** If a check is false before the decision, the hit branch is not taken
    (in either mode), whatever the cache holds. -/
theorem failing_check_forces_exec (P : Params κ) (cfg : Cfg) (t : Target) (k : κ) (s : BState κ)
    (hfx : P.fx.gateChecks = true) (hc : checksPass s.fs t.checks = false) : tryHit P cfg t k s = none := by
  unfold tryHit
  split
  · rfl
  · simp [hc, hfx]

/-- … and therefore the command runs (mode `all`, dependencies fine). -/
theorem failing_check_executes (P : Params κ) (cfg : Cfg) (defs : Defs) (fuel : Nat) (t : Target) (s : BState κ)
    (hm : cfg.minimal = false) (hfx : P.fx.gateChecks = true) (hc : checksPass s.fs t.checks = false)
    (hd : depsOk s.st t.deps = true) (ohs : List (OH κ)) (ho : depOhs s.st t.hdeps = some ohs) :
    (buildTarget P cfg defs fuel t s).log = t.label :: s.log := by
  have hcase := buildTarget_all P cfg defs fuel t s hm
  cases hcase with
  | depFailed h e => rw [hd] at h; cases h
  | noHash h h2 e => rw [ho] at h2; cases h2
  | hit ohs' h h2 e => rw [failing_check_forces_exec P cfg t _ s hfx hc] at e; cases e
  | ran ohs' h h2 h3 e =>
    have := execTarget_log P cfg defs t (P.K (keyState t s.fs ohs')) (s.cache.taint t.label) s
    rw [e] at this; exact this
  | failed ohs' s2 h h2 h3 e e2 =>
    have := execTarget_log P cfg defs t (P.K (keyState t s.fs ohs')) (s.cache.taint t.label) s
    rw [e] at this; rw [e2]; exact this

/-- **still_failing_fails.** If the checks are false in the workspace the command leaves behind, the target
    fails and the cache is exactly what it was. -/
theorem still_failing_fails (P : Params κ) (cfg : Cfg) (defs : Defs) (fuel : Nat) (t : Target) (s : BState κ)
    (hm : cfg.minimal = false) (hfx : P.fx.gateChecks = true)
    (hpre : checksPass s.fs t.checks = false)
    (hpost : checksPass (fsAfter P defs t s.fs) t.checks = false)
    (s' : BState κ) (hs : buildTarget P cfg defs fuel t s = s') :
    s'.st t.label = some failStat ∧ s'.cache = s.cache := by
  have hcase := buildTarget_all P cfg defs fuel t s hm
  rw [hs] at hcase
  cases hcase with
  | depFailed h e => simp [e, failT]
  | noHash h h2 e => simp [e, failT]
  | hit ohs h h2 e => rw [failing_check_forces_exec P cfg t _ s hfx hpre] at e; cases e
  | ran ohs h h2 h3 e =>
    obtain ⟨_, hfs, hc, _⟩ := execTarget_true e
    rw [hfs, hpost] at hc; cases hc
  | failed ohs s2 h h2 h3 e e2 =>
    obtain ⟨hc, _, _⟩ := execTarget_false e
    simp [e2, failT, hc]

/-- hypotheses of the theorems above are satisfiable: a target with a check on a file that does not exist -/
example : ∃ (t : Target) (fs : FS), ChecksOffOutputs t ∧ checksPass fs t.checks = false :=
  ⟨{ label := [97], cmd := ⟨[], 0, [], [], false⟩, inputs := [], outs := [⟨false, [111]⟩], deps := [], hdeps := [], ldeps := [],
     fp := [], plat := [], noCache := false, checks := [([102], none)] }, fun _ => none, by
    intro c hc; simp at hc; subst hc; simp, by simp [checksPass]⟩

/-- **old_gate_witness** (regression, F-check): with the hit condition of the unrepaired code (the pre-check
    result is only logged) a target whose check fails is served from the cache and marked successful. -/
theorem old_gate_witness :
    ∃ (P : Params Nat) (cfg : Cfg) (t : Target) (s : BState Nat) (s1 : BState Nat),
      P.fx.gateChecks = false ∧ checksPass s.fs t.checks = false ∧
      tryHit P cfg t 0 s = some s1 ∧ (∃ ts, s1.st t.label = some ts ∧ ts.ok = true) ∧ checksPass s1.fs t.checks = false := by
  refine ⟨{ K := fun _ => 0, run := fun _ _ => ⟨true, [], []⟩, fx := { Fixes.current with gateChecks := false } },
    ⟨true, false⟩,
    { label := [97], cmd := ⟨[], 0, [], [], false⟩, inputs := [], outs := [], deps := [], hdeps := [], ldeps := [],
      fp := [], plat := [], noCache := false, checks := [([102], none)] },
    { fs := fun _ => none, cache := { res := fun _ => some ⟨.self 0, []⟩, cas := fun _ => false, taint := fun _ => false },
      st := fun _ => none, log := [] }, ?_, rfl, ?_, ?_⟩
  · exact { fs := fun _ => none, cache := { res := fun _ => some ⟨.self 0, []⟩, cas := fun _ => false, taint := fun _ => false },
            st := upd (fun _ => none) [97] (some { ok := true, key := some 0, oh := some (.self 0), loaded := true }), log := [] }
  · simp [checksPass]
  · refine ⟨?_, ⟨{ ok := true, key := some 0, oh := some (.self 0), loaded := true }, by simp, rfl⟩, by simp [checksPass]⟩
    simp [tryHit, restore, validate, writeOuts, checksPass, Fixes.current]

end Grog.C14
