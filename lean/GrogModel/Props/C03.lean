/-
  C03 — dependencies first, each target once, at most `num_workers` at a time.
  Property theorems only; models: GrogModel/Walker.lean (internal/dag/graph_walker.go),
  GrogModel/Pool.lean (internal/worker/task_worker_pool.go + the task function of execute.go).
  Helper lemmas: GrogModel/Lemmas/Walker*.lean, Lemmas/Pool.lean.
-/
import GrogModel.Lemmas.WalkerTrace
import GrogModel.Lemmas.WalkerExamples
import GrogModel.Lemmas.Pool
import GrogModel.Lemmas.Sys
import GrogModel.Lemmas.BuildOnce
import GrogModel.Props.C15
namespace Grog.C03
open Grog.Walker

/-- In every reachable state of the walker, for every schedule, fail-fast on or off, with or
    without cancellation: a node whose callback has been entered (it is running, has returned, or
    is completed / aborted) has *every transitive dependency* in phase `ok`, i.e. each of them has
    finished successfully in this walk. -/
theorem started_anc_ok {c : Cfg} {s : State} (ok : CfgOK c) (h : Reach c s)
    {n a : Node} (hn : (s.phase n).started = true) (ha : Anc c a n) : s.phase a = .ok :=
  inv_started_anc (reach_inv ok h) ha hn

/-- the hypotheses are satisfiable: after `okRun` node 1 has started and 0 is an ancestor of it -/
example : ∃ s, Reach (Ex.chain2 false) s ∧ (s.phase 1).started = true ∧ Anc (Ex.chain2 false) 0 1 := by
  exact ⟨Ex.after (Ex.chain2 false) Ex.okRun, Ex.reach_after (by decide), by decide, Ex.chain2_anc.mpr ⟨rfl, rfl⟩⟩

/-- The same at the moment of the start: `wake n` (entering the callback) is enabled only when
    every transitive dependency is `ok`. -/
theorem wake_only_after_anc_ok {c : Cfg} {s s' : State} (ok : CfgOK c) (h : Reach c s)
    {n a : Node} (hw : step c s (.wake n) = some s') (ha : Anc c a n) : s.phase a = .ok :=
  inv_ready_anc (reach_inv ok h) ha (step_wake.mp hw).2.2.1

example : (step (Ex.chain2 false) (Ex.after (Ex.chain2 false) [.wake 0, .cbReturn 0 .ok, .complete 0])
    (.wake 1)).isSome = true := by decide

/-- Along any run of the model (any list of events accepted by `step`, from any state) the
    callback of a node is entered at most once. -/
theorem callback_at_most_once {c : Cfg} {s s' : State} (tr : List Ev) (n : Node)
    (h : run c s tr = some s') : tr.count (.wake n) ≤ 1 :=
  run_wake_le_one tr h

example : (run (Ex.chain2 false) (init (Ex.chain2 false)) Ex.okRun).isSome = true ∧ Ex.okRun.count (.wake 1) = 1 := by decide

/-- a second entry into the callback of the same node is never accepted -/
theorem no_second_wake {c : Cfg} {s s' : State} {n : Node} (h : step c s (.wake n) = some s') :
    step c s' (.wake n) = none := by
  obtain ⟨_, _, _, rfl⟩ := step_wake.mp h
  simp [step, Walker.set]

/-- Pool × task model: in every reachable state the number of running target commands is at most
    the number of workers that are inside a task function, which is at most `num_workers`. Output
    checks and the dependency re-runs of minimal mode are commands of the dependant's task and are
    counted. -/
theorem running_le_workers {w : Nat} {s : Pool.State} (h : Pool.Reach w s) :
    Pool.running s ≤ Pool.busy s ∧ Pool.busy s ≤ w := by
  refine ⟨Pool.running_le_busy s, ?_⟩
  have := Pool.busy_le_length s
  rw [Pool.reach_workers_length h] at this
  exact this

/-- two workers, both inside a command: the bound is attained -/
example : ∃ s, Pool.Reach 2 s ∧ Pool.running s = 2 := by
  refine ⟨{ workers := [.busy 7 true, .busy 8 true], queue := [], closed := false, taskCtx := false,
            poolCtx := false, finished := [] }, ?_, by decide⟩
  have h0 : Pool.Reach 2 (Pool.init 2) := Pool.Reach.init
  have h1 := Pool.Reach.step h0 (e := .enqueue 7) (s' := _) rfl
  have h2 := Pool.Reach.step h1 (e := .enqueue 8) (s' := _) rfl
  have h3 := Pool.Reach.step h2 (e := .take 0) (s' := _) rfl
  have h4 := Pool.Reach.step h3 (e := .take 1) (s' := _) rfl
  have h5 := Pool.Reach.step h4 (e := .cmdStart 0) (s' := _) rfl
  exact Pool.Reach.step h5 (e := .cmdStart 1) (s' := _) rfl

/-- a command never starts in a task whose context is cancelled (the guard of
    `exec.CommandContext`; trusted base, exercised by the correspondence run) -/
theorem no_command_start_under_cancelled_context {s : Pool.State} (w : Nat) (h : s.taskCtx = true) :
    Pool.step s (.cmdStart w) = none := by
  simp only [Pool.step]
  split <;> simp_all

/-- Composition walker × pool tasks (the statement of the property's first clause about *commands*):
    in every reachable state of the composed system, if the task of node `n` is in the job channel or
    on a worker — in particular while one of its commands runs — then the callback of `n` is running
    and every transitive dependency of `n` has completed successfully. -/
theorem command_only_after_all_dependencies {c : Cfg} {s : Sys.State} (ok : CfgOK c)
    (h : Sys.Reach c s) {n a : Node} (ht : (s.task n).active = true) (ha : Anc c a n) :
    s.w.phase n = .running ∧ s.w.phase a = .ok := by
  have hrun := Sys.reach_bracket h n ht
  exact ⟨hrun, inv_started_anc (reach_inv ok (Sys.reach_walker h)) ha (by simp [hrun, Phase.started])⟩

/-- a state with a running command of node 1 whose dependency 0 completed is reachable -/
example : ∃ s, Sys.Reach (Ex.chain2 false) s ∧ s.task 1 = .busy true := by
  have h0 : Sys.Reach (Ex.chain2 false) (Sys.init _) := Sys.Reach.init
  have h1 := Sys.Reach.step h0 (e := .walker (.wake 0)) (s' := _) rfl
  have h2 := Sys.Reach.step h1 (e := .cbReturn 0 .ok) (s' := _) rfl
  have h3 := Sys.Reach.step h2 (e := .walker (.complete 0)) (s' := _) rfl
  have h4 := Sys.Reach.step h3 (e := .walker (.wake 1)) (s' := _) rfl
  have h5 := Sys.Reach.step h4 (e := .submit 1) (s' := _) rfl
  have h6 := Sys.Reach.step h5 (e := .take 1) (s' := _) rfl
  have h7 := Sys.Reach.step h6 (e := .cmdStart 1) (s' := _) rfl
  exact ⟨_, h7, by decide⟩

/-- Every command — the target's command, an output-check command (also of a target whose `command` is
    empty), a dependency re-run of minimal mode — starts only inside a pool task that a worker has taken:
    the walk callback hands every target node to `workerPool.Run`, there is no path around the pool. With
    `running_le_workers` this bounds the commands running at any instant by `num_workers`. -/
theorem every_command_needs_a_worker {c : Cfg} {s s' : Sys.State} {n : Node}
    (h : Sys.step c s (.cmdStart n) = some s') : s.task n = .busy false ∧ s'.task n = .busy true := by
  simp only [Sys.step] at h
  split at h
  · rename_i g
    simp at h; subst h
    exact ⟨g.1, by simp [Walker.set]⟩
  · simp at h

/-- in the composition a command never starts once the walk context is cancelled (fail-fast or
    interrupt) -/
theorem composed_no_command_start_after_cancel {c : Cfg} {s : Sys.State} (n : Node)
    (hc : s.w.ctx = true) : Sys.step c s (.cmdStart n) = none := by
  simp [Sys.step, hc]

/-- "Absent cache faults each selected target is executed at most once per build", on the re-run model
    of `LoadDependencyOutputs` (both `load_outputs` modes). The hypothesis on `producedInThisBuild` is
    what the walker guarantees: a dependant's task runs only after the dependency's own callback
    completed successfully (`started_anc_ok`), and a no-cache target is never a cache hit, so its own
    task executed it and set `OutputsLoaded`. -/
theorem exec_at_most_once (c : Pool.RerunCfg) (hf : c.loadFails = false)
    (hp : c.noCache = true → c.producedInThisBuild = true) : Pool.execCount c ≤ 1 := by
  cases hn : c.noCache
  · simp [Pool.execCount, hf, hn]
  · simp [Pool.execCount, hf, hp hn]

example : Pool.execCount ⟨true, true, false, true, 5⟩ = 1 := by decide

/-- Regression witness (code before the repair of F-nocache-rerun, e34dacb): in minimal mode a `no-cache`
    dependency with two executing dependants ran three times in one build without any cache fault.
    The same input is replayed on the real CLI by the check (t0 no-cache with dependants t1, t2). -/
theorem exec_more_than_once_witness_old :
    Pool.execCountOld ⟨true, true, false, true, 2⟩ = 3 ∧ Pool.execCount ⟨true, true, false, true, 2⟩ = 1 := by
  decide

/-! ### the worker bound on the composition, at-most-once on the build model (review round) -/

/-- **At most `num_workers` at a time, on the composition walker × tasks.** `Sys.ReachW c W`: the composed system where a worker
    takes a job only if fewer than `W` tasks are on a worker (a pool of `W` goroutines, one job each). In every reachable state,
    for every graph, schedule, failure pattern, fail-fast on/off and interrupt: the commands running (targets' commands, output
    checks, dependency re-runs of minimal mode — all are commands of some task) are at most the tasks on a worker, and these are at
    most `W`. `c.sel.Nodup`: the selection is a set. -/
theorem commands_le_workers {c : Cfg} {W : Nat} (hsel : c.sel.Nodup) {s : Sys.State} (h : Sys.ReachW c W s) :
    Sys.commands c s ≤ Sys.onWorkers c s ∧ Sys.onWorkers c s ≤ W :=
  ⟨Sys.commands_le_onWorkers c s, Sys.onWorkers_le hsel h⟩

/-- …and the count misses nothing: a task exists only for a selected node; every run with `W` workers is a run of the unbounded
    composition, so `command_only_after_all_dependencies`, `C05.fail_fast_no_command_start` … hold for it. -/
theorem bounded_runs_are_runs {c : Cfg} {W : Nat} (ok : CfgOK c) {s : Sys.State} (h : Sys.ReachW c W s) :
    Sys.Reach c s ∧ ∀ n, s.task n ≠ .none → n ∈ c.sel :=
  ⟨Sys.reachW_reach h, Sys.task_only_selected ok (Sys.reachW_reach h)⟩

/-- the diamond with ONE worker: 0 is done, the callbacks of 1 and 2 both run and both submitted their task, the worker took the
    task of 1 and runs its command. The task of 2 cannot be taken (the bound bites: the unbounded composition would accept the
    `take`), one command runs. -/
example : ∃ s, Sys.ReachW (Ex.diamond false) 1 s ∧ s.task 1 = .busy true ∧ s.task 2 = .queued ∧
    Sys.commands (Ex.diamond false) s = 1 ∧ Sys.stepW (Ex.diamond false) 1 s (.take 2) = none ∧
    (Sys.step (Ex.diamond false) s (.take 2)).isSome = true := by
  have h0 : Sys.ReachW (Ex.diamond false) 1 (Sys.init _) := Sys.ReachW.init
  have h1 := Sys.ReachW.step h0 (e := .walker (.wake 0)) (s' := _) rfl
  have h2 := Sys.ReachW.step h1 (e := .cbReturn 0 .ok) (s' := _) rfl
  have h3 := Sys.ReachW.step h2 (e := .walker (.complete 0)) (s' := _) rfl
  have h4 := Sys.ReachW.step h3 (e := .walker (.wake 1)) (s' := _) rfl
  have h5 := Sys.ReachW.step h4 (e := .walker (.wake 2)) (s' := _) rfl
  have h6 := Sys.ReachW.step h5 (e := .submit 1) (s' := _) rfl
  have h7 := Sys.ReachW.step h6 (e := .submit 2) (s' := _) rfl
  have h8 := Sys.ReachW.step h7 (e := .take 1) (s' := _) rfl
  have h9 := Sys.ReachW.step h8 (e := .cmdStart 1) (s' := _) rfl
  exact ⟨_, h9, by decide, by decide, by decide, by decide, by decide⟩

/-- the diamond, all four callbacks ran (1 and 2 concurrently): node 3 started and all of 0, 1, 2 are its transitive dependencies -/
example : Reach (Ex.diamond false) (Ex.after (Ex.diamond false) Ex.diamondOkRun) ∧
    ((Ex.after (Ex.diamond false) Ex.diamondOkRun).phase 3).started = true ∧
    Anc (Ex.diamond false) 0 3 ∧ Anc (Ex.diamond false) 1 3 ∧ Anc (Ex.diamond false) 2 3 ∧
    Ex.diamondOkRun.count (.wake 3) = 1 :=
  ⟨Ex.reach_after (by decide), by decide, Ex.diamond_anc.mpr (by decide), Ex.diamond_anc.mpr (by decide),
   Ex.diamond_anc.mpr (by decide), by decide⟩

section build
open Grog.Exec Grog.Build
variable {κ : Type} [DecidableEq κ]

/-- **Each target at most once, on the build model** (`Build.build`, `load_outputs=all`): over a duplicate-free order (the
    topological order of the selected closure) with labels that name their definitions, every label occurs at most once in the
    log of executed commands of one invocation, and only labels of the order occur. Any cache content, any taints, any
    workspace, any flags, cache faults included (in mode `all` a lost blob makes the target itself run — once). -/
theorem build_executes_each_target_at_most_once (P : Params κ) (cfg : Exec.Cfg) (w : World κ) (order : List Lbl)
    (hm : cfg.minimal = false) (hlab : ∀ l t, w.defs l = some t → t.label = l) (ho : order.Nodup) :
    (∀ l, (build P cfg w order).log.count l ≤ 1) ∧ ∀ l ∈ (build P cfg w order).log, l ∈ order := by
  obtain ⟨h1, h2⟩ := build_log_once P cfg w order hm hlab ho
  exact ⟨fun l => List.nodup_iff_count.mp h1 l, h2⟩

/-- **…and in `load_outputs=minimal`** (where a dependant's task may re-run dependencies, `loadDepList`): for the repaired code
    (`rerunOnce`, e34dacb; `loadFault`; `minValidate`), a cache whose result records have their blobs (`CasOK`: no cache fault —
    the clause's own "absent cache faults") and a well-formed build, the log of executed commands is the log of the `all` build of
    the same world (C15 lock-step simulation), hence each label at most once and only labels of the order. -/
theorem build_executes_each_target_at_most_once_minimal (P : Params κ) (hG : Good P) (hfx : P.fx.minValidate = true)
    (hro : P.fx.rerunOnce = true) (hlf : P.fx.loadFault = true) (outP : Path → Prop) (cfg : Exec.Cfg) (w : World κ)
    (order : List Lbl) (hcas : CasOK w.cache) (hB : BuildOK outP w.defs order) :
    (∀ l, (build P (C15.withMode cfg true) w order).log.count l ≤ 1) ∧
      ∀ l ∈ (build P (C15.withMode cfg true) w order).log, l ∈ order := by
  have h := C15.same_verdict_and_execs_holds P hG hfx hro hlf outP w [] cfg order hcas trivial hB
  have hlog : (build P (C15.withMode cfg false) w order).log = (build P (C15.withMode cfg true) w order).log :=
    List.reverse_inj.mp h.2.1
  rw [← hlog]
  exact build_executes_each_target_at_most_once P (C15.withMode cfg false) w order rfl hB.wf.label hB.wf.nodup

/-- the hypotheses of the minimal-mode statement are satisfiable (the one-target build of `C15.exBuildOK`) -/
example : BuildOK (fun p => p = [9]) C15.exDefs [[1]] := C15.exBuildOK

/- Regression witness on the build model for the code before e34dacb (`rerunOnce = false`): `C15.nocache_rerun_witness` — a
   dependant's `loadDepList` logs the label of an already built no-cache dependency a second time. -/

end build

end Grog.C03
