/-
  C02 — only invalidated targets re-execute; a no-op rebuild runs nothing; early cut-off; independence of
  what sits at output paths.
  Model: GrogModel/Exec.lean, GrogModel/Build.lean.
-/
import GrogModel.Props.C15
import GrogModel.Lemmas.BuildReexec
import GrogModel.DirVal
set_option linter.unusedSectionVars false
set_option linter.unusedVariables false
set_option linter.unusedSimpArgs false
namespace Grog.C02
open Grog Grog.Exec Grog.Build

variable {κ : Type} [DecidableEq κ]

/-- **executes_only_if.** If the decision for `t` runs a command (the log grows) then the cache holds no result
    for the current key, or the stored outputs cannot be restored (declared outputs differ from the stored ones
    or a blob is missing), or the cache is disabled, or the target is tainted, no-cache, or has a failing check. -/
theorem executes_only_if (P : Params κ) (cfg : Cfg) (defs : Defs) (fuel : Nat) (t : Target) (s : BState κ)
    (hm : cfg.minimal = false) (hex : (buildTarget P cfg defs fuel t s).log ≠ s.log) :
    ∃ ohs, depOhs s.st t.hdeps = some ohs ∧
      (s.cache.res (P.K (keyState t s.fs ohs)) = none ∨
       (∃ r, s.cache.res (P.K (keyState t s.fs ohs)) = some r ∧ restore t r s.cache s.fs = none) ∨
       cfg.enableCache = false ∨ s.cache.taint t.label = true ∨ t.noCache = true ∨ checksPass s.fs t.checks = false) := by
  have hcase := buildTarget_all P cfg defs fuel t s hm
  have key : ∀ ohs, tryHit P cfg t (P.K (keyState t s.fs ohs)) s = none →
      (s.cache.res (P.K (keyState t s.fs ohs)) = none ∨
       (∃ r, s.cache.res (P.K (keyState t s.fs ohs)) = some r ∧ restore t r s.cache s.fs = none) ∨
       cfg.enableCache = false ∨ s.cache.taint t.label = true ∨ t.noCache = true ∨ checksPass s.fs t.checks = false) := by
    intro ohs hn
    unfold tryHit at hn
    split at hn
    · rename_i h; exact Or.inl h
    · rename_i r hr
      split at hn
      · simp only [hm, Bool.false_eq_true, ↓reduceIte] at hn
        split at hn
        · cases hn
        · rename_i hrest; exact Or.inr (Or.inl ⟨r, hr, hrest⟩)
      · rename_i hg
        simp only [Bool.and_eq_true, Bool.not_eq_eq_eq_not, Bool.not_true, Bool.or_eq_true, not_and, not_or] at hg
        by_cases h1 : s.cache.taint t.label = true
        · exact Or.inr (Or.inr (Or.inr (Or.inl h1)))
        · by_cases h2 : t.noCache = true
          · exact Or.inr (Or.inr (Or.inr (Or.inr (Or.inl h2))))
          · by_cases h3 : cfg.enableCache = true
            · have := hg ⟨⟨by simpa using h1, by simpa using h2⟩, h3⟩
              exact Or.inr (Or.inr (Or.inr (Or.inr (Or.inr (by simpa using this.1)))))
            · exact Or.inr (Or.inr (Or.inl (by simpa using h3)))
  cases hcase with
  | depFailed h e => rw [e] at hex; exact absurd rfl hex
  | noHash h h2 e => rw [e] at hex; exact absurd rfl hex
  | hit ohs h h2 e =>
    obtain ⟨r, fs', _, _, _, _, _, _, hs1⟩ := tryHit_all_some hm e
    rw [hs1] at hex; exact absurd rfl hex
  | ran ohs h h2 h3 e => exact ⟨ohs, h2, key ohs h3⟩
  | failed ohs s2 h h2 h3 e e2 => exact ⟨ohs, h2, key ohs h3⟩

/-- contrapositive, the form that is used: a restorable result for the current key, no forcing ⇒ nothing runs,
    whatever currently sits at the output paths (`restore` succeeds from every workspace). -/
theorem unchanged_not_executed (P : Params κ) (cfg : Cfg) (defs : Defs) (fuel : Nat) (t : Target) (s : BState κ)
    (hm : cfg.minimal = false) (ohs : List (OH κ)) (ho : depOhs s.st t.hdeps = some ohs) (r : Result κ)
    (hr : s.cache.res (P.K (keyState t s.fs ohs)) = some r) (hv : r.outs.map (·.1) = t.outs)
    (hb : ∀ ov ∈ r.outs, s.cache.cas ov.2 = true)
    (hc : cfg.enableCache = true) (hta : s.cache.taint t.label = false) (hn : t.noCache = false)
    (hch : checksPass s.fs t.checks = true) :
    (buildTarget P cfg defs fuel t s).log = s.log := by
  apply Classical.byContradiction
  intro hne
  obtain ⟨ohs', ho', hwhy⟩ := executes_only_if P cfg defs fuel t s hm hne
  rw [ho] at ho'; simp only [Option.some.injEq] at ho'; subst ho'
  rcases hwhy with h | ⟨r', hr', hrest⟩ | h | h | h | h
  · rw [hr] at h; cases h
  · rw [hr] at hr'; simp only [Option.some.injEq] at hr'; subst hr'
    have : restore t r s.cache s.fs = some (writeOuts s.fs r.outs) := by
      unfold restore validate
      have h1 : (List.map (fun x => x.1) r.outs == t.outs) = true := by rw [hv]; simp
      have h2 : (r.outs.all fun ov => s.cache.cas ov.2) = true := List.all_eq_true.2 hb
      simp [h1, h2]
    rw [this] at hrest; cases hrest
  · rw [hc] at h; cases h
  · rw [hta] at h; cases h
  · rw [hn] at h; cases h
  · rw [hch] at h; cases h

/-- restoring does not look at the destination: from any two workspaces the same stored result restores (or fails)
    alike — present, deleted, modified files at the output paths make no difference to the decision. -/
theorem restore_total (t : Target) (r : Result κ) (c : Cache κ) (fs fs' : FS) :
    (restore t r c fs).isSome = (restore t r c fs').isSome := by
  unfold restore; split <;> rfl

/-- the directory case of `restore_total`, on directory values as sets of entries (`GrogModel/DirVal.lean`): what
    `Load` leaves is the stored tree whatever was at the destination — absent, stale extra entries (also symlinks),
    modified or missing entries — so the stored value alone decides. -/
theorem dir_restore_total (cur cur' : Option DirVal.Tree) (stored : DirVal.Tree) :
    DirVal.restoreDir cur stored = stored ∧ DirVal.restoreDir cur stored = DirVal.restoreDir cur' stored :=
  ⟨DirVal.restoreDir_exact cur stored, DirVal.restoreDir_ignores_destination cur cur' stored⟩

/-- **key_location_free.** The key-state has no field for the workspace root, the time or the host; of the
    workspace it contains only the contents of the resolved inputs. -/
theorem key_location_free (P : Params κ) (t : Target) (fs fs' : FS) (ohs : List (OH κ))
    (h : ∀ p ∈ t.inputs, fs p = fs' p) : P.K (keyState t fs ohs) = P.K (keyState t fs' ohs) := by
  have : t.inputs.map (fun p => (p, fs p)) = t.inputs.map (fun p => (p, fs' p)) :=
    List.map_congr_left (fun p hp => by rw [h p hp])
  simp only [keyState, this]

/-- **early_cutoff** / **reexec_subset**, per target: if the output hashes of the dependencies are what they
    were when a result was stored (a re-executed dependency reproduced equal outputs, or nothing upstream
    changed) and the target's own definition and input contents are unchanged, the key is the same; with the
    result restorable and nothing forcing execution, the target is restored, not executed. -/
theorem early_cutoff (P : Params κ) (cfg : Cfg) (defs : Defs) (fuel : Nat) (t : Target) (s : BState κ)
    (hm : cfg.minimal = false) (ohs ohsOld : List (OH κ)) (fsOld : FS)
    (ho : depOhs s.st t.hdeps = some ohs) (hsame : ohs = ohsOld) (hin : ∀ p ∈ t.inputs, s.fs p = fsOld p)
    (r : Result κ) (hr : s.cache.res (P.K (keyState t fsOld ohsOld)) = some r) (hv : r.outs.map (·.1) = t.outs)
    (hb : ∀ ov ∈ r.outs, s.cache.cas ov.2 = true)
    (hc : cfg.enableCache = true) (hta : s.cache.taint t.label = false) (hn : t.noCache = false)
    (hch : checksPass s.fs t.checks = true) :
    (buildTarget P cfg defs fuel t s).log = s.log := by
  subst hsame
  rw [← key_location_free P t s.fs fsOld ohs hin] at hr
  exact unchanged_not_executed P cfg defs fuel t s hm ohs ho r hr hv hb hc hta hn hch

theorem reexec_subset (P : Params κ) (cfg : Cfg) (defs : Defs) (fuel : Nat) (t : Target) (s : BState κ)
    (hm : cfg.minimal = false) (hex : (buildTarget P cfg defs fuel t s).log ≠ s.log)
    (hc : cfg.enableCache = true) (hta : s.cache.taint t.label = false) (hn : t.noCache = false)
    (hch : checksPass s.fs t.checks = true) :
    ∃ ohs, depOhs s.st t.hdeps = some ohs ∧ ∀ r, s.cache.res (P.K (keyState t s.fs ohs)) = some r →
      ¬ (r.outs.map (·.1) = t.outs ∧ ∀ ov ∈ r.outs, s.cache.cas ov.2 = true) := by
  obtain ⟨ohs, ho, _⟩ := executes_only_if P cfg defs fuel t s hm hex
  refine ⟨ohs, ho, fun r hr ⟨hv, hb⟩ => hex ?_⟩
  exact unchanged_not_executed P cfg defs fuel t s hm ohs ho r hr hv hb hc hta hn hch

/-- **reexec_subset_history** (history level; early cut-off included). After a successful build, edit anything — definitions,
    input files, check files, and arbitrary content at output paths — and build again (mode `all`, cache enabled, same
    selection). Let `D` be any set of targets that contains every target whose definition, resolved inputs or check files
    were touched and that is closed under dependants. Then the second build executes only targets of `D`; every target
    outside `D` is restored from the cache with the output hash it had, so its dependants' keys are unchanged
    (`noop_rebuild_partial` is the case `D = ∅`). -/
theorem reexec_subset_history {P : Params κ} (hG : Good P) (cfg : Cfg) (w : World κ) (order : List Lbl)
    (hwf0 : WF w.defs order) (hpl0 : Plain P cfg w.defs order)
    (hsucc : succeeded (build P cfg w order) order = true)
    (defs' : Defs) (fs' : FS) (D : Lbl → Prop) (hwf : WF defs' order) (hpl : Plain P cfg defs' order)
    (hsame : ∀ l ∈ order, ¬ D l → defs' l = w.defs l)
    (hclosed : ∀ l ∈ order, ¬ D l → ∀ t, defs' l = some t → ∀ d ∈ t.deps, ¬ D d)
    (hfs : ∀ l ∈ order, ¬ D l → ∀ t, defs' l = some t →
      (∀ p ∈ t.inputs, fs' p = (build P cfg w order).fs p) ∧ (∀ c ∈ t.checks, fs' c.1 = (build P cfg w order).fs c.1)) :
    ∀ x ∈ executed (build P cfg ⟨defs', fs', (build P cfg w order).cache⟩ order), D x := by
  have hset := settled_run_aux hG hwf0 hpl0 (fuelFor order) order [] (start w) (by simp) (fun l hl => by simp at hl)
  simp only [List.nil_append] at hset
  have hok := (succeeded_iff _ order).1 hsucc
  have hf : ∀ l ∈ order, ¬ D l → Settled P w.defs (build P cfg w order) l := fun l hl _ => hset l hl (hok l hl)
  have h2 := after_run_aux hG hwf hpl (fuelFor order) D (build P cfg w order) hf hsame hwf0.label hclosed order []
    (start ⟨defs', fs', (build P cfg w order).cache⟩) (by simp)
    ⟨fun x hx => by simp [start] at hx, hfs, fun _ h => h, fun _ _ _ => rfl, fun _ _ _ _ _ _ _ => rfl, fun l hl => by simp at hl⟩
  intro x hx
  have hx' : x ∈ (build P cfg ⟨defs', fs', (build P cfg w order).cache⟩ order).log := by
    simpa [executed] using hx
  exact h2.log x hx'

/-- the full no-op statement of the property (for reference; see `noop_rebuild_partial` and `globout_witness`) -/
def noop_rebuild (P : Params κ) : Prop :=
  ∀ (w : World κ) (cfg : Cfg) (order : List Lbl), cfg.minimal = false → cfg.enableCache = true →
    let s1 := build P cfg w order
    succeeded s1 order = true →
    ∀ fs', (∀ p, (∀ l ∈ order, ∀ t, w.defs l = some t → p ∉ outPaths t) → fs' p = s1.fs p) →
      executed (build P cfg { w with fs := fs', cache := s1.cache } order) = []

/-- **noop_rebuild_partial.** After a successful build (mode `all`, cache enabled, no no-cache target in the
    selection) an immediate build of the same selection with no edit executes no command — from *any* content at
    the declared output paths in between (present, deleted, modified: `fs'` is only required to agree with the
    workspace the first build left *outside* the output paths). Proved under `WF` (in particular resolved inputs
    and check files disjoint from declared outputs); without that conjunct it is false, see `globout_witness`. -/
theorem noop_rebuild_partial {P : Params κ} (hG : Good P) (cfg : Cfg) (w : World κ) (order : List Lbl)
    (hwf : WF w.defs order) (hpl : Plain P cfg w.defs order)
    (hsucc : succeeded (build P cfg w order) order = true) (fs' : FS)
    (hfs : ∀ p, (∀ l ∈ order, ∀ t, w.defs l = some t → p ∉ outPaths t) → fs' p = (build P cfg w order).fs p) :
    executed (build P cfg { w with fs := fs', cache := (build P cfg w order).cache } order) = [] := by
  have hset := settled_run_aux hG hwf hpl (fuelFor order) order [] (start w) (by simp) (fun l hl => by simp at hl)
  simp only [List.nil_append] at hset
  have hok := (succeeded_iff _ order).1 hsucc
  have hf : ∀ l ∈ order, Settled P w.defs (build P cfg w order) l := fun l hl => hset l hl (hok l hl)
  have h2 := second_run_aux hG hwf hpl (fuelFor order) (build P cfg w order) hf order []
    (start { w with fs := fs', cache := (build P cfg w order).cache }) (by simp)
    ⟨rfl, rfl, hfs, fun l hl => by simp at hl⟩
  have hlog : (build P cfg { w with fs := fs', cache := (build P cfg w order).cache } order).log = [] := h2.log
  simp [executed, hlog]

/-- the hypotheses of `noop_rebuild_partial` are satisfiable (the empty selection; non-trivial instances are the
    generated workspaces of the correspondence check, all of which satisfy `WF`) -/
example (P : Params Nat) (hfx : P.fx.syncTaint = true ∧ P.fx.gateChecks = true) :
    WF (fun _ => none) [] ∧ Plain P ⟨true, false⟩ (fun _ => none) [] :=
  ⟨⟨List.nodup_nil, fun l hl => by simp at hl, fun l t h => by simp at h, fun l hl => by simp at hl,
    fun pre l suf h => by simp at h, fun l hl => by simp at hl, fun l hl => by simp at hl, fun l hl => by simp at hl⟩,
   ⟨rfl, rfl, hfx.1, hfx.2, fun l hl => by simp at hl⟩⟩

/-- the same with a non-empty order (one target with an output; `Compose.ex_noop_rebuild` is a two-target instance of
    the conclusion for the real key) -/
example (P : Params Nat) (hfx : P.fx.syncTaint = true ∧ P.fx.gateChecks = true) :
    WF C15.exDefs [[1]] ∧ Plain P ⟨true, false⟩ C15.exDefs [[1]] :=
  ⟨C15.exBuildOK.wf, ⟨rfl, rfl, hfx.1, hfx.2, fun l hl t h => by
    simp only [C15.exDefs] at h
    split at h
    · simp only [Option.some.injEq] at h; subst h; rfl
    · cases h⟩⟩

/-- **globout_witness** (F-globout, open). If a resolved input of `t` is a declared output of its dependency
    (excluded by `WF.inputsOff`), building the dependency changes `t`'s key-state although no source changed: under
    an injective key the key of the immediate rebuild differs from the one the first build stored, so the rebuild
    cannot be a no-op. -/
theorem globout_witness :
    ∃ (t : Target) (fs : FS) (written : Outs), (∃ p ∈ t.inputs, p ∈ written.map (·.1.path)) ∧
      ∀ (κ : Type) (P : Params κ), (∀ a b, P.K a = P.K b → a = b) → ∀ ohs : List (OH κ),
        P.K (keyState t fs ohs) ≠ P.K (keyState t (writeOuts fs written) ohs) := by
  let t : Target := { mkT [116] [] [] false with inputs := [[103]] }
  refine ⟨t, fun _ => none, [(⟨false, [103]⟩, [1])], ⟨[103], by simp [t], by simp⟩, ?_⟩
  intro κ P hinj ohs he
  have := hinj _ _ he
  simp [keyState, t, writeOuts, upd] at this

end Grog.C02
