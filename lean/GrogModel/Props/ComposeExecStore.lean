/-
  Composition build ↔ stores, operational link (item 2 of design_notes/COMPOSE.md, gaps section):
  the store events a build emits, and `WritesSound` — the trace hypothesis of `recovery_cache_sound` /
  `second_machine` — as a theorem about them.

  `Exec.completeReqs` (GrogModel/ExecStore.lean) lists the backend requests of one successful `execTarget` in the code's
  order; `ExecStore` proves (a) all-ok ⇒ exactly the atomic cache update, (b) any failure ⇒ result not written / a written
  result has all its blobs. Here the requests are rendered as `Store.Ev`s through a codec (`encK`, `dig`, `encR`, `decR`),
  a build / a history emits the concatenation of the requests of its successful executions, and
    (c) every target result such a trace hands to `Set` is an entry of a sound cache (`WritesSound`), from
        `C01` (`run_inv`: every intermediate cache of a build is sound),
  so that `recovery_cache_sound` / `recovery_next_build_eq_clean` hold for every store trace — with arbitrary faults, kills,
  interleavings and other processes' blob writes — whose target-result writes are those emitted by builds of a well-formed
  history, without the `WritesSound` hypothesis.
-/
import GrogModel.ExecStore
import GrogModel.Props.ComposeStores
import GrogModel.Props.C01
set_option linter.unusedSectionVars false
set_option linter.unusedVariables false
set_option linter.unusedSimpArgs false
namespace Grog.Compose
open Grog Grog.Exec Grog.Build

variable {κ : Type} [DecidableEq κ]

/-- a codec with the marshalling of a target result -/
structure CodecW (κ : Type) extends Codec κ where
  encR : Result κ → Bytes

/-- the two laws used: change-hash strings are injective in the key, unmarshalling inverts marshalling -/
structure CodecLaws (cd : CodecW κ) : Prop where
  encK_inj : ∀ a b, cd.encK a = cd.encK b → a = b
  dec_enc : ∀ r, cd.decR (cd.encR r) = some r

/-- the store events of a request sequence issued by process `p` when every call returns nil (`Cas.Write` is rendered as a
    `Set`; its Exists short cut writes nothing). Loads emit nothing that changes the store. -/
def reqEvs (cd : CodecW κ) (p : Store.Pid) : Nat → List (Req κ) → List Store.Ev
  | _, [] => []
  | n, .writeBlob v :: qs => .setBegin p n .cas (cd.dig v) v [] :: .setEnd p n .ok :: reqEvs cd p (n + 1) qs
  | n, .setResult k r :: qs =>
    .setBegin p n .target (cd.encK k) (cd.encR r) (r.outs.map fun ov => cd.dig ov.2) :: .setEnd p n .ok :: reqEvs cd p (n + 1) qs
  | n, .getResult _ :: qs => reqEvs cd p n qs
  | n, .loadBlob _ :: qs => reqEvs cd p n qs

/-- every target `setBegin` among the events of a request sequence is the marshalled result of a `setResult` request -/
theorem reqEvs_target (cd : CodecW κ) (p : Store.Pid) : ∀ (qs : List (Req κ)) (n : Nat) (p' : Store.Pid) (op : Nat) (key c : Bytes) (refs : List Bytes),
    Store.Ev.setBegin p' op .target key c refs ∈ reqEvs cd p n qs → ∃ k r, Req.setResult k r ∈ qs ∧ key = cd.encK k ∧ c = cd.encR r
  | [], _, _, _, _, _, _, h => by simp [reqEvs] at h
  | q :: qs, n, p', op, key, c, refs, h => by
    cases q with
    | writeBlob v =>
      simp only [reqEvs, List.mem_cons, Store.Ev.setBegin.injEq, reduceCtorEq, false_and, and_false, false_or] at h
      obtain ⟨k, r, hm, h1, h2⟩ := reqEvs_target cd p qs (n + 1) p' op key c refs h
      exact ⟨k, r, List.mem_cons_of_mem _ hm, h1, h2⟩
    | setResult k r =>
      simp only [reqEvs, List.mem_cons, Store.Ev.setBegin.injEq, reduceCtorEq, false_or] at h
      rcases h with ⟨_, _, _, h1, h2, _⟩ | h
      · exact ⟨k, r, List.mem_cons_self, h1, h2⟩
      · obtain ⟨k', r', hm, h1, h2⟩ := reqEvs_target cd p qs (n + 1) p' op key c refs h
        exact ⟨k', r', List.mem_cons_of_mem _ hm, h1, h2⟩
    | getResult k =>
      simp only [reqEvs] at h
      obtain ⟨k', r', hm, h1, h2⟩ := reqEvs_target cd p qs n p' op key c refs h
      exact ⟨k', r', List.mem_cons_of_mem _ hm, h1, h2⟩
    | loadBlob v =>
      simp only [reqEvs] at h
      obtain ⟨k', r', hm, h1, h2⟩ := reqEvs_target cd p qs n p' op key c refs h
      exact ⟨k', r', List.mem_cons_of_mem _ hm, h1, h2⟩

/-- the only result request of `completeReqs` is the result `execTarget` stores -/
theorem completeReqs_setResult (cfg : Cfg) (t : Target) (k : κ) (ovs : Outs) (k' : κ) (r' : Result κ)
    (h : Req.setResult k' r' ∈ completeReqs cfg t k ovs) : k' = k ∧ r' = resFor cfg t k ovs := by
  unfold completeReqs at h
  simp only [List.mem_append, List.mem_singleton, Req.setResult.injEq] at h
  rcases h with h | h
  · split at h
    · simp at h
    · simp only [List.mem_map, reduceCtorEq, and_false, exists_false] at h
  · exact h

/-- the store requests of processing one target (mode `all`): the requests of its `execTarget` if the command ran and
    succeeded, nothing otherwise (hits and failures write nothing) -/
def stepReqs (P : Params κ) (cfg : Cfg) (defs : Defs) (t : Target) (s : BState κ) : List (Req κ) :=
  if depsOk s.st t.deps = false then [] else
  match depOhs s.st t.hdeps with
  | none => []
  | some ohs =>
    let k := P.K (keyState t s.fs ohs)
    match tryHit P cfg t k s with
    | some _ => []
    | none =>
      let out := execTarget P cfg defs t k (s.cache.taint t.label) s
      if out.2 then
        match collect out.1.fs t.outs with
        | some ovs => completeReqs cfg t k ovs
        | none => []
      else []

/-- **(c), one step.** If the cache after processing `t` is sound, every target result the step hands to
    `TargetResultCache.Write` is an entry of a sound cache. -/
theorem stepReqs_sound {P : Params κ} {cfg : Cfg} (hm : cfg.minimal = false) {defs : Defs} (fuel : Nat) (t : Target) (s : BState κ)
    (hs : CacheSound P (buildTarget P cfg defs fuel t s).cache) :
    ∀ k r, Req.setResult k r ∈ stepReqs P cfg defs t s → SoundEntry P k r := by
  intro k r hmem
  unfold stepReqs at hmem
  split at hmem
  · simp at hmem
  · rename_i hd
    have hd' : depsOk s.st t.deps = true := by simpa using hd
    split at hmem
    · simp at hmem
    · rename_i ohs ho
      simp only at hmem
      split at hmem
      · simp at hmem
      · rename_i hh
        split at hmem
        · rename_i hok
          split at hmem
          · rename_i ovs hcol
            obtain ⟨ek, er⟩ := completeReqs_setResult cfg t _ ovs k r hmem
            subst ek; subst er
            have hb : buildTarget P cfg defs fuel t s = (execTarget P cfg defs t (P.K (keyState t s.fs ohs)) (s.cache.taint t.label) s).1 := by
              rw [buildTarget_all_eq P cfg defs fuel t s hm]
              simp [buildTargetNoPre, hd', ho, hh, hm, hok]
            have he : execTarget P cfg defs t (P.K (keyState t s.fs ohs)) (s.cache.taint t.label) s =
                ((execTarget P cfg defs t (P.K (keyState t s.fs ohs)) (s.cache.taint t.label) s).1, true) :=
              Prod.ext rfl (by simpa using hok)
            obtain ⟨_, _, _, ovs', hcol', hres, _⟩ := execTarget_true he
            rw [hcol] at hcol'; simp only [Option.some.injEq] at hcol'; subst hcol'
            apply hs
            rw [hb, hres, upd_same]
          · simp at hmem
        · simp at hmem

/-- the requests of a build: the steps' requests in order -/
def runReqs (P : Params κ) (cfg : Cfg) (defs : Defs) (fuel : Nat) : List Lbl → BState κ → List (Req κ)
  | [], _ => []
  | l :: rest, s =>
    match defs l with
    | some t => stepReqs P cfg defs t s ++ runReqs P cfg defs fuel rest (buildTarget P cfg defs fuel t s)
    | none => runReqs P cfg defs fuel rest s

theorem runReqs_sound {P : Params κ} (hG : Good P) (hfx : P.fx.gateChecks = true) {cfg : Cfg} (hm : cfg.minimal = false)
    {defs : Defs} {order : List Lbl} (hwf : WF defs order) (fuel : Nat) :
    ∀ (rest pre : List Lbl) (s : BState κ) (c : Spec.CState), order = pre ++ rest → Inv P defs order s c pre →
      ∀ k r, Req.setResult k r ∈ runReqs P cfg defs fuel rest s → SoundEntry P k r := by
  intro rest
  induction rest with
  | nil => intro pre s c _ _ k r h; simp [runReqs] at h
  | cons l rest ih =>
    intro pre s c ho hI k r hmem
    obtain ⟨t, ht⟩ := hwf.defined l (by rw [ho]; simp)
    have hstep := step_inv hG hfx hm hwf fuel pre l rest ho t ht hI
    simp only [runReqs, ht, List.mem_append] at hmem
    rcases hmem with hmem | hmem
    · exact stepReqs_sound hm fuel t s hstep.sound k r hmem
    · exact ih (pre ++ [l]) _ _ (by rw [ho]; simp) hstep k r hmem

/-- the requests of a history: every build's requests, in order -/
def histReqs (P : Params κ) : World κ → List Step → List (Req κ)
  | _, [] => []
  | w, st :: rest =>
    (match st with
     | .build cfg order => runReqs P cfg w.defs (fuelFor order) order (start w)
     | _ => []) ++ histReqs P (step P w st) rest

/-- **(c), whole histories.** Every target result the builds of a well-formed history (C01.HistOK) hand to
    `TargetResultCache.Write` is an entry of a sound cache — `WritesSound` as a theorem (from `C01`: `step_inv`). -/
theorem histReqs_sound {P : Params κ} (hG : Good P) (hfx : P.fx.gateChecks = true) :
    ∀ (h : List Step) (w : World κ), C01.HistOK P w h → CacheSound P w.cache →
      ∀ k r, Req.setResult k r ∈ histReqs P w h → SoundEntry P k r := by
  intro h
  induction h with
  | nil => intro w _ _ k r hm; simp [histReqs] at hm
  | cons st rest ih =>
    intro w hok hs k r hmem
    have hs' := C01.cacheSound_step hG hfx w st hok.1 hs
    simp only [histReqs, List.mem_append] at hmem
    rcases hmem with hmem | hmem
    · cases st with
      | build cfg order =>
        exact runReqs_sound hG hfx hok.1.1 hok.1.2 (fuelFor order) order [] (start w) _ (by simp)
          (inv_start (P := P) (defs := w.defs) (order := order) w hs w.fs (fun _ _ => rfl)) k r hmem
      | edit d ws => simp at hmem
      | taint ls => simp at hmem
      | dropBlob v => simp at hmem
    · exact ih (step P w st) hok.2 hs' k r hmem

/-- the store events of a history (one process id for the whole history; ids and operation numbers play no role below) -/
def histEvs (P : Params κ) (cd : CodecW κ) (p : Store.Pid) (w : World κ) (h : List Step) : List Store.Ev :=
  reqEvs cd p 0 (histReqs P w h)

theorem histEvs_writesSound {P : Params κ} (hG : Good P) (hfx : P.fx.gateChecks = true) (cd : CodecW κ) (hl : CodecLaws cd)
    (p : Store.Pid) (h : List Step) (w : World κ) (hok : C01.HistOK P w h) (hs : CacheSound P w.cache) :
    Store.BeginsSatisfy (WritesSound P cd.toCodec) (histEvs P cd p w h) := by
  intro p' op ns key c refs hmem hns k' r' hk' hdec
  subst hns
  obtain ⟨k, r, hreq, h1, h2⟩ := reqEvs_target cd p _ 0 p' op key c refs hmem
  have hkk : k' = k := hl.encK_inj _ _ (hk'.trans h1)
  rw [h2, hl.dec_enc] at hdec
  simp only [Option.some.injEq] at hdec
  subst hkk; subst hdec
  exact histReqs_sound hG hfx h w hok hs k' r hreq

/-- a store trace whose target-result writes all occur among the events emitted by the builds of a history -/
def TargetWritesFrom (es src : List Store.Ev) : Prop :=
  ∀ p op k c refs, Store.Ev.setBegin p op .target k c refs ∈ es → ∃ p' op' refs', Store.Ev.setBegin p' op' .target k c refs' ∈ src

theorem beginsSatisfy_of_targetWritesFrom {P : Params κ} {cd : Codec κ} {es src : List Store.Ev}
    (h : TargetWritesFrom es src) (hs : Store.BeginsSatisfy (WritesSound P cd) src) : Store.BeginsSatisfy (WritesSound P cd) es := by
  intro p op ns k c refs hm hns
  subst hns
  obtain ⟨p', op', refs', hm'⟩ := h p op k c refs hm
  exact hs p' op' .target k c refs' hm' rfl

/-- **recovery without the `WritesSound` hypothesis.** Any run of the store model — any number of processes, faults, kills
    with in-flight writes landing or not, arbitrary blob writes — whose *target-result* writes are those emitted by the
    builds of a well-formed history (from the empty cache) leaves a store whose cache is `CacheSound`. -/
theorem recovery_cache_sound_of_history {P : Params κ} (hG : Good P) (hfx : P.fx.gateChecks = true)
    (cd : CodecW κ) (hl : CodecLaws cd) (tn : Lbl → Bool) (H : Bytes → Bytes)
    (w0 : World κ) (hw0 : w0.cache = emptyCache) (h : List Step) (hok : C01.HistOK P w0 h)
    (es : List Store.Ev) (s' : Store.State) (hr : Store.run H Store.init es = some s')
    (hfrom : TargetWritesFrom es (histEvs P cd 0 w0 h)) :
    CacheSound P (storeCache cd.toCodec tn s') :=
  recovery_cache_sound P cd.toCodec tn H es s' hr
    (beginsSatisfy_of_targetWritesFrom hfrom
      (histEvs_writesSound hG hfx cd hl 0 h w0 hok (by rw [hw0]; exact C01.cacheSound_empty P)))

/-- … and the next build on that store equals the clean build (C07's last sentence, composed, no trace hypothesis about
    what the written bytes decode to) -/
theorem recovery_next_build_eq_clean_of_history {P : Params κ} (hG : Good P) (hfx : P.fx.gateChecks = true)
    (cd : CodecW κ) (hl : CodecLaws cd) (tn : Lbl → Bool) (H : Bytes → Bytes)
    (w0 : World κ) (hw0 : w0.cache = emptyCache) (h : List Step) (hok : C01.HistOK P w0 h)
    (es : List Store.Ev) (s' : Store.State) (hr : Store.run H Store.init es = some s')
    (hfrom : TargetWritesFrom es (histEvs P cd 0 w0 h))
    (cfg : Cfg) (hm : cfg.minimal = false) (defs : Defs) (fs : FS) (order : List Lbl) (hwf : WF defs order) (fs0 : FS)
    (hag : ∀ p, (∀ l ∈ order, ∀ t, defs l = some t → p ∉ outPaths t) → fs p = fs0 p) :
    (succeeded (build P cfg ⟨defs, fs, storeCache cd.toCodec tn s'⟩ order) order = true ↔
      ∀ l ∈ order, (Spec.clean P.run defs fs0 order).ok l = some true) ∧
    (succeeded (build P cfg ⟨defs, fs, storeCache cd.toCodec tn s'⟩ order) order = true →
      ∀ l ∈ order, ∀ t, defs l = some t → ∀ p ∈ outPaths t,
        (build P cfg ⟨defs, fs, storeCache cd.toCodec tn s'⟩ order).fs p = (Spec.clean P.run defs fs0 order).fs p) :=
  C01.build_eq_clean hG hfx cfg hm ⟨defs, fs, storeCache cd.toCodec tn s'⟩ order hwf
    (recovery_cache_sound_of_history hG hfx cd hl tn H w0 hw0 h hok es s' hr hfrom) fs0 hag

/-- the codec laws are what injectivity of the two marshallings gives (DESIGN: protobuf deterministic marshalling is a
    parameter `ser` with an injectivity hypothesis): from any injective `encK`, `encR` there is a codec satisfying them -/
theorem codecLaws_of_injective (encK : κ → Bytes) (dig : Val → Bytes) (encR : Result κ → Bytes)
    (hk : ∀ a b, encK a = encK b → a = b) (hr : ∀ a b, encR a = encR b → a = b) :
    ∃ cd : CodecW κ, cd.encK = encK ∧ cd.dig = dig ∧ cd.encR = encR ∧ CodecLaws cd := by
  classical
  refine ⟨{ encK := encK, dig := dig, encR := encR,
            decR := fun b => if h : ∃ r, encR r = b then some (Classical.choose h) else none }, rfl, rfl, rfl, hk, fun r => ?_⟩
  have h : ∃ r', encR r' = encR r := ⟨r, rfl⟩
  simp only [h, ↓reduceDIte, Option.some.injEq]
  exact hr _ _ (Classical.choose_spec h)

/-- the hypotheses of `recovery_cache_sound_of_history` are satisfiable together: `Good` parameters, the empty history and the
    empty store trace (non-trivial instances are the histories of the correspondence checks; every generated workspace is `WF`) -/
example (cd : CodecW ExKey) (hl : CodecLaws cd) :
    Good exGoodP ∧ C01.HistOK exGoodP ⟨fun _ => none, fun _ => none, emptyCache⟩ [] ∧
    Store.run (fun b => b) Store.init [] = some Store.init ∧ TargetWritesFrom [] (histEvs exGoodP cd 0 ⟨fun _ => none, fun _ => none, emptyCache⟩ []) :=
  ⟨exGoodP_good, trivial, rfl, fun _ _ _ _ _ h => by simp at h⟩

/-! ### the two-tier store: `RemoteWritesOK` as a theorem -/

/-- the tee `Set`s of a request sequence (both tiers store, nil returned) -/
def reqREvs (cd : CodecW κ) (p : Store.Pid) : List (Req κ) → List Remote.Ev
  | [] => []
  | .writeBlob v :: qs => .setRes p .cas (cd.dig v) ⟨v, []⟩ true true true :: reqREvs cd p qs
  | .setResult k r :: qs =>
    .setRes p .target (cd.encK k) ⟨cd.encR r, r.outs.map fun ov => cd.dig ov.2⟩ true true true :: reqREvs cd p qs
  | .getResult _ :: qs => reqREvs cd p qs
  | .loadBlob _ :: qs => reqREvs cd p qs

theorem reqREvs_mem (cd : CodecW κ) (p : Store.Pid) : ∀ (qs : List (Req κ)) (p' : Store.Pid) (ns : Store.NS) (key : Bytes) (b : Remote.Blob) (l r ok : Bool),
    Remote.Ev.setRes p' ns key b l r ok ∈ reqREvs cd p qs →
      (ns = .cas ∧ cd.dig b.content = key) ∨ (ns = .target ∧ ∃ k res, Req.setResult k res ∈ qs ∧ key = cd.encK k ∧ b.content = cd.encR res)
  | [], _, _, _, _, _, _, _, h => by simp [reqREvs] at h
  | q :: qs, p', ns, key, b, l, r, ok, h => by
    have lift : ((ns = .cas ∧ cd.dig b.content = key) ∨ (ns = .target ∧ ∃ k res, Req.setResult k res ∈ qs ∧ key = cd.encK k ∧ b.content = cd.encR res)) →
        ((ns = .cas ∧ cd.dig b.content = key) ∨ (ns = .target ∧ ∃ k res, Req.setResult k res ∈ q :: qs ∧ key = cd.encK k ∧ b.content = cd.encR res)) := by
      rintro (h' | ⟨h1, k, res, hm, h2, h3⟩)
      · exact Or.inl h'
      · exact Or.inr ⟨h1, k, res, List.mem_cons_of_mem _ hm, h2, h3⟩
    cases q with
    | writeBlob v =>
      simp only [reqREvs, List.mem_cons, Remote.Ev.setRes.injEq] at h
      rcases h with ⟨_, h1, h2, h3, _⟩ | h
      · left; subst h1; subst h2; subst h3; exact ⟨rfl, rfl⟩
      · exact lift (reqREvs_mem cd p qs p' ns key b l r ok h)
    | setResult k res =>
      simp only [reqREvs, List.mem_cons, Remote.Ev.setRes.injEq] at h
      rcases h with ⟨_, h1, h2, h3, _⟩ | h
      · right; subst h1; subst h2; subst h3; exact ⟨rfl, k, res, List.mem_cons_self, rfl, rfl⟩
      · exact lift (reqREvs_mem cd p qs p' ns key b l r ok h)
    | getResult k => simp only [reqREvs] at h; exact lift (reqREvs_mem cd p qs p' ns key b l r ok h)
    | loadBlob v => simp only [reqREvs] at h; exact lift (reqREvs_mem cd p qs p' ns key b l r ok h)

/-- every write of `es` (tee `Set`s and entries left by runs without remote cache) writes, under the same name, the content
    of a write emitted by the builds of a history -/
def RWritesFrom (es src : List Remote.Ev) : Prop :=
  (∀ p ns k b l r ok, Remote.Ev.setRes p ns k b l r ok ∈ es →
    ∃ p' b' l' r' ok', Remote.Ev.setRes p' ns k b' l' r' ok' ∈ src ∧ b'.content = b.content) ∧
  (∀ m ns k b, Remote.Ev.localSet m ns k b ∈ es →
    ∃ p' b' l' r' ok', Remote.Ev.setRes p' ns k b' l' r' ok' ∈ src ∧ b'.content = b.content)

/-- **`RemoteWritesOK` for the writes of builds.** -/
theorem rwrites_of_history {P : Params κ} (hG : Good P) (hfx : P.fx.gateChecks = true) (cd : CodecW κ) (hl : CodecLaws cd)
    (p : Store.Pid) (h : List Step) (w : World κ) (hok : C01.HistOK P w h) (hs : CacheSound P w.cache)
    (es : List Remote.Ev) (hfrom : RWritesFrom es (reqREvs cd p (histReqs P w h))) :
    RWritesSatisfy (RemoteWritesOK P cd.toCodec) es := by
  have key : ∀ p' ns k b l r ok, Remote.Ev.setRes p' ns k b l r ok ∈ reqREvs cd p (histReqs P w h) →
      RemoteWritesOK P cd.toCodec ns k b.content := by
    intro p' ns k b l r ok hm
    rcases reqREvs_mem cd p _ p' ns k b l r ok hm with ⟨h1, h2⟩ | ⟨h1, k0, res, hreq, h2, h3⟩
    · subst h1; exact ⟨fun hn => (by cases hn), fun _ => h2⟩
    · subst h1
      refine ⟨fun _ k' r' hk' hdec => ?_, fun hn => (by cases hn)⟩
      have hkk : k' = k0 := hl.encK_inj _ _ (hk'.trans h2)
      rw [h3, hl.dec_enc] at hdec
      simp only [Option.some.injEq] at hdec
      subst hkk; subst hdec
      exact histReqs_sound hG hfx h w hok hs k' res hreq
  constructor
  · intro p' ns k b l r ok hm
    obtain ⟨p2, b2, l2, r2, ok2, hm2, hc⟩ := hfrom.1 p' ns k b l r ok hm
    rw [← hc]; exact key p2 ns k b2 l2 r2 ok2 hm2
  · intro m ns k b hm
    obtain ⟨p2, b2, l2, r2, ok2, hm2, hc⟩ := hfrom.2 m ns k b hm
    rw [← hc]; exact key p2 ns k b2 l2 r2 ok2 hm2

/-- **C08.second_machine without the `RemoteWritesOK` hypothesis**: the writes of the store history are those emitted by the
    builds of a well-formed history (any machines / processes / faults / read-through fills in between). -/
theorem second_machine_of_history {P : Params κ} (hG : Good P) (hfx : P.fx.gateChecks = true)
    (cd : CodecW κ) (hl : CodecLaws cd) (hdig : ∀ a b, cd.dig a = cd.dig b → a = b)
    (cfg : Cfg) (defs : Defs) (order : List Lbl) (hwf : WF defs order) (hpl : Plain P cfg defs order)
    (wA : World κ) (hdA : wA.defs = defs) (hsA : CacheSound P wA.cache)
    (hokA : succeeded (build P cfg wA order) order = true)
    (es : List Remote.Ev) (sR : Remote.State) (hrun : Remote.run .fixed Remote.init es = some sR)
    (w0 : World κ) (hw0 : w0.cache = emptyCache) (h : List Step) (hok : C01.HistOK P w0 h) (pid : Store.Pid)
    (hfrom : RWritesFrom es (reqREvs cd pid (histReqs P w0 h)))
    (hup : ∀ l ∈ order, ∀ t ohs r, defs l = some t → depOhs (build P cfg wA order).st t.hdeps = some ohs →
      (build P cfg wA order).cache.res (P.K (keyState t (build P cfg wA order).fs ohs)) = some r →
      ∃ pre post p b lst ok, es = pre ++ Remote.Ev.setRes p .target (cd.encK (P.K (keyState t (build P cfg wA order).fs ohs))) b lst true ok :: post ∧
        (∀ e ∈ post, WritesOnly .target (cd.encK (P.K (keyState t (build P cfg wA order).fs ohs))) b e) ∧
        cd.decR b.content = some r ∧ b.refs = r.outs.map (fun ov => cd.dig ov.2))
    (mB : Remote.Mid) (hempty : ∀ ns k, sR.loc mB ns k = none)
    (hnt : ∀ l ∈ order, Remote.viewTaint sR mB l = false)
    (fsB : FS) (hsrc : ∀ p, (∀ l ∈ order, ∀ t, defs l = some t → p ∉ outPaths t) → fsB p = wA.fs p) :
    executed (build P cfg ⟨defs, fsB, viewCache cd.toCodec (Remote.viewTaint sR mB) sR mB⟩ order) = [] ∧
    succeeded (build P cfg ⟨defs, fsB, viewCache cd.toCodec (Remote.viewTaint sR mB) sR mB⟩ order) order = true ∧
    ∀ l ∈ order, ∀ t, defs l = some t → ∀ p ∈ outPaths t,
      (build P cfg ⟨defs, fsB, viewCache cd.toCodec (Remote.viewTaint sR mB) sR mB⟩ order).fs p = (build P cfg wA order).fs p :=
  second_machine hG cd.toCodec hdig cfg defs order hwf hpl wA hdA hsA hokA es sR hrun
    (rwrites_of_history hG hfx cd hl pid h w0 hok (by rw [hw0]; exact C01.cacheSound_empty P) es hfrom)
    hup mB hempty hnt fsB hsrc

end Grog.Compose
