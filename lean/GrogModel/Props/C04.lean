/-
  C04 — every build terminates with every selected target resolved.
  Property theorems only. Models: GrogModel/Walker.lean (graph_walker.go after the repair of
  F-register), Grog.WalkerOld (before the repair; regression witness), GrogModel/ErrChan.lean
  (error channel of DirectoryOutputHandler.Load, before and after the repair of F-errchan).
  Helper lemmas: Lemmas/WalkerLive.lean, Lemmas/WalkerMeasure.lean, Lemmas/ErrChan.lean.
-/
import GrogModel.Lemmas.WalkerLive
import GrogModel.Lemmas.WalkerMeasure
import GrogModel.Lemmas.WalkerExamples
import GrogModel.Lemmas.ErrChan
import GrogModel.Lemmas.Pool
namespace Grog.C04
open Grog.Walker

/-- Deadlock freedom, for every acyclic graph, closed selection, failure pattern, failure mode,
    cancellation point and schedule: a reachable state in which no event of the walker is enabled
    (no callback can be entered or return, no `onComplete`, cancel delivery, routine exit or return
    of `Walk` is possible) is final: `Walk` has returned and every selected node is `ok`, `failed`,
    `exited` (skipped) or `aborted` (interrupted). So the walker never waits forever on a target
    that can no longer run. -/
theorem stuck_all_terminal {c : Cfg} {s : State} (ok : CfgOK c) (h : Reach c s)
    (q : Quiescent c s) :
    s.retErr.isSome = true ∧ ∀ n, n ∈ c.sel → (s.phase n).terminal = true :=
  quiescent_final ok (reach_inv ok h) q

/-- such quiescent reachable states exist: keep-going, node 0 failed, node 1 skipped, Walk returned -/
example : Reach (Ex.chain2 false) (Ex.after (Ex.chain2 false) Ex.failedRun) ∧
    Quiescent (Ex.chain2 false) (Ex.after (Ex.chain2 false) Ex.failedRun) := by
  refine ⟨Ex.reach_after (by decide), ?_⟩
  have hp0 : (Ex.after (Ex.chain2 false) Ex.failedRun).phase 0 = .failed := by decide
  have hp1 : (Ex.after (Ex.chain2 false) Ex.failedRun).phase 1 = .exited := by decide
  have hr : (Ex.after (Ex.chain2 false) Ex.failedRun).retErr = some false := by decide
  have hpend : ∀ n, (Ex.after (Ex.chain2 false) Ex.failedRun).pend n = false := by
    intro n; simp [Ex.after, Ex.failedRun, run, step, Ex.chain2, init, completeFail, Walker.set, allTerminal, Phase.terminal]
  have hsel : ∀ n, n ∈ (Ex.chain2 false).sel → n = 0 ∨ n = 1 := by simp [Ex.chain2]
  intro e he
  cases hs : step (Ex.chain2 false) (Ex.after (Ex.chain2 false) Ex.failedRun) e with
  | none => rfl
  | some s' =>
    exfalso
    cases e with
    | ctxCancel => exact he rfl
    | wake n => obtain ⟨g, hp, _⟩ := step_wake.mp hs; rcases hsel n g with rfl | rfl <;> simp_all
    | exit n => obtain ⟨g, hp, _⟩ := step_exit.mp hs; rcases hsel n g with rfl | rfl <;> simp_all
    | cbReturn n r => obtain ⟨g, hp, _⟩ := step_cbReturn.mp hs; rcases hsel n g with rfl | rfl <;> simp_all
    | complete n =>
      obtain ⟨g, hh⟩ := step_complete.mp hs
      rcases hsel n g with rfl | rfl <;> rcases hh with ⟨hp, _⟩ | ⟨hp, _⟩ <;> simp_all
    | deliverCancel n => obtain ⟨g, hp, _⟩ := step_deliverCancel.mp hs; simp [hpend] at hp
    | walkReturn b => obtain ⟨g, _⟩ := step_walkReturn.mp hs; simp [hr] at g

/-- Termination: every event strictly decreases a natural-number measure (for every state, reachable
    or not), so there is no infinite run — given that entered callbacks return, which is the only
    progress the walker does not control. -/
theorem terminates {c : Cfg} {s s' : State} {e : Ev} (h : step c s e = some s') :
    measure c s' < measure c s :=
  measure_step h

/-- hence the length of any run from the initial state is bounded by `5·|selection| + 3` -/
theorem run_length_bounded {c : Cfg} {s' : State} (tr : List Ev) (h : run c (init c) tr = some s') :
    tr.length ≤ 5 * c.sel.length + 3 := by
  have := run_length_le tr h
  rw [measure_init] at this
  omega

example : (run (Ex.chain2 false) (init (Ex.chain2 false)) Ex.okRun).isSome = true ∧ Ex.okRun.length = 7 := by decide

/-- the diamond: the four runs of `Lemmas/WalkerExamples.lean` (all ok with 1 ∥ 2; keep-going failure; fail-fast; interrupt with one
    aborting and one ignoring callback) are accepted, within the bound 5·4+3, and the measure drops from 23 along them -/
example : (run (Ex.diamond false) (init (Ex.diamond false)) Ex.diamondOkRun).isSome = true ∧ Ex.diamondOkRun.length = 13 ∧
    (run (Ex.diamond true) (init (Ex.diamond true)) Ex.diamondFfRun).isSome = true ∧ Ex.diamondFfRun.length = 12 ∧
    (run (Ex.diamond false) (init (Ex.diamond false)) Ex.diamondIntRun).isSome = true ∧
    measure (Ex.diamond false) (init (Ex.diamond false)) = 23 ∧
    measure (Ex.diamond false) (Ex.after (Ex.diamond false) Ex.diamondFailRun) < 23 := by decide

/-- Progress: from every reachable state there is a finite continuation (of walker events only — no
    further interrupt is needed) that ends with `Walk` returned and every selected node resolved.
    Together with `terminates` (no infinite run) and `stuck_all_terminal` (no premature stop): every
    maximal run of the walker is finite and ends in such a final state. -/
theorem can_always_finish {c : Cfg} {s : State} (ok : CfgOK c) (h : Reach c s) :
    ∃ tr s', run c s tr = some s' ∧ s'.retErr.isSome = true ∧
      ∀ n, n ∈ c.sel → (s'.phase n).terminal = true := by
  obtain ⟨tr, s', hr, hq⟩ := exists_run_to_quiescent c (measure c s) s (Nat.le_refl _)
  have hreach : Reach c s' := Ex.reach_of_run tr h hr
  have := quiescent_final ok (reach_inv ok hreach) hq
  exact ⟨tr, s', hr, this.1, this.2⟩

/-- A callback that returns an error other than `context.Canceled` — a non-zero exit, a failing check, a
    target that exceeded its own `timeout:` (even if that error wraps `context.DeadlineExceeded`) — is always
    resolved: its `onComplete` is enabled right away and records the node as `failed`. Only a callback that
    reports the cancellation of the walk is left without a completion. -/
theorem failure_always_completes {c : Cfg} {s s' : State} {n : Node}
    (h : step c s (.cbReturn n .fail) = some s') :
    ∃ s'', step c s' (.complete n) = some s'' ∧ s''.phase n = .failed := by
  obtain ⟨hsel, _, hr⟩ := step_cbReturn.mp h
  rcases hr with ⟨hk, _⟩ | ⟨_, rfl⟩ | ⟨hk, _⟩ | ⟨hk, _⟩
  · cases hk
  · refine ⟨completeFail c _ n, step_complete.mpr ⟨hsel, Or.inr ⟨by simp [Walker.set], rfl⟩⟩, ?_⟩
    simp [Walker.set]
  · cases hk
  · cases hk

example : (step (Ex.chain2 false) (Ex.after (Ex.chain2 false) [.wake 0]) (.cbReturn 0 .fail)).isSome = true := by decide

/-- A callback error that wraps `context.Canceled` while the walk context is alive (a context of the callback's own: a cache
    client, a tool) is an ordinary failure: the node gets its `onComplete` and ends `failed`, so its dependants are
    cancelled (keep-going) or everything is (fail-fast). No hypothesis on the callbacks is needed for deadlock freedom. -/
theorem spurious_cancel_is_a_failure {c : Cfg} {s s' : State} {n : Node} (hc : s.ctx = false)
    (h : step c s (.cbReturn n .cancelled) = some s') :
    s'.phase n = .returned false ∧ ∃ s'', step c s' (.complete n) = some s'' ∧ s''.phase n = .failed := by
  obtain ⟨hsel, _, hr⟩ := step_cbReturn.mp h
  rcases hr with ⟨hk, _⟩ | ⟨hk, _⟩ | ⟨_, hc', _⟩ | ⟨_, _, rfl⟩
  · cases hk
  · cases hk
  · rw [hc] at hc'; cases hc'
  · refine ⟨by simp [Walker.set], completeFail c _ n, step_complete.mpr ⟨hsel, Or.inr ⟨by simp [Walker.set], rfl⟩⟩, ?_⟩
    simp [Walker.set]

example : (step (Ex.chain2 false) (Ex.after (Ex.chain2 false) [.wake 0]) (.cbReturn 0 .cancelled)).isSome = true ∧
    (Ex.after (Ex.chain2 false) [.wake 0]).ctx = false := by decide

/-- Regression witness (walker before d5650b9, reported by the check as `walker-hang` when a failing callback returns an error
    wrapping context.Canceled under a live context): node 0 is left `aborted` without a completion, node 1 stays parked with
    neither a ready nor a cancel message, the context is not cancelled: no event of the walker is enabled and `Walk` has not
    returned — it waits forever. With the repaired rule the same callback error leads to a final state. -/
theorem spurious_cancel_hang_witness_old :
    let c := Ex.chain2 false
    let s := cbReturnCancelledOld (Ex.after c [.wake 0]) 0
    quiescentB c s = true ∧ s.retErr = none ∧ s.phase 1 = .parked ∧ s.ctx = false ∧
    ((run c (init c) [.wake 0, .cbReturn 0 .cancelled, .complete 0, .exit 1, .walkReturn false]).map
        (fun s => (s.phase 0, s.phase 1, s.retErr.isSome))) = some (.failed, .exited, true) := by
  decide

/-- With a cancelled context: when `Walk` returns through the wait group every selected node is completed (`ok` / `failed`),
    skipped (`exited`) or interrupted (`aborted`, only under a cancelled context), and the returned map is the snapshot. -/
theorem completions_cover_cancelled {c : Cfg} {s s' : State} (ok : CfgOK c) (h : Reach c s)
    (hr : step c s (.walkReturn false) = some s') :
    (∀ n, n ∈ c.sel → s.phase n = .ok ∨ s.phase n = .failed ∨ s.phase n = .exited ∨ (s.phase n = .aborted ∧ s.ctx = true)) ∧
    s'.snap = s.phase := by
  have inv := reach_inv ok h
  obtain ⟨_, hh⟩ := step_walkReturn.mp hr
  rcases hh with ⟨hb, _⟩ | ⟨_, hall, rfl⟩
  · simp at hb
  · refine ⟨?_, rfl⟩
    intro n hn
    have ht := allTerminal_iff.mp hall n hn
    cases hp : s.phase n <;> simp_all [Phase.terminal]
    exact inv.abortedCtx n hp

/-- When `Walk` returns through the wait group without cancellation, every selected node is in the
    completion map (`ok` / `failed`) or was skipped (`exited`) below a failed transitive dependency;
    the returned map is the snapshot of exactly these phases. -/
theorem completions_cover {c : Cfg} {s s' : State} (ok : CfgOK c) (h : Reach c s)
    (hr : step c s (.walkReturn false) = some s') (hc : s.ctx = false) :
    (∀ n, n ∈ c.sel → s.phase n = .ok ∨ s.phase n = .failed ∨
        (s.phase n = .exited ∧ ∃ a, Anc c a n ∧ s.phase a = .failed)) ∧
    s'.snap = s.phase := by
  have inv := reach_inv ok h
  obtain ⟨_, hh⟩ := step_walkReturn.mp hr
  rcases hh with ⟨hb, _⟩ | ⟨_, hall, rfl⟩
  · simp at hb
  · refine ⟨?_, rfl⟩
    intro n hn
    have ht := allTerminal_iff.mp hall n hn
    cases hp : s.phase n <;> simp_all [Phase.terminal]
    · exact inv.exitedWhy hc n hp
    · have := inv.abortedCtx n hp; simp_all

example : (step (Ex.chain2 false) (Ex.after (Ex.chain2 false) [.wake 0, .cbReturn 0 .fail, .complete 0, .exit 1])
    (.walkReturn false)).isSome = true := by decide

/-- `Walk` can always return once every routine is finished, and at any time after the context is
    cancelled (it does not wait for callbacks that ignore the cancellation). -/
theorem walk_return_enabled {c : Cfg} {s : State} (hr : s.retErr = none)
    (h : s.ctx = true ∨ allTerminal c s.phase = true) :
    ∃ b s', step c s (.walkReturn b) = some s' := by
  rcases h with h | h
  · exact ⟨true, _, step_walkReturn.mpr ⟨hr, Or.inl ⟨rfl, h, rfl⟩⟩⟩
  · exact ⟨false, _, step_walkReturn.mpr ⟨hr, Or.inr ⟨rfl, h, rfl⟩⟩⟩

/-- Directory restore: with the repaired protocol (first error kept, non-blocking send) — or with a
    blocking channel that has room for every error — a state without enabled event is one in which
    `Load` has returned; for all numbers of files and all failing subsets. -/
theorem errchan_no_deadlock {c : ErrChan.Cfg} {s : ErrChan.State} (g : ErrChan.Good c)
    (h : ErrChan.Reach c s) (hst : ErrChan.stuck c s = true) : ∃ b, s.cons = .returned b :=
  ErrChan.stuck_returned g (ErrChan.reach_inv g h) hst

example : ErrChan.Good { nOk := 2, nFail := 3, cap := 1, drop := true } := Or.inl ⟨rfl, by decide⟩

/-- and `Load` returns an error exactly when some download failed -/
theorem errchan_reports_failure {c : ErrChan.Cfg} {s : ErrChan.State} (g : ErrChan.Good c)
    (h : ErrChan.Reach c s) {b : Bool} (hb : s.cons = .returned b) : b = true ↔ 0 < c.nFail :=
  (ErrChan.reach_inv g h).j3 b hb

/-- every step of the restore protocol decreases a measure -/
theorem errchan_terminates {c : ErrChan.Cfg} {s s' : ErrChan.State} {e : ErrChan.Ev}
    (h : ErrChan.step c s e = some s') : ErrChan.measure s' < ErrChan.measure s :=
  ErrChan.measure_step h

/-- Regression witness (code before the repair of F-errchan): a flat directory (no child directory,
    so capacity 0) with one file whose blob is unreadable: the producer blocks in its send, the
    consumer in `waitGroup.Wait()`: no event is enabled and `Load` has not returned. Replayed on the
    real code by the check (`restore.load` with files=[a.txt], missing=[a.txt]). -/
theorem errchan_deadlock_witness :
    ErrChan.stuck { nOk := 0, nFail := 1, cap := 0, drop := false }
      (ErrChan.init { nOk := 0, nFail := 1, cap := 0, drop := false }) = true ∧
    (ErrChan.init { nOk := 0, nFail := 1, cap := 0, drop := false }).cons = .waiting := by decide

/-- in general: with blocking sends, every configuration in which more downloads fail than the channel
    has room for reaches a state without enabled event in which `Load` has not returned -/
theorem errchan_deadlock_general (c : ErrChan.Cfg) (hd : c.drop = false) (hlt : c.cap < c.nFail) :
    ∃ s, ErrChan.Reach c s ∧ ErrChan.stuck c s = true ∧ s.cons = .waiting :=
  ⟨_, ErrChan.reach_full hd hlt, ErrChan.stuck_full hd hlt, rfl⟩

example : (⟨3, 2, 1, false⟩ : ErrChan.Cfg).cap < (⟨3, 2, 1, false⟩ : ErrChan.Cfg).nFail := by decide

/-- the same with one child directory (capacity 1) and two failing files, after the first send -/
theorem errchan_deadlock_witness2 :
    (ErrChan.run { nOk := 1, nFail := 2, cap := 1, drop := false }
      (ErrChan.init { nOk := 1, nFail := 2, cap := 1, drop := false }) [.okDone, .failSend]).map
      (fun s => (ErrChan.stuck { nOk := 1, nFail := 2, cap := 1, drop := false } s, s.cons))
    = some (true, .waiting) := by decide

/-- Regression witness (walker before the repair of F-register): node 1 depends on node 0; node 0 is
    registered, runs and completes before node 1 is registered, so `startNode(1)` finds no entry and
    the wake-up is lost; after node 1 is registered no event is enabled, node 1 is still parked and
    `Walk` cannot return. Replayed on the real code by the synctest harness (root with dependants,
    zero-latency callbacks). -/
theorem lost_wakeup_witness :
    (WalkerOld.run (Ex.chain2 false) WalkerOld.init
        [.register 0, .wake 0, .finishOk 0, .register 1]).map
      (fun s => (WalkerOld.stuck (Ex.chain2 false) s, s.phase 1, s.reg 1))
    = some (true, .parked, true) := by decide

/-- "Entered callbacks return" — the pool half: while the pool's context is alive (no interrupt), in every reachable state of
    the pool model with at least one worker a job waiting in the channel never waits in vain: a worker can take it, or a busy
    worker can end its command / finish its task (and thereby free a slot). Together with `Pool.measure`-free reasoning this is
    deadlock freedom of `TaskWorkerPool.Run` for an uncancelled build; commands are assumed to end (timeouts, C14). -/
theorem pool_no_deadlock {w : Nat} {s : Pool.State} (h : Pool.Reach w s) (hw : 0 < w) (hp : s.poolCtx = false)
    (hq : s.queue ≠ []) :
    ∃ i, (Pool.step s (.take i)).isSome = true ∨ (Pool.step s (.cmdEnd i)).isSome = true ∨ (Pool.step s (.done i)).isSome = true :=
  Pool.pool_progress h hw hp hq

example : ∃ s, Pool.Reach 1 s ∧ s.queue = [8] ∧ s.poolCtx = false := by
  have h0 : Pool.Reach 1 (Pool.init 1) := Pool.Reach.init
  have h1 := Pool.Reach.step h0 (e := .enqueue 7) (s' := _) rfl
  have h2 := Pool.Reach.step h1 (e := .take 0) (s' := _) rfl
  have h3 := Pool.Reach.step h2 (e := .enqueue 8) (s' := _) rfl
  exact ⟨_, h3, rfl, rfl⟩

/-- …and what the interrupt does to that guarantee (the reason the walker must not wait for callbacks after a cancellation):
    one worker; job 7 is running, job 8 waits in the channel; the pool context is cancelled; the worker finishes job 7 and
    leaves through `ctx.Done()`. Job 8 is stranded: no pool event can ever serve it, its `Run` call never returns.
    `Walk` returns nevertheless (`C18.walk_returns`), which is why grog exits. -/
theorem pool_stranded_witness :
    (Pool.step (Pool.init 1) (.enqueue 7)).bind (fun s => (Pool.step s (.take 0)).bind (fun s => (Pool.step s (.enqueue 8)).bind
      (fun s => (Pool.step s .poolCancel).bind (fun s => (Pool.step s (.done 0)).bind (fun s => Pool.step s (.workerExit 0))))))
    = some { workers := [.exited], queue := [8], closed := true, taskCtx := true, poolCtx := true, finished := [7] } ∧
    ∀ i, Pool.step { workers := [.exited], queue := [8], closed := true, taskCtx := true, poolCtx := true, finished := [7] } (.take i) = none := by
  refine ⟨by decide, ?_⟩
  intro i
  cases i <;> simp [Pool.step]

end Grog.C04
