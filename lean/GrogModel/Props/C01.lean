/-
  C01 — incremental builds equal clean builds for every edit history; a cached result is never served to
  a different state.
  Model: GrogModel/Exec.lean, GrogModel/Build.lean. Helper lemmas: Lemmas/BuildBasic.lean, Lemmas/BuildInv.lean.
  Hypotheses (named): `Good P` = key injective (C09), commands write exactly the outputs they name and nothing
  else (the property's premise); `WF defs order` = the processed order is duplicate-free, dependency-closed and
  topological, output paths pairwise distinct, resolved inputs and check files disjoint from declared outputs,
  the hasher sees the dependencies the command reads (aliases resolved — the repaired code).
-/
import GrogModel.Props.C15
import GrogModel.Lemmas.BuildInv
import GrogModel.DirVal
set_option linter.unusedSectionVars false
set_option linter.unusedVariables false
namespace Grog.C01
open Grog Grog.Exec Grog.Build

variable {κ : Type} [DecidableEq κ]

/-- the builds of a history this file speaks about: mode `all`, well-formed order -/
def StepOK (w : World κ) : Step → Prop
  | .build cfg order => cfg.minimal = false ∧ WF w.defs order
  | _ => True

def HistOK (P : Params κ) : World κ → List Step → Prop
  | _, [] => True
  | w, st :: rest => StepOK w st ∧ HistOK P (step P w st) rest

theorem taintAll_res (c : Cache κ) (ls : List Lbl) : (taintAll c ls).res = c.res := by
  induction ls generalizing c with
  | nil => rfl
  | cons l ls ih => simp only [taintAll]; rw [ih]

/-- one history step preserves cache soundness -/
theorem cacheSound_step {P : Params κ} (hG : Good P) (hfx : P.fx.gateChecks = true) (w : World κ) (st : Step)
    (hok : StepOK w st) (hs : CacheSound P w.cache) : CacheSound P (step P w st).cache := by
  cases st with
  | edit defs ws => exact hs
  | taint ls => intro k r hr; apply hs k r; simpa [step, taintAll_res] using hr
  | dropBlob v => intro k r hr; exact hs k r hr
  | build cfg order =>
    obtain ⟨hm, hwf⟩ := hok
    have h0 := inv_start (P := P) (defs := w.defs) (order := order) w hs w.fs (fun _ _ => rfl)
    exact (run_inv hG hfx hm hwf (fuelFor order) (start w) _ h0).sound

/-- **cacheSound_preserved.** The invariant "every stored result is what `Sem.run` returns on the view its key
    encodes" holds for the empty cache and is preserved by every step of every history: edits of definitions and
    sources, arbitrary tampering with files at output paths, taints, lost blobs, and builds (successful or failed)
    with any flags over any well-formed topological order. -/
theorem cacheSound_preserved {P : Params κ} (hG : Good P) (hfx : P.fx.gateChecks = true) (h : List Step) (w : World κ)
    (hok : HistOK P w h) (hs : CacheSound P w.cache) : CacheSound P (runHistory P w h).cache := by
  induction h generalizing w with
  | nil => exact hs
  | cons st rest ih =>
    simp only [runHistory, List.foldl_cons]
    exact ih (step P w st) hok.2 (cacheSound_step hG hfx w st hok.1 hs)

theorem cacheSound_empty (P : Params κ) : CacheSound P emptyCache := by
  intro k r hr; simp [emptyCache] at hr

/-- C15's lock-step histories (every build well-formed, no lost blob; `Build.HistOK`) are histories of this file once every
    build is run in mode `all` -/
theorem histOK_of_lockstep (P : Params κ) (outP : Path → Prop) : ∀ (h : List Step) (w : World κ),
    Build.HistOK outP w.defs h → HistOK P w (forceMode false h)
  | [], _, _ => trivial
  | .edit d ws :: h, w, hH => ⟨trivial, histOK_of_lockstep P outP h (step P w (.edit d ws)) hH⟩
  | .taint ls :: h, w, hH => ⟨trivial, histOK_of_lockstep P outP h (step P w (.taint ls)) hH⟩
  | .dropBlob _ :: _, _, hH => hH.elim
  | .build c o :: h, w, hH => ⟨⟨rfl, hH.1.wf⟩, histOK_of_lockstep P outP h (step P w (.build { c with minimal := false } o)) hH.2⟩

/-- **cacheSound_preserved_minimal.** Histories whose builds run with `load_outputs=minimal` (any other flags): the cache stays
    sound as well — the minimal run of a lock-step history leaves exactly the cache the mode-`all` run of the same history
    leaves (`Build.history_wrel`). Hypotheses of the lock step: well-formed builds, no lost blob, every blob named by the
    starting cache present (`CasOK`), the repairs `minValidate` / `rerunOnce` / `loadFault`. -/
theorem cacheSound_preserved_minimal {P : Params κ} (hG : Good P) (hgc : P.fx.gateChecks = true) (hfx : P.fx.minValidate = true)
    (hro : P.fx.rerunOnce = true) (hlf : P.fx.loadFault = true) (outP : Path → Prop) (h : List Step) (w : World κ)
    (hcas : CasOK w.cache) (hH : Build.HistOK outP w.defs h) (hs : CacheSound P w.cache) :
    CacheSound P (runHistory P w (forceMode true h)).cache := by
  obtain ⟨hW, _⟩ := history_wrel hG hfx hro hlf h w w ⟨rfl, rfl, fun _ _ => rfl, hcas⟩ hH
  rw [← hW.cache]
  exact cacheSound_preserved hG hgc (forceMode false h) w (histOK_of_lockstep P outP h w hH) hs

/-- a non-trivial history satisfying the hypotheses: edit, build of the empty order, taint -/
example (P : Params Nat) : HistOK P ⟨fun _ => none, fun _ => none, emptyCache⟩
    [.edit (fun _ => none) [([1], some [2])], .build ⟨true, false⟩ [], .taint [[3]]] := by
  refine ⟨trivial, ⟨rfl, ?_⟩, trivial, trivial⟩
  exact ⟨List.nodup_nil, fun l hl => by simp at hl, fun l t h => by simp [step] at h,
    fun l hl => by simp at hl, fun pre l suf h => by simp at h, fun l hl => by simp at hl, fun l hl => by simp at hl,
    fun l hl => by simp at hl⟩

/-- the same with a non-empty order: an edit that introduces a target with an output, a build of it, a taint, the build again -/
example (P : Params Nat) : HistOK P ⟨fun _ => none, fun _ => none, emptyCache⟩
    [.edit C15.exDefs [([5], some [7])], .build ⟨true, false⟩ [[1]], .taint [[1]], .build ⟨true, false⟩ [[1]]] :=
  ⟨trivial, ⟨rfl, C15.exBuildOK.wf⟩, trivial, ⟨rfl, C15.exBuildOK.wf⟩, trivial⟩

/-- **build_sim** (simulation between any two sound caches). Two builds of the same definitions over the same
    order, from any two sound caches and any two workspaces that agree outside the declared output paths
    (so: any tampering with output paths, any mix of restored / stale / missing outputs), give the same verdict
    for every target and, for every target that succeeds, the same bytes at every declared output. -/
theorem build_sim {P : Params κ} (hG : Good P) (hfx : P.fx.gateChecks = true) (cfg₁ cfg₂ : Cfg)
    (hm₁ : cfg₁.minimal = false) (hm₂ : cfg₂.minimal = false)
    (defs : Defs) (order : List Lbl) (hwf : WF defs order) (w₁ w₂ : World κ) (hd₁ : w₁.defs = defs) (hd₂ : w₂.defs = defs)
    (hs₁ : CacheSound P w₁.cache) (hs₂ : CacheSound P w₂.cache)
    (hag : ∀ p, (∀ l ∈ order, ∀ t, defs l = some t → p ∉ outPaths t) → w₁.fs p = w₂.fs p) :
    let s₁ := build P cfg₁ w₁ order
    let s₂ := build P cfg₂ w₂ order
    (∀ l ∈ order, (∃ ts, s₁.st l = some ts ∧ ts.ok = true) ↔ (∃ ts, s₂.st l = some ts ∧ ts.ok = true)) ∧
    (∀ l ∈ order, (∃ ts, s₁.st l = some ts ∧ ts.ok = true) → ∀ t, defs l = some t → ∀ p ∈ outPaths t, s₁.fs p = s₂.fs p) := by
  intro s₁ s₂
  subst hd₁
  have h1 := run_inv hG hfx hm₁ hwf (fuelFor order) (start w₁) _
    (inv_start (P := P) (defs := w₁.defs) (order := order) w₁ hs₁ w₁.fs (fun _ _ => rfl))
  have h2 := run_inv hG hfx hm₂ hwf (fuelFor order) (start w₂) _
    (inv_start (P := P) (defs := w₁.defs) (order := order) w₂ hs₂ w₁.fs (fun p hp => (hag p hp).symm))
  have e2 : s₂ = run P cfg₂ w₁.defs (fuelFor order) order (start w₂) := by simp only [s₂, build, hd₂]
  refine ⟨fun l hl => ?_, fun l hl hok t ht p hp => ?_⟩
  · rw [e2]; exact (h1.okIff l hl).trans (h2.okIff l hl).symm
  · have hc := (h1.okIff l hl).1 hok
    have e1 : s₁ = run P cfg₁ w₁.defs (fuelFor order) order (start w₁) := rfl
    rw [e1, e2, h1.fsOut l hl hc t ht p hp, h2.fsOut l hl hc t ht p hp]

/-- **build_eq_clean.** From any sound cache (every cache reachable from the empty one is sound:
    `cacheSound_preserved`) and any content at the output paths, a build in mode `all` succeeds exactly when the
    cache-free specification (`Spec.clean`: run every command on its inputs and the specification's own dependency
    outputs; no cache, no prior outputs needed) succeeds, and then every declared output of every processed target
    is byte-identical to the specification's. -/
theorem build_eq_clean {P : Params κ} (hG : Good P) (hfx : P.fx.gateChecks = true) (cfg : Cfg) (hm : cfg.minimal = false)
    (w : World κ) (order : List Lbl) (hwf : WF w.defs order) (hs : CacheSound P w.cache) (fs0 : FS)
    (hag : ∀ p, (∀ l ∈ order, ∀ t, w.defs l = some t → p ∉ outPaths t) → w.fs p = fs0 p) :
    let s := build P cfg w order
    let c := Spec.clean P.run w.defs fs0 order
    (succeeded s order = true ↔ ∀ l ∈ order, c.ok l = some true) ∧
    (succeeded s order = true → ∀ l ∈ order, ∀ t, w.defs l = some t → ∀ p ∈ outPaths t, s.fs p = c.fs p) := by
  intro s c
  have hI := run_inv hG hfx hm hwf (fuelFor order) (start w) _
    (inv_start (P := P) (defs := w.defs) (order := order) w hs fs0 hag)
  have hsucc : succeeded s order = true ↔ ∀ l ∈ order, ∃ ts, s.st l = some ts ∧ ts.ok = true := by
    simp only [succeeded, List.all_eq_true]
    constructor
    · intro h l hl
      have := h l hl
      split at this
      · rename_i ts hts; exact ⟨ts, hts, this⟩
      · cases this
    · intro h l hl
      obtain ⟨ts, hts, hk⟩ := h l hl
      simp [hts, hk]
  refine ⟨?_, fun h l hl t ht p hp => ?_⟩
  · rw [hsucc]
    constructor
    · intro h l hl; exact (hI.okIff l hl).1 (h l hl)
    · intro h l hl; exact (hI.okIff l hl).2 (h l hl)
  · exact hI.fsOut l hl ((hI.okIff l hl).1 ((hsucc.1 h) l hl)) t ht p hp

/-- **hit_same_state.** Whenever the decision serves a stored result, the key-state that produced it is the
    current one: same label, command, (path, content) pairs of the resolved inputs, declared outputs, dependency
    output hashes, fingerprint and platform — and the served outputs are what the command returns on the view
    that state encodes. -/
theorem hit_same_state {P : Params κ} (hG : Good P) (cfg : Cfg) (t : Target) (ohs : List (OH κ)) (s s1 : BState κ)
    (hs : CacheSound P s.cache) (hhit : tryHit P cfg t (P.K (keyState t s.fs ohs)) s = some s1) :
    ∃ (r : Result κ) (ks : KeyState κ) (nc : Bool), s.cache.res (P.K (keyState t s.fs ohs)) = some r ∧
      r = mkRes nc ks (P.K ks) (P.run ks.cmd (viewOf ks)).outs ∧
      ks.label = t.label ∧ ks.cmd = t.cmd ∧ ks.inputs = t.inputs.map (fun p => (p, s.fs p)) ∧ ks.outs = t.outs ∧
      ks.deps = t.hdeps.zip ohs ∧ ks.fp = t.fp ∧ ks.plat = t.plat := by
  unfold tryHit at hhit
  split at hhit
  · cases hhit
  · rename_i r hr
    obtain ⟨ks, hK, _, _, nc, hres⟩ := hs _ r hr
    have := hG.inj _ _ hK
    subst this
    exact ⟨r, _, nc, hr, hres, rfl, rfl, rfl, rfl, rfl, rfl, rfl⟩

/-- the hypothesis "restore writes exactly the stored value" refined for directory outputs as sets of entries:
    removing the destination first makes the restore exact, while a restore that keeps what is there leaves stale
    entries behind (which a dependant would then read). -/
theorem dir_restore_exact_and_stale_witness :
    (∀ (cur : Option DirVal.Tree) (stored : DirVal.Tree), DirVal.restoreDir cur stored = stored) ∧
    (∃ (cur stored : DirVal.Tree), DirVal.restoreInPlace (some cur) stored ≠ stored) :=
  ⟨DirVal.restoreDir_exact, by obtain ⟨c, s, h, _⟩ := DirVal.restoreInPlace_keeps_stale; exact ⟨c, s, h⟩⟩

/-- **alias_skipped_witness** (regression, F-alias). If the hasher does not see a dependency the command reads
    (`hdeps` omits it — the unrepaired code skipped in-edges that are aliases) the key is the same for two
    workspaces in which that dependency's output differs, whatever the key function is: a result stored for the
    one is served for the other although the command would read different bytes. -/
theorem alias_skipped_witness :
    ∃ (defs : Defs) (t : Target) (fs₁ fs₂ : FS), (∃ d ∈ t.deps, d ∉ t.hdeps) ∧ viewAt defs t fs₁ ≠ viewAt defs t fs₂ ∧
      ∀ (κ : Type) (P : Params κ) (st : Lbl → Option (TStat κ)) (ohs : List (OH κ)), depOhs st t.hdeps = some ohs →
        P.K (keyState t fs₁ ohs) = P.K (keyState t fs₂ ohs) := by
  let d : Target := mkT [100] [⟨false, [111]⟩] [] false
  let t : Target := { mkT [116] [] [] false [[100]] with hdeps := [] }
  refine ⟨fun l => if l = [100] then some d else none, t, fun _ => some [1], fun _ => some [2], ⟨[100], by simp [t, mkT], by simp [t]⟩, ?_, ?_⟩
  · simp [viewAt, t, d, mkT, outPathsOf]
  · intro κ P st ohs _; rfl

end Grog.C01
