/-
  Composition C09 → C01/C02: the build theorems for the *real* cache key.

  `Build.Good` demands a key that is injective on all key-states. The real key (`Hash.key`, C09.key_eq_iff) is
  injective only up to the canonical form (order / duplicates of inputs, order of outputs, dependency hashes and
  fingerprint entries) and only on states whose hashed components are shorter than 2^64 bytes. `Build.GoodK`
  (Lemmas/BuildInv.lean) asks for exactly what the proofs use: on *admissible* key-states equal keys force the same
  label, "has outputs" and the same result of the command. This file
    (A) restates the history-level theorems of C01 / C02 for `GoodK`,
    (B) defines `render : Exec.KeyState Bytes → Grog.KeyState` and proves `GoodK` for `K := key H ∘ render` from
        `C09.key_eq_iff`,
    (C) instantiates (A) with (B).
  Remaining hypotheses of (B), all named in `RealKey`: the hash function `H` is injective and its digests contain no
  `_` (as in C09); an output-hash string is shorter than 2^64 bytes (a digest); the renderings (command text, output-hash
  string of a dependency) do not collide ON WHAT OCCURS (`Universe`: the targets, file contents and dependency output
  hashes of the histories under consideration) and the command's result does not depend on the order / duplicates in which
  inputs and dependencies are listed (`runCongr`); output hashes produced from what occurs occur (`closed`); commands
  write exactly the outputs they name and nothing else. `exRealKey` is an instance with a command that copies the content
  of its dependency, `ex_build_succeeds` a two-target build over it that succeeds.
-/
import GrogModel.Lemmas.BuildNoop
import GrogModel.Props.C09
set_option linter.unusedSectionVars false
set_option linter.unusedVariables false
set_option linter.unusedSimpArgs false
namespace Grog.Compose
open Grog Grog.Exec Grog.Build

/-! ## (A) history-level theorems for `GoodK` -/
section general
variable {κ : Type} [DecidableEq κ]

/-- the builds of a history the theorems speak about: mode `all`, well-formed order, admissible targets and inputs -/
def StepOKK (A : AdmSpec κ) (w : World κ) : Step → Prop
  | .build cfg order => cfg.minimal = false ∧ WF w.defs order ∧ (∀ l ∈ order, ∀ t, w.defs l = some t → A.tgt t) ∧
      InOk A w.defs order w.fs
  | _ => True

def HistOKK (P : Params κ) (A : AdmSpec κ) : World κ → List Step → Prop
  | _, [] => True
  | w, st :: rest => StepOKK A w st ∧ HistOKK P A (step P w st) rest

theorem taintAll_res (c : Cache κ) (ls : List Lbl) : (taintAll c ls).res = c.res := by
  induction ls generalizing c with
  | nil => rfl
  | cons l ls ih => simp only [taintAll]; rw [ih]

theorem cacheSoundK_step {P : Params κ} {A : AdmSpec κ} (hG : GoodK P A) (hfx : P.fx.gateChecks = true) (w : World κ) (st : Step)
    (hok : StepOKK A w st) (hs : CacheSoundK P A w.cache) : CacheSoundK P A (step P w st).cache := by
  cases st with
  | edit defs ws => exact hs
  | taint ls => intro k r hr; apply hs k r; simpa [step, taintAll_res] using hr
  | dropBlob v => intro k r hr; exact hs k r hr
  | build cfg order =>
    obtain ⟨hm, hwf, hT, hin⟩ := hok
    have h0 := inv_startK (P := P) (A := A) (defs := w.defs) (order := order) w hs w.fs (fun _ _ => rfl) hin
    exact (run_invK hG hfx hm hwf hT (fuelFor order) (start w) _ h0).sound

/-- **cacheSoundK_preserved** — C01.cacheSound_preserved for a key that separates admissible key-states only up to
    what the command's result depends on. -/
theorem cacheSoundK_preserved {P : Params κ} {A : AdmSpec κ} (hG : GoodK P A) (hfx : P.fx.gateChecks = true) (h : List Step)
    (w : World κ) (hok : HistOKK P A w h) (hs : CacheSoundK P A w.cache) : CacheSoundK P A (runHistory P w h).cache := by
  induction h generalizing w with
  | nil => exact hs
  | cons st rest ih =>
    simp only [runHistory, List.foldl_cons]
    exact ih (step P w st) hok.2 (cacheSoundK_step hG hfx w st hok.1 hs)

theorem cacheSoundK_empty (P : Params κ) (A : AdmSpec κ) : CacheSoundK P A emptyCache := by
  intro k r hr; simp [emptyCache] at hr

theorem succeeded_iff' (s : BState κ) (order : List Lbl) : succeeded s order = true ↔ ∀ l ∈ order, ∃ ts, s.st l = some ts ∧ ts.ok = true :=
  succeeded_iff s order

/-- **build_eq_cleanK** — C01.build_eq_clean for `GoodK`. -/
theorem build_eq_cleanK {P : Params κ} {A : AdmSpec κ} (hG : GoodK P A) (hfx : P.fx.gateChecks = true) (cfg : Cfg) (hm : cfg.minimal = false)
    (w : World κ) (order : List Lbl) (hwf : WF w.defs order) (hT : ∀ l ∈ order, ∀ t, w.defs l = some t → A.tgt t)
    (hin : InOk A w.defs order w.fs) (hs : CacheSoundK P A w.cache) (fs0 : FS)
    (hag : ∀ p, (∀ l ∈ order, ∀ t, w.defs l = some t → p ∉ outPaths t) → w.fs p = fs0 p) :
    (succeeded (build P cfg w order) order = true ↔ ∀ l ∈ order, (Spec.clean P.run w.defs fs0 order).ok l = some true) ∧
    (succeeded (build P cfg w order) order = true → ∀ l ∈ order, ∀ t, w.defs l = some t → ∀ p ∈ outPaths t,
      (build P cfg w order).fs p = (Spec.clean P.run w.defs fs0 order).fs p) := by
  have hI := run_invK hG hfx hm hwf hT (fuelFor order) (start w) _
    (inv_startK (P := P) (A := A) (defs := w.defs) (order := order) w hs fs0 hag hin)
  have hsucc := succeeded_iff' (build P cfg w order) order
  refine ⟨?_, fun h l hl t ht p hp => ?_⟩
  · rw [hsucc]
    constructor
    · intro h l hl; exact (hI.okIff l hl).1 (h l hl)
    · intro h l hl; exact (hI.okIff l hl).2 (h l hl)
  · exact hI.fsOut l hl ((hI.okIff l hl).1 ((hsucc.1 h) l hl)) t ht p hp

/-- **build_simK** — C01.build_sim for `GoodK`: two sound caches, workspaces agreeing off the outputs ⇒ same verdicts, same bytes. -/
theorem build_simK {P : Params κ} {A : AdmSpec κ} (hG : GoodK P A) (hfx : P.fx.gateChecks = true) (cfg₁ cfg₂ : Cfg)
    (hm₁ : cfg₁.minimal = false) (hm₂ : cfg₂.minimal = false)
    (w₁ w₂ : World κ) (order : List Lbl) (hwf : WF w₁.defs order) (hd : w₂.defs = w₁.defs)
    (hT : ∀ l ∈ order, ∀ t, w₁.defs l = some t → A.tgt t) (hin₁ : InOk A w₁.defs order w₁.fs) (hin₂ : InOk A w₁.defs order w₂.fs)
    (hs₁ : CacheSoundK P A w₁.cache) (hs₂ : CacheSoundK P A w₂.cache)
    (hag : ∀ p, (∀ l ∈ order, ∀ t, w₁.defs l = some t → p ∉ outPaths t) → w₁.fs p = w₂.fs p) :
    (∀ l ∈ order, (∃ ts, (build P cfg₁ w₁ order).st l = some ts ∧ ts.ok = true) ↔ (∃ ts, (build P cfg₂ w₂ order).st l = some ts ∧ ts.ok = true)) ∧
    (∀ l ∈ order, (∃ ts, (build P cfg₁ w₁ order).st l = some ts ∧ ts.ok = true) → ∀ t, w₁.defs l = some t → ∀ p ∈ outPaths t,
      (build P cfg₁ w₁ order).fs p = (build P cfg₂ w₂ order).fs p) := by
  have h1 := run_invK hG hfx hm₁ hwf hT (fuelFor order) (start w₁) _
    (inv_startK (P := P) (A := A) (defs := w₁.defs) (order := order) w₁ hs₁ w₁.fs (fun _ _ => rfl) hin₁)
  have h2 := run_invK hG hfx hm₂ hwf hT (fuelFor order) (start w₂) _
    (inv_startK (P := P) (A := A) (defs := w₁.defs) (order := order) w₂ hs₂ w₁.fs (fun p hp => (hag p hp).symm) hin₂)
  have e1 : build P cfg₁ w₁ order = run P cfg₁ w₁.defs (fuelFor order) order (start w₁) := rfl
  have e2 : build P cfg₂ w₂ order = run P cfg₂ w₁.defs (fuelFor order) order (start w₂) := by simp only [build, hd]
  refine ⟨fun l hl => ?_, fun l hl hok t ht p hp => ?_⟩
  · rw [e1, e2]; exact (h1.okIff l hl).trans (h2.okIff l hl).symm
  · rw [e1] at hok
    have hc := (h1.okIff l hl).1 hok
    rw [e1, e2, h1.fsOut l hl hc t ht p hp, h2.fsOut l hl hc t ht p hp]

/-- **noop_rebuildK** — C02.noop_rebuild_partial for `GoodK`. -/
theorem noop_rebuildK {P : Params κ} {A : AdmSpec κ} (hG : GoodK P A) (cfg : Cfg) (w : World κ) (order : List Lbl)
    (hwf : WF w.defs order) (hT : ∀ l ∈ order, ∀ t, w.defs l = some t → A.tgt t) (hin : InOk A w.defs order w.fs)
    (hpl : Plain P cfg w.defs order)
    (hsucc : succeeded (build P cfg w order) order = true) (fs' : FS)
    (hfs : ∀ p, (∀ l ∈ order, ∀ t, w.defs l = some t → p ∉ outPaths t) → fs' p = (build P cfg w order).fs p) :
    executed (build P cfg { w with fs := fs', cache := (build P cfg w order).cache } order) = [] := by
  have hset := settled_run_auxK hG hwf hT hpl (fuelFor order) order [] (start w) (by simp) hin (fun l hl => by simp at hl)
  simp only [List.nil_append] at hset
  have hok := (succeeded_iff _ order).1 hsucc
  have hf : ∀ l ∈ order, Settled P w.defs (build P cfg w order) l := fun l hl => hset l hl (hok l hl)
  have h2 := second_run_auxK hwf hpl (fuelFor order) (build P cfg w order) hf order []
    (start { w with fs := fs', cache := (build P cfg w order).cache }) (by simp)
    ⟨rfl, rfl, hfs, fun l hl => by simp at hl⟩
  have hlog : (build P cfg { w with fs := fs', cache := (build P cfg w order).cache } order).log = [] := h2.log
  simp [executed, hlog]

/-- **hit_same_stateK** — whenever a stored result is served, the key-state that produced it has the same label,
    command and "has outputs" as the current one and the command returns the same result on both (the clause
    "never served to a different state", up to what the key canonicalises). -/
theorem hit_same_stateK {P : Params κ} {A : AdmSpec κ} (hG : GoodK P A) (cfg : Cfg) (t : Target) (ohs : List (OH κ)) (s s1 : BState κ)
    (hs : CacheSoundK P A s.cache) (hadm : A.ks (keyState t s.fs ohs))
    (hhit : tryHit P cfg t (P.K (keyState t s.fs ohs)) s = some s1) :
    ∃ (r : Result κ) (ks : Exec.KeyState κ) (nc : Bool), s.cache.res (P.K (keyState t s.fs ohs)) = some r ∧
      r = mkRes nc ks (P.K ks) (P.run ks.cmd (viewOf ks)).outs ∧
      ks.label = t.label ∧ ks.outs.isEmpty = t.outs.isEmpty ∧
      P.run ks.cmd (viewOf ks) = P.run t.cmd (viewOf (keyState t s.fs ohs)) := by
  unfold tryHit at hhit
  split at hhit
  · cases hhit
  · rename_i r hr
    obtain ⟨ks, hka, hK, _, _, nc, hres⟩ := hs _ r hr
    obtain ⟨h1, h3, h4⟩ := hG.inj ks _ hka hadm hK
    exact ⟨r, ks, nc, hr, by rw [hK]; exact hres, h1, h3, h4⟩

end general

/-! ## (B) the real key -/
section real

/-- content of an input path in the list of (path, content) pairs of a key-state (first occurrence) -/
def contentOf (l : List (Path × Option Val)) (p : Path) : Option Val :=
  match l.find? (fun pv => pv.1 == p) with
  | some pv => pv.2
  | none => none

/-- duplicates of a path carry the same content -/
def Functional (l : List (Path × Option Val)) : Prop := ∀ pv ∈ l, contentOf l pv.1 = pv.2

theorem contentOf_map (fs : FS) : ∀ (l : List Path) (p : Path),
    contentOf (l.map fun q => (q, fs q)) p = if p ∈ l then fs p else none
  | [], p => by simp [contentOf]
  | a :: l, p => by
    have ih := contentOf_map fs l p
    unfold contentOf at ih ⊢
    by_cases h : a = p
    · subst h; simp
    · have h' : (a == p) = false := by simpa using h
      have h'' : ¬ p = a := fun e => h e.symm
      simp only [List.map_cons, List.find?_cons, h', List.mem_cons, h'', false_or]
      exact ih

theorem functional_map (fs : FS) (l : List Path) : Functional (l.map fun q => (q, fs q)) := by
  intro pv hpv
  simp only [List.mem_map] at hpv
  obtain ⟨q, hq, rfl⟩ := hpv
  simp [contentOf_map, hq]

/-- how a key-state of the build model is rendered into what `hashTargetDefinition` / `hashInputFiles` see -/
structure Render where
  /-- the hash function (hex digest), as in C09 -/
  H : Bytes → Bytes
  /-- the text of the command -/
  cmdR : Cmd → Bytes
  /-- the output hash of a dependency as the string `Target.OutputHash` -/
  ohR : OH Bytes → Bytes

/-- `Output.String()`: `file::p` / `dir::p` -/
def outDefR (o : OutDef) : Bytes :=
  (if o.dir then [100, 105, 114, 58, 58] else [102, 105, 108, 101, 58, 58]) ++ o.path

/-- the dependency part of the key: `hashTargetDefinition` writes one (dependency label, output hash) pair per direct
    dependency (`writeFramedKeyValues`, ordered by label). An output hash by itself covers only the *package-relative*
    identifiers of the outputs, not the package: it is the label that says whose outputs they are
    (`unlabelled_deps_blind_witness` below is the defect the labels repaired). -/
def depPairs (R : Render) (l : List (Lbl × OH Bytes)) : List (Bytes × Bytes) := l.map fun d => (d.1, R.ohR d.2)

def render (R : Render) (ks : Exec.KeyState Bytes) : Grog.KeyState :=
  { label := ks.label, command := R.cmdR ks.cmd, inputs := ks.inputs.map (·.1), content := contentOf ks.inputs,
    outputs := ks.outs.map outDefR, deps := depPairs R ks.deps, fingerprint := ks.fp, platform := some ks.plat }

/-- the build parameters with the real key: `GetTargetChangeHash` of the rendered key-state -/
def realParams (R : Render) (run : Cmd → View → RunRes) (fx : Fixes) : Params Bytes :=
  { K := fun ks => key R.H (render R ks), run := run, fx := fx }

/-- **What occurs.** The command text and the output-hash strings are produced by functions with a bounded image
    (an output hash is a digest), so they cannot be injective on all structured values. What the composition needs is
    that they do not collide *on what occurs* in the histories under consideration: the target definitions `T`, the
    file contents `V` and the dependency output hashes `O`. A user of the theorems picks these sets (for a concrete
    history they are finite); `RealKey.closed` asks that `O` contains every output hash a run over them produces. -/
structure Universe where
  T : Target → Prop
  V : Val → Prop
  O : OH Bytes → Prop

/-- the occurring key-states: an occurring target on occurring input contents and occurring dependency hashes -/
def Universe.KS (U : Universe) (ks : Exec.KeyState Bytes) : Prop :=
  ∃ (t : Target) (fs : FS) (ohs : List (OH Bytes)), U.T t ∧ (∀ p ∈ t.inputs, ∀ v, fs p = some v → U.V v) ∧
    (∀ oh ∈ ohs, U.O oh) ∧ ohs.length = t.hdeps.length ∧ ks = keyState t fs ohs

/-- the size conditions of C09 on a target (`WFState`: every hashed component shorter than 2^64 bytes, distinct
    fingerprint keys; the dependencies are a set of labels) -/
def SizesOK (R : Render) (t : Target) : Prop :=
  Small t.label ∧ Small (R.cmdR t.cmd) ∧ SmallList t.inputs ∧ SmallList (t.outs.map outDefR) ∧
    SmallList t.hdeps ∧ t.hdeps.Nodup ∧ SmallKV t.fp ∧ (t.fp.map Prod.fst).Nodup ∧ Small t.plat

/-- admissible: the size conditions of C09, consistent duplicates among the inputs, and "occurs" -/
def realAdm (R : Render) (U : Universe) : AdmSpec Bytes :=
  { ks := fun ks => C09.WFState (render R ks) ∧ Functional ks.inputs ∧ U.KS ks,
    tgt := fun t => SizesOK R t ∧ U.T t,
    val := fun v => Small v ∧ U.V v,
    oh := U.O }

/-- what remains a hypothesis about the real key and the commands -/
structure RealKey (R : Render) (run : Cmd → View → RunRes) (U : Universe) : Prop where
  /-- the hash function does not collide (the idealisation of C09; nothing is claimed about xxh3 / SHA-256) -/
  hH : ∀ x y, R.H x = R.H y → x = y
  /-- its printed digest contains no `_` (hex) -/
  hU : ∀ x, cUnderscore ∉ R.H x
  /-- an output hash is printed as a string shorter than 2^64 bytes (it is a digest of fixed length) -/
  ohSmall : ∀ oh, Small (R.ohR oh)
  /-- **no collision of the rendering on what occurs**: two occurring key-states with the same command text, the same
      set of (input path, content) pairs and the same (dependency label, output-hash string) pairs give the same result
      of the command. (Contrapositive: a different result exhibits two occurring states that the rendering — the text of
      the command or the digest of a dependency's outputs — fails to separate, i.e. an explicit collision; or a command
      whose result depends on the order in which inputs / dependencies are listed.) -/
  runCongr : ∀ (a b : Exec.KeyState Bytes), U.KS a → U.KS b → R.cmdR a.cmd = R.cmdR b.cmd →
    (∀ pv, pv ∈ a.inputs ↔ pv ∈ b.inputs) → (depPairs R a.deps).Perm (depPairs R b.deps) →
    run a.cmd (viewOf a) = run b.cmd (viewOf b)
  /-- the output hash that a successful run of an occurring key-state exposes occurs -/
  closed : ∀ ks, U.KS ks → (run ks.cmd (viewOf ks)).exit0 = true → ∀ nc : Bool,
    U.O (mkRes nc ks (key R.H (render R ks)) (run ks.cmd (viewOf ks)).outs).oh
  complete : ∀ c v, (run c v).exit0 = true → (run c v).outs.map (·.1) = c.writes
  hermetic : ∀ c v, (run c v).sets = []

theorem isEmpty_of_perm_map {α β : Type} (f : α → β) (a b : List α) (h : (a.map f).Perm (b.map f)) : a.isEmpty = b.isEmpty := by
  have := h.length_eq
  simp only [List.length_map] at this
  cases a <;> cases b <;> simp_all

theorem pairs_of_stateEq (R : Render) (a b : Exec.KeyState Bytes) (fa : Functional a.inputs) (fb : Functional b.inputs)
    (h3 : ∀ p, p ∈ (render R a).inputs ↔ p ∈ (render R b).inputs)
    (h4 : ∀ p ∈ (render R a).inputs, (render R a).content p = (render R b).content p) :
    ∀ pv, pv ∈ a.inputs → pv ∈ b.inputs := by
  intro pv hpv
  have hp : pv.1 ∈ (render R a).inputs := List.mem_map.2 ⟨pv, hpv, rfl⟩
  obtain ⟨pv', hpv', he⟩ := List.mem_map.1 ((h3 pv.1).1 hp)
  have h1 : contentOf a.inputs pv.1 = pv.2 := fa pv hpv
  have h2 : contentOf b.inputs pv'.1 = pv'.2 := fb pv' hpv'
  have h5 : contentOf a.inputs pv.1 = contentOf b.inputs pv.1 := h4 pv.1 hp
  have : pv' = pv := by
    apply Prod.ext he
    rw [← h2, he, ← h5, h1]
  rw [← this]; exact hpv'

theorem zip_map_fst {α β : Type} : ∀ (ls : List α) (l : List β), l.length = ls.length → (ls.zip l).map Prod.fst = ls
  | [], [], _ => rfl
  | [], _ :: _, h => by simp at h
  | _ :: _, [], h => by simp at h
  | a :: ls, b :: l, h => by simp only [List.zip_cons_cons, List.map_cons]; rw [zip_map_fst ls l (by simpa using h)]

/-- the size conditions of C09 hold for the rendered key-state of a target within the size bounds on contents within
    the size bounds — whatever the dependency hashes are (their strings are digests) -/
theorem wf_render (R : Render) (hS : ∀ oh, Small (R.ohR oh)) (t : Target) (fs : FS) (ohs : List (OH Bytes)) (ht : SizesOK R t)
    (hv : ∀ p ∈ t.inputs, ∀ v, fs p = some v → Small v) (hlen : ohs.length = t.hdeps.length) :
    C09.WFState (render R (keyState t fs ohs)) := by
  obtain ⟨hl, hc, hi, ho, hd, hdn, hf, hfk, hp⟩ := ht
  have hfst : (depPairs R (t.hdeps.zip ohs)).map Prod.fst = t.hdeps := by
    simp only [depPairs, List.map_map, Function.comp_def]
    exact zip_map_fst t.hdeps ohs hlen
  refine ⟨hl, hc, ?_, ho, ?_, ?_, hf, hfk, ?_, ?_⟩
  · show SmallList ((t.inputs.map fun p => (p, fs p)).map (·.1))
    simpa [List.map_map, Function.comp_def] using hi
  · show SmallKV (depPairs R (t.hdeps.zip ohs))
    refine ⟨?_, fun x hx => ?_⟩
    · have : (depPairs R (t.hdeps.zip ohs)).length = t.hdeps.length := by
        simp only [depPairs, List.length_map, List.length_zip, hlen, Nat.min_self]
      rw [this]; exact hd.1
    · refine ⟨hd.2 x.1 ?_, ?_⟩
      · rw [← hfst]; exact List.mem_map.2 ⟨x, hx, rfl⟩
      · obtain ⟨d, _, rfl⟩ := List.mem_map.1 hx; exact hS d.2
  · show ((depPairs R (t.hdeps.zip ohs)).map Prod.fst).Nodup
    rw [hfst]; exact hdn
  · intro p hpp
    simp only [render, keyState, Option.some.injEq] at hpp
    rw [← hpp]; exact hp
  · intro p c hcp
    have hcp' : contentOf (t.inputs.map fun q => (q, fs q)) p = some c := hcp
    rw [contentOf_map] at hcp'
    split at hcp'
    · rename_i hm; exact hv p hm c hcp'
    · cases hcp'

/-- **`GoodK` for the real key.** With `K := key H ∘ render`, equal keys of admissible key-states force (by
    `C09.key_eq_iff`) equal label, command text, the same set of (input path, content) pairs, the same declared outputs up
    to order and the same (dependency label, output-hash string) pairs — hence, by `runCongr` (no collision of the rendering
    on what occurs), the same result of the command. -/
theorem goodK_real (R : Render) (run : Cmd → View → RunRes) (fx : Fixes) (U : Universe) (hR : RealKey R run U) :
    GoodK (realParams R run fx) (realAdm R U) where
  inj := by
    rintro a b ⟨wa, fa, ka⟩ ⟨wb, fb, kb⟩ hk
    obtain ⟨h1, h2, h3, h4, h5, h6, _, _⟩ := (C09.key_eq_iff R.H hR.hH hR.hU _ _ wa wb).1 hk
    refine ⟨h1, isEmpty_of_perm_map outDefR a.outs b.outs h5, ?_⟩
    apply hR.runCongr a b ka kb h2 _ h6
    intro pv
    constructor
    · exact pairs_of_stateEq R a b fa fb h3 h4 pv
    · apply pairs_of_stateEq R b a fb fa (fun p => (h3 p).symm)
      intro p hp
      exact (h4 p ((h3 p).2 hp)).symm
  complete := hR.complete
  hermetic := hR.hermetic
  admKs := by
    rintro t fs ohs ⟨hs, hT⟩ hv hoh hlen
    exact ⟨wf_render R hR.ohSmall t fs ohs hs (fun p hp v h => (hv p hp v h).1) hlen, functional_map fs t.inputs,
      t, fs, ohs, hT, fun p hp v h => (hv p hp v h).2, hoh, hlen, rfl⟩
  sepLbl := by
    rintro t fs ohs t' fs' ohs' ⟨hs, _⟩ ⟨hs', _⟩ hv hv' hlen hlen' hk
    exact ((C09.key_eq_iff R.H hR.hH hR.hU _ _
      (wf_render R hR.ohSmall t fs ohs hs (fun p hp v h => (hv p hp v h).1) hlen)
      (wf_render R hR.ohSmall t' fs' ohs' hs' (fun p hp v h => (hv' p hp v h).1) hlen')).1 hk).1
  ohOut := by
    rintro ks ⟨_, _, hks⟩ hx nc
    exact hR.closed ks hks hx nc

/-- **the defect the labels repaired** (regression witness for the dependency-identity finding). Before the repair the
    key folded in the dependency output hashes as an unlabelled sorted list, and an output hash covers only
    package-relative identifiers. With such a rendering (`relOh`: the output's name inside its package and its content)
    two key-states in which the dependencies `//a:gen` and `//b:gen` (both writing `out`) have *swapped* contents have
    the same unlabelled multiset of output-hash strings — the same key — although the command reads different bytes;
    the (label, output hash) pairs of the repaired key differ. -/
def relName (p : Path) : Path := (p.dropWhile (· != 47)).drop 1

def relOh : OH Bytes → Bytes
  | .outs l => l.flatMap fun ov => relName ov.1.path ++ [61] ++ ov.2
  | .nocache l => l.flatMap fun ov => relName ov.1.path ++ [61] ++ ov.2
  | .self k => k

theorem unlabelled_deps_blind_witness :
    ∃ (a b : Exec.KeyState Bytes) (R : Render), R.ohR = relOh ∧ a.label = b.label ∧ a.cmd = b.cmd ∧ a.inputs = b.inputs ∧
      ((a.deps.map fun d => R.ohR d.2).Perm (b.deps.map fun d => R.ohR d.2)) ∧ viewOf a ≠ viewOf b ∧
      ¬ (depPairs R a.deps).Perm (depPairs R b.deps) := by
  let la : Lbl := [47, 47, 97, 58, 103]   -- //a:g
  let lb : Lbl := [47, 47, 98, 58, 103]   -- //b:g
  let oa : OutDef := ⟨false, [97, 47, 111]⟩   -- a/o
  let ob : OutDef := ⟨false, [98, 47, 111]⟩   -- b/o
  let c : Cmd := ⟨[], 0, [], [], false⟩
  refine ⟨⟨[99], c, [], [], [(la, .outs [(oa, [88])]), (lb, .outs [(ob, [89])])], [], []⟩,
          ⟨[99], c, [], [], [(la, .outs [(oa, [89])]), (lb, .outs [(ob, [88])])], [], []⟩,
          ⟨C09.hexId, fun c => c.salt, relOh⟩, rfl, rfl, rfl, rfl, ?_, ?_, ?_⟩
  · show ([relOh (.outs [(oa, [88])]), relOh (.outs [(ob, [89])])] : List Bytes).Perm
        [relOh (.outs [(oa, [89])]), relOh (.outs [(ob, [88])])]
    have e1 : relOh (.outs [(oa, [88])]) = relOh (.outs [(ob, [88])]) := by decide
    have e2 : relOh (.outs [(ob, [89])]) = relOh (.outs [(oa, [89])]) := by decide
    rw [e1, e2]
    exact List.Perm.swap _ _ _
  · intro h
    have := congrArg View.deps h
    revert this
    decide
  · intro h
    have h1 : ((la, relOh (.outs [(oa, [88])])) : Bytes × Bytes) ∈
        ([(la, relOh (.outs [(oa, [89])])), (lb, relOh (.outs [(ob, [88])]))] : List (Bytes × Bytes)) :=
      h.subset (by simp [depPairs])
    revert h1
    decide

end real

/-! ## (C) the build theorems for the real key -/
section instantiated

/-- **C01 for the real key**: from any cache that is sound w.r.t. the real key and any content at the output paths, a
    mode-`all` build over a well-formed order of admissible targets (sizes < 2^64, distinct fingerprint keys, occurring)
    with admissible input contents succeeds iff the cache-free specification does, and then all declared outputs are
    byte-identical to it. -/
theorem build_eq_clean_real (R : Render) (run : Cmd → View → RunRes) (fx : Fixes) (U : Universe) (hR : RealKey R run U)
    (hfx : fx.gateChecks = true)
    (cfg : Cfg) (hm : cfg.minimal = false) (w : World Bytes) (order : List Lbl) (hwf : WF w.defs order)
    (hT : ∀ l ∈ order, ∀ t, w.defs l = some t → (realAdm R U).tgt t) (hin : InOk (realAdm R U) w.defs order w.fs)
    (hs : CacheSoundK (realParams R run fx) (realAdm R U) w.cache) (fs0 : FS)
    (hag : ∀ p, (∀ l ∈ order, ∀ t, w.defs l = some t → p ∉ outPaths t) → w.fs p = fs0 p) :
    (succeeded (build (realParams R run fx) cfg w order) order = true ↔ ∀ l ∈ order, (Spec.clean run w.defs fs0 order).ok l = some true) ∧
    (succeeded (build (realParams R run fx) cfg w order) order = true → ∀ l ∈ order, ∀ t, w.defs l = some t → ∀ p ∈ outPaths t,
      (build (realParams R run fx) cfg w order).fs p = (Spec.clean run w.defs fs0 order).fs p) :=
  build_eq_cleanK (goodK_real R run fx U hR) hfx cfg hm w order hwf hT hin hs fs0 hag

/-- the cache stays sound w.r.t. the real key over every history (C01.cacheSound_preserved) -/
theorem cacheSound_preserved_real (R : Render) (run : Cmd → View → RunRes) (fx : Fixes) (U : Universe) (hR : RealKey R run U)
    (hfx : fx.gateChecks = true)
    (h : List Step) (w : World Bytes) (hok : HistOKK (realParams R run fx) (realAdm R U) w h)
    (hs : CacheSoundK (realParams R run fx) (realAdm R U) w.cache) :
    CacheSoundK (realParams R run fx) (realAdm R U) (runHistory (realParams R run fx) w h).cache :=
  cacheSoundK_preserved (goodK_real R run fx U hR) hfx h w hok hs

/-- **C02.noop_rebuild for the real key** -/
theorem noop_rebuild_real (R : Render) (run : Cmd → View → RunRes) (fx : Fixes) (U : Universe) (hR : RealKey R run U)
    (cfg : Cfg) (w : World Bytes) (order : List Lbl) (hwf : WF w.defs order)
    (hT : ∀ l ∈ order, ∀ t, w.defs l = some t → (realAdm R U).tgt t) (hin : InOk (realAdm R U) w.defs order w.fs)
    (hpl : Plain (realParams R run fx) cfg w.defs order)
    (hsucc : succeeded (build (realParams R run fx) cfg w order) order = true) (fs' : FS)
    (hfs : ∀ p, (∀ l ∈ order, ∀ t, w.defs l = some t → p ∉ outPaths t) → fs' p = (build (realParams R run fx) cfg w order).fs p) :
    executed (build (realParams R run fx) cfg { w with fs := fs', cache := (build (realParams R run fx) cfg w order).cache } order) = [] :=
  noop_rebuildK (goodK_real R run fx U hR) cfg w order hwf hT hin hpl hsucc fs' hfs

/-! ### the hypotheses are satisfiable by a command that copies what it reads

  Two targets: `//a` copies its input file to its output, `//b` depends on `//a` and copies `//a`'s output to its own.
  The command semantics `exRun` is "concatenate every dependency output and every input" (so the result does depend on the
  content of the dependency); the output-hash string `exOhR` is the content itself when short and empty otherwise (a
  function with a bounded image, like a digest); what occurs: the two targets, contents of at most 4 bytes. -/

def exVal (oh : OH Bytes) : Bytes := ((ohVals oh).filterMap (·.2)).flatten

def exOhR (oh : OH Bytes) : Bytes := if (exVal oh).length ≤ 4 then exVal oh else []

def exRender : Render := { H := C09.hexId, cmdR := fun c => c.salt, ohR := exOhR }

def exRun : Cmd → View → RunRes := fun c v =>
  ⟨true, c.writes.map fun o => (o, (v.deps.filterMap (·.2)).flatten ++ (v.inputs.filterMap (·.2)).flatten), []⟩

def exLA : Lbl := [1]
def exLB : Lbl := [2]
def exOA : OutDef := ⟨false, [11]⟩
def exOB : OutDef := ⟨false, [12]⟩

def exTA : Target :=
  { label := exLA, cmd := ⟨[1], 0, [exOA], [], false⟩, inputs := [[10]], outs := [exOA], deps := [], hdeps := [], ldeps := [],
    fp := [], plat := [], noCache := false, checks := [] }

def exTB : Target :=
  { label := exLB, cmd := ⟨[2], 0, [exOB], [], false⟩, inputs := [], outs := [exOB], deps := [exLA], hdeps := [exLA], ldeps := [exLA],
    fp := [], plat := [], noCache := false, checks := [] }

def exU : Universe :=
  { T := fun t => t = exTA ∨ t = exTB, V := fun v => v.length ≤ 4, O := fun oh => (exVal oh).length ≤ 4 }

theorem exOhR_small (oh : OH Bytes) : Small (exOhR oh) := by
  unfold exOhR Small
  split
  · rename_i h; exact Nat.lt_of_le_of_lt h (by decide)
  · decide

/-- the occurring key-states, listed -/
theorem exKS_cases {ks : Exec.KeyState Bytes} (h : exU.KS ks) :
    (∃ fs, (∀ v, fs [10] = some v → v.length ≤ 4) ∧ ks = keyState exTA fs ([] : List (OH Bytes))) ∨
    (∃ fs oh, (exVal oh).length ≤ 4 ∧ ks = keyState exTB fs [oh]) := by
  obtain ⟨t, fs, ohs, hT, hv, ho, hlen, rfl⟩ := h
  rcases hT with rfl | rfl
  · left
    have : ohs = [] := List.eq_nil_of_length_eq_zero hlen
    subst this
    exact ⟨fs, fun v hfv => hv [10] (by simp [exTA]) v hfv, rfl⟩
  · right
    match ohs, hlen with
    | [oh], _ => exact ⟨fs, oh, ho oh (by simp), rfl⟩

theorem exRun_A (fs : FS) : exRun (keyState exTA fs ([] : List (OH Bytes))).cmd (viewOf (keyState exTA fs ([] : List (OH Bytes)))) =
    ⟨true, [(exOA, match fs [10] with | some v => v | none => [])], []⟩ := by
  simp only [exRun, viewOf, keyState, exTA, List.zip_nil_right, List.flatMap_nil, List.filterMap_nil, List.flatten_nil, List.nil_append,
    List.map_cons, List.map_nil]
  cases fs [10] <;> simp

theorem exRun_B (fs : FS) (oh : OH Bytes) : exRun (keyState exTB fs [oh]).cmd (viewOf (keyState exTB fs [oh])) = ⟨true, [(exOB, exVal oh)], []⟩ := by
  simp [exRun, viewOf, keyState, exTB, exVal]

theorem exRealKey : RealKey exRender exRun exU where
  hH := C09.hexId_injective
  hU := C09.hexId_no_underscore
  ohSmall := exOhR_small
  runCongr := by
    intro a b ha hb hc hi hd
    rcases exKS_cases ha with ⟨fs, _, rfl⟩ | ⟨fs, oh, ho, rfl⟩ <;> rcases exKS_cases hb with ⟨fs', _, rfl⟩ | ⟨fs', oh', ho', rfl⟩
    · -- the same target without dependencies: the (path, content) pairs of the one input agree
      have := (hi ([10], fs [10])).1 (by simp [keyState, exTA])
      have e : fs [10] = fs' [10] := by simpa [keyState, exTA] using this
      rw [exRun_A, exRun_A, e]
    · exact absurd hc (by simp [exRender, keyState, exTA, exTB])
    · exact absurd hc (by simp [exRender, keyState, exTA, exTB])
    · -- the same target with one dependency: equal output-hash strings of occurring hashes mean equal content
      have h1 : exOhR oh = exOhR oh' := by
        have := hd.subset (a := (exLA, exOhR oh)) (by simp [depPairs, keyState, exTB, exRender])
        simpa [depPairs, keyState, exTB, exRender] using this
      have h2 : exVal oh = exVal oh' := by simpa [exOhR, ho, ho'] using h1
      rw [exRun_B, exRun_B, h2]
  closed := by
    intro ks hks _ nc
    rcases exKS_cases hks with ⟨fs, hv, rfl⟩ | ⟨fs, oh, ho, rfl⟩
    · rw [exRun_A]
      show (exVal _).length ≤ 4
      cases nc <;> cases hf : fs [10] <;> simp [mkRes, keyState, exTA, exVal, ohVals] <;> exact hv _ hf
    · rw [exRun_B]
      show (exVal _).length ≤ 4
      cases nc <;> simpa [mkRes, keyState, exTB, exVal, ohVals] using ho
  complete := by intro c v _; simp [exRun, List.map_map, Function.comp_def]
  hermetic := fun _ _ => rfl

example : GoodK (realParams exRender exRun Fixes.current) (realAdm exRender exU) := goodK_real _ _ _ _ exRealKey

theorem exTA_adm : (realAdm exRender exU).tgt exTA := by
  refine ⟨⟨by unfold Small; decide, by unfold Small; decide, ⟨by decide, fun x hx => ?_⟩, ⟨by decide, fun x hx => ?_⟩,
    ⟨by decide, fun x hx => by simp [exTA] at hx⟩, by simp [exTA], ⟨by decide, fun x hx => by simp [exTA] at hx⟩, by simp [exTA],
    by unfold Small; decide⟩, Or.inl rfl⟩
  · simp [exTA] at hx; subst hx; unfold Small; decide
  · simp [exTA, outDefR, exOA] at hx; subst hx; unfold Small; decide

theorem exTB_adm : (realAdm exRender exU).tgt exTB := by
  refine ⟨⟨by unfold Small; decide, by unfold Small; decide, ⟨by decide, fun x hx => by simp [exTB] at hx⟩, ⟨by decide, fun x hx => ?_⟩,
    ⟨by decide, fun x hx => ?_⟩, by simp [exTB], ⟨by decide, fun x hx => by simp [exTB] at hx⟩, by simp [exTB],
    by unfold Small; decide⟩, Or.inr rfl⟩
  · simp [exTB, outDefR, exOB] at hx; subst hx; unfold Small; decide
  · simp [exTB, exLA] at hx; subst hx; unfold Small; decide

def exDefs : Defs := fun l => if l = exLA then some exTA else if l = exLB then some exTB else none

/-- a workspace with the input file of `//a` (content `[7]`), an empty cache -/
def exW : World Bytes := { defs := exDefs, fs := fun p => if p = [10] then some [7] else none, cache := emptyCache }

theorem exDefs_cases {l : Lbl} {t : Target} (h : exDefs l = some t) : (l = exLA ∧ t = exTA) ∨ (l = exLB ∧ t = exTB) := by
  unfold exDefs at h
  split at h
  · rename_i e; simp only [Option.some.injEq] at h; exact Or.inl ⟨e, h.symm⟩
  · split at h
    · rename_i e; simp only [Option.some.injEq] at h; exact Or.inr ⟨e, h.symm⟩
    · cases h

theorem exWF : WF exDefs [exLA, exLB] where
  nodup := by decide
  defined := by
    intro l hl
    simp only [List.mem_cons, List.not_mem_nil, or_false] at hl
    rcases hl with rfl | rfl
    · exact ⟨exTA, by simp [exDefs]⟩
    · exact ⟨exTB, by simp [exDefs, exLA, exLB]⟩
  label := by
    intro l t h
    rcases exDefs_cases h with ⟨rfl, rfl⟩ | ⟨rfl, rfl⟩ <;> rfl
  hdeps := by
    intro l _ t h
    rcases exDefs_cases h with ⟨rfl, rfl⟩ | ⟨rfl, rfl⟩ <;> exact ⟨rfl, rfl, by decide⟩
  topo := by
    intro pre l suf ho t h d hd
    rcases exDefs_cases h with ⟨rfl, rfl⟩ | ⟨rfl, rfl⟩
    · simp [exTA] at hd
    · simp only [exTB, List.mem_cons, List.not_mem_nil, or_false] at hd; subst hd
      match pre, ho with
      | [], ho => simp [exLA, exLB] at ho
      | [x], ho => simp at ho; simp [ho.1]
      | x :: y :: pre', ho => simp at ho
  outsDisj := by
    intro l₁ _ l₂ _ hne t₁ t₂ h₁ h₂ p hp
    rcases exDefs_cases h₁ with ⟨rfl, rfl⟩ | ⟨rfl, rfl⟩ <;> rcases exDefs_cases h₂ with ⟨rfl, rfl⟩ | ⟨rfl, rfl⟩
    · exact absurd rfl hne
    · simp [outPaths, exTA, exTB, exOA, exOB] at hp ⊢; subst hp; decide
    · simp [outPaths, exTA, exTB, exOA, exOB] at hp ⊢; subst hp; decide
    · exact absurd rfl hne
  inputsOff := by
    intro l _ t h l' _ t' h' p hp
    rcases exDefs_cases h with ⟨rfl, rfl⟩ | ⟨rfl, rfl⟩
    · simp [exTA] at hp; subst hp
      rcases exDefs_cases h' with ⟨rfl, rfl⟩ | ⟨rfl, rfl⟩ <;> simp [outPaths, exTA, exTB, exOA, exOB]
    · simp [exTB] at hp
  checksOff := by
    intro l _ t h l' _ t' h' c hc
    rcases exDefs_cases h with ⟨rfl, rfl⟩ | ⟨rfl, rfl⟩ <;> simp [exTA, exTB] at hc

theorem exT_adm : ∀ l ∈ [exLA, exLB], ∀ t, exW.defs l = some t → (realAdm exRender exU).tgt t := by
  intro l _ t h
  rcases exDefs_cases h with ⟨rfl, rfl⟩ | ⟨rfl, rfl⟩
  · exact exTA_adm
  · exact exTB_adm

theorem exInOk : InOk (realAdm exRender exU) exW.defs [exLA, exLB] exW.fs := by
  intro l _ t h p hp v hv
  simp only [exW] at hv
  split at hv
  · simp only [Option.some.injEq] at hv; subst hv; exact ⟨by unfold Small; decide, by show ([7] : Bytes).length ≤ 4; decide⟩
  · cases hv

/-- **a non-empty instance of `build_eq_clean_real`**: the two-target build over the real key, from an empty cache,
    succeeds, and `//b`'s output is the content of `//a`'s input. -/
theorem ex_build_succeeds :
    succeeded (build (realParams exRender exRun Fixes.current) ⟨true, false⟩ exW [exLA, exLB]) [exLA, exLB] = true ∧
    (build (realParams exRender exRun Fixes.current) ⟨true, false⟩ exW [exLA, exLB]).fs [12] = some [7] := by
  have h := build_eq_clean_real exRender exRun Fixes.current exU exRealKey rfl ⟨true, false⟩ rfl exW [exLA, exLB] exWF exT_adm exInOk
    (cacheSoundK_empty _ _) exW.fs (fun _ _ => rfl)
  have hspec : ∀ l ∈ [exLA, exLB], (Spec.clean exRun exW.defs exW.fs [exLA, exLB]).ok l = some true := by decide
  have hs := h.1.2 hspec
  refine ⟨hs, ?_⟩
  rw [h.2 hs exLB (by simp) exTB (by simp [exW, exDefs, exLA, exLB]) [12] (by simp [outPaths, exTB, exOB])]
  decide

/-- a non-empty history satisfying the hypotheses of `cacheSound_preserved_real` -/
example : HistOKK (realParams exRender exRun Fixes.current) (realAdm exRender exU) exW [.build ⟨true, false⟩ [exLA, exLB]] :=
  ⟨⟨rfl, exWF, exT_adm, exInOk⟩, trivial⟩

theorem exPlain : Plain (realParams exRender exRun Fixes.current) ⟨true, false⟩ exW.defs [exLA, exLB] :=
  ⟨rfl, rfl, rfl, rfl, fun l _ t h => by rcases exDefs_cases h with ⟨rfl, rfl⟩ | ⟨rfl, rfl⟩ <;> rfl⟩

/-- **a non-empty instance of `noop_rebuild_real`**: after the two-target build above, the same build again — whatever
    sits at the two output paths — executes nothing. -/
theorem ex_noop_rebuild (fs' : FS) (hfs : ∀ p, p ≠ [11] → p ≠ [12] →
      fs' p = (build (realParams exRender exRun Fixes.current) ⟨true, false⟩ exW [exLA, exLB]).fs p) :
    executed (build (realParams exRender exRun Fixes.current) ⟨true, false⟩
      { exW with fs := fs', cache := (build (realParams exRender exRun Fixes.current) ⟨true, false⟩ exW [exLA, exLB]).cache }
      [exLA, exLB]) = [] := by
  apply noop_rebuild_real exRender exRun Fixes.current exU exRealKey ⟨true, false⟩ exW [exLA, exLB] exWF exT_adm exInOk exPlain
    ex_build_succeeds.1 fs'
  intro p hp
  apply hfs p
  · intro e; subst e
    exact hp exLA (by simp) exTA (by simp [exW, exDefs]) (by simp [outPaths, exTA, exOA])
  · intro e; subst e
    exact hp exLB (by simp) exTB (by simp [exW, exDefs, exLA, exLB]) (by simp [outPaths, exTB, exOB])

end instantiated

end Grog.Compose
