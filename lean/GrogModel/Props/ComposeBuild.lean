/-
  Composition C09 → C01/C02: the build theorems for the *real* cache key.

  `Build.Good` demands a key that is injective on all key-states. The real key (`Hash.key`, C09.key_eq_iff) is
  injective only up to the canonical form (order / duplicates of inputs, order of outputs, dependency hashes and
  fingerprint entries) and only on states whose hashed components are shorter than 2^64 bytes. `Build.GoodK`
  (Lemmas/BuildInv.lean) asks for exactly what the proofs use: on *admissible* key-states equal keys force the same
  label, "has outputs" and the same result of the command. This file
    (A) restates the history-level theorems of C01 / C02 for `GoodK`,
    (B) defines `render : Exec.KeyState Bytes → Grog.KeyState` and proves `GoodK` for `K := key H ∘ render` from
        `C09.key_eq_iff`,
    (C) instantiates (A) with (B).
  Remaining hypotheses of (B), all named in `RealKey`: the hash function `H` is injective and its digests contain no
  `_` (as in C09); the rendering of the structured command to its text is injective; the rendering of an output hash
  is shorter than 2^64 bytes; the command's result does not depend on the order / duplicates of its inputs and the
  order of its dependency hashes (`runCongr`); commands write exactly the outputs they name and nothing else.
-/
import GrogModel.Lemmas.BuildNoop
import GrogModel.Props.C09
set_option linter.unusedSectionVars false
set_option linter.unusedVariables false
set_option linter.unusedSimpArgs false
namespace Grog.Compose
open Grog Grog.Exec Grog.Build

/-! ## (A) history-level theorems for `GoodK` -/
section general
variable {κ : Type} [DecidableEq κ]

/-- the builds of a history the theorems speak about: mode `all`, well-formed order, admissible targets and inputs -/
def StepOKK (A : AdmSpec κ) (w : World κ) : Step → Prop
  | .build cfg order => cfg.minimal = false ∧ WF w.defs order ∧ (∀ l ∈ order, ∀ t, w.defs l = some t → A.tgt t) ∧
      InOk A w.defs order w.fs
  | _ => True

def HistOKK (P : Params κ) (A : AdmSpec κ) : World κ → List Step → Prop
  | _, [] => True
  | w, st :: rest => StepOKK A w st ∧ HistOKK P A (step P w st) rest

theorem taintAll_res (c : Cache κ) (ls : List Lbl) : (taintAll c ls).res = c.res := by
  induction ls generalizing c with
  | nil => rfl
  | cons l ls ih => simp only [taintAll]; rw [ih]

theorem cacheSoundK_step {P : Params κ} {A : AdmSpec κ} (hG : GoodK P A) (hfx : P.fx.gateChecks = true) (w : World κ) (st : Step)
    (hok : StepOKK A w st) (hs : CacheSoundK P A w.cache) : CacheSoundK P A (step P w st).cache := by
  cases st with
  | edit defs ws => exact hs
  | taint ls => intro k r hr; apply hs k r; simpa [step, taintAll_res] using hr
  | dropBlob v => intro k r hr; exact hs k r hr
  | build cfg order =>
    obtain ⟨hm, hwf, hT, hin⟩ := hok
    have h0 := inv_startK (P := P) (A := A) (defs := w.defs) (order := order) w hs w.fs (fun _ _ => rfl) hin
    exact (run_invK hG hfx hm hwf hT (fuelFor order) (start w) _ h0).sound

/-- **cacheSoundK_preserved** — C01.cacheSound_preserved for a key that separates admissible key-states only up to
    what the command's result depends on. -/
theorem cacheSoundK_preserved {P : Params κ} {A : AdmSpec κ} (hG : GoodK P A) (hfx : P.fx.gateChecks = true) (h : List Step)
    (w : World κ) (hok : HistOKK P A w h) (hs : CacheSoundK P A w.cache) : CacheSoundK P A (runHistory P w h).cache := by
  induction h generalizing w with
  | nil => exact hs
  | cons st rest ih =>
    simp only [runHistory, List.foldl_cons]
    exact ih (step P w st) hok.2 (cacheSoundK_step hG hfx w st hok.1 hs)

theorem cacheSoundK_empty (P : Params κ) (A : AdmSpec κ) : CacheSoundK P A emptyCache := by
  intro k r hr; simp [emptyCache] at hr

theorem succeeded_iff' (s : BState κ) (order : List Lbl) : succeeded s order = true ↔ ∀ l ∈ order, ∃ ts, s.st l = some ts ∧ ts.ok = true :=
  succeeded_iff s order

/-- **build_eq_cleanK** — C01.build_eq_clean for `GoodK`. -/
theorem build_eq_cleanK {P : Params κ} {A : AdmSpec κ} (hG : GoodK P A) (hfx : P.fx.gateChecks = true) (cfg : Cfg) (hm : cfg.minimal = false)
    (w : World κ) (order : List Lbl) (hwf : WF w.defs order) (hT : ∀ l ∈ order, ∀ t, w.defs l = some t → A.tgt t)
    (hin : InOk A w.defs order w.fs) (hs : CacheSoundK P A w.cache) (fs0 : FS)
    (hag : ∀ p, (∀ l ∈ order, ∀ t, w.defs l = some t → p ∉ outPaths t) → w.fs p = fs0 p) :
    (succeeded (build P cfg w order) order = true ↔ ∀ l ∈ order, (Spec.clean P.run w.defs fs0 order).ok l = some true) ∧
    (succeeded (build P cfg w order) order = true → ∀ l ∈ order, ∀ t, w.defs l = some t → ∀ p ∈ outPaths t,
      (build P cfg w order).fs p = (Spec.clean P.run w.defs fs0 order).fs p) := by
  have hI := run_invK hG hfx hm hwf hT (fuelFor order) (start w) _
    (inv_startK (P := P) (A := A) (defs := w.defs) (order := order) w hs fs0 hag hin)
  have hsucc := succeeded_iff' (build P cfg w order) order
  refine ⟨?_, fun h l hl t ht p hp => ?_⟩
  · rw [hsucc]
    constructor
    · intro h l hl; exact (hI.okIff l hl).1 (h l hl)
    · intro h l hl; exact (hI.okIff l hl).2 (h l hl)
  · exact hI.fsOut l hl ((hI.okIff l hl).1 ((hsucc.1 h) l hl)) t ht p hp

/-- **build_simK** — C01.build_sim for `GoodK`: two sound caches, workspaces agreeing off the outputs ⇒ same verdicts, same bytes. -/
theorem build_simK {P : Params κ} {A : AdmSpec κ} (hG : GoodK P A) (hfx : P.fx.gateChecks = true) (cfg₁ cfg₂ : Cfg)
    (hm₁ : cfg₁.minimal = false) (hm₂ : cfg₂.minimal = false)
    (w₁ w₂ : World κ) (order : List Lbl) (hwf : WF w₁.defs order) (hd : w₂.defs = w₁.defs)
    (hT : ∀ l ∈ order, ∀ t, w₁.defs l = some t → A.tgt t) (hin₁ : InOk A w₁.defs order w₁.fs) (hin₂ : InOk A w₁.defs order w₂.fs)
    (hs₁ : CacheSoundK P A w₁.cache) (hs₂ : CacheSoundK P A w₂.cache)
    (hag : ∀ p, (∀ l ∈ order, ∀ t, w₁.defs l = some t → p ∉ outPaths t) → w₁.fs p = w₂.fs p) :
    (∀ l ∈ order, (∃ ts, (build P cfg₁ w₁ order).st l = some ts ∧ ts.ok = true) ↔ (∃ ts, (build P cfg₂ w₂ order).st l = some ts ∧ ts.ok = true)) ∧
    (∀ l ∈ order, (∃ ts, (build P cfg₁ w₁ order).st l = some ts ∧ ts.ok = true) → ∀ t, w₁.defs l = some t → ∀ p ∈ outPaths t,
      (build P cfg₁ w₁ order).fs p = (build P cfg₂ w₂ order).fs p) := by
  have h1 := run_invK hG hfx hm₁ hwf hT (fuelFor order) (start w₁) _
    (inv_startK (P := P) (A := A) (defs := w₁.defs) (order := order) w₁ hs₁ w₁.fs (fun _ _ => rfl) hin₁)
  have h2 := run_invK hG hfx hm₂ hwf hT (fuelFor order) (start w₂) _
    (inv_startK (P := P) (A := A) (defs := w₁.defs) (order := order) w₂ hs₂ w₁.fs (fun p hp => (hag p hp).symm) hin₂)
  have e1 : build P cfg₁ w₁ order = run P cfg₁ w₁.defs (fuelFor order) order (start w₁) := rfl
  have e2 : build P cfg₂ w₂ order = run P cfg₂ w₁.defs (fuelFor order) order (start w₂) := by simp only [build, hd]
  refine ⟨fun l hl => ?_, fun l hl hok t ht p hp => ?_⟩
  · rw [e1, e2]; exact (h1.okIff l hl).trans (h2.okIff l hl).symm
  · rw [e1] at hok
    have hc := (h1.okIff l hl).1 hok
    rw [e1, e2, h1.fsOut l hl hc t ht p hp, h2.fsOut l hl hc t ht p hp]

/-- **noop_rebuildK** — C02.noop_rebuild_partial for `GoodK`. -/
theorem noop_rebuildK {P : Params κ} {A : AdmSpec κ} (hG : GoodK P A) (cfg : Cfg) (w : World κ) (order : List Lbl)
    (hwf : WF w.defs order) (hT : ∀ l ∈ order, ∀ t, w.defs l = some t → A.tgt t) (hin : InOk A w.defs order w.fs)
    (hpl : Plain P cfg w.defs order)
    (hsucc : succeeded (build P cfg w order) order = true) (fs' : FS)
    (hfs : ∀ p, (∀ l ∈ order, ∀ t, w.defs l = some t → p ∉ outPaths t) → fs' p = (build P cfg w order).fs p) :
    executed (build P cfg { w with fs := fs', cache := (build P cfg w order).cache } order) = [] := by
  have hset := settled_run_auxK hG hwf hT hpl (fuelFor order) order [] (start w) (by simp) hin (fun l hl => by simp at hl)
  simp only [List.nil_append] at hset
  have hok := (succeeded_iff _ order).1 hsucc
  have hf : ∀ l ∈ order, Settled P w.defs (build P cfg w order) l := fun l hl => hset l hl (hok l hl)
  have h2 := second_run_auxK hwf hpl (fuelFor order) (build P cfg w order) hf order []
    (start { w with fs := fs', cache := (build P cfg w order).cache }) (by simp)
    ⟨rfl, rfl, hfs, fun l hl => by simp at hl⟩
  have hlog : (build P cfg { w with fs := fs', cache := (build P cfg w order).cache } order).log = [] := h2.log
  simp [executed, hlog]

/-- **hit_same_stateK** — whenever a stored result is served, the key-state that produced it has the same label,
    command and "has outputs" as the current one and the command returns the same result on both (the clause
    "never served to a different state", up to what the key canonicalises). -/
theorem hit_same_stateK {P : Params κ} {A : AdmSpec κ} (hG : GoodK P A) (cfg : Cfg) (t : Target) (ohs : List (OH κ)) (s s1 : BState κ)
    (hs : CacheSoundK P A s.cache) (hadm : A.ks (keyState t s.fs ohs))
    (hhit : tryHit P cfg t (P.K (keyState t s.fs ohs)) s = some s1) :
    ∃ (r : Result κ) (ks : Exec.KeyState κ) (nc : Bool), s.cache.res (P.K (keyState t s.fs ohs)) = some r ∧
      r = mkRes nc ks (P.K ks) (P.run ks.cmd (viewOf ks)).outs ∧
      ks.label = t.label ∧ ks.outs.isEmpty = t.outs.isEmpty ∧
      P.run ks.cmd (viewOf ks) = P.run t.cmd (viewOf (keyState t s.fs ohs)) := by
  unfold tryHit at hhit
  split at hhit
  · cases hhit
  · rename_i r hr
    obtain ⟨ks, hka, hK, _, _, nc, hres⟩ := hs _ r hr
    obtain ⟨h1, h3, h4⟩ := hG.inj ks _ hka hadm hK
    exact ⟨r, ks, nc, hr, by rw [hK]; exact hres, h1, h3, h4⟩

end general

/-! ## (B) the real key -/
section real

/-- content of an input path in the list of (path, content) pairs of a key-state (first occurrence) -/
def contentOf (l : List (Path × Option Val)) (p : Path) : Option Val :=
  match l.find? (fun pv => pv.1 == p) with
  | some pv => pv.2
  | none => none

/-- duplicates of a path carry the same content -/
def Functional (l : List (Path × Option Val)) : Prop := ∀ pv ∈ l, contentOf l pv.1 = pv.2

theorem contentOf_map (fs : FS) : ∀ (l : List Path) (p : Path),
    contentOf (l.map fun q => (q, fs q)) p = if p ∈ l then fs p else none
  | [], p => by simp [contentOf]
  | a :: l, p => by
    have ih := contentOf_map fs l p
    unfold contentOf at ih ⊢
    by_cases h : a = p
    · subst h; simp
    · have h' : (a == p) = false := by simpa using h
      have h'' : ¬ p = a := fun e => h e.symm
      simp only [List.map_cons, List.find?_cons, h', List.mem_cons, h'', false_or]
      exact ih

theorem functional_map (fs : FS) (l : List Path) : Functional (l.map fun q => (q, fs q)) := by
  intro pv hpv
  simp only [List.mem_map] at hpv
  obtain ⟨q, hq, rfl⟩ := hpv
  simp [contentOf_map, hq]

/-- how a key-state of the build model is rendered into what `hashTargetDefinition` / `hashInputFiles` see -/
structure Render where
  /-- the hash function (hex digest), as in C09 -/
  H : Bytes → Bytes
  /-- the text of the command -/
  cmdR : Cmd → Bytes
  /-- the output hash of a dependency as the string `Target.OutputHash` -/
  ohR : OH Bytes → Bytes

/-- `Output.String()`: `file::p` / `dir::p` -/
def outDefR (o : OutDef) : Bytes :=
  (if o.dir then [100, 105, 114, 58, 58] else [102, 105, 108, 101, 58, 58]) ++ o.path

/-- INTERIM rendering of the dependency part of the key. Since the repair of the dependency-identity defect the real key
    ties every dependency output hash to the dependency's *label* (`hashTargetDefinition` writes label/hash pairs). The
    build model's key-state carries the hashes in the order of the target's `hdeps` but not the labels themselves, so the
    label of the i-th dependency is rendered as its position (`u64be i`): for one target definition positions and labels
    determine each other. Replacing this by the real labels needs `Exec.KeyState.deps : List (Lbl × OH κ)`. -/
def depPairsFrom (R : Render) : Nat → List (OH Bytes) → List (Bytes × Bytes)
  | _, [] => []
  | i, oh :: t => (u64be i, R.ohR oh) :: depPairsFrom R (i + 1) t

theorem depPairs_snd (R : Render) : ∀ (i : Nat) (l : List (OH Bytes)), (depPairsFrom R i l).map Prod.snd = l.map R.ohR
  | _, [] => rfl
  | i, _ :: t => by simp [depPairsFrom, depPairs_snd R (i + 1) t]

theorem depPairs_length (R : Render) : ∀ (i : Nat) (l : List (OH Bytes)), (depPairsFrom R i l).length = l.length
  | _, [] => rfl
  | i, _ :: t => by simp [depPairsFrom, depPairs_length R (i + 1) t]

theorem depPairs_mem (R : Render) : ∀ (i : Nat) (l : List (OH Bytes)) (p : Bytes × Bytes), p ∈ depPairsFrom R i l →
    ∃ j oh, i ≤ j ∧ j < i + l.length ∧ p = (u64be j, R.ohR oh)
  | _, [], _, h => by cases h
  | i, oh :: t, p, h => by
    simp only [depPairsFrom, List.mem_cons] at h
    rcases h with rfl | h
    · exact ⟨i, oh, Nat.le_refl _, by simp, rfl⟩
    · obtain ⟨j, oh', h1, h2, h3⟩ := depPairs_mem R (i + 1) t p h
      exact ⟨j, oh', by omega, by simp; omega, h3⟩

theorem depPairs_nodup (R : Render) : ∀ (i : Nat) (l : List (OH Bytes)), i + l.length ≤ 2 ^ 64 →
    ((depPairsFrom R i l).map Prod.fst).Nodup
  | _, [], _ => by simp [depPairsFrom]
  | i, oh :: t, h => by
    simp only [depPairsFrom, List.map_cons, List.nodup_cons]
    refine ⟨?_, depPairs_nodup R (i + 1) t (by simp at h; omega)⟩
    intro hm
    obtain ⟨p, hp, he⟩ := List.mem_map.1 hm
    obtain ⟨j, oh', h1, h2, h3⟩ := depPairs_mem R (i + 1) t p hp
    rw [h3] at he
    have : j = i := u64be_inj (by simp at h; omega) (by simp at h; omega) he
    omega

def render (R : Render) (ks : Exec.KeyState Bytes) : Grog.KeyState :=
  { label := ks.label, command := R.cmdR ks.cmd, inputs := ks.inputs.map (·.1), content := contentOf ks.inputs,
    outputs := ks.outs.map outDefR, deps := depPairsFrom R 0 ks.deps, fingerprint := ks.fp, platform := some ks.plat }

/-- the build parameters with the real key: `GetTargetChangeHash` of the rendered key-state -/
def realParams (R : Render) (run : Cmd → View → RunRes) (fx : Fixes) : Params Bytes :=
  { K := fun ks => key R.H (render R ks), run := run, fx := fx }

/-- admissible: the size conditions of C09 (`WFState`: every hashed component shorter than 2^64 bytes, distinct
    fingerprint keys) and consistent duplicates among the inputs -/
def realAdm (R : Render) : AdmSpec Bytes :=
  { ks := fun ks => C09.WFState (render R ks) ∧ Functional ks.inputs,
    tgt := fun t => Small t.label ∧ Small (R.cmdR t.cmd) ∧ SmallList t.inputs ∧ SmallList (t.outs.map outDefR) ∧
      t.hdeps.length < 2 ^ 64 ∧ SmallKV t.fp ∧ (t.fp.map Prod.fst).Nodup ∧ Small t.plat,
    val := Small }

/-- what remains a hypothesis about the real key and the commands -/
structure RealKey (R : Render) (run : Cmd → View → RunRes) : Prop where
  /-- the hash function does not collide (C09; nothing is claimed about xxh3 / SHA-256) -/
  hH : ∀ x y, R.H x = R.H y → x = y
  /-- its printed digest contains no `_` (hex) -/
  hU : ∀ x, cUnderscore ∉ R.H x
  /-- an output hash is printed as a string shorter than 2^64 bytes (it is a digest) -/
  ohSmall : ∀ oh, Small (R.ohR oh)
  /-- the result of a command depends on the command only through its text, on the inputs only as a set of
      (path, content) pairs and on the dependency output hashes only as a multiset -/
  runCongr : ∀ (a b : Exec.KeyState Bytes), R.cmdR a.cmd = R.cmdR b.cmd → (∀ pv, pv ∈ a.inputs ↔ pv ∈ b.inputs) →
    (a.deps.map R.ohR).Perm (b.deps.map R.ohR) → run a.cmd (viewOf a) = run b.cmd (viewOf b)
  complete : ∀ c v, (run c v).exit0 = true → (run c v).outs.map (·.1) = c.writes
  hermetic : ∀ c v, (run c v).sets = []

theorem isEmpty_of_perm_map {α β : Type} (f : α → β) (a b : List α) (h : (a.map f).Perm (b.map f)) : a.isEmpty = b.isEmpty := by
  have := h.length_eq
  simp only [List.length_map] at this
  cases a <;> cases b <;> simp_all

theorem pairs_of_stateEq (R : Render) (a b : Exec.KeyState Bytes) (fa : Functional a.inputs) (fb : Functional b.inputs)
    (h3 : ∀ p, p ∈ (render R a).inputs ↔ p ∈ (render R b).inputs)
    (h4 : ∀ p ∈ (render R a).inputs, (render R a).content p = (render R b).content p) :
    ∀ pv, pv ∈ a.inputs → pv ∈ b.inputs := by
  intro pv hpv
  have hp : pv.1 ∈ (render R a).inputs := List.mem_map.2 ⟨pv, hpv, rfl⟩
  obtain ⟨pv', hpv', he⟩ := List.mem_map.1 ((h3 pv.1).1 hp)
  have h1 : contentOf a.inputs pv.1 = pv.2 := fa pv hpv
  have h2 : contentOf b.inputs pv'.1 = pv'.2 := fb pv' hpv'
  have h5 : contentOf a.inputs pv.1 = contentOf b.inputs pv.1 := h4 pv.1 hp
  have : pv' = pv := by
    apply Prod.ext he
    rw [← h2, he, ← h5, h1]
  rw [← this]; exact hpv'

/-- **`GoodK` for the real key.** With `K := key H ∘ render`, equal keys of admissible key-states force (by
    `C09.key_eq_iff`) equal label, command text, the same set of (input path, content) pairs, the same declared outputs up
    to order and the same dependency output hashes up to order — hence, by `runCongr`, the same result of the command. -/
theorem goodK_real (R : Render) (run : Cmd → View → RunRes) (fx : Fixes) (hR : RealKey R run) :
    GoodK (realParams R run fx) (realAdm R) where
  inj := by
    rintro a b ⟨wa, fa⟩ ⟨wb, fb⟩ hk
    obtain ⟨h1, h2, h3, h4, h5, h6, _, _⟩ := (C09.key_eq_iff R.H hR.hH hR.hU _ _ wa wb).1 hk
    refine ⟨h1, isEmpty_of_perm_map outDefR a.outs b.outs h5, ?_⟩
    have h6' : (a.deps.map R.ohR).Perm (b.deps.map R.ohR) := by
      have := h6.map Prod.snd
      simpa only [render, depPairs_snd] using this
    apply hR.runCongr a b h2 _ h6'
    intro pv
    constructor
    · exact pairs_of_stateEq R a b fa fb h3 h4 pv
    · apply pairs_of_stateEq R b a fb fa (fun p => (h3 p).symm)
      intro p hp
      exact (h4 p ((h3 p).2 hp)).symm
  complete := hR.complete
  hermetic := hR.hermetic
  admKs := by
    rintro t fs ohs ⟨hl, hc, hi, ho, hd, hf, hfk, hp⟩ hv hlen
    refine ⟨⟨hl, hc, ?_, ho, ?_, ?_, hf, hfk, ?_, ?_⟩, functional_map fs t.inputs⟩
    · show SmallList ((t.inputs.map fun p => (p, fs p)).map (·.1))
      simpa [List.map_map, Function.comp_def] using hi
    · show SmallKV (depPairsFrom R 0 ohs)
      refine ⟨by rw [depPairs_length, hlen]; exact hd, fun x hx => ?_⟩
      obtain ⟨j, oh, _, _, rfl⟩ := depPairs_mem R 0 ohs x hx
      exact ⟨by show (u64be j).length < 2 ^ 64; rw [length_u64be]; decide, hR.ohSmall oh⟩
    · show ((depPairsFrom R 0 ohs).map Prod.fst).Nodup
      exact depPairs_nodup R 0 ohs (by rw [Nat.zero_add, hlen]; exact Nat.le_of_lt hd)
    · intro p hpp
      simp only [render, keyState, Option.some.injEq] at hpp
      rw [← hpp]; exact hp
    · intro p c hcp
      have hcp' : contentOf (t.inputs.map fun q => (q, fs q)) p = some c := hcp
      rw [contentOf_map] at hcp'
      split at hcp'
      · rename_i hm; exact hv p hm c hcp'
      · cases hcp'

end real

/-! ## (C) the build theorems for the real key -/
section instantiated

/-- **C01 for the real key**: from any cache that is sound w.r.t. the real key and any content at the output paths, a
    mode-`all` build over a well-formed order of admissible targets (sizes < 2^64, distinct fingerprint keys) with admissible
    input contents succeeds iff the cache-free specification does, and then all declared outputs are byte-identical to it. -/
theorem build_eq_clean_real (R : Render) (run : Cmd → View → RunRes) (fx : Fixes) (hR : RealKey R run) (hfx : fx.gateChecks = true)
    (cfg : Cfg) (hm : cfg.minimal = false) (w : World Bytes) (order : List Lbl) (hwf : WF w.defs order)
    (hT : ∀ l ∈ order, ∀ t, w.defs l = some t → (realAdm R).tgt t) (hin : InOk (realAdm R) w.defs order w.fs)
    (hs : CacheSoundK (realParams R run fx) (realAdm R) w.cache) (fs0 : FS)
    (hag : ∀ p, (∀ l ∈ order, ∀ t, w.defs l = some t → p ∉ outPaths t) → w.fs p = fs0 p) :
    (succeeded (build (realParams R run fx) cfg w order) order = true ↔ ∀ l ∈ order, (Spec.clean run w.defs fs0 order).ok l = some true) ∧
    (succeeded (build (realParams R run fx) cfg w order) order = true → ∀ l ∈ order, ∀ t, w.defs l = some t → ∀ p ∈ outPaths t,
      (build (realParams R run fx) cfg w order).fs p = (Spec.clean run w.defs fs0 order).fs p) :=
  build_eq_cleanK (goodK_real R run fx hR) hfx cfg hm w order hwf hT hin hs fs0 hag

/-- the cache stays sound w.r.t. the real key over every history (C01.cacheSound_preserved) -/
theorem cacheSound_preserved_real (R : Render) (run : Cmd → View → RunRes) (fx : Fixes) (hR : RealKey R run) (hfx : fx.gateChecks = true)
    (h : List Step) (w : World Bytes) (hok : HistOKK (realParams R run fx) (realAdm R) w h)
    (hs : CacheSoundK (realParams R run fx) (realAdm R) w.cache) :
    CacheSoundK (realParams R run fx) (realAdm R) (runHistory (realParams R run fx) w h).cache :=
  cacheSoundK_preserved (goodK_real R run fx hR) hfx h w hok hs

/-- **C02.noop_rebuild for the real key** -/
theorem noop_rebuild_real (R : Render) (run : Cmd → View → RunRes) (fx : Fixes) (hR : RealKey R run)
    (cfg : Cfg) (w : World Bytes) (order : List Lbl) (hwf : WF w.defs order)
    (hT : ∀ l ∈ order, ∀ t, w.defs l = some t → (realAdm R).tgt t) (hin : InOk (realAdm R) w.defs order w.fs)
    (hpl : Plain (realParams R run fx) cfg w.defs order)
    (hsucc : succeeded (build (realParams R run fx) cfg w order) order = true) (fs' : FS)
    (hfs : ∀ p, (∀ l ∈ order, ∀ t, w.defs l = some t → p ∉ outPaths t) → fs' p = (build (realParams R run fx) cfg w order).fs p) :
    executed (build (realParams R run fx) cfg { w with fs := fs', cache := (build (realParams R run fx) cfg w order).cache } order) = [] :=
  noop_rebuildK (goodK_real R run fx hR) cfg w order hwf hT hin hpl hsucc fs' hfs

/-- the hypotheses are satisfiable: a rendering and a command semantics satisfying `RealKey` (the hash of C09's example,
    commands that never succeed), an admissible target, an admissible key-state -/
def exRender : Render := { H := C09.hexId, cmdR := fun c => c.salt, ohR := fun _ => [] }

def exRun : Cmd → View → RunRes := fun _ _ => ⟨false, [], []⟩

theorem exRealKey : RealKey exRender exRun :=
  ⟨C09.hexId_injective, C09.hexId_no_underscore, fun _ => by show ([] : Bytes).length < 2 ^ 64; decide, fun _ _ _ _ _ => rfl,
   fun c v h => by simp [exRun] at h, fun _ _ => rfl⟩

example : GoodK (realParams exRender exRun Fixes.current) (realAdm exRender) := goodK_real _ _ _ exRealKey

example : (realAdm exRender).tgt (mkT [97] [⟨false, [111]⟩] [] false) ∧
    (realAdm exRender).ks (keyState (mkT [97] [⟨false, [111]⟩] [] false) (fun _ => none) ([] : List (OH Bytes))) := by
  have ht : (realAdm exRender).tgt (mkT [97] [⟨false, [111]⟩] [] false) := by
    refine ⟨by unfold Small; decide, by unfold Small; decide, ⟨by decide, fun x hx => by simp [mkT] at hx⟩,
      ⟨by decide, fun x hx => ?_⟩, by decide, ⟨by decide, fun x hx => by simp [mkT] at hx⟩, by simp [mkT], by unfold Small; decide⟩
    simp [mkT, outDefR] at hx; subst hx; unfold Small; decide
  exact ⟨ht, (goodK_real exRender exRun Fixes.current exRealKey).admKs _ _ _ ht (fun p hp => by simp [mkT] at hp) rfl⟩

end instantiated

end Grog.Compose
