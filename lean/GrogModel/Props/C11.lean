/-
  C11 — invalid build graphs are rejected before anything runs; valid ones are accepted.
  Property theorems only. Model: GrogModel/Analysis.lean, GrogModel/Paths.lean.
  Specification (`Spec.valid`, the property's list of defects): GrogModel/Lemmas/AnalysisSpec.lean.
  Helper lemmas: GrogModel/Lemmas/{AnalysisGraph,AnalysisCycle,Paths,AnalysisSpec,AnalysisCache,AnalysisConstraints,
  AnalysisOrder}.lean.

  `analyze ws ps` is what `grog build` / `grog check` decide about the packages `ps` in the workspace
  with root `ws` before anything is executed.
-/
import GrogModel.Lemmas.AnalysisOrder
namespace Grog.C11
open Grog Grog.Paths Grog.Analysis Grog.Analysis.Spec

/-! ### pieces -/

/-- a reported cycle is a real cycle of the graph handed to `FindCycle`: the reported list starts and ends
    in the same vertex and its consecutive entries are edges; in particular some vertex reaches itself -/
theorem findCycle_sound (V : List Label) (succ : Label → List Label)
    (c : List Label) (h : findCycleG V succ = .cycle c) :
    ClosedWalk succ c ∧ ∃ x, TPath (stepOf succ) x x :=
  ⟨findCycleG_closedWalk succ V c h, (findCycleG_closedWalk succ V c h).tpath⟩

/-- no report ⇒ the graph is acyclic; and the depth bound of the search is never hit -/
theorem findCycle_complete (V : List Label) (succ : Label → List Label) (hV : ∀ u v, v ∈ succ u → v ∈ V) :
    (∀ b, findCycleG V succ = .ok b → Acyclic succ) ∧ findCycleG V succ ≠ .fuel := by
  have := findCycleG_spec V succ hV
  constructor
  · intro b hb; rw [hb] at this; exact this
  · intro hf; rw [hf] at this; exact this

example : findCycleG [⟨[], [97]⟩, ⟨[], [98]⟩] (fun l => if l = ⟨[], [97]⟩ then [⟨[], [98]⟩] else [⟨[], [97]⟩])
    = .cycle [⟨[], [97]⟩, ⟨[], [98]⟩, ⟨[], [97]⟩] := by decide

/-- `filepath.Clean` is idempotent on relative paths -/
theorem clean_normal_form (p : Bytes) (h : isAbs p = false) : clean (clean p) = clean p :=
  Paths.clean_normal_form h

/-- the string-prefix test `pathWithin` on cleaned relative paths is containment of component lists -/
theorem within_iff_prefix (p d : List Bytes) (hp : CompsOK p) (hd : CompsOK d) :
    pathWithin true (renderRel p) (renderRel d) = true ↔ Inside p d :=
  Paths.within_iff_prefix hp hd

example : CompsOK [[100], [120]] ∧ CompsOK [[100]] ∧ Inside [[100], [120]] [[100]] := by
  refine ⟨by unfold CompsOK; decide, by unfold CompsOK; decide, ⟨[[120]], rfl⟩, by simp⟩

/-- the code's "ordered by dependency" test is reachability along dependencies, one way or the other -/
theorem ordered_iff (ns : List Node) (hnd : NoDuplicate ns) (hdef : DepsDefined ns) (a b : Label) :
    ordered Cfg.current ns a b = true ↔ a = b ∨ Reach ns a b ∨ Reach ns b a := by
  rw [Analysis.ordered_iff hnd hdef]; simp [Cfg.current, Ordered]

/-- `getAncestorSet` returns exactly the transitive dependencies, whatever (correct) memo table it is
    given, and leaves a correct memo table behind -/
theorem ancestorSet_eq_reach (ns : List Node) (hnd : NoDuplicate ns) (hdef : DepsDefined ns)
    (c : Cache) (hc : CacheOK ns c) (a : Label) :
    (∀ b, b ∈ (getAncestorSet ns c a).1 ↔ Reach ns a b) ∧ CacheOK ns (getAncestorSet ns c a).2 :=
  getAncestorSet_spec hnd hdef hc a

example : CacheOK [] [] := cacheOK_nil []

/-- the memo table of `getAncestorSet` never changes an answer: conflict detection with the table
    (what the code does, `hasConflictC`) equals conflict detection without it -/
theorem ancestorCache_transparent (ns : List Node) (hnd : NoDuplicate ns) (hdef : DepsDefined ns) (cfg : Cfg) :
    hasConflictC cfg ns = hasConflict cfg ns :=
  hasConflictC_eq hnd hdef cfg

/-- conflict detection ⇔ there are two different targets, unordered, with overlapping outputs -/
theorem conflict_iff (ns : List Node) (hnd : NoDuplicate ns) (hdef : DepsDefined ns) (hrel : RelOuts ns) :
    hasConflictC Cfg.current ns = true ↔ Conflict ns := by
  rw [hasConflictC_eq hnd hdef]; exact hasConflict_iff hnd hdef hrel

/-! ### the property -/

/-- **Soundness and completeness of the analysis.** For an absolute workspace root and relative package
    paths: the analysis accepts exactly the graphs that have none of the listed defects (`Spec.valid`)
    — and in which every test target has a command, which the same pass also insists on. -/
theorem accepts_iff_valid (ws : Bytes) (ps : List Pkg) (hws : isAbs ws = true) (hpk : PkgRel ps) :
    analyze ws ps = .accept ↔ Spec.valid ws ps ∧ TestsHaveCommands ps := by
  unfold analyze analyzeWith
  rcases buildNodeMap_spec ps with ⟨hb, hnd⟩ | ⟨hb, hnd⟩
  · rw [hb]
    simp only
    constructor
    · intro h
      cases hg : buildGraph Cfg.current (allNodes ps) with
      | some k => simp [hg] at h
      | none =>
        simp only [hg] at h
        cases hc : constraintErrors Cfg.current ws (allNodes ps) with
        | cons k r => simp [hc] at h
        | nil =>
          have hout := constraintErrors_nil_outputs hws hc
          have hrel := relOuts_of_outputs hpk hout
          obtain ⟨hdef, hnc, hcf⟩ := (buildGraph_none_iff hnd hrel).mp hg
          obtain ⟨h1, h2, h3, h4⟩ := (constraintErrors_nil hws hnd hnc).mp hc
          exact ⟨⟨hnd, hdef, hnc, hcf, h1, h2, h4⟩, h3⟩
    · rintro ⟨⟨_, hdef, hnc, hcf, h1, h2, h4⟩, h3⟩
      have hrel := relOuts_of_outputs hpk h2
      rw [(buildGraph_none_iff hnd hrel).mpr ⟨hdef, hnc, hcf⟩]
      simp only
      rw [(constraintErrors_nil hws hnd hnc).mpr ⟨h1, h2, h3, h4⟩]
  · rw [hb]
    simp only
    constructor
    · intro h; cases h
    · rintro ⟨hv, _⟩; exact absurd hv.noDuplicate hnd

/-- accepted ⇒ valid (every listed defect leads to rejection) -/
theorem accepts_implies_valid (ws : Bytes) (ps : List Pkg) (hws : isAbs ws = true) (hpk : PkgRel ps)
    (h : analyze ws ps = .accept) : Spec.valid ws ps :=
  ((accepts_iff_valid ws ps hws hpk).mp h).1

/-- valid (and test targets have commands) ⇒ accepted (nothing else is rejected) -/
theorem valid_implies_accepts (ws : Bytes) (ps : List Pkg) (hws : isAbs ws = true) (hpk : PkgRel ps)
    (hv : Spec.valid ws ps) (hc : TestsHaveCommands ps) : analyze ws ps = .accept :=
  (accepts_iff_valid ws ps hws hpk).mpr ⟨hv, hc⟩

/-- as the property states it, for graphs whose test targets have commands -/
theorem rejects_iff_defect (ws : Bytes) (ps : List Pkg) (hws : isAbs ws = true) (hpk : PkgRel ps)
    (hc : TestsHaveCommands ps) : (∃ k, analyze ws ps = .reject k) ↔ ¬ Spec.valid ws ps := by
  constructor
  · rintro ⟨k, hk⟩ hv
    rw [valid_implies_accepts ws ps hws hpk hv hc] at hk
    cases hk
  · intro hnv
    cases h : analyze ws ps with
    | accept => exact absurd (accepts_implies_valid ws ps hws hpk h) hnv
    | reject k => exact ⟨k, rfl⟩

/-! a valid, non-trivial graph: `//:a` writes `x`; alias `//p:al → //:a`; `//p:b` depends on the alias and
    writes `../x` (the same file) and the directory `d`; both are accepted because they are ordered. -/
def exA : Target := ⟨⟨[], [97]⟩, [], [[115]], [⟨.file, [120]⟩], false, true⟩
def exB : Target := ⟨⟨[112], [98]⟩, [⟨[112], [97, 108]⟩], [], [⟨.file, [46, 46, 47, 120]⟩, ⟨.dir, [100]⟩], false, true⟩
def exPs : List Pkg := [⟨[exA], []⟩, ⟨[exB], [⟨⟨[112], [97, 108]⟩, ⟨[], [97]⟩⟩]⟩]
def exWs : Bytes := [47, 119]

example : analyze exWs exPs = .accept := by decide
example : isAbs exWs = true ∧ PkgRel exPs := by
  refine ⟨by decide, ?_⟩
  intro t ht
  simp [exPs, allNodes, pkgNodes] at ht
  rcases ht with rfl | rfl <;> decide
/-- the hypotheses of the piece lemmas (`ordered_iff`, `ancestorSet_eq_reach`, `conflict_iff`, …) hold of this graph,
    and so does the specification -/
example : Spec.valid exWs exPs ∧ NoDuplicate (allNodes exPs) ∧ DepsDefined (allNodes exPs) ∧ RelOuts (allNodes exPs) := by
  have hpk : PkgRel exPs := by
    intro t ht
    simp [exPs, allNodes, pkgNodes] at ht
    rcases ht with rfl | rfl <;> decide
  have hv := accepts_implies_valid exWs exPs (by decide) hpk (by decide)
  exact ⟨hv, hv.noDuplicate, hv.depsDefined, relOuts_of_outputs hpk hv.outputs⟩
/-- `//p:b` is ordered after `//:a` only through the alias -/
example : ordered Cfg.current (allNodes exPs) ⟨[112], [98]⟩ ⟨[], [97]⟩ = true ∧
    ordered Cfg.current (allNodes exPs) ⟨[], [97]⟩ ⟨[112], [97, 108]⟩ = true := by decide
/-- … and without the dependency the same two targets are rejected -/
example : analyze exWs [⟨[exA], []⟩, ⟨[{ exB with deps := [] }], []⟩] = .reject .conflict := by decide

/-- **Order does not matter.** Two enumerations of the same nodes (packages, targets and aliases in any
    order, grouped into package values in any way) get the same accept/reject verdict — Go iterates over
    maps, the model over lists. -/
theorem verdict_order_independent (ws : Bytes) (ps ps' : List Pkg) (hws : isAbs ws = true) (hpk : PkgRel ps)
    (hp : (allNodes ps).Perm (allNodes ps')) :
    analyze ws ps = .accept ↔ analyze ws ps' = .accept := by
  have hm : ∀ n, n ∈ allNodes ps ↔ n ∈ allNodes ps' := fun n => hp.mem_iff
  have hpk' : PkgRel ps' := fun t ht => hpk t ((hm _).mpr ht)
  rw [accepts_iff_valid ws ps hws hpk, accepts_iff_valid ws ps' hws hpk']
  constructor
  · rintro ⟨hv, hc⟩
    exact ⟨valid_perm ws hp hv, fun t ht => hc t ((hm _).mpr ht)⟩
  · rintro ⟨hv, hc⟩
    exact ⟨valid_perm ws hp.symm hv, fun t ht => hc t ((hm _).mp ht)⟩

example : (allNodes exPs).Perm (allNodes exPs.reverse) := by decide

/-- **A rejection names a defect that is present** (which one of several is reported may depend on the
    order): the graph has a defect of the reported kind — or, for a reported output conflict, at least an
    absolute output path (the conflict test runs before the path checks). -/
theorem reject_names_present_defect (ws : Bytes) (ps : List Pkg) (hws : isAbs ws = true) (hpk : PkgRel ps)
    (k : Kind) (h : analyze ws ps = .reject k) :
    Spec.hasDefect ws (allNodes ps) k ∨
      (k = .conflict ∧ Spec.hasDefect ws (allNodes ps) .outputEscape) := by
  unfold analyze analyzeWith at h
  rcases buildNodeMap_spec ps with ⟨hb, hnd⟩ | ⟨hb, hnd⟩
  · rw [hb] at h
    simp only at h
    cases hg : buildGraph Cfg.current (allNodes ps) with
    | some k' =>
      simp only [hg, Verdict.reject.injEq] at h
      subst h
      unfold buildGraph at hg
      cases he : edgeErrors (allNodes ps) with
      | some k'' =>
        simp only [he, Option.some.injEq] at hg
        subst hg
        rcases edgeErrors_some he with ⟨rfl, hd⟩ | ⟨rfl, hs⟩
        · exact .inl hd
        · exact .inl hs
      | none =>
        have hdef := (edgeErrors_none.mp he).1
        simp only [he] at hg
        have hfc := findCycle_spec (allNodes ps)
        revert hfc hg
        cases findCycle (allNodes ps) <;> simp only
        · intro hg hc
          simp only [Option.some.injEq] at hg; subst hg
          exact .inl hc
        · intro hg _
          split at hg
          · rename_i hcf
            simp only [Option.some.injEq] at hg; subst hg
            -- either all outputs are relative and the conflict is one of the specification, or one is absolute
            by_cases habs : ∃ t, Node.target t ∈ allNodes ps ∧ ∃ o ∈ t.outs, o.kind ≠ .docker ∧ isAbs o.ident = true
            · obtain ⟨t, ht, o, ho, hk, ha⟩ := habs
              exact .inr ⟨rfl, t, ht, o, ho, hk, .inl ha⟩
            · have hrel : RelOuts (allNodes ps) := by
                refine ⟨hpk, ?_⟩
                intro t ht o ho hk
                cases hh : isAbs o.ident
                · rfl
                · exact absurd ⟨t, ht, o, ho, hk, hh⟩ habs
              exact .inl ((conflict_iff _ hnd hdef hrel).mp hcf)
          · cases hg
        · intro _ hf; exact hf.elim
    | none =>
      simp only [hg] at h
      cases hc : constraintErrors Cfg.current ws (allNodes ps) with
      | nil => simp [hc] at h
      | cons k' r =>
        simp only [hc, Verdict.reject.injEq] at h
        subst h
        exact .inl (mem_constraintErrors hws (hc ▸ List.mem_cons_self))
  · rw [hb] at h
    simp only [Verdict.reject.injEq] at h
    subst h
    exact .inl hnd

/-! ### nothing runs on reject -/

/-- `build`, `test`, `run` and `check` reach the executor only after `accept` of the WHOLE loaded graph: if the
    analysis rejects, the run consists of the diagnostic and the failing exit — whatever the command and whatever
    target patterns or tag filters were given (a defect outside the selected part still stops everything) -/
theorem reject_runs_nothing (r : Request) (ws : Bytes) (ps : List Pkg) (k : Kind)
    (h : analyze ws ps = .reject k) :
    runCmd Cfg.current r ws ps = [.diagnostic k, .exitFail] ∧ Ev.execute ∉ runCmd Cfg.current r ws ps := by
  have h' : analyzeWith Cfg.current ws ps = .reject k := h
  simp [runCmd, h']

/-- and conversely the executor is started exactly by `build` / `test` / `run` on an accepted graph -/
theorem executes_iff (r : Request) (ws : Bytes) (ps : List Pkg) :
    Ev.execute ∈ runCmd Cfg.current r ws ps ↔ r.cmd ≠ .check ∧ analyze ws ps = .accept := by
  unfold analyze runCmd
  cases analyzeWith Cfg.current ws ps <;> cases r.cmd <;> simp

/-- a request that selects only a valid package of a graph that is invalid elsewhere -/
example : runCmd Cfg.current ⟨.build, [[47, 47, 112, 47, 46, 46, 46]], []⟩ exWs
    [⟨[exB], [⟨⟨[112], [97, 108]⟩, ⟨[], [97]⟩⟩]⟩, ⟨[{ exA with inputs := [[46, 46, 47, 115]] }], []⟩]
    = [.diagnostic .inputEscape, .exitFail] := by decide

example : analyze exWs [⟨[{ exA with deps := [⟨[], [97]⟩] }], []⟩] = .reject .selfLoop := by decide

/-! ### regression witnesses for the three repaired defects (behaviour of the tree before the `fix:` commits) -/

/-- F-direscape: a directory output outside the workspace was accepted -/
theorem old_accepts_escaping_dir :
    let ps : List Pkg := [⟨[⟨⟨[], [97]⟩, [], [], [⟨.dir, [46, 46, 47, 46, 46, 47, 120]⟩], false, true⟩], []⟩]
    analyzeOld exWs ps = .accept ∧ analyze exWs ps = .reject .outputEscape := by decide

/-- F-selfoverlap: one target with `dir::d` and `d/x` was rejected as a conflict with itself -/
theorem old_rejects_self_overlap :
    let ps : List Pkg := [⟨[⟨⟨[], [97]⟩, [], [], [⟨.dir, [100]⟩, ⟨.file, [100, 47, 120]⟩], false, true⟩], []⟩]
    analyzeOld exWs ps = .reject .conflict ∧ analyze exWs ps = .accept := by decide

/-- F-dotdir: `dir::.` and a file below it, declared by unordered targets, were accepted -/
theorem old_accepts_dot_overlap :
    let ps : List Pkg := [⟨[⟨⟨[], [97]⟩, [], [], [⟨.dir, [46]⟩], false, true⟩,
                            ⟨⟨[], [98]⟩, [], [], [⟨.file, [120]⟩], false, true⟩], []⟩]
    analyzeOld exWs ps = .accept ∧ analyze exWs ps = .reject .conflict := by decide

end Grog.C11
