/-
  Composition C02 → C20: `edit_predicts` in full. The graph group proved `C20.edit_predicts_partial` against an abstract
  hypothesis about the build ("what a build re-executes lies in the changed targets and their descendants"); here that
  hypothesis is discharged by `C02.reexec_subset_history` of the build model, for a build graph whose edges contain the
  dependency relation of the definitions the second build runs on.
-/
import GrogModel.Props.C02
import GrogModel.Props.C20
set_option linter.unusedSectionVars false
set_option linter.unusedVariables false
namespace Grog.Compose
open Grog Grog.Exec Grog.Build

variable {κ : Type} [DecidableEq κ]

/-- node `i` is a changed node or a descendant (dependant, transitively) of one -/
def Downstream (es : List Edge) (changed : List Nat) (i : Nat) : Prop :=
  i ∈ changed ∨ ∃ c ∈ changed, i ∈ (descendantsV es c).nodes

theorem downstream_edge {es : List Edge} {changed : List Nat} {a b : Nat} (h : Downstream es changed a) (e : (a, b) ∈ es) :
    Downstream es changed b := by
  rcases h with h | ⟨c, hc, hd⟩
  · by_cases hb : b = a
    · subst hb; exact Or.inl h
    · exact Or.inr ⟨a, h, mem_descendantsV.2 ⟨⟨b, e, Reach.refl b⟩, hb⟩⟩
  · obtain ⟨⟨y, e1, hr⟩, _⟩ := mem_descendantsV.1 hd
    by_cases hb : b = c
    · subst hb; exact Or.inl hc
    · exact Or.inr ⟨c, hc, mem_descendantsV.2 ⟨⟨y, e1, hr.tail e⟩, hb⟩⟩

/-- `Downstream` is closed under paths: dependency edges *through aliases* are paths of the real graph (the build model's
    `Target.deps` are alias-followed, `GetTargetDependencies`) -/
theorem downstream_path {es : List Edge} {changed : List Nat} {a b : Nat} (h : Downstream es changed a) (hp : ReachPlus es a b) :
    Downstream es changed b := by
  rcases h with h | ⟨c, hc, hd⟩
  · by_cases hb : b = a
    · subst hb; exact Or.inl h
    · exact Or.inr ⟨a, h, mem_descendantsV.2 ⟨hp, hb⟩⟩
  · obtain ⟨⟨y, e1, hr⟩, _⟩ := mem_descendantsV.1 hd
    obtain ⟨z, e2, hr2⟩ := hp
    by_cases hb : b = c
    · subst hb; exact Or.inl hc
    · exact Or.inr ⟨c, hc, mem_descendantsV.2 ⟨⟨y, e1, hr.trans (Reach.step e2 hr2)⟩, hb⟩⟩

/-- **edit_predicts, composed.** `nodeOf` places the targets of the build model on the nodes of a graph `es` in which every
    dependency of the build model (alias-followed) is a *path* dependency → … → dependant (a direct edge, or edges through aliases). After a successful build, touch the definitions / inputs / check files of
    targets whose nodes are in `changed` only (anything may happen at output paths) and build the same selection again: every
    command the second build executes belongs to a target whose node is in `changed` or is a descendant of a node in `changed`
    — the hypothesis `hC02` of `C20.edit_predicts_partial`, as a theorem of the build model. -/
theorem reexec_downstream {P : Params κ} (hG : Good P) (cfg : Cfg) (w : World κ) (order : List Lbl)
    (hwf0 : WF w.defs order) (hpl0 : Plain P cfg w.defs order) (hsucc : succeeded (build P cfg w order) order = true)
    (defs' : Defs) (fs' : FS) (hwf : WF defs' order) (hpl : Plain P cfg defs' order)
    (es : List Edge) (nodeOf : Lbl → Nat) (changed : List Nat)
    (hedge : ∀ l ∈ order, ∀ t, defs' l = some t → ∀ d ∈ t.deps, ReachPlus es (nodeOf d) (nodeOf l))
    (hsame : ∀ l ∈ order, ¬ Downstream es changed (nodeOf l) → defs' l = w.defs l)
    (hfs : ∀ l ∈ order, ¬ Downstream es changed (nodeOf l) → ∀ t, defs' l = some t →
      (∀ p ∈ t.inputs, fs' p = (build P cfg w order).fs p) ∧ (∀ c ∈ t.checks, fs' c.1 = (build P cfg w order).fs c.1)) :
    ∀ x ∈ executed (build P cfg ⟨defs', fs', (build P cfg w order).cache⟩ order),
      nodeOf x ∈ changed ∨ ∃ c ∈ changed, nodeOf x ∈ (descendantsV es c).nodes :=
  C02.reexec_subset_history hG cfg w order hwf0 hpl0 hsucc defs' fs' (fun l => Downstream es changed (nodeOf l)) hwf hpl hsame
    (fun l hl hnD t ht d hd hDd => hnD (downstream_path hDd (hedge l hl t ht d hd))) hfs

/-- **C20.edit_predicts in full**: with `changed ⊆ owners f` (editing `f` changes the own state of owners of `f` only) the
    targets re-executed after the edit are owners of `f` or transitive dependants of owners. -/
theorem edit_predicts {P : Params κ} (hG : Good P) (cfg : Cfg) (w : World κ) (order : List Lbl)
    (hwf0 : WF w.defs order) (hpl0 : Plain P cfg w.defs order) (hsucc : succeeded (build P cfg w order) order = true)
    (defs' : Defs) (fs' : FS) (hwf : WF defs' order) (hpl : Plain P cfg defs' order)
    (g : BuildGraph) (inputs : Nat → List Bytes) (f : Bytes) (nodeOf : Lbl → Nat) (changed : List Nat)
    (hchanged : ∀ c ∈ changed, c ∈ ownersOf g inputs [f])
    (hedge : ∀ l ∈ order, ∀ t, defs' l = some t → ∀ d ∈ t.deps, ReachPlus g.edges (nodeOf d) (nodeOf l))
    (hsame : ∀ l ∈ order, ¬ Downstream g.edges changed (nodeOf l) → defs' l = w.defs l)
    (hfs : ∀ l ∈ order, ¬ Downstream g.edges changed (nodeOf l) → ∀ t, defs' l = some t →
      (∀ p ∈ t.inputs, fs' p = (build P cfg w order).fs p) ∧ (∀ c ∈ t.checks, fs' c.1 = (build P cfg w order).fs c.1)) :
    C20.edit_predicts_statement g inputs f
      ((executed (build P cfg ⟨defs', fs', (build P cfg w order).cache⟩ order)).map nodeOf) := by
  apply C20.edit_predicts_partial g inputs f changed _ hchanged
  intro t ht
  obtain ⟨x, hx, rfl⟩ := List.mem_map.1 ht
  exact reexec_downstream hG cfg w order hwf0 hpl0 hsucc defs' fs' hwf hpl g.edges nodeOf changed hedge hsame hfs x hx

/-- **C20.edit_predicts with the edit modelled.** After a successful build, *edit the file `f`*: the definitions stay as they
    are and the file system differs from the one the build left behind at `f` only (`hedit`). Two facts tie the query to the
    build model: `hown` — the `owners` query is computed from the inputs the build hashes (a target that has `f` among its resolved
    inputs is an owner of `f` in `ownersOf g inputs [f]`) — and `hnochk` — `f` is not a file inspected by an output check. Then
    "editing `f` touches only owners of `f`" is *derived*, and every command the next build of the same selection executes belongs
    to an owner of `f` or to a transitive dependant of an owner (dependencies through aliases being paths of `g`). -/
theorem edit_predicts_file {P : Params κ} (hG : Good P) (cfg : Cfg) (w : World κ) (order : List Lbl)
    (hwf0 : WF w.defs order) (hpl0 : Plain P cfg w.defs order) (hsucc : succeeded (build P cfg w order) order = true)
    (g : BuildGraph) (inputs : Nat → List Bytes) (f : Bytes) (nodeOf : Lbl → Nat) (fs' : FS)
    (hedit : ∀ p, p ≠ f → fs' p = (build P cfg w order).fs p)
    (hown : ∀ l ∈ order, ∀ t, w.defs l = some t → f ∈ t.inputs → nodeOf l ∈ ownersOf g inputs [f])
    (hnochk : ∀ l ∈ order, ∀ t, w.defs l = some t → ∀ c ∈ t.checks, c.1 ≠ f)
    (hedge : ∀ l ∈ order, ∀ t, w.defs l = some t → ∀ d ∈ t.deps, ReachPlus g.edges (nodeOf d) (nodeOf l)) :
    C20.edit_predicts_statement g inputs f
      ((executed (build P cfg ⟨w.defs, fs', (build P cfg w order).cache⟩ order)).map nodeOf) := by
  apply edit_predicts hG cfg w order hwf0 hpl0 hsucc w.defs fs' hwf0 hpl0 g inputs f nodeOf (ownersOf g inputs [f])
    (fun c hc => hc) hedge (fun _ _ _ => rfl)
  intro l hl hnD t ht
  have hnotin : f ∉ t.inputs := fun hin => hnD (Or.inl (hown l hl t ht hin))
  refine ⟨fun p hp => hedit p (fun e => hnotin (e ▸ hp)), fun c hc => hedit c.1 (hnochk l hl t ht c hc)⟩

/-! ### the hypotheses are satisfiable on a graph with an alias

  `a ← al (alias) ← b`: target `b` depends on `a` through the alias `al`; in the build model `b.deps = [a]`
  (alias-followed), in the graph it is the two-edge path `0 → 1 → 2`. `a` has the input `f`. -/
namespace ExQ
def la : Lbl := [97]
def lb : Lbl := [98]
def fIn : Bytes := [102]
def ta : Target := ⟨la, ⟨[], 0, [⟨false, [111, 97]⟩], [], false⟩, [fIn], [⟨false, [111, 97]⟩], [], [], [], [], [], false, []⟩
def tb : Target := ⟨lb, ⟨[], 0, [⟨false, [111, 98]⟩], [], false⟩, [], [⟨false, [111, 98]⟩], [la], [la], [la], [], [], false, []⟩
def defs : Defs := fun l => if l = la then some ta else if l = lb then some tb else none
def g : BuildGraph :=
  ⟨[⟨⟨[], [97]⟩, true, [], [], false⟩, ⟨⟨[], [97, 108]⟩, false, [], [], false⟩, ⟨⟨[], [98]⟩, true, [], [], false⟩], [(0, 1), (1, 2)]⟩
def nodeOf : Lbl → Nat := fun l => if l = la then 0 else 2
def inputs : Nat → List Bytes := fun i => if i = 0 then [fIn] else []
end ExQ

/-- everything `edit_predicts_file` asks of the graph, the query and the edit holds for the non-empty selection `[a, b]` on the
    alias graph: well-formedness, the `Plain` mode, the dependency of `b` on `a` as a path through the alias (no direct edge
    exists), `a` as the owner of `f`, no check file. (A successful first build — `hsucc` — of such selections is what the
    edit→rebuild histories of tools/checks/c20.py and of the C02 check run on the real CLI.) -/
example (P : Params Nat) (hfx : P.fx.syncTaint = true ∧ P.fx.gateChecks = true) :
    WF ExQ.defs [ExQ.la, ExQ.lb] ∧ Plain P ⟨true, false⟩ ExQ.defs [ExQ.la, ExQ.lb] ∧
    (∀ l ∈ [ExQ.la, ExQ.lb], ∀ t, ExQ.defs l = some t → ∀ d ∈ t.deps, ReachPlus ExQ.g.edges (ExQ.nodeOf d) (ExQ.nodeOf l)) ∧
    ((ExQ.nodeOf ExQ.la, ExQ.nodeOf ExQ.lb) ∉ ExQ.g.edges) ∧
    (∀ l ∈ [ExQ.la, ExQ.lb], ∀ t, ExQ.defs l = some t → ExQ.fIn ∈ t.inputs → ExQ.nodeOf l ∈ ownersOf ExQ.g ExQ.inputs [ExQ.fIn]) ∧
    (∀ l ∈ [ExQ.la, ExQ.lb], ∀ t, ExQ.defs l = some t → ∀ c ∈ t.checks, c.1 ≠ ExQ.fIn) ∧
    ownersOf ExQ.g ExQ.inputs [ExQ.fIn] = [0] ∧ (descendantsV ExQ.g.edges 0).nodes = [1, 2] := by
  have hda : ExQ.defs ExQ.la = some ExQ.ta := by simp [ExQ.defs]
  have hdb : ExQ.defs ExQ.lb = some ExQ.tb := by simp [ExQ.defs, ExQ.la, ExQ.lb]
  have cases2 : ∀ l ∈ [ExQ.la, ExQ.lb], l = ExQ.la ∨ l = ExQ.lb := by intro l hl; simpa using hl
  have hdef : ∀ l t, ExQ.defs l = some t → (l = ExQ.la ∧ t = ExQ.ta) ∨ (l = ExQ.lb ∧ t = ExQ.tb) := by
    intro l t h
    simp only [ExQ.defs] at h
    split at h
    · rename_i h1; exact Or.inl ⟨h1, by simpa using h.symm⟩
    · split at h
      · rename_i h2; exact Or.inr ⟨h2, by simpa using h.symm⟩
      · cases h
  refine ⟨⟨by decide, ?_, ?_, ?_, ?_, ?_, ?_, ?_⟩, ⟨rfl, rfl, hfx.1, hfx.2, ?_⟩, ?_, by decide, ?_, ?_, by decide, by decide⟩
  · intro l hl; rcases cases2 l hl with rfl | rfl; exact ⟨_, hda⟩; exact ⟨_, hdb⟩
  · intro l t h; rcases hdef l t h with ⟨rfl, rfl⟩ | ⟨rfl, rfl⟩ <;> rfl
  · intro l _ t h; rcases hdef l t h with ⟨rfl, rfl⟩ | ⟨rfl, rfl⟩ <;> decide
  · intro pre l suf ho t h d hd
    rcases hdef l t h with ⟨rfl, rfl⟩ | ⟨rfl, rfl⟩
    · simp [ExQ.ta] at hd
    · simp only [ExQ.tb, List.mem_singleton] at hd; subst hd
      cases pre with
      | nil => simp [ExQ.la, ExQ.lb] at ho
      | cons x pre' =>
        simp only [List.cons_append, List.cons.injEq] at ho
        rw [← ho.1]; exact List.mem_cons_self ..
  · intro l1 _ l2 _ hne t1 t2 h1 h2 p hp
    rcases hdef l1 t1 h1 with ⟨rfl, rfl⟩ | ⟨rfl, rfl⟩ <;> rcases hdef l2 t2 h2 with ⟨rfl, rfl⟩ | ⟨rfl, rfl⟩
    · exact absurd rfl hne
    · revert p; decide
    · revert p; decide
    · exact absurd rfl hne
  · intro l _ t h l' _ t' h' p hp
    rcases hdef l t h with ⟨rfl, rfl⟩ | ⟨rfl, rfl⟩ <;> rcases hdef l' t' h' with ⟨rfl, rfl⟩ | ⟨rfl, rfl⟩ <;> revert p <;> decide
  · intro l _ t h l' _ t' h' c hc
    rcases hdef l t h with ⟨rfl, rfl⟩ | ⟨rfl, rfl⟩ <;> simp [ExQ.ta, ExQ.tb] at hc
  · intro l _ t h; rcases hdef l t h with ⟨rfl, rfl⟩ | ⟨rfl, rfl⟩ <;> rfl
  · intro l _ t h d hd
    rcases hdef l t h with ⟨rfl, rfl⟩ | ⟨rfl, rfl⟩
    · simp [ExQ.ta] at hd
    · simp only [ExQ.tb, List.mem_singleton] at hd; subst hd
      exact ⟨1, by decide, Reach.step (by decide : ((1 : Nat), (2 : Nat)) ∈ ExQ.g.edges) (Reach.refl 2)⟩
  · intro l _ t h hin
    rcases hdef l t h with ⟨rfl, rfl⟩ | ⟨rfl, rfl⟩
    · decide
    · simp [ExQ.tb] at hin
  · intro l _ t h c hc
    rcases hdef l t h with ⟨rfl, rfl⟩ | ⟨rfl, rfl⟩ <;> simp [ExQ.ta, ExQ.tb] at hc

end Grog.Compose
