/-
  Composition C02 → C20: `edit_predicts` in full. The graph group proved `C20.edit_predicts_partial` against an abstract
  hypothesis about the build ("what a build re-executes lies in the changed targets and their descendants"); here that
  hypothesis is discharged by `C02.reexec_subset_history` of the build model, for a build graph whose edges contain the
  dependency relation of the definitions the second build runs on.
-/
import GrogModel.Props.C02
import GrogModel.Props.C20
set_option linter.unusedSectionVars false
set_option linter.unusedVariables false
namespace Grog.Compose
open Grog Grog.Exec Grog.Build

variable {κ : Type} [DecidableEq κ]

/-- node `i` is a changed node or a descendant (dependant, transitively) of one -/
def Downstream (es : List Edge) (changed : List Nat) (i : Nat) : Prop :=
  i ∈ changed ∨ ∃ c ∈ changed, i ∈ (descendantsV es c).nodes

theorem downstream_edge {es : List Edge} {changed : List Nat} {a b : Nat} (h : Downstream es changed a) (e : (a, b) ∈ es) :
    Downstream es changed b := by
  rcases h with h | ⟨c, hc, hd⟩
  · by_cases hb : b = a
    · subst hb; exact Or.inl h
    · exact Or.inr ⟨a, h, mem_descendantsV.2 ⟨⟨b, e, Reach.refl b⟩, hb⟩⟩
  · obtain ⟨⟨y, e1, hr⟩, _⟩ := mem_descendantsV.1 hd
    by_cases hb : b = c
    · subst hb; exact Or.inl hc
    · exact Or.inr ⟨c, hc, mem_descendantsV.2 ⟨⟨y, e1, hr.tail e⟩, hb⟩⟩

/-- **edit_predicts, composed.** `nodeOf` places the targets of the build model on the nodes of a graph `es` whose edges contain
    every dependency (dependency → dependant). After a successful build, touch the definitions / inputs / check files of
    targets whose nodes are in `changed` only (anything may happen at output paths) and build the same selection again: every
    command the second build executes belongs to a target whose node is in `changed` or is a descendant of a node in `changed`
    — the hypothesis `hC02` of `C20.edit_predicts_partial`, as a theorem of the build model. -/
theorem reexec_downstream {P : Params κ} (hG : Good P) (cfg : Cfg) (w : World κ) (order : List Lbl)
    (hwf0 : WF w.defs order) (hpl0 : Plain P cfg w.defs order) (hsucc : succeeded (build P cfg w order) order = true)
    (defs' : Defs) (fs' : FS) (hwf : WF defs' order) (hpl : Plain P cfg defs' order)
    (es : List Edge) (nodeOf : Lbl → Nat) (changed : List Nat)
    (hedge : ∀ l ∈ order, ∀ t, defs' l = some t → ∀ d ∈ t.deps, (nodeOf d, nodeOf l) ∈ es)
    (hsame : ∀ l ∈ order, ¬ Downstream es changed (nodeOf l) → defs' l = w.defs l)
    (hfs : ∀ l ∈ order, ¬ Downstream es changed (nodeOf l) → ∀ t, defs' l = some t →
      (∀ p ∈ t.inputs, fs' p = (build P cfg w order).fs p) ∧ (∀ c ∈ t.checks, fs' c.1 = (build P cfg w order).fs c.1)) :
    ∀ x ∈ executed (build P cfg ⟨defs', fs', (build P cfg w order).cache⟩ order),
      nodeOf x ∈ changed ∨ ∃ c ∈ changed, nodeOf x ∈ (descendantsV es c).nodes :=
  C02.reexec_subset_history hG cfg w order hwf0 hpl0 hsucc defs' fs' (fun l => Downstream es changed (nodeOf l)) hwf hpl hsame
    (fun l hl hnD t ht d hd hDd => hnD (downstream_edge hDd (hedge l hl t ht d hd))) hfs

/-- **C20.edit_predicts in full**: with `changed ⊆ owners f` (editing `f` changes the own state of owners of `f` only) the
    targets re-executed after the edit are owners of `f` or transitive dependants of owners. -/
theorem edit_predicts {P : Params κ} (hG : Good P) (cfg : Cfg) (w : World κ) (order : List Lbl)
    (hwf0 : WF w.defs order) (hpl0 : Plain P cfg w.defs order) (hsucc : succeeded (build P cfg w order) order = true)
    (defs' : Defs) (fs' : FS) (hwf : WF defs' order) (hpl : Plain P cfg defs' order)
    (g : BuildGraph) (inputs : Nat → List Bytes) (f : Bytes) (nodeOf : Lbl → Nat) (changed : List Nat)
    (hchanged : ∀ c ∈ changed, c ∈ ownersOf g inputs [f])
    (hedge : ∀ l ∈ order, ∀ t, defs' l = some t → ∀ d ∈ t.deps, (nodeOf d, nodeOf l) ∈ g.edges)
    (hsame : ∀ l ∈ order, ¬ Downstream g.edges changed (nodeOf l) → defs' l = w.defs l)
    (hfs : ∀ l ∈ order, ¬ Downstream g.edges changed (nodeOf l) → ∀ t, defs' l = some t →
      (∀ p ∈ t.inputs, fs' p = (build P cfg w order).fs p) ∧ (∀ c ∈ t.checks, fs' c.1 = (build P cfg w order).fs c.1)) :
    C20.edit_predicts_statement g inputs f
      ((executed (build P cfg ⟨defs', fs', (build P cfg w order).cache⟩ order)).map nodeOf) := by
  apply C20.edit_predicts_partial g inputs f changed _ hchanged
  intro t ht
  obtain ⟨x, hx, rfl⟩ := List.mem_map.1 ht
  exact reexec_downstream hG cfg w order hwf0 hpl0 hsucc defs' fs' hwf hpl g.edges nodeOf changed hedge hsame hfs x hx

/-- the hypotheses are satisfiable (the empty selection on the graph of C20's example) -/
example (P : Params Nat) (hfx : P.fx.syncTaint = true ∧ P.fx.gateChecks = true) :
    WF (fun _ => none) [] ∧ Plain P ⟨true, false⟩ (fun _ => none) [] ∧
    (∀ l ∈ ([] : List Lbl), ∀ t, (fun _ => none : Defs) l = some t → ∀ d ∈ t.deps, ((fun _ => 0) d, (fun _ => 0) l) ∈ [(0, 1)]) :=
  ⟨⟨List.nodup_nil, fun l hl => by simp at hl, fun l t h => by simp at h, fun l hl => by simp at hl,
    fun pre l suf h => by simp at h, fun l hl => by simp at hl, fun l hl => by simp at hl, fun l hl => by simp at hl⟩,
   ⟨rfl, rfl, hfx.1, hfx.2, fun l hl => by simp at hl⟩, fun l hl => by simp at hl⟩

end Grog.Compose
