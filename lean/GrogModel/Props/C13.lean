/-
  C13 — taint, no-cache and enable_cache=false force execution precisely; dependants are invalidated only
  if the outputs changed.
  Model: GrogModel/Exec.lean. Per-target statements from an arbitrary state (they hold at every step of
  every build of every history, a build being a fold of the step).
-/
import GrogModel.Lemmas.BuildBasic
import GrogModel.Lemmas.BuildForced
import GrogModel.Lemmas.BuildFail
import GrogModel.Props.C15
set_option linter.unusedSectionVars false
set_option linter.unusedVariables false
set_option linter.unusedSimpArgs false
namespace Grog.C13
open Grog Grog.Exec

variable {κ : Type} [DecidableEq κ]

/-- a forced target never takes the hit branch (either mode): tainted, no-cache, or cache disabled -/
theorem forced_no_hit (P : Params κ) (cfg : Cfg) (t : Target) (k : κ) (s : BState κ)
    (h : s.cache.taint t.label = true ∨ t.noCache = true ∨ cfg.enableCache = false) : tryHit P cfg t k s = none := by
  unfold tryHit
  split
  · rfl
  · rcases h with h | h | h <;> simp [h]

/-- a target whose dependencies succeeded and that does not take the hit branch runs its command (mode `all`) -/
theorem no_hit_executes (P : Params κ) (cfg : Cfg) (defs : Defs) (fuel : Nat) (t : Target) (s : BState κ)
    (hm : cfg.minimal = false) (hd : depsOk s.st t.deps = true) (ohs : List (OH κ)) (ho : depOhs s.st t.hdeps = some ohs)
    (hn : tryHit P cfg t (P.K (keyState t s.fs ohs)) s = none) :
    (buildTarget P cfg defs fuel t s).log = t.label :: s.log := by
  have hcase := buildTarget_all P cfg defs fuel t s hm
  cases hcase with
  | depFailed h e => rw [hd] at h; cases h
  | noHash h h2 e => rw [ho] at h2; cases h2
  | hit ohs' h h2 e => rw [ho] at h2; cases h2; rw [hn] at e; cases e
  | ran ohs' h h2 h3 e =>
    have := execTarget_log P cfg defs t (P.K (keyState t s.fs ohs')) (s.cache.taint t.label) s
    rw [e] at this; exact this
  | failed ohs' s2 h h2 h3 e e2 =>
    have := execTarget_log P cfg defs t (P.K (keyState t s.fs ohs')) (s.cache.taint t.label) s
    rw [e] at this; rw [e2]; exact this

/-- **tainted_executes.** A tainted target that is reached (selected, dependencies succeeded) is executed by the
    build even if the cache holds a valid, restorable result for its current state. -/
theorem tainted_executes (P : Params κ) (cfg : Cfg) (defs : Defs) (fuel : Nat) (t : Target) (s : BState κ)
    (hm : cfg.minimal = false) (hd : depsOk s.st t.deps = true) (ohs : List (OH κ)) (ho : depOhs s.st t.hdeps = some ohs)
    (ht : s.cache.taint t.label = true) :
    (buildTarget P cfg defs fuel t s).log = t.label :: s.log :=
  no_hit_executes P cfg defs fuel t s hm hd ohs ho (forced_no_hit P cfg t _ s (Or.inl ht))

/-- **taint_consumed.** If a tainted target is marked successful by the decision, its taint is absent in the
    resulting cache (the clear happens before the task returns). -/
theorem taint_consumed (P : Params κ) (cfg : Cfg) (defs : Defs) (fuel : Nat) (t : Target) (s : BState κ)
    (hm : cfg.minimal = false) (hfx : P.fx.syncTaint = true) (ht : s.cache.taint t.label = true)
    (s' : BState κ) (hs : buildTarget P cfg defs fuel t s = s')
    (ts : TStat κ) (hst : s'.st t.label = some ts) (hok : ts.ok = true) :
    s'.cache.taint t.label = false := by
  have hcase := buildTarget_all P cfg defs fuel t s hm
  rw [hs] at hcase
  cases hcase with
  | depFailed h e => simp [e, failT, failStat] at hst; subst hst; simp at hok
  | noHash h h2 e => simp [e, failT, failStat] at hst; subst hst; simp at hok
  | failed ohs s2 h h2 h3 e e2 => simp [e2, failT, failStat] at hst; subst hst; simp at hok
  | hit ohs h h2 e => rw [forced_no_hit P cfg t _ s (Or.inl ht)] at e; cases e
  | ran ohs h h2 h3 e =>
    obtain ⟨_, _, _, ovs, _, _, _, htaint, _⟩ := execTarget_true e
    rw [htaint, ht, hfx]; simp

/-- the taint of every *other* target is left alone by the step -/
theorem taint_frame (P : Params κ) (cfg : Cfg) (defs : Defs) (fuel : Nat) (t : Target) (s : BState κ)
    (hm : cfg.minimal = false) (l : Lbl) (hl : l ≠ t.label) :
    (buildTarget P cfg defs fuel t s).cache.taint l = s.cache.taint l := by
  have hcase := buildTarget_all P cfg defs fuel t s hm
  cases hcase with
  | depFailed h e => rw [e]; rfl
  | noHash h h2 e => rw [e]; rfl
  | failed ohs s2 h h2 h3 e e2 => obtain ⟨hc, _, _⟩ := execTarget_false e; rw [e2]; simp [failT, hc]
  | hit ohs h h2 e => obtain ⟨r, fs', _, _, _, _, _, _, hs1⟩ := tryHit_all_some hm e; rw [hs1]
  | ran ohs h h2 h3 e =>
    obtain ⟨_, _, _, ovs, _, _, _, htaint, _⟩ := execTarget_true e
    rw [htaint]; split
    · exact upd_other _ _ _ _ hl
    · rfl

/-- **no_cache_always_executes.** -/
theorem no_cache_always_executes (P : Params κ) (cfg : Cfg) (defs : Defs) (fuel : Nat) (t : Target) (s : BState κ)
    (hm : cfg.minimal = false) (hd : depsOk s.st t.deps = true) (ohs : List (OH κ)) (ho : depOhs s.st t.hdeps = some ohs)
    (hn : t.noCache = true) :
    (buildTarget P cfg defs fuel t s).log = t.label :: s.log :=
  no_hit_executes P cfg defs fuel t s hm hd ohs ho (forced_no_hit P cfg t _ s (Or.inr (Or.inl hn)))

/-- **no_cache_never_restored.** A no-cache target is never served from the cache, in either mode, and what it
    stores names no outputs (nothing of it can be restored later). -/
theorem no_cache_never_restored (P : Params κ) (cfg : Cfg) (t : Target) (k : κ) (s : BState κ) (hn : t.noCache = true) :
    tryHit P cfg t k s = none ∧ ∀ ovs, (resFor cfg t k ovs).outs = [] :=
  ⟨forced_no_hit P cfg t k s (Or.inr (Or.inl hn)), fun ovs => by simp [resFor, hn]⟩

/-- **disabled_executes_all.** With the cache disabled every reached target executes. -/
theorem disabled_executes_all (P : Params κ) (cfg : Cfg) (defs : Defs) (fuel : Nat) (t : Target) (s : BState κ)
    (hm : cfg.minimal = false) (hd : depsOk s.st t.deps = true) (ohs : List (OH κ)) (ho : depOhs s.st t.hdeps = some ohs)
    (hc : cfg.enableCache = false) :
    (buildTarget P cfg defs fuel t s).log = t.label :: s.log :=
  no_hit_executes P cfg defs fuel t s hm hd ohs ho (forced_no_hit P cfg t _ s (Or.inr (Or.inr hc)))

/-- **dependants_iff_outputs_changed.** A dependant sees a re-executed target only through its output hash
    (`keyState` takes the hashes of the dependencies and nothing else of them). For a target with declared outputs that hash
    is, in every mode (cached, no-cache, cache disabled), an injective function of the produced (definition, value) list:
    it is unchanged iff the outputs are. -/
theorem dependants_iff_outputs_changed (cfg : Cfg) (t : Target) (k : κ) (ovs₁ ovs₂ : Outs) (h : t.outs ≠ []) :
    ohFor cfg t k ovs₁ = ohFor cfg t k ovs₂ ↔ ovs₁ = ovs₂ := by
  constructor
  · intro he
    unfold ohFor at he
    split at he
    · rename_i h1; exact absurd (List.isEmpty_iff.1 h1) h
    · split at he <;> simpa using he
  · intro he; rw [he]

/-- **outputless_exposes_key.** A target without outputs exposes its own key — whether it ran cached, as a no-cache target
    or with the cache disabled (the record such a run leaves is a usable hit later, so all three must agree: regression,
    see `outputless_disabled_witness`). It is unchanged iff the target's state is. -/
theorem outputless_exposes_key (cfg : Cfg) (t : Target) (k : κ) (ovs : Outs) (h : t.outs = []) : ohFor cfg t k ovs = .self k := by
  simp [ohFor, h]

/-- **outputless_disabled_witness** (regression). Before the repair the no-cache / cache-disabled branch came first: an
    output-less target run with the cache disabled exposed `.nocache []` (a constant) and a later run with the cache enabled
    exposed its key, so a dependant's key changed although nothing had changed, and did not change when the target did. -/
theorem outputless_disabled_witness :
    ∃ (t : Target), t.outs = [] ∧ ∀ (k₁ k₂ : Nat),
      (fun (cfg : Cfg) (k : Nat) => (if t.noCache || !cfg.enableCache then OH.nocache [] else if t.outs.isEmpty then OH.self k else OH.outs []))
        ⟨false, false⟩ k₁ =
      (fun (cfg : Cfg) (k : Nat) => (if t.noCache || !cfg.enableCache then OH.nocache [] else if t.outs.isEmpty then OH.self k else OH.outs []))
        ⟨false, false⟩ k₂ ∧
      (k₁ ≠ k₂ → ohFor ⟨false, false⟩ t k₁ [] ≠ ohFor ⟨false, false⟩ t k₂ []) ∧
      ohFor ⟨false, false⟩ t k₁ [] = ohFor ⟨true, false⟩ t k₁ [] :=
  ⟨mkT [97] [] [] false, rfl, fun k₁ k₂ => ⟨rfl, fun hne he => by simp [ohFor, mkT] at he; exact hne he, rfl⟩⟩

example : ∃ (t : Target), t.outs ≠ [] := ⟨mkT [97] [⟨false, [111]⟩] [] false, by simp [mkT]⟩

/-- the key of a dependant is a function of its own definition, its input contents and the output hashes of its
    dependencies: equal hashes, equal key -/
theorem dependant_key_congr (P : Params κ) (d : Target) (fs : FS) (ohs₁ ohs₂ : List (OH κ)) (h : ohs₁ = ohs₂) :
    P.K (keyState d fs ohs₁) = P.K (keyState d fs ohs₂) := by rw [h]

/-- **async_taint_witness** (regression, F-taint-async): if the clear is not awaited (modelled: it has not
    happened when the task returns) a tainted target that executed successfully is still tainted. -/
theorem async_taint_witness (P : Params κ) (cfg : Cfg) (defs : Defs) (t : Target) (k : κ) (s s' : BState κ)
    (hfx : P.fx.syncTaint = false) (ht : s.cache.taint t.label = true)
    (h : execTarget P cfg defs t k true s = (s', true)) : s'.cache.taint t.label = true := by
  obtain ⟨_, _, _, ovs, _, _, _, htaint, _⟩ := execTarget_true h
  rw [htaint, hfx]; simpa using ht

/-- the hypotheses of `async_taint_witness` are satisfiable -/
example : ∃ (P : Params Nat) (cfg : Cfg) (defs : Defs) (t : Target) (s s' : BState Nat),
    P.fx.syncTaint = false ∧ s.cache.taint t.label = true ∧ execTarget P cfg defs t 0 true s = (s', true) := by
  let P : Params Nat := { K := fun _ => 0, run := fun _ _ => ⟨true, [], []⟩, fx := { Fixes.current with syncTaint := false } }
  let t : Target := mkT [97] [] [] false
  let c : Cache Nat := { res := fun _ => none, cas := fun _ => false, taint := fun _ => true }
  let s : BState Nat := { fs := fun _ => none, cache := c, st := fun _ => none, log := [] }
  refine ⟨P, ⟨true, false⟩, fun _ => none, t, s, (execTarget P ⟨true, false⟩ (fun _ => none) t 0 true s).1, rfl, rfl, ?_⟩
  apply Prod.ext rfl
  simp [execTarget, checksPass, collect, writeOuts, writeSets, P, t, s, c, mkT]


/-! ## whole builds and histories

  The statements above are about one step from an arbitrary state. Below: a *build* (`Build.build`, the fold of the step
  over a well-formed order) and *histories* (`Build.runHistory`): the step of a selected target is reached with the taint
  the build started with and with the final statuses of its dependencies, a pending taint survives everything except a
  build that selects the target, and `load_outputs=minimal` executes exactly what `all` executes (C15's lock step). -/
section histories
open Grog.Build

/-- **forced_executed_in_build.** In a mode-`all` build over a well-formed order, a selected target whose direct
    dependencies all succeeded in this build is executed if it is tainted when the build starts, or no-cache, or the cache
    is disabled — whatever the cache holds for it ("executed by the next build that selects it", "in every build that
    selects it", "every selected target whose dependencies succeed"). -/
theorem forced_executed_in_build (P : Params κ) (cfg : Cfg) (hm : cfg.minimal = false) (w : World κ) (order : List Lbl)
    (hwf : WF w.defs order) (l : Lbl) (hl : l ∈ order) (t : Target) (ht : w.defs l = some t)
    (hf : w.cache.taint l = true ∨ t.noCache = true ∨ cfg.enableCache = false)
    (hdeps : ∀ d ∈ t.deps, okAt (build P cfg w order) d) : l ∈ executed (build P cfg w order) := by
  obtain ⟨s0, h1, h2, h3, h4, _, _⟩ := reached (P := P) hm w hwf l hl t ht
  have hlab : t.label = l := hwf.label l t ht
  have hd : depsOk s0.st t.deps = true := depsOk_intro _ _ (fun d hd => by rw [h2 d hd]; exact hdeps d hd)
  have hhd : t.hdeps = t.deps := (hwf.hdeps l hl t ht).1
  have hoh : depOhs s0.st t.hdeps ≠ none := by
    apply depOhs_some_of
    intro d hd'
    rw [hhd] at hd'
    obtain ⟨ts, hts, hk⟩ := depsOk_mem hd d hd'
    obtain ⟨oh, ho⟩ := h3 d ts hts hk
    exact ⟨ts, oh, hts, ho⟩
  cases ho : depOhs s0.st t.hdeps with
  | none => exact absurd ho hoh
  | some ohs =>
    have hlog := no_hit_executes P cfg w.defs (fuelFor order) t s0 hm hd ohs ho
      (forced_no_hit P cfg t _ s0 (by rw [hlab, h1]; exact hf))
    simp only [executed, List.mem_reverse]
    exact h4 l (by rw [hlog, hlab]; simp)

/-- **taint_after_build.** A target that is tainted when a mode-`all` build that selects it starts: if the build marks it
    successful its taint is gone when the build returns; if not (it failed, or a dependency failed) it is still tainted. -/
theorem taint_after_build (P : Params κ) (cfg : Cfg) (hm : cfg.minimal = false) (hfx : P.fx.syncTaint = true) (w : World κ)
    (order : List Lbl) (hwf : WF w.defs order) (l : Lbl) (hl : l ∈ order) (t : Target) (ht : w.defs l = some t)
    (htaint : w.cache.taint l = true) :
    (okAt (build P cfg w order) l → (build P cfg w order).cache.taint l = false) ∧
    (¬ okAt (build P cfg w order) l → (build P cfg w order).cache.taint l = true) := by
  obtain ⟨s0, h1, _, _, _, h5, h6⟩ := reached (P := P) hm w hwf l hl t ht
  have hlab : t.label = l := hwf.label l t ht
  constructor
  · rintro ⟨ts, hts, hk⟩
    rw [h6, ← hlab]
    rw [h5, ← hlab] at hts
    exact taint_consumed P cfg w.defs (fuelFor order) t s0 hm hfx (by rw [hlab, h1]; exact htaint) _ rfl ts hts hk
  · intro hn
    obtain ⟨_, _, _, _, h55, ts, hts⟩ := step_basic P cfg w.defs (fuelFor order) t s0 hm
    have hk : ts.ok = false := by
      cases hb : ts.ok with
      | false => rfl
      | true => exact absurd ⟨ts, by rw [h5, ← hlab]; exact hts, hb⟩ hn
    rw [h6, ← hlab, h55 ts hts hk, hlab, h1]; exact htaint

/-- a build that does not select the target leaves its taint alone -/
theorem taint_kept_if_not_selected (P : Params κ) (cfg : Cfg) (hm : cfg.minimal = false) (w : World κ) (order : List Lbl)
    (hlab : ∀ l t, w.defs l = some t → t.label = l) (l : Lbl) (hl : l ∉ order) :
    (build P cfg w order).cache.taint l = w.cache.taint l :=
  ((run_frame P cfg w.defs (fuelFor order) hm hlab order (start w)).1 l hl).2

theorem taintAll_true (c : Cache κ) (l : Lbl) : ∀ ls : List Lbl, (c.taint l = true ∨ l ∈ ls) → (taintAll c ls).taint l = true := by
  intro ls
  induction ls generalizing c with
  | nil => intro h; rcases h with h | h; exact h; cases h
  | cons a ls ih =>
    intro h
    simp only [taintAll]
    apply ih
    by_cases e : l = a
    · left; subst e; simp
    · rcases h with h | h
      · left; simp only; rw [upd_other _ _ _ _ e]; exact h
      · right; rcases List.mem_cons.1 h with h | h
        · exact absurd h e
        · exact h

/-- the steps that cannot consume a pending taint of `l`: edits, further taints, lost blobs, and mode-`all` builds that do
    not select `l` -/
def Keeps (l : Lbl) (w : World κ) : Step → Prop
  | .build cfg order => cfg.minimal = false ∧ (∀ l t, w.defs l = some t → t.label = l) ∧ l ∉ order
  | _ => True

def KeepsHist (P : Params κ) (l : Lbl) : World κ → List Step → Prop
  | _, [] => True
  | w, st :: rest => Keeps l w st ∧ KeepsHist P l (step P w st) rest

/-- **taint_survives.** A pending taint survives any history of edits, taints, lost blobs and builds that do not select
    the target. -/
theorem taint_survives (P : Params κ) (l : Lbl) : ∀ (h : List Step) (w : World κ), w.cache.taint l = true → KeepsHist P l w h →
    (runHistory P w h).cache.taint l = true := by
  intro h
  induction h with
  | nil => intro w ht _; exact ht
  | cons st rest ih =>
    intro w ht hk
    simp only [runHistory, List.foldl_cons]
    apply ih (step P w st) _ hk.2
    cases st with
    | edit defs ws => exact ht
    | taint ls => exact taintAll_true w.cache l ls (Or.inl ht)
    | dropBlob v => exact ht
    | build cfg order =>
      obtain ⟨hm, hlab, hl⟩ := hk.1
      show (build P cfg w order).cache.taint l = true
      rw [taint_kept_if_not_selected P cfg hm w order hlab l hl]; exact ht

/-- **taint_forces_next_selecting_build.** `grog taint` of a set containing `l`, then any history that does not build `l`,
    then a mode-`all` build that selects `l` and in which `l`'s dependencies succeed: `l` is executed. -/
theorem taint_forces_next_selecting_build (P : Params κ) (w : World κ) (ls : List Lbl) (l : Lbl) (hl : l ∈ ls) (h : List Step)
    (hk : KeepsHist P l (step P w (.taint ls)) h) (cfg : Cfg) (hm : cfg.minimal = false) (order : List Lbl)
    (hwf : WF (runHistory P w (.taint ls :: h)).defs order) (hlo : l ∈ order) (t : Target)
    (ht : (runHistory P w (.taint ls :: h)).defs l = some t)
    (hdeps : ∀ d ∈ t.deps, okAt (build P cfg (runHistory P w (.taint ls :: h)) order) d) :
    l ∈ executed (build P cfg (runHistory P w (.taint ls :: h)) order) := by
  apply forced_executed_in_build P cfg hm _ order hwf l hlo t ht _ hdeps
  left
  have h0 : (step P w (.taint ls)).cache.taint l = true := taintAll_true w.cache l ls (Or.inr hl)
  have := taint_survives P l h (step P w (.taint ls)) h0 hk
  simpa [runHistory] using this

/-- **forced_executed_minimal.** The same under `load_outputs=minimal`: for every lock-step history (C15: well-formed
    builds, no lost blobs; any flags) the `minimal` run of the final build executes exactly the commands the `all` run
    executes — in particular every forced target whose dependencies succeeded. -/
theorem forced_executed_minimal (P : Params κ) (hG : Good P) (hfx : P.fx.minValidate = true) (hro : P.fx.rerunOnce = true)
    (hlf : P.fx.loadFault = true) (outP : Path → Prop) (w : World κ) (h : List Step) (cfg : Cfg) (order : List Lbl)
    (hcas : CasOK w.cache) (hH : HistOK outP w.defs h) (hB : BuildOK outP (runHistory P w (forceMode false h)).defs order)
    (l : Lbl) (hl : l ∈ order) (t : Target) (ht : (runHistory P w (forceMode false h)).defs l = some t)
    (hf : (runHistory P w (forceMode false h)).cache.taint l = true ∨ t.noCache = true ∨ cfg.enableCache = false)
    (hdeps : ∀ d ∈ t.deps, okAt (build P (C15.withMode cfg false) (runHistory P w (forceMode false h)) order) d) :
    l ∈ executed (build P (C15.withMode cfg true) (runHistory P w (forceMode true h)) order) := by
  obtain ⟨_, he, _, _⟩ := C15.same_verdict_and_execs_holds P hG hfx hro hlf outP w h cfg order hcas hH hB
  rw [← he]
  exact forced_executed_in_build P (C15.withMode cfg false) rfl _ order hB.wf l hl t ht hf hdeps

/-- the hypotheses of the history-level statements are satisfiable by a non-empty order: one tainted target, selected -/
example : ∃ (w : World Nat) (order : List Lbl) (l : Lbl) (t : Target), WF w.defs order ∧ l ∈ order ∧ w.defs l = some t ∧
    w.cache.taint l = true ∧ ∀ d ∈ t.deps, okAt (build (⟨fun _ => 0, fun _ _ => ⟨true, [], []⟩, Fixes.current⟩ : Params Nat) ⟨true, false⟩ w order) d :=
  ⟨{ defs := C15.exDefs, fs := fun _ => none, cache := { res := fun _ => none, cas := fun _ => false, taint := fun _ => true } },
    [[1]], [1], mkT [1] [⟨false, [9]⟩] [] false, C15.exBuildOK.wf, by simp, by simp [C15.exDefs], rfl, fun d hd => by simp [mkT] at hd⟩

end histories

end Grog.C13
