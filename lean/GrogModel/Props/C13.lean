/-
  C13 — taint, no-cache and enable_cache=false force execution precisely; dependants are invalidated only
  if the outputs changed.
  Model: GrogModel/Exec.lean. Per-target statements from an arbitrary state (they hold at every step of
  every build of every history, a build being a fold of the step).
-/
import GrogModel.Lemmas.BuildBasic
set_option linter.unusedSectionVars false
set_option linter.unusedSimpArgs false
namespace Grog.C13
open Grog Grog.Exec

variable {κ : Type} [DecidableEq κ]

/-- a forced target never takes the hit branch (either mode): tainted, no-cache, or cache disabled -/
theorem forced_no_hit (P : Params κ) (cfg : Cfg) (t : Target) (k : κ) (s : BState κ)
    (h : s.cache.taint t.label = true ∨ t.noCache = true ∨ cfg.enableCache = false) : tryHit P cfg t k s = none := by
  unfold tryHit
  split
  · rfl
  · rcases h with h | h | h <;> simp [h]

/-- a target whose dependencies succeeded and that does not take the hit branch runs its command (mode `all`) -/
theorem no_hit_executes (P : Params κ) (cfg : Cfg) (defs : Defs) (fuel : Nat) (t : Target) (s : BState κ)
    (hm : cfg.minimal = false) (hd : depsOk s.st t.deps = true) (ohs : List (OH κ)) (ho : depOhs s.st t.hdeps = some ohs)
    (hn : tryHit P cfg t (P.K (keyState t s.fs ohs)) s = none) :
    (buildTarget P cfg defs fuel t s).log = t.label :: s.log := by
  have hcase := buildTarget_all P cfg defs fuel t s hm
  cases hcase with
  | depFailed h e => rw [hd] at h; cases h
  | noHash h h2 e => rw [ho] at h2; cases h2
  | hit ohs' h h2 e => rw [ho] at h2; cases h2; rw [hn] at e; cases e
  | ran ohs' h h2 h3 e =>
    have := execTarget_log P cfg defs t (P.K (keyState t s.fs ohs')) (s.cache.taint t.label) s
    rw [e] at this; exact this
  | failed ohs' s2 h h2 h3 e e2 =>
    have := execTarget_log P cfg defs t (P.K (keyState t s.fs ohs')) (s.cache.taint t.label) s
    rw [e] at this; rw [e2]; exact this

/-- **tainted_executes.** A tainted target that is reached (selected, dependencies succeeded) is executed by the
    build even if the cache holds a valid, restorable result for its current state. -/
theorem tainted_executes (P : Params κ) (cfg : Cfg) (defs : Defs) (fuel : Nat) (t : Target) (s : BState κ)
    (hm : cfg.minimal = false) (hd : depsOk s.st t.deps = true) (ohs : List (OH κ)) (ho : depOhs s.st t.hdeps = some ohs)
    (ht : s.cache.taint t.label = true) :
    (buildTarget P cfg defs fuel t s).log = t.label :: s.log :=
  no_hit_executes P cfg defs fuel t s hm hd ohs ho (forced_no_hit P cfg t _ s (Or.inl ht))

/-- **taint_consumed.** If a tainted target is marked successful by the decision, its taint is absent in the
    resulting cache (the clear happens before the task returns). -/
theorem taint_consumed (P : Params κ) (cfg : Cfg) (defs : Defs) (fuel : Nat) (t : Target) (s : BState κ)
    (hm : cfg.minimal = false) (hfx : P.fx.syncTaint = true) (ht : s.cache.taint t.label = true)
    (s' : BState κ) (hs : buildTarget P cfg defs fuel t s = s')
    (ts : TStat κ) (hst : s'.st t.label = some ts) (hok : ts.ok = true) :
    s'.cache.taint t.label = false := by
  have hcase := buildTarget_all P cfg defs fuel t s hm
  rw [hs] at hcase
  cases hcase with
  | depFailed h e => simp [e, failT, failStat] at hst; subst hst; simp at hok
  | noHash h h2 e => simp [e, failT, failStat] at hst; subst hst; simp at hok
  | failed ohs s2 h h2 h3 e e2 => simp [e2, failT, failStat] at hst; subst hst; simp at hok
  | hit ohs h h2 e => rw [forced_no_hit P cfg t _ s (Or.inl ht)] at e; cases e
  | ran ohs h h2 h3 e =>
    obtain ⟨_, _, _, ovs, _, _, _, htaint, _⟩ := execTarget_true e
    rw [htaint, ht, hfx]; simp

/-- the taint of every *other* target is left alone by the step -/
theorem taint_frame (P : Params κ) (cfg : Cfg) (defs : Defs) (fuel : Nat) (t : Target) (s : BState κ)
    (hm : cfg.minimal = false) (l : Lbl) (hl : l ≠ t.label) :
    (buildTarget P cfg defs fuel t s).cache.taint l = s.cache.taint l := by
  have hcase := buildTarget_all P cfg defs fuel t s hm
  cases hcase with
  | depFailed h e => rw [e]; rfl
  | noHash h h2 e => rw [e]; rfl
  | failed ohs s2 h h2 h3 e e2 => obtain ⟨hc, _, _⟩ := execTarget_false e; rw [e2]; simp [failT, hc]
  | hit ohs h h2 e => obtain ⟨r, fs', _, _, _, _, _, _, hs1⟩ := tryHit_all_some hm e; rw [hs1]
  | ran ohs h h2 h3 e =>
    obtain ⟨_, _, _, ovs, _, _, _, htaint, _⟩ := execTarget_true e
    rw [htaint]; split
    · exact upd_other _ _ _ _ hl
    · rfl

/-- **no_cache_always_executes.** -/
theorem no_cache_always_executes (P : Params κ) (cfg : Cfg) (defs : Defs) (fuel : Nat) (t : Target) (s : BState κ)
    (hm : cfg.minimal = false) (hd : depsOk s.st t.deps = true) (ohs : List (OH κ)) (ho : depOhs s.st t.hdeps = some ohs)
    (hn : t.noCache = true) :
    (buildTarget P cfg defs fuel t s).log = t.label :: s.log :=
  no_hit_executes P cfg defs fuel t s hm hd ohs ho (forced_no_hit P cfg t _ s (Or.inr (Or.inl hn)))

/-- **no_cache_never_restored.** A no-cache target is never served from the cache, in either mode, and what it
    stores names no outputs (nothing of it can be restored later). -/
theorem no_cache_never_restored (P : Params κ) (cfg : Cfg) (t : Target) (k : κ) (s : BState κ) (hn : t.noCache = true) :
    tryHit P cfg t k s = none ∧ ∀ ovs, (resFor cfg t k ovs).outs = [] :=
  ⟨forced_no_hit P cfg t k s (Or.inr (Or.inl hn)), fun ovs => by simp [resFor, hn]⟩

/-- **disabled_executes_all.** With the cache disabled every reached target executes. -/
theorem disabled_executes_all (P : Params κ) (cfg : Cfg) (defs : Defs) (fuel : Nat) (t : Target) (s : BState κ)
    (hm : cfg.minimal = false) (hd : depsOk s.st t.deps = true) (ohs : List (OH κ)) (ho : depOhs s.st t.hdeps = some ohs)
    (hc : cfg.enableCache = false) :
    (buildTarget P cfg defs fuel t s).log = t.label :: s.log :=
  no_hit_executes P cfg defs fuel t s hm hd ohs ho (forced_no_hit P cfg t _ s (Or.inr (Or.inr hc)))

/-- **dependants_iff_outputs_changed.** A dependant sees a re-executed target only through its output hash
    (`keyState` takes the hashes of the dependencies and nothing else of them). For a forced execution that hash
    is an injective function of the produced (definition, value) list: it is unchanged iff the outputs are. (A
    target without outputs exposes its own key instead, which is unchanged when its state is.) -/
theorem dependants_iff_outputs_changed (cfg : Cfg) (t : Target) (k : κ) (ovs₁ ovs₂ : Outs)
    (h : t.noCache = true ∨ cfg.enableCache = false ∨ t.outs ≠ []) :
    ohFor cfg t k ovs₁ = ohFor cfg t k ovs₂ ↔ ovs₁ = ovs₂ := by
  constructor
  · intro he
    unfold ohFor at he
    split at he
    · simpa using he
    · split at he
      · rename_i h1 h2
        rcases h with h | h | h
        · simp [h] at h1
        · simp [h] at h1
        · exact absurd (List.isEmpty_iff.1 h2) h
      · simpa using he
  · intro he; rw [he]

example : ∃ (cfg : Cfg) (t : Target), t.noCache = true ∨ cfg.enableCache = false ∨ t.outs ≠ [] :=
  ⟨⟨true, false⟩, mkT [97] [⟨false, [111]⟩] [] false, Or.inr (Or.inr (by simp [mkT]))⟩

/-- the key of a dependant is a function of its own definition, its input contents and the output hashes of its
    dependencies: equal hashes, equal key -/
theorem dependant_key_congr (P : Params κ) (d : Target) (fs : FS) (ohs₁ ohs₂ : List (OH κ)) (h : ohs₁ = ohs₂) :
    P.K (keyState d fs ohs₁) = P.K (keyState d fs ohs₂) := by rw [h]

/-- **async_taint_witness** (regression, F-taint-async): if the clear is not awaited (modelled: it has not
    happened when the task returns) a tainted target that executed successfully is still tainted. -/
theorem async_taint_witness (P : Params κ) (cfg : Cfg) (defs : Defs) (t : Target) (k : κ) (s s' : BState κ)
    (hfx : P.fx.syncTaint = false) (ht : s.cache.taint t.label = true)
    (h : execTarget P cfg defs t k true s = (s', true)) : s'.cache.taint t.label = true := by
  obtain ⟨_, _, _, ovs, _, _, _, htaint, _⟩ := execTarget_true h
  rw [htaint, hfx]; simpa using ht

/-- the hypotheses of `async_taint_witness` are satisfiable -/
example : ∃ (P : Params Nat) (cfg : Cfg) (defs : Defs) (t : Target) (s s' : BState Nat),
    P.fx.syncTaint = false ∧ s.cache.taint t.label = true ∧ execTarget P cfg defs t 0 true s = (s', true) := by
  let P : Params Nat := { K := fun _ => 0, run := fun _ _ => ⟨true, [], []⟩, fx := { Fixes.current with syncTaint := false } }
  let t : Target := mkT [97] [] [] false
  let c : Cache Nat := { res := fun _ => none, cas := fun _ => false, taint := fun _ => true }
  let s : BState Nat := { fs := fun _ => none, cache := c, st := fun _ => none, log := [] }
  refine ⟨P, ⟨true, false⟩, fun _ => none, t, s, (execTarget P ⟨true, false⟩ (fun _ => none) t 0 true s).1, rfl, rfl, ?_⟩
  apply Prod.ext rfl
  simp [execTarget, checksPass, collect, writeOuts, writeSets, P, t, s, c, mkT]

end Grog.C13
