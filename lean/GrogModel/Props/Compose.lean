/-
  Composition of the graph group's theorems (C12 selection, C19/C20 traversals) with the walker
  group's models (GrogModel/Walker.lean, Pool.lean: C03–C05).

  The walker theorems are stated for a configuration `Walker.Cfg` (selected nodes, `inEdges`,
  `GetDescendants` as a set, fail-fast) under the hypotheses `Walker.CfgOK`:
    closed   — the selection is closed under dependencies,
    acyclic  — the dependency relation is well-founded,
    desc_iff — `GetDescendants` returns exactly the descendant set.
  Here the configuration is *built* from a build graph and the result of `selectForBuild`
  (`walkerCfg`), `closed` is discharged by `C12.select_closed`, `desc_iff` by the traversal theorem
  `mem_descendantsV`, and only acyclicity (what `analysis.BuildGraph` checks: C11) stays a hypothesis.
  With that, `C12.only_selected_run` is a theorem: in every reachable state of walker × pool tasks,
  a target whose task is queued or on a worker (in particular: whose command runs) was selected —
  it matches the patterns and filters or is a transitive dependency of a node that does — and all
  its transitive dependencies have completed successfully.
-/
import GrogModel.Props.C12
import GrogModel.Lemmas.Sys
namespace Grog.C12
open Grog

/-- the walker configuration of a build: the selected nodes, `inEdges` and `GetDescendants` of the
    build graph (the adapter between `BuildGraph` + edge list and `Walker.Cfg`) -/
def walkerCfg (g : BuildGraph) (sel : List Nat) (failFast : Bool) : Walker.Cfg where
  sel := sel
  deps := preds g.edges
  desc := fun a => (descendantsV g.edges a).nodes
  failFast := failFast

/-- `analysis.BuildGraph` accepted the graph: no dependency cycle (C11) -/
def Acyclic (es : List Edge) : Prop := WellFounded (fun d n => (d, n) ∈ es)

/-- the walker's ancestor relation over `inEdges` is the graph group's `ReachPlus` -/
theorem anc_iff_reachPlus (g : BuildGraph) (sel : List Nat) (ff : Bool) (a n : Nat) :
    Walker.Anc (walkerCfg g sel ff) a n ↔ ReachPlus g.edges a n := by
  constructor
  · intro h
    induction h with
    | base hd => exact ⟨_, mem_preds.mp hd, Reach.refl _⟩
    | step _ hx ih =>
      obtain ⟨y, e, r⟩ := ih
      exact ⟨y, e, r.tail (mem_preds.mp hx)⟩
  · rintro ⟨y, e, r⟩
    have h0 : Walker.Anc (walkerCfg g sel ff) a y := Walker.Anc.base (mem_preds.mpr e)
    clear e
    induction r with
    | refl => exact h0
    | step e' _ ih => exact ih (Walker.Anc.step h0 (mem_preds.mpr e'))

theorem anc_trans {c : Walker.Cfg} {a x n : Nat} (h1 : Walker.Anc c a x) (h2 : Walker.Anc c x n) :
    Walker.Anc c a n := by
  induction h2 with
  | base hd => exact Walker.Anc.step h1 hd
  | step _ hx ih => exact Walker.Anc.step ih hx

/-- in an acyclic graph no node is its own transitive dependency -/
theorem anc_irrefl {c : Walker.Cfg} (hwf : WellFounded (fun d n => d ∈ c.deps n)) (n : Nat) :
    ¬ Walker.Anc c n n := by
  have key : ∀ n, ∀ a, Walker.Anc c a n → ¬ Walker.Anc c n a := by
    intro n
    induction n using hwf.induction with
    | _ n ih =>
      intro a han hna
      cases han with
      | base hd => exact ih a hd n hna (Walker.Anc.base hd)
      | step hax hx => exact ih _ hx a hax (anc_trans (Walker.Anc.base hx) hna)
  intro h; exact key n n h h

/-- **`CfgOK.desc_iff`, discharged**: on an acyclic graph the visited-set `GetDescendants` returns
    exactly the walker's descendant set. -/
theorem desc_iff (g : BuildGraph) (sel : List Nat) (ff : Bool) (hac : Acyclic g.edges) (a m : Nat) :
    m ∈ (walkerCfg g sel ff).desc a ↔ Walker.Anc (walkerCfg g sel ff) a m := by
  show m ∈ (descendantsV g.edges a).nodes ↔ _
  rw [mem_descendantsV, ← anc_iff_reachPlus g sel ff]
  constructor
  · exact fun h => h.1
  · intro h
    refine ⟨h, ?_⟩
    rintro rfl
    exact anc_irrefl (c := walkerCfg g sel ff) (by
      have : (fun d n => d ∈ (walkerCfg g sel ff).deps n) = (fun d n => (d, n) ∈ g.edges) := by
        funext d n; exact propext mem_preds
      rw [this]; exact hac) m h

/-- **all hypotheses of the walker theorems, discharged** for the configuration of a real build: a
    successful selection of an acyclic graph. -/
theorem walker_cfg_ok (g : BuildGraph) (s : Selector) (h : Host) (order sel : List Nat) (cost : Nat) (ff : Bool)
    (hok : selectForBuild g s h order = .ok sel cost) (hac : Acyclic g.edges) :
    Walker.CfgOK (walkerCfg g sel ff) where
  closed := fun n hn d hd => select_closed g s h order sel cost hok n hn d (mem_preds.mp hd)
  acyclic := by
    have : (fun d n => d ∈ (walkerCfg g sel ff).deps n) = (fun d n => (d, n) ∈ g.edges) := by
      funext d n; exact propext mem_preds
    rw [this]; exact hac
  desc_iff := desc_iff g sel ff hac

/-- a ranked graph (C19's acyclicity witness) is acyclic in the walker's sense -/
theorem acyclic_of_ranked {es : List Edge} {rank : Nat → Nat} {N : Nat} (hr : Ranked es rank N) : Acyclic es := by
  refine Subrelation.wf (r := InvImage (· < ·) rank) ?_ (InvImage.wf rank Nat.lt_wfRel.wf)
  intro d n hdn
  exact (hr _ hdn).1

/-- **`only_selected_run`**: selection ∘ walker ∘ pool tasks. For every graph accepted by the analysis,
    every selector, host, map iteration order, fail-fast setting and every schedule of the composed
    system: if the task of node `n` is in the job channel or on a worker — in particular while one of
    its commands runs — then
      * `n` was selected, i.e. it matches the patterns and filters or is a transitive dependency
        (through aliases) of a node that does: no other target's command runs;
      * the callback of `n` is running and every transitive dependency of `n` completed successfully. -/
theorem only_selected_run (g : BuildGraph) (s : Selector) (h : Host) (order sel : List Nat) (cost : Nat) (ff : Bool)
    (hc : Covers g order) (hok : selectForBuild g s h order = .ok sel cost) (hac : Acyclic g.edges)
    {st : Sys.State} (hr : Sys.Reach (walkerCfg g sel ff) st) {n : Nat} (hcmd : (st.task n).active = true) :
    n ∈ sel ∧
    (Matched g s h n ∨ ∃ m, Matched g s h m ∧ ReachPlus g.edges n m) ∧
    st.w.phase n = .running ∧
    ∀ a, ReachPlus g.edges a n → st.w.phase a = .ok := by
  have cok := walker_cfg_ok g s h order sel cost ff hok hac
  have hrun : st.w.phase n = .running := Sys.reach_bracket hr n hcmd
  have hinv := Walker.reach_inv cok (Sys.reach_walker hr)
  have hsel : n ∈ sel := by
    by_cases hn : n ∈ sel
    · exact hn
    · have := hinv.nonSel n hn
      rw [this] at hrun; cases hrun
  refine ⟨hsel, (select_eq_closure g s h order sel cost hc hok n).mp hsel, hrun, ?_⟩
  intro a ha
  exact Walker.inv_started_anc hinv ((anc_iff_reachPlus g sel ff a n).mpr ha) (by simp [hrun, Walker.Phase.started])

/-- the statement form kept in Props/C12.lean follows: every node with an active task is selected -/
theorem only_selected_run_statement_holds (g : BuildGraph) (s : Selector) (h : Host) (order sel : List Nat) (cost : Nat)
    (ff : Bool) (hc : Covers g order) (hok : selectForBuild g s h order = .ok sel cost) (hac : Acyclic g.edges)
    {st : Sys.State} (hr : Sys.Reach (walkerCfg g sel ff) st) (ran : List Nat)
    (hran : ∀ t ∈ ran, (st.task t).active = true) : only_selected_run_statement sel ran :=
  fun t ht => (only_selected_run g s h order sel cost ff hc hok hac hr (hran t ht)).1

/-- … a selected node that was never started has no task: nodes outside the selection stay parked -/
theorem unselected_never_started (g : BuildGraph) (s : Selector) (h : Host) (order sel : List Nat) (cost : Nat) (ff : Bool)
    (hok : selectForBuild g s h order = .ok sel cost) (hac : Acyclic g.edges)
    {st : Walker.State} (hr : Walker.Reach (walkerCfg g sel ff) st) {n : Nat} (hn : n ∉ sel) :
    st.phase n = .parked :=
  (Walker.reach_inv (walker_cfg_ok g s h order sel cost ff hok hac) hr).nonSel n hn

/-! ### the hypotheses are satisfiable: x ← ax (alias) ← t, pattern `//:t`, `--all-platforms` -/

theorem ex_acyclic : Acyclic Ex.g.edges :=
  acyclic_of_ranked (rank := fun v => v) (N := 2) (by intro e he; revert e; decide)

/-- a reachable state of the composed system in which the command of `x` (node 0, selected only as a
    dependency behind the alias) runs -/
example : ∃ st, Sys.Reach (walkerCfg Ex.g [0, 1, 2] false) st ∧ st.task 0 = .busy true := by
  have h0 : Sys.Reach (walkerCfg Ex.g [0, 1, 2] false) (Sys.init _) := Sys.Reach.init
  have h1 := Sys.Reach.step h0 (e := .walker (.wake 0)) (s' := _) rfl
  have h2 := Sys.Reach.step h1 (e := .submit 0) (s' := _) rfl
  have h3 := Sys.Reach.step h2 (e := .take 0) (s' := _) rfl
  have h4 := Sys.Reach.step h3 (e := .cmdStart 0) (s' := _) rfl
  exact ⟨_, h4, by decide⟩

end Grog.C12
