/-
  Composition of the graph group's theorems (C12 selection, C19/C20 traversals) with the walker
  group's models (GrogModel/Walker.lean, Pool.lean: C03–C05).

  The walker theorems are stated for a configuration `Walker.Cfg` (selected nodes, `inEdges`,
  `GetDescendants` as a set, fail-fast) under the hypotheses `Walker.CfgOK`:
    closed   — the selection is closed under dependencies,
    acyclic  — the dependency relation is well-founded,
    desc_iff — `GetDescendants` returns exactly the descendant set.
  Here the configuration is *built* from a build graph and the result of `selectForBuild`
  (`walkerCfg`), `closed` is discharged by `C12.select_closed`, `desc_iff` by the traversal theorem
  `mem_descendantsV`, and only acyclicity (what `analysis.BuildGraph` checks: C11) stays a hypothesis.
  With that, `C12.only_selected_run` is a theorem: in every reachable state of walker × pool tasks,
  a target whose task is queued or on a worker (in particular: whose command runs) was selected —
  it matches the patterns and filters or is a transitive dependency of a node that does — and all
  its transitive dependencies have completed successfully.
-/
import GrogModel.Props.C12
import GrogModel.Lemmas.Sys
import GrogModel.Props.C04
import GrogModel.Props.C11
namespace Grog.C12
open Grog

/-- the walker configuration of a build: the selected nodes, `inEdges` and `GetDescendants` of the
    build graph (the adapter between `BuildGraph` + edge list and `Walker.Cfg`) -/
def walkerCfg (g : BuildGraph) (sel : List Nat) (failFast : Bool) : Walker.Cfg where
  sel := sel
  deps := preds g.edges
  desc := fun a => (descendantsV g.edges a).nodes
  failFast := failFast

/-- `analysis.BuildGraph` accepted the graph: no dependency cycle (C11) -/
def Acyclic (es : List Edge) : Prop := WellFounded (fun d n => (d, n) ∈ es)

/-- the walker's ancestor relation over `inEdges` is the graph group's `ReachPlus` -/
theorem anc_iff_reachPlus (g : BuildGraph) (sel : List Nat) (ff : Bool) (a n : Nat) :
    Walker.Anc (walkerCfg g sel ff) a n ↔ ReachPlus g.edges a n := by
  constructor
  · intro h
    induction h with
    | base hd => exact ⟨_, mem_preds.mp hd, Reach.refl _⟩
    | step _ hx ih =>
      obtain ⟨y, e, r⟩ := ih
      exact ⟨y, e, r.tail (mem_preds.mp hx)⟩
  · rintro ⟨y, e, r⟩
    have h0 : Walker.Anc (walkerCfg g sel ff) a y := Walker.Anc.base (mem_preds.mpr e)
    clear e
    induction r with
    | refl => exact h0
    | step e' _ ih => exact ih (Walker.Anc.step h0 (mem_preds.mpr e'))

theorem anc_trans {c : Walker.Cfg} {a x n : Nat} (h1 : Walker.Anc c a x) (h2 : Walker.Anc c x n) :
    Walker.Anc c a n := by
  induction h2 with
  | base hd => exact Walker.Anc.step h1 hd
  | step _ hx ih => exact Walker.Anc.step ih hx

/-- in an acyclic graph no node is its own transitive dependency -/
theorem anc_irrefl {c : Walker.Cfg} (hwf : WellFounded (fun d n => d ∈ c.deps n)) (n : Nat) :
    ¬ Walker.Anc c n n := by
  have key : ∀ n, ∀ a, Walker.Anc c a n → ¬ Walker.Anc c n a := by
    intro n
    induction n using hwf.induction with
    | _ n ih =>
      intro a han hna
      cases han with
      | base hd => exact ih a hd n hna (Walker.Anc.base hd)
      | step hax hx => exact ih _ hx a hax (anc_trans (Walker.Anc.base hx) hna)
  intro h; exact key n n h h

/-- **`CfgOK.desc_iff`, discharged**: on an acyclic graph the visited-set `GetDescendants` returns
    exactly the walker's descendant set. -/
theorem desc_iff (g : BuildGraph) (sel : List Nat) (ff : Bool) (hac : Acyclic g.edges) (a m : Nat) :
    m ∈ (walkerCfg g sel ff).desc a ↔ Walker.Anc (walkerCfg g sel ff) a m := by
  show m ∈ (descendantsV g.edges a).nodes ↔ _
  rw [mem_descendantsV, ← anc_iff_reachPlus g sel ff]
  constructor
  · exact fun h => h.1
  · intro h
    refine ⟨h, ?_⟩
    rintro rfl
    exact anc_irrefl (c := walkerCfg g sel ff) (by
      have : (fun d n => d ∈ (walkerCfg g sel ff).deps n) = (fun d n => (d, n) ∈ g.edges) := by
        funext d n; exact propext mem_preds
      rw [this]; exact hac) m h

/-- **all hypotheses of the walker theorems, discharged** for the configuration of a real build: a
    successful selection of an acyclic graph. -/
theorem walker_cfg_ok (g : BuildGraph) (s : Selector) (h : Host) (order sel : List Nat) (cost : Nat) (ff : Bool)
    (hok : selectForBuild g s h order = .ok sel cost) (hac : Acyclic g.edges) :
    Walker.CfgOK (walkerCfg g sel ff) where
  closed := fun n hn d hd => select_closed g s h order sel cost hok n hn d (mem_preds.mp hd)
  acyclic := by
    have : (fun d n => d ∈ (walkerCfg g sel ff).deps n) = (fun d n => (d, n) ∈ g.edges) := by
      funext d n; exact propext mem_preds
    rw [this]; exact hac
  desc_iff := desc_iff g sel ff hac

/-- a ranked graph (C19's acyclicity witness) is acyclic in the walker's sense -/
theorem acyclic_of_ranked {es : List Edge} {rank : Nat → Nat} {N : Nat} (hr : Ranked es rank N) : Acyclic es := by
  refine Subrelation.wf (r := InvImage (· < ·) rank) ?_ (InvImage.wf rank Nat.lt_wfRel.wf)
  intro d n hdn
  exact (hr _ hdn).1

/-- **`only_selected_run`**: selection ∘ walker ∘ pool tasks. For every graph accepted by the analysis,
    every selector, host, map iteration order, fail-fast setting and every schedule of the composed
    system: if the task of node `n` is in the job channel or on a worker — in particular while one of
    its commands runs — then
      * `n` was selected, i.e. it matches the patterns and filters or is a transitive dependency
        (through aliases) of a node that does: no other target's command runs;
      * the callback of `n` is running and every transitive dependency of `n` completed successfully. -/
theorem only_selected_run (g : BuildGraph) (s : Selector) (h : Host) (order sel : List Nat) (cost : Nat) (ff : Bool)
    (hc : Covers g order) (hok : selectForBuild g s h order = .ok sel cost) (hac : Acyclic g.edges)
    {st : Sys.State} (hr : Sys.Reach (walkerCfg g sel ff) st) {n : Nat} (hcmd : (st.task n).active = true) :
    n ∈ sel ∧
    (Matched g s h n ∨ ∃ m, Matched g s h m ∧ ReachPlus g.edges n m) ∧
    st.w.phase n = .running ∧
    ∀ a, ReachPlus g.edges a n → st.w.phase a = .ok := by
  have cok := walker_cfg_ok g s h order sel cost ff hok hac
  have hrun : st.w.phase n = .running := Sys.reach_bracket hr n hcmd
  have hinv := Walker.reach_inv cok (Sys.reach_walker hr)
  have hsel : n ∈ sel := by
    by_cases hn : n ∈ sel
    · exact hn
    · have := hinv.nonSel n hn
      rw [this] at hrun; cases hrun
  refine ⟨hsel, (select_eq_closure g s h order sel cost hc hok n).mp hsel, hrun, ?_⟩
  intro a ha
  exact Walker.inv_started_anc hinv ((anc_iff_reachPlus g sel ff a n).mpr ha) (by simp [hrun, Walker.Phase.started])

/-- the statement form kept in Props/C12.lean follows: every node with an active task is selected -/
theorem only_selected_run_statement_holds (g : BuildGraph) (s : Selector) (h : Host) (order sel : List Nat) (cost : Nat)
    (ff : Bool) (hc : Covers g order) (hok : selectForBuild g s h order = .ok sel cost) (hac : Acyclic g.edges)
    {st : Sys.State} (hr : Sys.Reach (walkerCfg g sel ff) st) (ran : List Nat)
    (hran : ∀ t ∈ ran, (st.task t).active = true) : only_selected_run_statement sel ran :=
  fun t ht => (only_selected_run g s h order sel cost ff hc hok hac hr (hran t ht)).1

/-- … a selected node that was never started has no task: nodes outside the selection stay parked -/
theorem unselected_never_started (g : BuildGraph) (s : Selector) (h : Host) (order sel : List Nat) (cost : Nat) (ff : Bool)
    (hok : selectForBuild g s h order = .ok sel cost) (hac : Acyclic g.edges)
    {st : Walker.State} (hr : Walker.Reach (walkerCfg g sel ff) st) {n : Nat} (hn : n ∉ sel) :
    st.phase n = .parked :=
  (Walker.reach_inv (walker_cfg_ok g s h order sel cost ff hok hac) hr).nonSel n hn

/-! ### acyclicity, discharged from C11 -/

/-- a finite edge list without a cycle is well-founded (the walker's `CfgOK.acyclic`) -/
theorem acyclic_of_no_cycle : ∀ (es : List Edge), (∀ v, ¬ ReachPlus es v v) → Acyclic es
  | [], _ => ⟨fun n => Acc.intro n (fun d hd => by simp at hd)⟩
  | (a, b) :: es, hno => by
    -- the smaller edge list has no cycle either, hence is well-founded
    have hsub : ∀ {x y}, Reach es x y → Reach ((a, b) :: es) x y := by
      intro x y h
      induction h with
      | refl => exact Reach.refl _
      | step e _ ih => exact Reach.step (List.mem_cons_of_mem _ e) ih
    have hno' : ∀ v, ¬ ReachPlus es v v := by
      rintro v ⟨y, e, r⟩
      exact hno v ⟨y, List.mem_cons_of_mem _ e, hsub r⟩
    have hwf : WellFounded (fun d n => (d, n) ∈ es) := acyclic_of_no_cycle es hno'
    -- `b` does not lie below `a` (that would close a cycle through the new edge)
    have hba : ¬ Reach es b a := by
      intro h
      exact hno a ⟨b, List.mem_cons_self .., hsub h⟩
    -- nodes that `b` does not reach downwards keep their old predecessors
    have hacc1 : ∀ x, ¬ Reach es b x → Acc (fun d n => (d, n) ∈ (a, b) :: es) x := by
      intro x
      induction x using hwf.induction with
      | _ x ih =>
        intro hbx
        refine Acc.intro x (fun d hd => ?_)
        rcases List.mem_cons.mp hd with heq | hd'
        · simp only [Prod.mk.injEq] at heq
          exact absurd (by rw [heq.2]; exact Reach.refl b) hbx
        · exact ih d hd' (fun hbd => hbx (hbd.tail hd'))
    have hacca := hacc1 a hba
    refine ⟨fun x => ?_⟩
    induction x using hwf.induction with
    | _ x ih =>
      refine Acc.intro x (fun d hd => ?_)
      rcases List.mem_cons.mp hd with heq | hd'
      · simp only [Prod.mk.injEq] at heq
        rw [heq.1]; exact hacca
      · exact ih d hd'

/-- **`Acyclic`, discharged from C11**: if the graph's nodes carry labels (`lab`) and every edge
    `(dependency, dependant)` is an edge of the successor function `succ` the analysis ran `FindCycle` on
    (`succ u` = the dependants of `u`, `outEdges`), then C11's acyclicity (`Analysis.Acyclic succ`, what
    `C11.findCycle_complete` gives for a graph in which `FindCycle` reports nothing) is the walker's hypothesis. -/
theorem acyclic_of_c11 (es : List Edge) (lab : Nat → Label) (succ : Label → List Label)
    (hedge : ∀ e ∈ es, lab e.2 ∈ succ (lab e.1)) (hac : Analysis.Acyclic succ) : Acyclic es := by
  apply acyclic_of_no_cycle
  have hpath : ∀ {y x}, Reach es y x → ∀ v, (v, y) ∈ es → Analysis.TPath (Analysis.stepOf succ) (lab v) (lab x) := by
    intro y x h
    induction h with
    | refl a => intro v e; exact Analysis.TPath.single (hedge _ e)
    | step e' _ ih => intro v e; exact Analysis.TPath.cons (hedge _ e) (ih _ e')
  rintro v ⟨y, e, r⟩
  exact hac (lab v) (hpath r v e)

/-- … directly from the search: `FindCycle` (model `findCycleG`) reporting nothing on a vertex list that contains
    every successor makes every edge list embedded in `succ` acyclic -/
theorem acyclic_of_findCycle (es : List Edge) (lab : Nat → Label) (V : List Label) (succ : Label → List Label)
    (hV : ∀ u v, v ∈ succ u → v ∈ V) (hedge : ∀ e ∈ es, lab e.2 ∈ succ (lab e.1))
    (b : List Label) (hfc : Analysis.findCycleG V succ = .ok b) : Acyclic es :=
  acyclic_of_c11 es lab succ hedge ((C11.findCycle_complete V succ hV).1 b hfc)

/-- `only_selected_run` with acyclicity discharged by the analysis: for a graph on which `FindCycle` reported nothing -/
theorem only_selected_run_c11 (g : BuildGraph) (s : Selector) (h : Host) (order sel : List Nat) (cost : Nat) (ff : Bool)
    (hc : Covers g order) (hok : selectForBuild g s h order = .ok sel cost)
    (lab : Nat → Label) (V : List Label) (succ : Label → List Label)
    (hV : ∀ u v, v ∈ succ u → v ∈ V) (hedge : ∀ e ∈ g.edges, lab e.2 ∈ succ (lab e.1))
    (b : List Label) (hfc : Analysis.findCycleG V succ = .ok b)
    {st : Sys.State} (hr : Sys.Reach (walkerCfg g sel ff) st) {n : Nat} (hcmd : (st.task n).active = true) :
    n ∈ sel ∧ (Matched g s h n ∨ ∃ m, Matched g s h m ∧ ReachPlus g.edges n m) ∧
    st.w.phase n = .running ∧ ∀ a, ReachPlus g.edges a n → st.w.phase a = .ok :=
  only_selected_run g s h order sel cost ff hc hok (acyclic_of_findCycle g.edges lab V succ hV hedge b hfc) hr hcmd

/-- the converse direction of "exactly": when `Walk` returns through the wait group without cancellation, every
    selected node has a completion (`ok` / `failed`) or was skipped below a failed transitive dependency
    (`C04.completions_cover` instantiated for the configuration of a real build) -/
theorem selected_all_complete (g : BuildGraph) (s : Selector) (h : Host) (order sel : List Nat) (cost : Nat) (ff : Bool)
    (hok : selectForBuild g s h order = .ok sel cost) (hac : Acyclic g.edges)
    {st st' : Walker.State} (hr : Walker.Reach (walkerCfg g sel ff) st)
    (hret : Walker.step (walkerCfg g sel ff) st (.walkReturn false) = some st') (hctx : st.ctx = false) :
    ∀ n ∈ sel, st.phase n = .ok ∨ st.phase n = .failed ∨
      (st.phase n = .exited ∧ ∃ a, ReachPlus g.edges a n ∧ st.phase a = .failed) := by
  have := (C04.completions_cover (walker_cfg_ok g s h order sel cost ff hok hac) hr hret hctx).1
  intro n hn
  rcases this n hn with h1 | h1 | ⟨h1, a, ha, hf⟩
  · exact Or.inl h1
  · exact Or.inr (Or.inl h1)
  · exact Or.inr (Or.inr ⟨h1, a, (anc_iff_reachPlus g sel ff a n).mp ha, hf⟩)

/-- the C12 theorems hold for every selector, in particular for those whose pattern *set* was produced from the command
    line arguments by `ParsePatternsOrMatchAll` (`parsePatterns` of C17, which `C17.parsePatterns_matches_iff` characterises:
    a label matches the set iff there are no arguments or one of the arguments, parsed on its own, matches it — in particular
    `//...:name` next to other patterns does not widen to "everything") -/
theorem select_eq_closure_parsed (g : BuildGraph) (cur : Bytes) (strs : List Bytes) (pats : List Pattern)
    (_hp : parsePatterns cur strs = some pats) (tags ex : List Bytes) (typ : TypeSel)
    (h : Host) (order sel : List Nat) (c : Nat) (hc : Covers g order)
    (hok : selectForBuild g ⟨pats, tags, ex, typ⟩ h order = .ok sel c) (x : Nat) :
    x ∈ sel ↔ Matched g ⟨pats, tags, ex, typ⟩ h x ∨ ∃ m, Matched g ⟨pats, tags, ex, typ⟩ h m ∧ ReachPlus g.edges x m :=
  select_eq_closure g ⟨pats, tags, ex, typ⟩ h order sel c hc hok x

/-! ### the hypotheses are satisfiable: x ← ax (alias) ← t, pattern `//:t`, `--all-platforms` -/

theorem ex_acyclic : Acyclic Ex.g.edges :=
  acyclic_of_ranked (rank := fun v => v) (N := 2) (by intro e he; revert e; decide)

/-- a reachable state of the composed system in which the command of `x` (node 0, selected only as a
    dependency behind the alias) runs -/
example : ∃ st, Sys.Reach (walkerCfg Ex.g [0, 1, 2] false) st ∧ st.task 0 = .busy true := by
  have h0 : Sys.Reach (walkerCfg Ex.g [0, 1, 2] false) (Sys.init _) := Sys.Reach.init
  have h1 := Sys.Reach.step h0 (e := .walker (.wake 0)) (s' := _) rfl
  have h2 := Sys.Reach.step h1 (e := .submit 0) (s' := _) rfl
  have h3 := Sys.Reach.step h2 (e := .take 0) (s' := _) rfl
  have h4 := Sys.Reach.step h3 (e := .cmdStart 0) (s' := _) rfl
  exact ⟨_, h4, by decide⟩

end Grog.C12
