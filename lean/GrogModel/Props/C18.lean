/-
  C18 — interrupts stop the build promptly and leave a recoverable state (cancellation logic).
  Property theorems only. Models: the cancellation slice of GrogModel/Walker.lean (ctxCancel at any
  point, Walk returning through ctx.Done, cancelAll), GrogModel/Pool.lean (commands guarded by the
  task context; `execTail`). Signal delivery, process trees and latency are runtime behaviour and are
  only sampled by the correspondence run (real CLI, SIGINT/SIGTERM at varied times).
-/
import GrogModel.Lemmas.WalkerLive
import GrogModel.Lemmas.WalkerMeasure
import GrogModel.Lemmas.WalkerExamples
import GrogModel.Lemmas.Pool
import GrogModel.Props.C05
namespace Grog.C18
open Grog.Walker

/-- An interrupt can arrive in every state in which the context is not yet cancelled, and it cancels
    the context. -/
theorem interrupt_any_time {c : Cfg} {s : State} (h : s.ctx = false) :
    ∃ s', step c s .ctxCancel = some s' ∧ s'.ctx = true :=
  ⟨{ s with ctx := true }, step_ctxCancel.mpr ⟨h, rfl⟩, rfl⟩

/-- After the interrupt no target command starts: the task context is cancelled (and stays so), and
    under a cancelled task context `cmdStart` is not enabled for any worker. -/
theorem no_start_after_cancel {p p' : Pool.State} (h : Pool.step p .poolCancel = some p') (w : Nat) :
    p'.taskCtx = true ∧ Pool.step p' (.cmdStart w) = none := by
  simp only [Pool.step] at h
  split at h
  · simp at h
  · simp at h; subst h
    refine ⟨rfl, ?_⟩
    simp only [Pool.step]
    split <;> simp_all

example : (Pool.step (Pool.init 2) .poolCancel).isSome = true := by decide

/-- the cancellation is permanent in the pool model -/
theorem pool_ctx_stays_cancelled {p p' : Pool.State} {e : Pool.Ev} (h : Pool.step p e = some p')
    (hc : p.taskCtx = true) : p'.taskCtx = true := by
  cases e <;> simp only [Pool.step] at h <;> (repeat' split at h) <;> simp at h <;>
    (try subst h) <;> (first | exact hc | rfl)

/-- A target interrupted at ANY stage of its task — the command, the re-run of the output checks, the write of the outputs, the
    write of the result record; each returns an error wrapping `context.Canceled` — reports `cancelled` (not a failure) and
    writes no target result: nothing is cached for an interrupted target. (Case analysis of the table `Pool.execTail`; the build
    model's statement is `C05.failed_step_stores_nothing`. With a remote cache tier the record may already be in the local tier
    when the interrupt hits the remote write: design_notes/C05.md.) -/
theorem interrupted_not_cached (i : Pool.TailIn) :
    (i.cmd = .cancelled → (Pool.execTail i).res = .cancelled) ∧
    ((Pool.execTail i).res = .cancelled → (Pool.execTail i).resultWritten = false ∧
      (i.cmd = .cancelled ∨ i.recheck = .cancelled ∨ i.writeOutputs = .cancelled ∨ i.resultWrite = .cancelled)) := by
  obtain ⟨cmd, a, b, d, e⟩ := i
  cases cmd <;> cases a <;> cases b <;> cases d <;> cases e <;> decide

example : (Pool.execTail ⟨.cancelled, .ok, true, .ok, .ok⟩) = ⟨.cancelled, false⟩ := by decide
example : (Pool.execTail ⟨.ok, .ok, true, .ok, .cancelled⟩) = ⟨.cancelled, false⟩ := by decide

/-- in the walker such a node gets no completion: `aborted` is absorbing, so the node never appears
    as `ok` or `failed` in the completion map -/
theorem aborted_stays_aborted {c : Cfg} {s s' : State} {e : Ev} (hs : step c s e = some s')
    {n : Node} (h : s.phase n = .aborted) : s'.phase n = .aborted := by
  have := step_phase_cases hs n
  grind

/-- `Walk` returns promptly: as soon as the context is cancelled the return of `Walk` is enabled —
    it does not wait for running callbacks or parked routines. -/
theorem walk_returns {c : Cfg} {s : State} (hc : s.ctx = true) (hr : s.retErr = none) :
    ∃ s', step c s (.walkReturn true) = some s' ∧ s'.retErr.isSome = true :=
  ⟨_, step_walkReturn.mpr ⟨hr, Or.inl ⟨rfl, hc, rfl⟩⟩, rfl⟩

example : (Ex.after (Ex.chain2 false) [.wake 0, .ctxCancel]).ctx = true ∧
    (Ex.after (Ex.chain2 false) [.wake 0, .ctxCancel]).retErr = none := by decide

/-- and what remains to happen afterwards is bounded: any continuation of a state has at most
    `measure` events (3 per unfinished routine + pending cancel deliveries + constants) -/
theorem events_after_cancel_bounded {c : Cfg} {s s' : State} (tr : List Ev)
    (h : run c s tr = some s') : tr.length ≤ measure c s := by
  have := run_length_le tr h
  omega

/-- `retErr` is written by the return of `Walk` only -/
theorem retErr_only_by_return {c : Cfg} {s s' : State} {e : Ev} (hs : step c s e = some s') (hne : ∀ b, e ≠ .walkReturn b) :
    s'.retErr = s.retErr := by
  cases e with
  | wake n => obtain ⟨_, _, _, rfl⟩ := step_wake.mp hs; rfl
  | cbReturn n r =>
    obtain ⟨_, _, hh⟩ := step_cbReturn.mp hs
    rcases hh with ⟨_, rfl⟩ | ⟨_, rfl⟩ | ⟨_, _, rfl⟩ | ⟨_, _, rfl⟩ <;> rfl
  | complete n =>
    obtain ⟨_, hh⟩ := step_complete.mp hs
    rcases hh with ⟨_, rfl⟩ | ⟨_, rfl⟩
    · unfold completeOk; split <;> rfl
    · unfold completeFail; split
      · rfl
      · split <;> rfl
  | exit n => obtain ⟨_, _, _, rfl⟩ := step_exit.mp hs; rfl
  | deliverCancel n => obtain ⟨_, _, rfl⟩ := step_deliverCancel.mp hs; rfl
  | ctxCancel => obtain ⟨_, rfl⟩ := step_ctxCancel.mp hs; rfl
  | walkReturn b => exact absurd rfl (hne b)

/-- **Stability**: the return stays enabled until it is taken. Under a cancelled context, as long as `Walk` has not returned, no
    other event — a callback returning, a completion, a routine exiting, a cancel delivery — disables it: the context stays
    cancelled and `retErr` stays empty, so `walk_returns` applies again in the next state. -/
theorem return_stays_enabled {c : Cfg} {s s' : State} {e : Ev} (hc : s.ctx = true) (hr : s.retErr = none)
    (hs : step c s e = some s') (hne : ∀ b, e ≠ .walkReturn b) :
    s'.ctx = true ∧ s'.retErr = none ∧ (step c s' (.walkReturn true)).isSome = true := by
  have h1 : s'.ctx = true := C05.ctx_stays_cancelled hs hc
  have h2 : s'.retErr = none := by rw [retErr_only_by_return hs hne]; exact hr
  obtain ⟨s'', h3, _⟩ := walk_returns (c := c) h1 h2
  exact ⟨h1, h2, by rw [h3]; rfl⟩

/-- **Inevitability** (no fairness assumption): from a reachable state with a cancelled context and `Walk` not yet returned, EVERY
    run that goes on until nothing is enabled contains the return of `Walk`, and it has at most `measure c s` events — because every
    event decreases the measure (`C04.terminates`) and a state without enabled events has `Walk` returned (`C04.stuck_all_terminal`).
    The only progress assumed is the one C04 names: entered callbacks return (a run cannot stop while a `cbReturn` is enabled).
    Events, not seconds: the latency bound is measured on the CLI. -/
theorem return_inevitable {c : Cfg} {s s' : State} (ok : CfgOK c) (h : Reach c s) (hr : s.retErr = none)
    (tr : List Ev) (hrun : run c s tr = some s') (q : Quiescent c s') :
    (∃ b, Ev.walkReturn b ∈ tr) ∧ tr.length ≤ measure c s := by
  refine ⟨?_, by have := run_length_le tr hrun; omega⟩
  have hreach : Reach c s' := Ex.reach_of_run tr h hrun
  have hfin := (quiescent_final ok (reach_inv ok hreach) q).1
  refine Classical.byContradiction fun hno => ?_
  have hkeep : ∀ (tr : List Ev) (s s' : State), run c s tr = some s' → (∀ b, Ev.walkReturn b ∉ tr) → s'.retErr = s.retErr := by
    intro tr
    induction tr with
    | nil => intro s s' h _; simp [run] at h; rw [h]
    | cons e es ih =>
      intro s s' h hn
      simp only [run] at h
      cases hst : step c s e with
      | none => simp [hst] at h
      | some s1 =>
        simp only [hst] at h
        rw [ih s1 s' h (fun b hb => hn b (by simp [hb]))]
        exact retErr_only_by_return hst (fun b hb => hn b (by simp [hb]))
  have := hkeep tr s s' hrun (fun b hb => hno ⟨b, hb⟩)
  rw [this, hr] at hfin
  simp at hfin

/-- the interrupt run on the diamond: cancelled while 1 and 2 run, continued until nothing is enabled — it contains the return -/
example : (run (Ex.diamond false) (Ex.after (Ex.diamond false) [.wake 0, .cbReturn 0 .ok, .complete 0, .wake 1, .wake 2, .ctxCancel])
      [.walkReturn true, .cbReturn 1 .cancelled, .cbReturn 2 .ok, .complete 2, .deliverCancel 0, .deliverCancel 3, .exit 3]).isSome = true ∧
    (Ex.after (Ex.diamond false) [.wake 0, .cbReturn 0 .ok, .complete 0, .wake 1, .wake 2, .ctxCancel]).retErr = none := by decide

/-- returning through the cancellation schedules the cancellation of every routine, so every parked
    routine can exit (none is left waiting for a dependency) -/
theorem return_cancels_all {c : Cfg} {s s' : State} (hs : step c s (.walkReturn true) = some s') :
    ∀ n, s'.cancel n = true ∨ s'.pend n = true := by
  obtain ⟨_, hh⟩ := step_walkReturn.mp hs
  rcases hh with ⟨_, _, rfl⟩ | ⟨hb, _⟩
  · intro n
    cases hcn : s.cancel n <;> simp [hcn]
  · simp at hb

/-- Exit status after an interrupt: in every reachable state with a cancelled context, **however** `Walk` returns — through
    `ctx.Done()` or through the wait group (all routines finished, some of them possibly `aborted` without a completion) —
    grog exits non-zero: `Walk` returns the context error, or fail-fast had been triggered and the returned completions
    contain the failure. -/
theorem exit_nonzero {c : Cfg} {s s' : State} {b : Bool} (ok : CfgOK c) (h : Reach c s) (hc : s.ctx = true)
    (hs : step c s (.walkReturn b) = some s') : exitNonZero c s' = true := by
  obtain ⟨_, hh⟩ := step_walkReturn.mp hs
  have key : ∀ sn : Node → Phase, sn = s.phase →
      (some (!s.ff) == some true || c.sel.any fun n => sn n == Phase.failed) = true := by
    intro sn hsn
    cases hff : s.ff with
    | false => simp
    | true =>
      obtain ⟨a, ha, hf⟩ := (reach_inv ok h).ffWhy hff
      simp only [Bool.or_eq_true, List.any_eq_true]
      exact Or.inr ⟨a, ha, by simp [hsn, hf]⟩
  rcases hh with ⟨_, _, rfl⟩ | ⟨_, _, rfl⟩
  · exact key _ rfl
  · have := key s.phase rfl
    simpa [exitNonZero, hc] using this

/-- in particular after an interrupt that left a node `aborted` and all routines finished (the case in which both branches
    of `Walk`'s select are ready) -/
example : exitNonZero (Ex.chain2 false)
    (Ex.after (Ex.chain2 false) [.wake 0, .ctxCancel, .cbReturn 0 .cancelled, .walkReturn true, .deliverCancel 1, .exit 1]) = true ∧
    (step (Ex.chain2 false) (Ex.after (Ex.chain2 false) [.wake 0, .ctxCancel, .cbReturn 0 .cancelled, .deliverCancel 1]) (.walkReturn false)) = none := by
  decide

/-- the diamond, interrupted while 1 and 2 run; 1 aborts, 2 ignores the cancellation and finishes ok after `Walk` has returned:
    `Walk` returned the context error, the status is non-zero, node 3 never starts -/
example : Reach (Ex.diamond false) (Ex.after (Ex.diamond false) Ex.diamondIntRun) ∧
    exitNonZero (Ex.diamond false) (Ex.after (Ex.diamond false) Ex.diamondIntRun) = true ∧
    ((Ex.after (Ex.diamond false) Ex.diamondIntRun).phase 1, (Ex.after (Ex.diamond false) Ex.diamondIntRun).phase 2,
     (Ex.after (Ex.diamond false) Ex.diamondIntRun).phase 3) = (.aborted, .ok, .parked) ∧
    step (Ex.diamond false) (Ex.after (Ex.diamond false) Ex.diamondIntRun) (.wake 3) = none :=
  ⟨Ex.reach_after (by decide), by decide, by decide, by decide⟩

/-- Regression witness (code before 1e66bd4, found by the statement review and reproduced by the check on the real
    `Walk`: 8 of 120000 walks under a pre-cancelled context): one selected node, the context is cancelled, the callback
    reports the cancellation, all routines are done — the old `done` branch returned without an error and without a failed
    completion, i.e. exit status 0 after an interrupt; the repaired branch returns the context error. -/
theorem silent_success_witness_old :
    let c : Cfg := { sel := [0], deps := fun _ => [], desc := fun _ => [], failFast := false }
    let s := Ex.after c [.wake 0, .ctxCancel, .cbReturn 0 .cancelled]
    (walkReturnDoneOld c s).map (exitNonZero c) = some false ∧ (step c s (.walkReturn false)).map (exitNonZero c) = some true := by
  decide

/-- an interrupted walk still reaches a final state: deadlock freedom holds with cancellation (the
    statement of C04 instantiated): quiescent ⇒ returned ∧ all routines finished -/
theorem interrupted_walk_finishes {c : Cfg} {s : State} (ok : CfgOK c) (h : Reach c s)
    (q : Quiescent c s) : s.retErr.isSome = true ∧ ∀ n, n ∈ c.sel → (s.phase n).terminal = true :=
  quiescent_final ok (reach_inv ok h) q

example : (run (Ex.chain2 false) (init (Ex.chain2 false)) Ex.intRun).isSome = true := by decide

/-- Exit status over the whole life cycle of `grog build` / `grog test` / `grog run` (loading, selection, waiting for the
    workspace lock, execution, the second lock wait of `grog run` in minimal mode, and the run phase of `grog run`): once the
    context is cancelled the only step that ends the process with status 0 is the exit of a `grog run` binary that was NOT killed
    and ended with status 0 by itself — the signal arrived after the work was complete. Everything else: a cancelled load fails, a
    lock wait gives up with an error, `Walk` returns the context error whichever branch it takes, the binary of `grog run` is
    refused or killed. -/
theorem exit_nonzero_all_phases (cmd : Life.Cmd) {s s' : Life.State} {e : Life.Ev}
    (hc : s.ctx = true) (hs : Life.step cmd s e = some s') (h0 : s'.phase = .exited 0) :
    s.phase = .running ∧ e = .binExit 0 false := by
  obtain ⟨ph, cx⟩ := s
  simp only at hc; subst hc
  cases e <;> simp only [Life.step] at hs
  case cancel => cases ph <;> simp at hs
  case loadDone err =>
    split at hs
    · cases err <;> simp at hs <;> (subst hs; simp at h0)
    · simp at hs
  case selected => split at hs <;> simp at hs; subst hs; simp at h0
  case lockAcquired => split at hs <;> simp at hs; subst hs; simp at h0
  case lockGaveUp => split at hs <;> simp at hs; subst hs; simp at h0
  case executed r =>
    split at hs
    · cases r with
      | viaCtx => simp at hs; subst hs; simp at h0
      | finished f => cases f <;> simp at hs <;> (subst hs; simp at h0)
    · simp at hs
  case relockDone => split at hs <;> simp at hs; subst hs; simp at h0
  case relockGaveUp => split at hs <;> simp at hs; subst hs; simp at h0
  case binStarted =>
    split at hs
    · rename_i g; simp at g
    · simp at hs
  case binRefused => split at hs <;> simp at hs; subst hs; simp at h0
  case binExit code killed =>
    split at hs
    · rename_i g
      simp at hs; subst hs
      cases killed
      · simp at h0
        by_cases hcode : code = 0
        · subst hcode; exact ⟨g.1, rfl⟩
        · simp [hcode] at h0
      · simp at h0
    · simp at hs

/-- the interrupted phases named by the property text, one by one -/
example : Life.step .build ⟨.lockWait, true⟩ .lockGaveUp = some ⟨.exited 1, true⟩ := by decide
example : Life.step .run ⟨.running, true⟩ (.binExit 0 true) = some ⟨.exited 1, true⟩ := by decide
example : Life.step .run ⟨.running, true⟩ (.binExit 0 false) = some ⟨.exited 0, true⟩ := by decide   -- the one exception
example : Life.step .run ⟨.running, false⟩ (.binExit 0 true) = none := by decide                     -- nothing is killed without a cancel
example : Life.step .run ⟨.relock, true⟩ .relockGaveUp = some ⟨.exited 1, true⟩ := by decide
example : Life.step .run ⟨.starting, true⟩ .binRefused = some ⟨.exited 1, true⟩ := by decide
example : Life.step .test ⟨.executing, true⟩ (.executed .viaCtx) = some ⟨.exited 1, true⟩ := by decide
example : Life.step .build ⟨.executing, true⟩ (.executed (.finished false)) = some ⟨.exited 1, true⟩ := by decide

/-- and under a cancelled context the binary of `grog run` is never started -/
theorem run_binary_not_started_after_cancel (cmd : Life.Cmd) (s : Life.State) (hc : s.ctx = true) :
    Life.step cmd s .binStarted = none := by
  simp [Life.step, hc]

end Grog.C18
