/-
  C18 — interrupts stop the build promptly and leave a recoverable state (cancellation logic).
  Property theorems only. Models: the cancellation slice of GrogModel/Walker.lean (ctxCancel at any
  point, Walk returning through ctx.Done, cancelAll), GrogModel/Pool.lean (commands guarded by the
  task context; `execTail`). Signal delivery, process trees and latency are runtime behaviour and are
  only sampled by the correspondence run (real CLI, SIGINT/SIGTERM at varied times).
-/
import GrogModel.Lemmas.WalkerLive
import GrogModel.Lemmas.WalkerMeasure
import GrogModel.Lemmas.WalkerExamples
import GrogModel.Lemmas.Pool
namespace Grog.C18
open Grog.Walker

/-- An interrupt can arrive in every state in which the context is not yet cancelled, and it cancels
    the context. -/
theorem interrupt_any_time {c : Cfg} {s : State} (h : s.ctx = false) :
    ∃ s', step c s .ctxCancel = some s' ∧ s'.ctx = true :=
  ⟨{ s with ctx := true }, step_ctxCancel.mpr ⟨h, rfl⟩, rfl⟩

/-- After the interrupt no target command starts: the task context is cancelled (and stays so), and
    under a cancelled task context `cmdStart` is not enabled for any worker. -/
theorem no_start_after_cancel {p p' : Pool.State} (h : Pool.step p .poolCancel = some p') (w : Nat) :
    p'.taskCtx = true ∧ Pool.step p' (.cmdStart w) = none := by
  simp only [Pool.step] at h
  split at h
  · simp at h
  · simp at h; subst h
    refine ⟨rfl, ?_⟩
    simp only [Pool.step]
    split <;> simp_all

example : (Pool.step (Pool.init 2) .poolCancel).isSome = true := by decide

/-- the cancellation is permanent in the pool model -/
theorem pool_ctx_stays_cancelled {p p' : Pool.State} {e : Pool.Ev} (h : Pool.step p e = some p')
    (hc : p.taskCtx = true) : p'.taskCtx = true := by
  cases e <;> simp only [Pool.step] at h <;> (repeat' split at h) <;> simp at h <;>
    (try subst h) <;> (first | exact hc | rfl)

/-- A target whose command was ended by the cancellation reports `cancelled` (not a failure) and
    writes no target result: nothing is cached for an interrupted target. -/
theorem interrupted_not_cached (i : Pool.TailIn) (h : i.cmd = .cancelled) :
    (Pool.execTail i).res = .cancelled ∧ (Pool.execTail i).resultWritten = false := by
  simp [Pool.execTail, h]

example : (Pool.execTail ⟨.cancelled, true, true, true, true⟩) = ⟨.cancelled, false⟩ := by decide

/-- in the walker such a node gets no completion: `aborted` is absorbing, so the node never appears
    as `ok` or `failed` in the completion map -/
theorem aborted_stays_aborted {c : Cfg} {s s' : State} {e : Ev} (hs : step c s e = some s')
    {n : Node} (h : s.phase n = .aborted) : s'.phase n = .aborted := by
  have := step_phase_cases hs n
  grind

/-- `Walk` returns promptly: as soon as the context is cancelled the return of `Walk` is enabled —
    it does not wait for running callbacks or parked routines. -/
theorem walk_returns {c : Cfg} {s : State} (hc : s.ctx = true) (hr : s.retErr = none) :
    ∃ s', step c s (.walkReturn true) = some s' ∧ s'.retErr.isSome = true :=
  ⟨_, step_walkReturn.mpr ⟨hr, Or.inl ⟨rfl, hc, rfl⟩⟩, rfl⟩

example : (Ex.after (Ex.chain2 false) [.wake 0, .ctxCancel]).ctx = true ∧
    (Ex.after (Ex.chain2 false) [.wake 0, .ctxCancel]).retErr = none := by decide

/-- and what remains to happen afterwards is bounded: any continuation of a state has at most
    `measure` events (3 per unfinished routine + pending cancel deliveries + constants) -/
theorem events_after_cancel_bounded {c : Cfg} {s s' : State} (tr : List Ev)
    (h : run c s tr = some s') : tr.length ≤ measure c s := by
  have := run_length_le tr h
  omega

/-- returning through the cancellation schedules the cancellation of every routine, so every parked
    routine can exit (none is left waiting for a dependency) -/
theorem return_cancels_all {c : Cfg} {s s' : State} (hs : step c s (.walkReturn true) = some s') :
    ∀ n, s'.cancel n = true ∨ s'.pend n = true := by
  obtain ⟨_, hh⟩ := step_walkReturn.mp hs
  rcases hh with ⟨_, _, rfl⟩ | ⟨hb, _⟩
  · intro n
    cases hcn : s.cancel n <;> simp [hcn]
  · simp at hb

/-- Exit status after an interrupt: whenever `Walk` returns through the cancelled context, grog exits
    non-zero — either `Walk` returns the context error, or fail-fast had been triggered and the
    returned completions contain the failure. -/
theorem exit_nonzero {c : Cfg} {s s' : State} (ok : CfgOK c) (h : Reach c s)
    (hs : step c s (.walkReturn true) = some s') : exitNonZero c s' = true := by
  obtain ⟨_, hh⟩ := step_walkReturn.mp hs
  rcases hh with ⟨_, _, rfl⟩ | ⟨hb, _⟩
  · cases hff : s.ff with
    | false => simp [exitNonZero]
    | true =>
      obtain ⟨a, ha, hf⟩ := (reach_inv ok h).ffWhy hff
      simp only [exitNonZero, Bool.or_eq_true, List.any_eq_true]
      exact Or.inr ⟨a, ha, by simp [hf]⟩
  · simp at hb

example : (step (Ex.chain2 false) (Ex.after (Ex.chain2 false) [.wake 0, .ctxCancel]) (.walkReturn true)).isSome = true := by decide

/-- an interrupted walk still reaches a final state: deadlock freedom holds with cancellation (the
    statement of C04 instantiated): quiescent ⇒ returned ∧ all routines finished -/
theorem interrupted_walk_finishes {c : Cfg} {s : State} (ok : CfgOK c) (h : Reach c s)
    (q : Quiescent c s) : s.retErr.isSome = true ∧ ∀ n, n ∈ c.sel → (s.phase n).terminal = true :=
  quiescent_final ok (reach_inv ok h) q

example : (run (Ex.chain2 false) (init (Ex.chain2 false)) Ex.intRun).isSome = true := by decide

/-- Exit status over the whole life cycle of `grog build` / `grog test` / `grog run` (loading, selection,
    waiting for the workspace lock, execution, and the run phase of `grog run`): once the context is
    cancelled, the only step that ends the process with status 0 is the end of an execution phase in which
    the walk had already finished through the wait group without a failure — and never for `grog run`,
    whose binary is refused or killed. In particular an interrupt while waiting for the lock or while the
    binary of `grog run` runs always gives a non-zero exit status. -/
theorem exit_nonzero_all_phases (cmd : Life.Cmd) {s s' : Life.State} {e : Life.Ev}
    (hc : s.ctx = true) (hs : Life.step cmd s e = some s') (h0 : s'.phase = .exited 0) :
    s.phase = .executing ∧ e = .executed (.finished false) ∧ cmd ≠ .run := by
  obtain ⟨ph, cx⟩ := s
  simp only at hc; subst hc
  cases e <;> simp only [Life.step] at hs
  case cancel => cases ph <;> simp at hs
  case loadDone err =>
    split at hs
    · cases err <;> simp at hs <;> (subst hs; simp at h0)
    · simp at hs
  case selected => split at hs <;> simp at hs; subst hs; simp at h0
  case lockAcquired => split at hs <;> simp at hs; subst hs; simp at h0
  case lockGaveUp => split at hs <;> simp at hs; subst hs; simp at h0
  case executed r =>
    split at hs
    · rename_i hp
      cases r with
      | viaCtx => simp at hs; subst hs; simp at h0
      | finished f =>
        cases f
        · simp at hs; subst hs
          by_cases hr : cmd = .run
          · simp [hr] at h0
          · exact ⟨hp, rfl, hr⟩
        · simp at hs; subst hs; simp at h0
    · simp at hs
  case binStarted =>
    split at hs
    · rename_i g; simp at g
    · simp at hs
  case binRefused => split at hs <;> simp at hs; subst hs; simp at h0
  case binExit code => split at hs <;> simp at hs; subst hs; simp at h0

/-- the interrupted phases named by the property text, one by one -/
example : Life.step .build ⟨.lockWait, true⟩ .lockGaveUp = some ⟨.exited 1, true⟩ := by decide
example : Life.step .run ⟨.running, true⟩ (.binExit 0) = some ⟨.exited 1, true⟩ := by decide
example : Life.step .run ⟨.starting, true⟩ .binRefused = some ⟨.exited 1, true⟩ := by decide
example : Life.step .test ⟨.executing, true⟩ (.executed .viaCtx) = some ⟨.exited 1, true⟩ := by decide

/-- and under a cancelled context the binary of `grog run` is never started -/
theorem run_binary_not_started_after_cancel (cmd : Life.Cmd) (s : Life.State) (hc : s.ctx = true) :
    Life.step cmd s .binStarted = none := by
  simp [Life.step, hc]

end Grog.C18
